"""
C05 — equal numbers are indistinguishable however computed; conversions follow spec.

Order (BUILDERS.md): regen facts -> lake build (Props, Tie, model_c05) -> audit -> go build harness ->
corpus + generated cases through harness and model -> diff (correspondence) -> judge against the spec (property).

Three parties per case:  IMPL (goja via harness)  /  MECH (Lean transcription of the Go code, `Driver`)  /
SPEC (Lean `spec…` definitions; plus an independent python oracle used when the Lean build is broken and as a
cross-check).  corr = IMPL vs MECH;  property = IMPL vs SPEC.
"""
import json, math, os, re, struct, sys, time
from vlib import *

P53 = 1 << 53
MASK64 = (1 << 64) - 1

# ----------------------------------------------------------------------------------------- doubles / tokens
def f2b(x):
    return struct.unpack("<Q", struct.pack("<d", x))[0]

def b2f(b):
    return struct.unpack("<d", struct.pack("<Q", b & MASK64))[0]

def ftok(b):
    return "f%016x" % (b & MASK64)

def tok_to_float(t):
    return float(int(t[1:])) if t[0] == "i" else b2f(int(t[1:], 16))

def is_num_tok(t):
    return bool(re.fullmatch(r"i-?\d+|f[0-9a-f]{16}", t))

def py_canon_of_bits(b):
    """python oracle: the canonical token denoting the double with bit pattern b"""
    x = b2f(b)
    if x != x:
        return "f7ff8000000000001"
    if math.isinf(x):
        return ftok(b)
    if x == 0:
        return "f8000000000000000" if (b >> 63) else "i0"
    if x == math.floor(x) and abs(x) <= P53:
        return "i%d" % int(x)
    return ftok(b)

def py_is_canon(t):
    if t[0] == "i":
        return abs(int(t[1:])) <= P53
    return py_canon_of_bits(int(t[1:], 16)) == t

def py_trunc(x):
    return int(x) if math.isfinite(x) else 0

def py_spec_conv(name, x):
    t = py_trunc(x)
    def s(n):
        m = t % (1 << n)
        return m - (1 << n) if m >= (1 << (n - 1)) else m
    if name == "int8": return str(s(8))
    if name == "int16": return str(s(16))
    if name == "int32": return str(s(32))
    if name == "uint8": return str(t % 256)
    if name == "uint16": return str(t % 65536)
    if name == "uint32": return str(t % (1 << 32))
    if name == "clamp8":
        if x != x or x <= 0: return "0"
        if x >= 255: return "255"
        f = math.floor(x); d = x - f
        if d > 0.5: return str(f + 1)
        if d < 0.5: return str(f)
        return str(f if f % 2 == 0 else f + 1)
    if name == "length":
        if x != x: return "0"
        if math.isinf(x): return "0" if x < 0 else str(P53 - 1)
        return str(min(max(t, 0), P53 - 1))
    if name == "index":
        if x != x: return "0"
        if math.isinf(x): return "err"
        return str(t) if 0 <= t <= P53 - 1 else "err"
    if name == "integer":
        if x != x: return "0"
        if math.isinf(x): return str(-(1 << 63)) if x < 0 else str((1 << 63) - 1)
        return str(max(-(1 << 63), min((1 << 63) - 1, t)))
    if name == "lenu32":
        if math.isfinite(x) and x == math.floor(x) and 0 <= x <= 4294967295: return str(int(x))
        return "err"
    raise KeyError(name)

def ieee(op, x, y=None):
    """the IEEE result of the float path, computed natively (python floats are binary64)"""
    try:
        if op == "add": return x + y
        if op == "sub": return x - y
        if op == "mul": return x * y
        if op == "div":
            if y == 0:
                if x != x or x == 0: return math.nan
                return math.copysign(math.inf, x) * math.copysign(1.0, y)
            return x / y
        if op == "mod":
            if x != x or y != y or math.isinf(x) or y == 0: return math.nan
            return math.fmod(x, y)
        if op == "neg": return -x
        if op == "inc": return x + 1.0
        if op == "dec": return x - 1.0
    except OverflowError:
        return math.nan
    return 0.0

def py_spec_op(op, x, y):
    """python oracle for the canonical spec result token of an operator on doubles"""
    if op in ("add", "sub", "mul", "div", "mod", "neg", "inc", "dec"):
        return py_canon_of_bits(f2b(ieee(op, x, y)))
    a = int(py_spec_conv("int32", x)); ua = a % (1 << 32)
    if op == "bnot":
        return "i%d" % (~a)
    b = int(py_spec_conv("int32", y)); ub = b % (1 << 32); sh = ub & 31
    def s32(v):
        v &= 0xFFFFFFFF
        return v - (1 << 32) if v >= (1 << 31) else v
    if op == "and": return "i%d" % s32(ua & ub)
    if op == "or": return "i%d" % s32(ua | ub)
    if op == "xor": return "i%d" % s32(ua ^ ub)
    if op == "shl": return "i%d" % s32(ua << sh)
    if op == "sar": return "i%d" % (a >> sh)
    if op == "shr": return "i%d" % (ua >> sh)
    raise KeyError(op)

JS_WS = " \t\n\v\f\r                 　﻿"
DEC_RE = re.compile(r"[+-]?(?:\d+\.?\d*(?:[eE][+-]?\d+)?|\.\d+(?:[eE][+-]?\d+)?)")

def py_string_to_number_bits(s):
    """ECMA-262 7.1.4.1.1 StringToNumber, as a bit pattern (python's float() and int->float are correctly rounded)"""
    t = s.strip(JS_WS)
    if t == "": return f2b(0.0)
    if t in ("Infinity", "+Infinity"): return f2b(math.inf)
    if t == "-Infinity": return f2b(-math.inf)
    m = re.fullmatch(r"0([xXoObB])([0-9a-zA-Z]+)", t)
    if m:
        base = {"x": 16, "o": 8, "b": 2}[m.group(1).lower()]
        try:
            n = int(m.group(2), base)
        except ValueError:
            return f2b(math.nan)
        try:
            return f2b(float(n))
        except OverflowError:
            return f2b(math.inf)
    if DEC_RE.fullmatch(t) and t.isascii():
        return f2b(float(t))
    return f2b(math.nan)

# ----------------------------------------------------------------------------------------- generators
def boundary_bits():
    out = set()
    specials = [0.0, -0.0, 1.0, -1.0, 0.5, -0.5, 1.5, 2.5, -1.5, 0.49999999999999994, 254.5, 255.0, 255.5, 256.0, 127.5,
                -128.5, 32767.5, 65535.0, 65536.0, 2147483647.0, 2147483648.0, -2147483648.0, -2147483649.0,
                4294967295.0, 4294967296.0, 4294967297.0, 2147483647.5, 4294967295.5, 1e21, 1e300, -1e300, 5e-324,
                2.2250738585072014e-308, 1.7976931348623157e308, math.inf, -math.inf, 3.0, 6.0, 1e15, 123456789.25,
                4503599627370495.5, 4503599627370496.5, 0.1, 1 / 3.0]
    for x in specials:
        out.add(f2b(x))
    for k in (7, 8, 15, 16, 31, 32, 52, 53, 54, 62, 63, 64, 65, 83, 84, 85, 100, 1023):
        for d in (-2, -1, 0, 1, 2):
            for sgn in (0, 1 << 63):
                base = f2b(float(2 ** k)) if k < 1024 else 0
                out.add(((base + d) & MASK64) | sgn)          # neighbours in bit space (ulps)
                if k <= 62:
                    out.add(f2b(float(2 ** k + d)) | sgn)      # neighbours in value space
    # NaN payloads, subnormals
    for m in (1, 2, 1 << 51, (1 << 51) + 1, (1 << 52) - 1, 0x0007ffffffffffff, 5):
        out.add(0x7ff0000000000000 | m); out.add(0xfff0000000000000 | m)
        out.add(m); out.add((1 << 63) | m)
    # doubles ≥ 2^63 with non-zero low 32 bits of their integer value (ulp 2^11 … 2^31)
    for e in range(1086, 1108):
        for m in (1, 3, 0x1234567, (1 << 20) + 1, (1 << 52) - 1):
            out.add((e << 52) | m); out.add((1 << 63) | (e << 52) | m)
    return out

def random_bits(rng, n):
    out = []
    for _ in range(n):
        c = rng.randrange(10)
        if c == 0:
            b = rng.getrandbits(64)
        elif c == 1:   # small integers and halves
            b = f2b(rng.randrange(-70000, 70000) / rng.choice((1, 2, 4)))
        elif c == 2:   # int32/uint32 neighbourhood
            b = f2b(float(rng.choice((1 << 31, 1 << 32, -(1 << 31), 0)) + rng.randrange(-3, 4)) + rng.choice((0, 0.5, -0.5)))
        elif c == 3:   # 2^53 neighbourhood
            b = f2b(float(rng.choice((P53, -P53)) + rng.randrange(-8, 9)))
        elif c == 4:   # integral, any exponent 0..110
            e = rng.randrange(0, 110)
            b = ((1023 + e) << 52) | (rng.getrandbits(52) >> rng.choice((0, 0, 20, 40)) << rng.choice((0, 0, 20, 40)) & ((1 << 52) - 1))
            b |= rng.getrandbits(1) << 63
        elif c == 5:   # fraction with few bits
            e = rng.randrange(-8, 60)
            b = ((1023 + e) << 52) | (rng.getrandbits(8) << 44) | (rng.getrandbits(1) << 63)
        elif c == 6:   # subnormal / tiny
            b = rng.getrandbits(53) | (rng.getrandbits(1) << 63)
        elif c == 7:   # NaN / Inf region
            b = 0x7ff0000000000000 | (rng.getrandbits(52) if rng.randrange(3) else 0) | (rng.getrandbits(1) << 63)
        elif c == 8:   # huge
            b = (rng.randrange(1086, 2047) << 52) | rng.getrandbits(52) | (rng.getrandbits(1) << 63)
        else:          # uniform exponent
            b = (rng.randrange(0, 2047) << 52) | rng.getrandbits(52) | (rng.getrandbits(1) << 63)
        out.append(b & MASK64)
    return out

def boundary_ints():
    out = set(range(-260, 260))
    for k in (7, 8, 15, 16, 31, 32, 52, 53, 54, 62, 63):
        for d in range(-3, 4):
            for s in (1, -1):
                v = s * (2 ** k) + d
                if -(1 << 63) <= v < (1 << 63):
                    out.add(v)
    out |= {3002399751580331, -3002399751580331, 94906265, 94906266, 94906267, 3037000499, 3037000500}
    return out

BINOPS = ["add", "sub", "mul", "div", "mod", "and", "or", "xor", "shl", "sar", "shr"]
UNOPS = ["neg", "inc", "dec", "bnot"]
VARIANTS = {"inc": ["", "@p", "@o", "@a"], "dec": ["", "@p", "@o", "@a"], "neg": [""], "bnot": [""]}
CONVS = ["int8", "uint8", "int16", "uint16", "int32", "uint32", "clamp8", "length", "index", "integer", "lenu32"]

OBS_NAMES = ["Object.is(a,b)", "Object.is(b,a)", "a===b", "b===a", "switch(a){case b}", "Map([[a]]).get(b)",
             "Map([[b]]).get(a)", "Set([a]).has(b)", "Set([b]).has(a)", "[a].includes(b)", "[b].includes(a)",
             "[a].indexOf(b)", "[b].lastIndexOf(a)", "({[a]:1})[b]", "String(a)===String(b)", "a==b"]

def obs_expected(sv, svz, seq):
    return "".join("1" if x else "0" for x in
                   [sv, sv, seq, seq, seq, svz, svz, svz, svz, svz, svz, seq, seq, svz, svz, seq])

def spec_identity(x, y):
    nan = (x != x) and (y != y)
    sv = nan or (f2b(x) == f2b(y))
    svz = nan or (x == y)
    seq = (x == y)
    return sv, svz, seq

# numeric producers evaluated as scripts: (source, expected double bits or None = "must be canonical only")
def js_cases(rng, tier):
    cases = []
    def lit(src, bits): cases.append((src, bits))
    # literals in source text
    for src, val in [("9007199254740992", 2.0 ** 53), ("9007199254740993", 2.0 ** 53), ("-9007199254740993", -2.0 ** 53),
                     ("9007199254740994", 2.0 ** 53 + 2), ("6.0", 6.0), ("0x20000000000001", 2.0 ** 53), ("1e3", 1000.0),
                     ("0b101", 5.0), ("0o17", 15.0), ("18446744073709551616", 2.0 ** 64), ("0xFFFFFFFFFFFFFFFFFF", float(0xFFFFFFFFFFFFFFFFFF)),
                     ("5e-324", 5e-324), ("1e400", math.inf), ("-0", -0.0), ("0.5e1", 5.0), (".5e1", 5.0), ("2.5e-1*4", 1.0)]:
        lit(src, f2b(val))
    # constants (the audited raw valueFloat sites): must be canonical
    for src in ["Math.E", "Math.LN10", "Math.LN2", "Math.LOG10E", "Math.LOG2E", "Math.PI", "Math.SQRT1_2", "Math.SQRT2",
                "Number.MIN_VALUE", "Number.MAX_VALUE", "Number.EPSILON", "NaN", "Infinity", "-Infinity", "Number.NaN",
                "Number.MAX_SAFE_INTEGER", "Number.MIN_SAFE_INTEGER", "Number.POSITIVE_INFINITY"]:
        lit(src, None)
    # Math.* / Number / parse* / typed arrays / DataView / JSON / Date: representation must be canonical; value where exact
    exact = [("Math.abs(-6)", 6.0), ("Math.abs(-0)", 0.0), ("Math.ceil(5.5)", 6.0), ("Math.ceil(-0.5)", -0.0), ("Math.floor(6.5)", 6.0),
             ("Math.floor(-0)", -0.0), ("Math.round(5.5)", 6.0), ("Math.round(-0.2)", -0.0), ("Math.round(-0.5)", -0.0), ("Math.round(2.5)", 3.0),
             ("Math.round(-2.5)", -2.0), ("Math.round(0.49999999999999994)", 0.0), ("Math.round(4503599627370495.5)", 4503599627370496.0),
             ("Math.trunc(-0.9)", -0.0), ("Math.trunc(6.9)", 6.0), ("Math.sign(-3)", -1.0), ("Math.sign(-0)", -0.0), ("Math.sign(0)", 0.0),
             ("Math.sqrt(36)", 6.0), ("Math.cbrt(216)", 6.0), ("Math.pow(2,53)", 2.0 ** 53), ("Math.pow(2,0.5)*Math.pow(2,0.5)", None),
             ("2**53", 2.0 ** 53), ("2**53+1", 2.0 ** 53), ("2**-1", 0.5), ("3**34", float(3 ** 34)), ("(-2)**63", -2.0 ** 63), ("7**0", 1.0),
             ("0**-1", math.inf), ("(-0)**3", -0.0), ("(-0)**-3", -math.inf), ("Math.max(-0,0)", 0.0), ("Math.min(0,-0)", -0.0), ("Math.max()", -math.inf),
             ("Math.max(3,6.0)", 6.0), ("Math.min(6,7.5)", 6.0), ("Math.hypot(3,4)", 5.0), ("Math.fround(5.5)", 5.5), ("Math.fround(16777217)", 16777216.0),
             ("Math.imul(0xffffffff,5)", -5.0), ("Math.clz32(1)", 31.0), ("Math.atan2(0,-0)", math.pi), ("Math.log2(8)", 3.0), ("Math.log10(1000)", 3.0),
             ("Math.exp(0)", 1.0), ("Math.expm1(-0)", -0.0), ("Math.sin(-0)", -0.0), ("Math.cos(0)", 1.0),
             ("Number('6.0')", 6.0), ("Number(' 12 ')", 12.0), ("Number('')", 0.0), ("Number('-0')", -0.0), ("Number(null)", 0.0), ("Number(true)", 1.0),
             ("Number(false)", 0.0), ("Number([5])", 5.0), ("Number('1e3')", 1000.0), ("+'0x10'", 16.0), ("+[]", 0.0), ("-'0'", -0.0), ("-''", -0.0), ("-null", -0.0), ("-false", -0.0),
             ("parseInt('6.9')", 6.0), ("parseInt('-0')", -0.0), ("parseInt('0x1f')", 31.0), ("parseInt('9007199254740993')", 2.0 ** 53),
             ("parseInt('100000000000000000000')", 1e20), ("parseInt('zz',36)", 1295.0), ("parseInt('11',2)", 3.0),
             ("parseFloat('6.0abc')", 6.0), ("parseFloat('-0')", -0.0), ("parseFloat('.5')", 0.5), ("parseFloat('1e3')", 1000.0), ("parseFloat('-.0')", -0.0),
             ("Number.parseFloat('3.0e0')", 3.0), ("(6.5).toFixed(0)*1", 7.0), ("Number((6).toString())", 6.0), ("Number('6e0')", 6.0),
             ("new Float64Array([6])[0]", 6.0), ("new Float64Array([-0])[0]", -0.0), ("new Float32Array([6.5])[0]", 6.5), ("new Float32Array([16777217])[0]", 16777216.0),
             ("new Int8Array([200])[0]", -56.0), ("new Uint8ClampedArray([2.5])[0]", 2.0), ("new Uint8ClampedArray([3.5])[0]", 4.0), ("new Uint32Array([-1])[0]", 4294967295.0),
             ("new Uint8Array([6.9])[0]", 6.0), ("new Int32Array([4294967297])[0]", 1.0), ("new Int16Array([1e21])[0]", None),
             ("var d=new DataView(new ArrayBuffer(8)); d.setFloat64(0,6); d.getFloat64(0)", 6.0),
             ("var d=new DataView(new ArrayBuffer(8)); d.setFloat32(0,-0); d.getFloat32(0)", -0.0),
             ("var d=new DataView(new ArrayBuffer(8)); d.setUint32(0,0x7ff00000); d.setUint32(4,7); d.getFloat64(0)", math.nan),
             ("var d=new DataView(new ArrayBuffer(8)); d.setUint32(0,0xffc00001); d.getFloat32(0)", math.nan),
             ("var u=new Uint8Array([1,0,0,0,0,0,248,255]); new Float64Array(u.buffer)[0]", math.nan),
             ("var d=new DataView(new ArrayBuffer(8)); d.setUint32(0,0x40180000); d.getFloat64(0)", 6.0),
             ("var d=new DataView(new ArrayBuffer(8)); d.setInt16(0,-2); d.getUint16(0)", 65534.0),
             ("JSON.parse('6.0')", 6.0), ("JSON.parse('-0')", -0.0), ("JSON.parse('[1e3]')[0]", 1000.0), ("JSON.parse('9007199254740993')", 2.0 ** 53),
             ("JSON.parse('1e400')", math.inf), ("JSON.parse('{\"a\":0.5e1}').a", 5.0), ("JSON.parse('-0.0')", -0.0), ("JSON.parse('1E2')", 100.0),
             ("new Date(2020,0,1).getMonth()", 0.0), ("new Date(NaN).getTime()", math.nan), ("new Date(0).getTime()", 0.0), ("new Date(86400000).getUTCDate()", 2.0),
             ("new Date(-1).getUTCMilliseconds()", 999.0), ("new Date(8.64e15).getTime()", 8.64e15), ("new Date(8.64e15+1).getTime()", math.nan), ("new Date(5.9).valueOf()", 5.0),
             ("new Date(-0.5).getTime()", 0.0), ("Date.UTC(1970,0,1)", 0.0), ("'abc'.length", 3.0), ("[1,2,3].length", 3.0), ("'abc'.indexOf('c')", 2.0),
             ("'a'.charCodeAt(0)", 97.0), ("[5,6].indexOf(7)", -1.0), ("(function(){return arguments.length})(1,2)", 2.0),
             ("var x=5.5; x+=0.5; x", 6.0), ("var x=-0; x++; x", 1.0), ("var z=-0; -z", 0.0), ("var x=4503599627370495.5; x++; x", 4503599627370496.0),
             ("var x=1.5; x--; x-0.5", 0.0), ("var x=0.5; --x; x+0.5", 0.0), ("var o={x:-0}; o.x--; o.x", -1.0), ("var a=[0.5]; a[0]++; a[0]", 1.5),
             ("var x=-0.5; -x*2", 1.0), ("var x=1e21; x|0", float(int(py_spec_conv('int32', 1e21)))), ("1e21>>>0", float(int(py_spec_conv('uint32', 1e21)))),
             ("9223372036854777856|0", 2048.0), ("-9223372036854777856>>0", -2048.0), ("~9223372036854777856", -2049.0), ("2**63+2**11&0xffff", 2048.0),
             ("var a=0,b=-5; a*b", -0.0), ("var a=-7,b=0; a*b", -0.0), ("var a=0,b=5; a*b", 0.0), ("var a=3,b=3002399751580331; a*b", 2.0 ** 53),
             ("var a=94906267; a*a", float(94906267 * 94906267)), ("var a=9007199254740992,b=1; a+b", 2.0 ** 53), ("var a=-9007199254740992; a-1", -2.0 ** 53),
             ("var a=9007199254740992; a++; a", 2.0 ** 53), ("var a=-4,b=2; a%b", -0.0), ("var a=5,b=0; a%b", math.nan), ("var a=-2147483648; a/-1", 2147483648.0),
             ("var a=7,b=2; a/b*2", 7.0), ("var a=1,b=0; a/b", math.inf), ("var a=-1,b=0; a/b", -math.inf), ("var a=0,b=-1; a/b", -0.0), ("var a=0,b=0; a/b", math.nan),
             ("var a=1,b=31; a<<b", -2147483648.0), ("var a=-1,b=0; a>>>b", 4294967295.0), ("var a=-1,b=32; a>>>b", 4294967295.0), ("var a=5; ~a", -6.0),
             ("+'  \\n6\\t'", 6.0), ("Number.parseInt('  42px')", 42.0), ("isNaN(Number('0x'))*1", 1.0), ("Number(undefined)", math.nan),
             ("Math.sign('0')", 0.0), ("Math.sign('-0')", -0.0), ("Math.sign(null)", 0.0), ("Math.sign('x')", math.nan), ("Math.sign([])", 0.0)]
    for src, val in exact:
        lit(src, None if val is None else f2b(val))
    for src in ["Math.sin(1)", "Math.cos(1)", "Math.tan(1)", "Math.asin(0.5)", "Math.acos(0.5)", "Math.atan(1)", "Math.sinh(1)", "Math.cosh(1)", "Math.tanh(1)",
                "Math.asinh(1)", "Math.acosh(2)", "Math.atanh(0.5)", "Math.log(10)", "Math.log1p(1)", "Math.exp(1)", "Math.pow(1.5,2.5)", "Math.random()",
                "Math.sqrt(-1)", "Math.acos(2)", "Math.log(-1)", "Math.atan2(NaN,1)", "Math.hypot(NaN,1)", "Math.pow(NaN,1)", "0/0", "Infinity-Infinity", "Math.cbrt(-8)",
                "Math.pow(7,77)", "Math.exp(709.9)", "Math.pow(10,15)", "Math.pow(2,0.5)", "1.5**2", "Date.now()", "new Date().getTimezoneOffset()"]:
        lit(src, None)
    return cases


OBS_JS = ("function(a,b){var r='';function t(x){r+=x?'1':'0'} t(Object.is(a,b));t(Object.is(b,a));t(a===b);t(b===a);"
          "var sw=false;switch(a){case b:sw=true};t(sw);t(new Map([[a,1]]).get(b)===1);t(new Map([[b,1]]).get(a)===1);"
          "t(new Set([a]).has(b));t(new Set([b]).has(a));t([a].includes(b));t([b].includes(a));t([a].indexOf(b)===0);"
          "t([b].lastIndexOf(a)===0);var o={};o[a]=1;t(o[b]===1);t(String(a)===String(b));t(a==b);return r}")

def js_num_literal(x):
    if x != x: return "NaN"
    if math.isinf(x): return "Infinity" if x > 0 else "-Infinity"
    if x == 0: return "-0" if math.copysign(1.0, x) < 0 else "0"
    return repr(x) if x > 0 else "(" + repr(x) + ")"

def _toint32(x): return int(py_spec_conv("int32", x))
def _touint32(x): return int(py_spec_conv("uint32", x))
def _s32(v):
    v &= 0xFFFFFFFF
    return v - (1 << 32) if v >= (1 << 31) else v

def _round(x):
    if x != x or math.isinf(x) or abs(x) >= 2.0 ** 52: return x
    f = math.floor(x)
    r = f + 1.0 if x - f >= 0.5 else float(f)
    return math.copysign(0.0, x) if r == 0 else float(r)

def _minmax(op, x, y):
    if x != x or y != y: return math.nan
    if x == 0 and y == 0:
        neg = (math.copysign(1, x) < 0, math.copysign(1, y) < 0)
        if op == "max": return -0.0 if all(neg) else 0.0
        return -0.0 if any(neg) else 0.0
    return max(x, y) if op == "max" else min(x, y)

def _keep_sign_zero(r, x):
    return math.copysign(0.0, x) if r == 0 else r

BIN_T = [("+", "add"), ("-", "sub"), ("*", "mul"), ("/", "div"), ("%", "mod"), ("&", None), ("|", None), ("^", None), ("<<", None), (">>", None), (">>>", None)]
UN_T = ["-", "~", "+", "inc", "dec", "Math.abs", "Math.floor", "Math.ceil", "Math.trunc", "Math.round", "Math.fround", "Math.sqrt", "Math.sign", "|0", ">>>0"]

def gen_tree(rng, depth, vals):
    """returns (js source over variables a,b,c, python value as float)"""
    if depth == 0 or rng.random() < 0.15:
        k = rng.randrange(3)
        return "abc"[k], vals[k]
    c = rng.random()
    if c < 0.55:
        sym, name = rng.choice(BIN_T)
        ls, lv = gen_tree(rng, depth - 1, vals)
        rs, rv = gen_tree(rng, depth - 1, vals)
        if name:
            v = ieee(name, lv, rv)
        else:
            a, b = _toint32(lv), _toint32(rv); ua, ub = a & 0xFFFFFFFF, b & 0xFFFFFFFF; sh = ub & 31
            v = float({"&": _s32(ua & ub), "|": _s32(ua | ub), "^": _s32(ua ^ ub), "<<": _s32(ua << sh), ">>": a >> sh, ">>>": ua >> sh}[sym])
        return "(%s %s %s)" % (ls, sym, rs), v
    if c < 0.65:
        op = rng.choice(("max", "min"))
        ls, lv = gen_tree(rng, depth - 1, vals)
        rs, rv = gen_tree(rng, depth - 1, vals)
        return "Math.%s(%s, %s)" % (op, ls, rs), _minmax(op, lv, rv)
    u = rng.choice(UN_T)
    es, ev = gen_tree(rng, depth - 1, vals)
    if u == "-": return "(-%s)" % es, -ev
    if u == "~": return "(~%s)" % es, float(~_toint32(ev))
    if u == "+": return "(+%s)" % es, ev
    if u == "inc": return "inc(%s)" % es, ev + 1.0
    if u == "dec": return "dec(%s)" % es, ev - 1.0
    if u == "|0": return "(%s|0)" % es, float(_toint32(ev))
    if u == ">>>0": return "(%s>>>0)" % es, float(_touint32(ev))
    if u == "Math.abs": v = abs(ev)
    elif u == "Math.floor": v = ev if (ev != ev or math.isinf(ev)) else _keep_sign_zero(float(math.floor(ev)), ev)
    elif u == "Math.ceil": v = ev if (ev != ev or math.isinf(ev)) else _keep_sign_zero(float(math.ceil(ev)), ev)
    elif u == "Math.trunc": v = ev if (ev != ev or math.isinf(ev)) else _keep_sign_zero(float(math.trunc(ev)), ev)
    elif u == "Math.round": v = _round(ev)
    elif u == "Math.fround":
        try:
            v = struct.unpack("<f", struct.pack("<f", ev))[0]
        except OverflowError:
            v = math.copysign(math.inf, ev)
    elif u == "Math.sqrt": v = math.nan if (ev != ev or ev < 0) else (ev if ev == 0 else math.sqrt(ev))
    else: v = ev if (ev != ev or ev == 0) else math.copysign(1.0, ev)   # Math.sign
    return "%s(%s)" % (u, es), v


DIGITS36 = "0123456789abcdefghijklmnopqrstuvwxyz"

def to_radix(v, R):
    if v == 0: return "0"
    out = ""
    while v > 0:
        out = DIGITS36[v % R] + out
        v //= R
    return out

def int_to_canon(v, neg=False):
    """exact big integer -> nearest double (ties to even; python's int->float) -> canonical token; -0 when neg and zero"""
    try:
        x = float(v)
    except OverflowError:
        x = math.inf
    if neg:
        x = -x
    return py_canon_of_bits(f2b(x))

def radix_boundary_cases(rng, quick):
    """digit strings AT the int64 overflow boundaries of every radix 2..36, for parseInt / Number / unary plus / literals;
    judged by exact big-integer -> nearest-double (python ints)"""
    M = (1 << 63) - 1
    out = []          # (js source, expected token)
    for R in range(2, 37):
        q = M // R
        vals = {q - 1, q, q + 1, q + 2, M - 1, M, M + 1, M + 2, (1 << 64) - 1, 1 << 64, (1 << 64) + 1, P53, P53 + 1, P53 + 2,
                (q + 1) * R - 1, (q + 1) * R, (q + 1) * R + 1, q * R + (R - 1), (q + 2) * R}
        for v in (q, q + 1, M, M + 1, 1 << 64):
            for d in (0, 1, R - 1):
                vals.add(v * R + d)
        for v in (q + 1, M + 1):
            vals.add(v * R * R + rng.randrange(R * R))
        for _ in range(2 if quick else 12):
            vals.add(rng.randrange(q - 50, q + 50)); vals.add(rng.randrange(M - 50, M + 50) ); vals.add(rng.randrange(q * R - 40, q * R + 2 * R + 40))
        for v in sorted(vals):
            t = to_radix(v, R)
            tu = t.upper() if rng.random() < 0.3 else t
            out.append(('parseInt("%s",%d)' % (tu, R), int_to_canon(v)))
            out.append(('parseInt("-%s",%d)' % (t, R), int_to_canon(v, True)))
            if rng.random() < 0.4:
                junk = "!" if R == 36 else DIGITS36[R]          # first character that is not a digit in this radix
                out.append(('parseInt(" +%s%s9",%d)' % (t, junk, R), int_to_canon(v)))
            if rng.random() < 0.3:
                out.append(('parseInt("000%s",%d)' % (t, R), int_to_canon(v)))
            if R == 16:
                out += [('parseInt("0x%s")' % t, int_to_canon(v)), ('parseInt("-0X%s",16)' % tu, int_to_canon(v, True)), ('parseInt("0x%s",0)' % t, int_to_canon(v)),
                        ('Number("0x%s")' % tu, int_to_canon(v)), ('+"0X%s"' % t, int_to_canon(v)), ('0x%s' % t, int_to_canon(v)), ('-0X%s' % tu, int_to_canon(v, True))]
            if R == 10:
                out += [('parseInt("%s")' % t, int_to_canon(v)), ('parseInt("-%s")' % t, int_to_canon(v, True)), ('Number("%s")' % t, int_to_canon(v)),
                        ('+"%s"' % t, int_to_canon(v)), ('-"%s"' % t, int_to_canon(v, True)), ('Number("-%s")' % t, int_to_canon(v, True)),
                        ('%s' % t, int_to_canon(v)), ('-%s' % t, int_to_canon(v, True)), ('JSON.parse("%s")' % t, int_to_canon(v)), ('parseFloat("%s")' % t, int_to_canon(v))]
            if R == 8:
                out += [('Number("0o%s")' % t, int_to_canon(v)), ('+"0O%s"' % t, int_to_canon(v)), ('0o%s' % t, int_to_canon(v))]
            if R == 2:
                out += [('Number("0b%s")' % t, int_to_canon(v)), ('+"0B%s"' % t, int_to_canon(v)), ('0b%s' % t, int_to_canon(v))]
    return out


def bigint_and_typedarray_cases(rng, quick):
    """BigInt <-> Number paths and typed-array includes/indexOf/lastIndexOf (SameValueZero / strict equality on the
    COERCED element); python ints and binary64 are the oracle"""
    out = []   # (js source, expected token)
    def num(x): return py_canon_of_bits(f2b(x))
    big = [0, 1, -1, 255, P53 - 1, P53, P53 + 1, P53 + 2, P53 + 3, -P53 - 1, (1 << 62), (1 << 63) - 1, 1 << 63, (1 << 63) + 1, -(1 << 63), -(1 << 63) - 1,
           (1 << 64) - 1, 1 << 64, (1 << 64) + 5, -(1 << 64) - 5, (1 << 100) + 1, 10 ** 30, 1 << 1023, (1 << 1024) - (1 << 970), (1 << 1024) - (1 << 970) - 1, 1 << 1024, -(1 << 1024), 3 ** 200]
    big += [rng.randrange(-(1 << 70), 1 << 70) for _ in range(6 if quick else 60)] + [rng.randrange(1 << 62, 1 << 66) for _ in range(6 if quick else 60)]
    def lit(v): return ("(%dn)" % v) if v < 0 else ("%dn" % v)
    for v in big:
        exp = int_to_canon(abs(v), v < 0) if v != 0 else "i0"
        out += [("Number(%s)" % lit(v), exp), ("new Number(%s).valueOf()" % lit(v), exp), ("Number(Object(%s))" % lit(v), exp), ('Number(BigInt("%d"))' % v, exp)]
        w = v % (1 << 64)
        out.append(("Number(BigInt.asUintN(64, %s))" % lit(v), int_to_canon(w)))
        ws = w - (1 << 64) if w >= (1 << 63) else w
        out.append(("Number(BigInt.asIntN(64, %s))" % lit(v), int_to_canon(abs(ws), ws < 0) if ws != 0 else "i0"))
        # exact comparison BigInt <-> Number (never through a rounded conversion)
        try:
            xs = {float(v)}
        except OverflowError:
            xs = {math.inf if v > 0 else -math.inf}
        for x in list(xs):
            if math.isfinite(x):
                xs.add(math.nextafter(x, math.inf)); xs.add(math.nextafter(x, -math.inf))
        xs |= {math.nan, 0.5, -0.0}
        for x in xs:
            xl = js_num_literal(x)
            if x != x:
                eq = lt = gt = False
            else:
                eq, lt, gt = (v == x), (v < x), (v > x)
            out += [("(%s == %s)*1" % (lit(v), xl), "i%d" % eq), ("(%s < %s)*1" % (lit(v), xl), "i%d" % lt), ("(%s > %s)*1" % (xl, lit(v)), "i%d" % lt),
                    ("(%s >= %s)*1" % (lit(v), xl), "i%d" % (eq or gt)), ("(%s === %s)*1" % (lit(v), xl), "i0"), ("Object.is(%s, %s)*1" % (lit(v), xl), "i0"),
                    ("[%s].includes(%s)*1" % (xl, lit(v)), "i0"), ("new Map([[%s,1]]).has(%s)*1" % (xl, lit(v)), "i0")]
    for src in ["5n+1", "1-5n", "2*3n", "+5n", "Math.abs(5n)", "5n/2", "5n%2", "5n>>>1n", "Math.max(1n,2)", "5n**2", "isNaN(5n)", "(5n)|0 === 5"]:
        out.append(("(function(){try{return (%s, 0)}catch(e){return (e instanceof TypeError)*1}})()" % src, "i0" if src == "(5n)|0 === 5" else "i1"))
    out[-1] = ("(function(){try{return ((5n)|0, 0)}catch(e){return (e instanceof TypeError)*1}})()", "i1")
    # typed arrays: element coerced by the array type, then SameValueZero (includes) / strict equality (indexOf, lastIndexOf)
    def f32(x):
        try:
            return struct.unpack("<f", struct.pack("<f", x))[0]
        except OverflowError:
            return math.copysign(math.inf, x)
    kinds = [("Float64Array", lambda x: x, True), ("Float32Array", f32, True),
             ("Int8Array", lambda x: float(py_spec_conv("int8", x)), False), ("Uint8Array", lambda x: float(py_spec_conv("uint8", x)), False),
             ("Int32Array", lambda x: float(py_spec_conv("int32", x)), False), ("Uint32Array", lambda x: float(py_spec_conv("uint32", x)), False),
             ("Uint8ClampedArray", lambda x: float(py_spec_conv("clamp8", x)), False)]
    elems = [0.0, -0.0, math.nan, 1.0, 1.5, 257.0, -1.0, 2147483648.0, 0.1, math.inf, 255.5, 4294967297.0]
    for name, co, isf in kinds:
        for e in elems:
            ce = co(e)
            for sv in elems + [ce]:
                svz = (ce != ce and sv != sv) or ce == sv
                seq = ce == sv
                a = "new %s([%s])" % (name, js_num_literal(e))
                out += [("%s.includes(%s)*1" % (a, js_num_literal(sv)), "i%d" % svz), ("%s.indexOf(%s)" % (a, js_num_literal(sv)), "i0" if seq else "i-1"),
                        ("%s.lastIndexOf(%s)" % (a, js_num_literal(sv)), "i0" if seq else "i-1")]
    return out

STR_POOL = ["", " ", "0", "-0", "+0", "6.0", "6.", ".6", ".", "-", "+", "1e3", "1E3", "1e+3", "1e-3", "1e", "e3", "1e400", "-1e400", "1e-400", "-1e-400",
            "Infinity", "+Infinity", "-Infinity", "infinity", "INFINITY", "Inf", "inf", "+inf", "-Inf", "NaN", "nan", "0x10", "0X1f", "0x", "0xg", "0x-5", "0x+5", "-0x10", "+0x10",
            "0b101", "0B11", "0b2", "0b", "0b-1", "0b+1", "0o17", "0O7", "0o8", "0o", "0o-7", "0x1p3", "0x.8", "1_000", "0x1_0", "1__0", "_1", "00x1", "010", "09", "-010",
            "0x8000000000000000", "0x7fffffffffffffff", "0xffffffffffffffff", "0x10000000000000000", "0x20000000000001", "0x20000000000002", "0x1fffffffffffff8",
            "0b" + "1" * 63, "0b" + "1" * 64, "0b1" + "0" * 64, "0o777777777777777777777", "0o1000000000000000000000", "0o2000000000000000000000",
            "0x" + "f" * 300, "0b" + "1" * 1100, "9007199254740992", "9007199254740993", "-9007199254740993", "9007199254740994", "9223372036854775807", "9223372036854775808",
            "-9223372036854775808", "-9223372036854775809", "18446744073709551616", "123456789012345678901234567890", "1" + "0" * 400, "0." + "0" * 400 + "1",
            "4503599627370495.5", "2.5", "1.7976931348623157e308", "1.7976931348623159e308", "5e-324", "2e-324", "2.4703282292062328e-324", "1 2", "1,2", "١", "１",
            "0x１", "1e1000", "+.5e-1", "-.5E+1", "++1", "--1", "+-1", "1.2.3", "1e1.5", "0e0", "00", "-00", "000.5", "1.e1", ".e1", "0.0000001", "123abc", "abc", "12e", "0xABCDEFabcdef",
            "1\u0000", "\u00001", "99999999999999999999x", "-12345678901234567890123 4", "1" + "0" * 30 + "px"]
WS_POOL = ["", " ", "\t", "\n", "\v", "\f", "\r", " ", " ", " ", " ", " ", " ", " ", " ", " ", "　", "﻿",
           # NOT white space in ECMAScript:
           "\u0085", "᠎", "​", "‌", "‍", "⁠", "\u001c", "\u001f", "\u0008"]

def js_str_literal(s):
    return '"' + "".join(("\\u%04x" % ord(c)) if (ord(c) < 32 or ord(c) > 126 or c in '"\\') else c for c in s) + '"'

# ----------------------------------------------------------------------------------------- signatures of known defects
def classify_value_result(kind, line, impl, spec):
    """signature for a value-producing case whose IMPL result is not the canonical SPEC value"""
    if impl in ("f4340000000000000", "fc340000000000000") and spec in ("i9007199254740992", "i-9007199254740992"):
        return "intToValue-beyond-2p53-rounds-to-2p53:float-repr-of-2p53"
    w = line.split()
    if kind == "op" and w[1].split("@")[0] == "mul" and impl == "i0" and spec == "f8000000000000000" \
            and w[2][0] == "i" and w[3][0] == "i" and 0 in (int(w[2][1:]), int(w[3][1:])):
        return "mul-int-zero-times-negative:+0-instead-of--0"
    if kind == "op" and w[1].split("@")[0] in ("and", "or", "xor", "shl", "sar", "shr", "bnot"):
        for t in w[2:4]:
            if t[0] == "f" and ((int(t[1:], 16) >> 52) & 0x7ff) >= 1086 and ((int(t[1:], 16) >> 52) & 0x7ff) < 2047:
                return "toIntN-abs-ge-2p63:int64-conversion-out-of-range"
    return None

def run_pair(ctx, harness, lines, model_lines=None):
    rc, impl, err = ctx.run_lines([harness], lines, timeout=900)
    if rc != 0 or len(impl) != len(lines):
        ctx.obligation("tie.harness.run", "tie", False, "rc=%s lines=%d/%d %s" % (rc, len(impl), len(lines), err[-500:]))
    return impl

def main(ctx):
    quick = ctx.tier == "quick"
    rng = ctx.rng
    ctx.assumptions += [
        "IEEE results of + - * / % (and libm functions) are data: computed natively (python binary64 / Go) and passed to the model; the model decides branch, wrapper, representation",
        "Go's int64(f) for f outside int64 is modelled with the amd64 result (-2^63); other platforms differ (that is the defect toIntN-abs-ge-2p63)",
        "String(a)===String(b) iff a,b are the same double or both zero / both NaN (injectivity of Number::toString is C12's subject)",
        "64-bit host (toIndex's 32-bit branch not modelled)",
    ]
    ctx.trusted_base += [
        "python oracle in run/c05.py (struct/float/math.fmod) used for IEEE data, StringToNumber expectations and as fallback judge",
        "hook file /repo/verif_hooks_c05.go (raw Value constructors, direct calls of canonicalisers/conversions)",
    ]

    # ---------------------------------------------------------------- 1-3. regenerate, build, audit
    regen_ok = ctx.regen()
    ok, errs = ctx.lake_build(["GojaModel.C05.Props", "GojaModel.C05.Tie", "GojaModel.C05.DecTie", "GojaModel.C05.DecTie2", "GojaModel.C05.DecTie3", "model_c05"])
    if regen_ok:
        ctx.obligation("tie:C05_NumSites+C05_Shapes regenerated", "tie", True, "; ".join(ctx.stats.get("extract", [])))
    t_build = time.time() - ctx.t0
    names = ctx.audit("GojaModel.C05.Props", expect_min=89)
    tie_errs = [e for e in errs if os.path.basename(e["file"]) == "Tie.lean" or "Generated" in e["file"]]
    tie_bad = {e["decl"] for e in tie_errs}
    dec_errs = [e for e in errs if os.path.basename(e["file"]) in ("DecTie.lean", "DecTie2.lean", "DecTie3.lean", "C05_Decisions.lean", "GenPrelude.lean")]
    dec_bad = {e["decl"] for e in dec_errs}
    for t in ("floatToInt_tie", "intToValue_tie", "floatToValue_tie", "floatToIntClip_tie", "toLength_tie", "toIndex_tie", "float64ToInt64Mod_tie", "intCache_tie",
              "mulNegZeroGuard_tie", "mulFitsGuard_tie", "modGuards_tie", "parseIntGuards_tie",
              "sameAs_tie", "strictEquals_tie", "hash_tie", "normKey_tie", "toIntN_tie", "radixPrefix_tie", "stringToInt_tie", "toLengthUint32_tie", "equals_tie", "toUint8Clamp_tie"):
        # translated Go decision function = hand model, for all inputs (DecTie.lean); checked by the lake build above
        if regen_ok and t not in dec_bad and not any(os.path.basename(e["file"]) not in ("DecTie.lean", "DecTie2.lean", "DecTie3.lean") or e["decl"] in ("?", "lake build") for e in dec_errs):
            ctx.obligation("tie:GojaModel.C05.DecTie." + t, "tie", True, "translated function proved equal to the model")
    for t in ("numSites_ok", "wrappers_ok", "wrappers_canonical", "maxInt_tie", "whitespace_tie",
              "strnum_tie", "includes_tie", "mathsign_tie", "bigint_tie", "parseint_tie"):
        # Tie theorems are `rfl`/`decide` over regenerated data: checked by the lake build above; a failing one is already a
        # broken obligation named lean:…Tie.lean:<theorem>; here the ones that still check are recorded as discharged
        if regen_ok and t not in tie_bad and not any(os.path.basename(e["file"]).startswith("C05_") or e["decl"] in ("?", "lake build") for e in tie_errs):
            ctx.obligation("tie:GojaModel.C05.Tie." + t, "tie", True, "lake build of GojaModel.C05.Tie")
    if ctx.tier == "thorough" and ok:
        ctx.leanchecker("GojaModel.C05.Props")
    model = ctx.model_exe()
    # the driver does not import regenerated facts: it is available whenever the model itself builds
    have_model = os.path.exists(model) and not any(os.path.basename(e["file"]) in ("Driver.lean", "Model.lean", "Num.lean", "F64.lean", "StrNum.lean", "C05.lean", "Proto.lean") for e in errs)
    if have_model:
        rc, out, _ = ctx.run_lines([model], ["f2v 4018000000000000"])
        have_model = rc == 0 and out[:1] == ["i6"]
    if not have_model:
        ctx.log("model driver unavailable: judging with the python oracle only")
    t_audit = time.time() - ctx.t0

    # ---------------------------------------------------------------- 4. harness
    h = ctx.go_build()
    if h is None:
        return ctx.finish(level="proof", rule="harness did not build")

    # ---------------------------------------------------------------- 5. cases
    nrand = 4000 if quick else 20000
    bits = sorted(boundary_bits()) + random_bits(rng, nrand)
    ints = sorted(boundary_ints()) + [rng.randrange(-(1 << 63), 1 << 63) for _ in range(200 if quick else 4000)] \
        + [s * (P53 + rng.randrange(-40, 40)) for s in (1, -1) for _ in range(40)]
    canon_vals = []   # canonical operand tokens
    for b in bits:
        canon_vals.append(py_canon_of_bits(b))
    canon_vals += ["i%d" % i for i in ints if abs(i) <= P53]
    canon_set = sorted(set(canon_vals))
    # operand grid for operators: boundary classes
    grid_bits = sorted(boundary_bits())
    grid = sorted(set([py_canon_of_bits(b) for b in grid_bits] + ["i%d" % i for i in (0, 1, -1, 2, -2, 5, -5, 31, 32, 33, 255, 256, -4, 7, 2147483647, -2147483648,
                 4294967295, 4294967296, P53, -P53, P53 - 1, 1 - P53, 3002399751580331, 94906267, 3037000500, 4503599627370496)]))

    corpus_dir = os.path.join(ROOT, "corpus", "C05")
    corpus = []
    if os.path.isdir(corpus_dir):
        for fn in sorted(os.listdir(corpus_dir)):
            if fn.endswith(".txt"):
                with open(os.path.join(corpus_dir, fn), encoding="utf8") as f:
                    corpus += [l.rstrip("\n") for l in f if l.strip() and not l.startswith("#")]

    lines = []
    corpus_expect = {}
    corpus_sig = {}
    for l in corpus:
        if l.startswith("js ") and " ==> " in l:
            src, exp = l.rsplit(" ==> ", 1)
            sig = None
            if " ## " in exp:
                exp, sig = exp.split(" ## ", 1)
            corpus_expect[src] = (exp.strip(), "corpus")
            if sig:
                corpus_sig[src] = sig.strip()
            lines.append(src)
        else:
            lines.append(l)
    for b in bits:
        lines.append("f2v %016x" % b)
        lines.append("f2i %016x" % b)
        lines.append("tonum " + ftok(b))
    for i in ints:
        lines.append("i2v %d" % i)
    conv_vals = [ftok(b) for b in bits] + ["i%d" % i for i in ints if abs(i) <= P53]
    if quick:
        conv_vals = [ftok(b) for b in sorted(boundary_bits())] + rng.sample(conv_vals, min(len(conv_vals), 2500))
    for v in conv_vals:
        for c in CONVS:
            lines.append("conv %s %s" % (c, v))
    # identity: canonical pairs (equal-by-construction and random), plus non-canonical pairs for the mechanism tie
    idvals = rng.sample(canon_set, min(len(canon_set), 400 if quick else 3000)) + \
        ["i0", "f8000000000000000", "f7ff8000000000001", "f7ff0000000000000", "fff0000000000000", "i1", "i-1", "i%d" % P53, "i%d" % -P53]
    pairs = [(v, v) for v in idvals]
    special = ["i0", "f8000000000000000", "f7ff8000000000001", "f7ff0000000000000", "fff0000000000000", "i1", "i-1", "i%d" % P53, "i%d" % -P53,
               "f3ff8000000000000", "f0000000000000001", "f4340000000000001", "fc340000000000001"]
    pairs += [(x, y) for x in special for y in special]
    for _ in range(len(idvals) * 3):
        pairs.append((rng.choice(idvals), rng.choice(idvals)))
    noncanon = [ftok(f2b(float(i))) for i in (0, 1, -1, 6, P53, -P53, 255)] + ["f7ff8000000000000", "ffff8000000000001", "f7ff0000000000001", "f0000000000000000"]
    nc_pairs = [(a, b) for a in noncanon for b in (noncanon + ["i0", "i1", "i6", "i%d" % P53, "f8000000000000000", "f7ff8000000000001"])]
    nc_pairs += [(b, a) for a, b in nc_pairs]
    for a, b in pairs:
        lines.append("id %s %s" % (a, b))
        lines.append("obs %s %s" % (a, b))
    for a, b in nc_pairs:
        lines.append("id %s %s" % (a, b))
    # operators on the grid
    op_pairs = [(a, b) for a in grid for b in grid]
    if quick:
        op_pairs = rng.sample(op_pairs, min(len(op_pairs), 2500))
    extra_ops = [("i%d" % x, "i%d" % y) for x, y in [(P53, 1), (-P53, -1), (P53 - 1, 2), (3, 3002399751580331), (-3, 3002399751580331), (0, -5), (-7, 0), (0, -1),
                                                      (94906267, 94906267), (3037000500, 3037000500), (4503599627370496, 2), (P53, -1), (-4, 2), (-4, -2), (5, 0),
                                                      (-2147483648, -1), (1 << 31, 1 << 31), (1 << 32, 1 << 32), (P53, P53), (-P53, P53)]]
    for a, b in op_pairs + extra_ops:
        x, y = tok_to_float(a), tok_to_float(b)
        for op in BINOPS:
            r = ieee(op, x, y) if op in ("add", "sub", "mul", "div", "mod") else 0.0
            v = rng.choice(("", "@c"))
            lines.append("op %s%s %s %s %016x" % (op, v, a, b, f2b(r)))
    for a in grid + ["i%d" % i for i in ints if abs(i) <= P53][:: (7 if quick else 1)]:
        x = tok_to_float(a)
        for op in UNOPS:
            r = ieee(op, x) if op != "bnot" else 0.0
            for v in VARIANTS[op]:
                lines.append("op %s%s %s - %016x" % (op, v, a, f2b(r)))
    # scripts: producers and literals
    jsc = js_cases(rng, ctx.tier)
    js_expect = dict(corpus_expect)
    for src, eb in jsc:
        l = "js " + src
        lines.append(l)
        js_expect[l] = (None if eb is None else py_canon_of_bits(eb), "producer")
    # string -> number, every string kind (ascii / unicode / Go-imported), every entry point
    strs = list(STR_POOL)
    str_cases = []
    nstr = 300 if quick else 4000
    for _ in range(nstr):
        core = rng.choice(STR_POOL)
        s = rng.choice(WS_POOL) + rng.choice(("", rng.choice(WS_POOL))) + core + rng.choice(WS_POOL)
        strs.append(s)
    for w in WS_POOL:
        strs += [w + "1", "1" + w, w + "0x10" + w, w]
    for s in strs:
        if "\u0000" in s and False:
            continue
        eb = py_string_to_number_bits(s)
        x = b2f(eb)
        pos = 0 if x != x else (int(x) if math.isfinite(x) else (1 << 70) * (1 if x > 0 else -1))
        forms = [("Number(%s)", eb), ("+%s", eb), ("(%s)*1", eb), ("-(-%s)", eb), ("(%s)-0", eb),
                 ("Math.abs(%s)", f2b(abs(x))),                                                  # Value.ToFloat()
                 ("'abcdefghijklmnopqrstuvwxyz'.charCodeAt(%s)", f2b(97.0 + pos if 0 <= pos < 26 else math.nan))]  # Value.ToInteger()
        for form, fb in forms:
            l = "js " + (form % js_str_literal(s))
            if l not in js_expect:
                lines.append(l)
                js_expect[l] = (py_canon_of_bits(fb), "str2num")
        str_cases.append((s, "js " + ("Number(%s)" % js_str_literal(s)), eb))
    # expression trees (depth <= 4) over operators and exact Math functions, leaves = boundary doubles passed as ARGUMENTS
    # (so nothing is constant-folded); python evaluates the same tree on binary64
    ntree = 1500 if quick else 25000
    tree_leaves = [tok_to_float(t) for t in grid]
    trees = []
    by_value = {}
    for _ in range(ntree):
        depth = rng.choice((2, 3, 3, 4, 4))
        vals = [rng.choice(tree_leaves) for _ in range(3)]
        src, val = gen_tree(rng, depth, vals)
        call = "(function(a,b,c){function inc(x){x++;return x} function dec(x){--x;return x} return %s})(%s,%s,%s)" % (
            src, js_num_literal(vals[0]), js_num_literal(vals[1]), js_num_literal(vals[2]))
        l = "js " + call
        if l in js_expect:
            continue
        lines.append(l)
        exp = py_canon_of_bits(f2b(val))
        js_expect[l] = (exp, "tree")
        trees.append((call, val))
        by_value.setdefault(exp, []).append(call)
    # pairs of trees with the SAME value must be indistinguishable; pairs with different values are judged by the spec too
    tree_pairs = []
    keys = sorted(by_value)
    for k in keys:
        g = by_value[k]
        for j in range(0, min(len(g) - 1, 6), 1):
            tree_pairs.append((g[j], g[j + 1], k, k))
    for _ in range(60 if quick else 600):
        k1, k2 = rng.choice(keys), rng.choice(keys)
        tree_pairs.append((rng.choice(by_value[k1]), rng.choice(by_value[k2]), k1, k2))
    obs_js = OBS_JS
    for e1, e2, k1, k2 in tree_pairs:
        l = "js (%s)(%s, %s)" % (obs_js, e1, e2)
        lines.append(l)
        sv, svz, seq = spec_identity(tok_to_float(k1), tok_to_float(k2))
        js_expect[l] = ("o:string:" + obs_expected(sv, svz, seq), "treepair")
    # parseInt / Number / literals AT the int64 overflow boundaries of every radix 2..36 (exact big-integer oracle)
    rb = radix_boundary_cases(rng, quick)
    pint_cases = []      # (js line, radix, trimmed text) for the Lean transcription of parseInt
    for src, exp in rb:
        l = "js " + src
        if l not in js_expect:
            lines.append(l)
            js_expect[l] = (exp, "radix-boundary")
            mm = re.fullmatch(r'parseInt\("([^"\\]*)"(?:,(\d+))?\)', src)
            if mm:
                pint_cases.append((l, int(mm.group(2) or 0), mm.group(1).strip(JS_WS)))
    for text, radix in [("", 10), ("-", 10), ("+", 0), ("0x", 0), ("0x", 16), ("-0x1F", 0), ("0x1f", 10), ("12", 1), ("12", 37), ("z", 36), ("Z9", 36), ("-0", 10),
                        ("0X", 0), ("00x1", 0), ("1e3", 10), ("  7", 10), ("-  7", 10), ("++1", 10), ("0b11", 0), ("0b11", 2), ("11", 2), ("12", 2), ("9", 8)]:
        l = 'js parseInt(%s,%d)' % (js_str_literal(text), radix)
        if l not in js_expect:
            lines.append(l)
            js_expect[l] = (None, "producer")
        pint_cases.append((l, radix, text.strip(JS_WS)))
    # BigInt <-> Number paths; typed-array includes/indexOf on coerced elements
    bt = bigint_and_typedarray_cases(rng, quick)
    for src, exp in bt:
        l = "js " + src
        if l not in js_expect:
            lines.append(l)
            js_expect[l] = (exp, "bigint-typedarray")
    # ToValue of Go numeric types
    gov = []
    for t, lo, hi in [("int8", -128, 127), ("int16", -32768, 32767), ("int32", -(1 << 31), (1 << 31) - 1), ("int64", -(1 << 63), (1 << 63) - 1), ("int", -(1 << 63), (1 << 63) - 1),
                      ("uint8", 0, 255), ("uint16", 0, 65535), ("uint32", 0, (1 << 32) - 1), ("uint64", 0, (1 << 64) - 1), ("uint", 0, (1 << 64) - 1)]:
        vals = {lo, hi, 0, min(hi, 6), lo + 1 if lo < 0 else 1}
        for k in (P53, P53 + 1, P53 + 2, P53 - 1, -P53, -P53 - 1, -P53 - 2, (1 << 63) - 1, 1 << 63, (1 << 63) + 1025, (1 << 64) - 1):
            if lo <= k <= hi: vals.add(k)
        for _ in range(10):
            vals.add(rng.randrange(lo, hi + 1))
        for v in sorted(vals):
            gov.append(("gov %s %d" % (t, v), py_canon_of_bits(f2b(float(v)))))
    for b in sorted(boundary_bits())[:: (3 if quick else 1)]:
        gov.append(("gov float64 %016x" % b, py_canon_of_bits(b)))
    for b32 in (0, 0x80000000, 0x3f800000, 0x40c00000, 0x7fc00001, 0xffc00000, 0x7f800001, 0x7f800000, 0xff800000, 1, 0x4b800000, 0x4b800001, 0x5f000000, 0x3f000000):
        x = struct.unpack("<f", struct.pack("<I", b32))[0]
        gov.append(("gov float32 %08x" % b32, py_canon_of_bits(f2b(x))))
    gov_expect = dict(gov)
    lines += [g[0] for g in gov]
    for v in rng.sample(canon_set, min(len(canon_set), 300)):
        lines.append("exp " + v)

    ctx.stats["phase_seconds"] = {"regen+lake": round(t_build, 1), "audit+leanchecker": round(t_audit - t_build, 1), "go_build+generate": round(time.time() - ctx.t0 - t_audit, 1)}
    ctx.log("cases: %d lines (%d bit patterns, %d ints, %d strings)" % (len(lines), len(bits), len(ints), len(strs)))

    # ---------------------------------------------------------------- run
    impl = run_pair(ctx, h, lines)
    MODEL_KINDS = ("f2v", "i2v", "f2i", "tonum", "conv", "id", "op")
    mlines, midx = [], []
    for k, l in enumerate(lines):
        w = l.split(" ", 2)
        if w[0] in MODEL_KINDS:
            if w[0] == "op":
                ww = l.split()
                ww[1] = ww[1].split("@")[0]
                mlines.append(" ".join(ww))
            else:
                mlines.append(l)
            midx.append(k)
    mout = {}
    if have_model:
        rc, mo, err = ctx.run_lines([model], mlines, timeout=900)
        if rc != 0 or len(mo) != len(mlines):
            ctx.obligation("tie.model.run", "tie", False, "rc=%s %d/%d %s" % (rc, len(mo), len(mlines), err[-300:]))
            have_model = False
        else:
            mout = dict(zip(midx, mo))
    # StringToNumber through the Lean model (mechanism transcription, spec recogniser, exact value -> nearest double)
    str_out = {}
    if have_model and str_cases:
        def units(t):
            b = t.encode("utf-16-be", "surrogatepass")
            return b.hex() if b else "-"
        rc, so, _ = ctx.run_lines([model], ["str " + units(t) for t, _, _ in str_cases], timeout=900)
        if rc == 0 and len(so) == len(str_cases):
            line_idx = {l: k for k, l in enumerate(lines)}
            bad_ms, bad_py, bad_impl = [], [], []
            for (t, jl, eb), o in zip(str_cases, so):
                w = o.split()
                if len(w) != 3:
                    bad_ms.append((t, o, "")); continue
                if w[0] != w[1]:
                    bad_ms.append((t, w[0][:60], w[1][:60]))
                if py_canon_of_bits(int(w[2], 16)) != py_canon_of_bits(eb):
                    bad_py.append((t, w[2], "%016x" % eb))
                k = line_idx.get(jl)
                if k is not None and k < len(impl) and impl[k] != py_canon_of_bits(int(w[2], 16)):
                    bad_impl.append((t, impl[k], w[2]))
                ctx.nontriv(("str", w[0][:4], w[0] == "nan", len(t) > 20))
            ctx.obligation("corr:str Lean-mechanism=Lean-spec-recogniser", "correspondence", not bad_ms, "; ".join(repr(x) for x in bad_ms[:3]))
            ctx.obligation("corr:str python-oracle=Lean-value", "correspondence", not bad_py, "; ".join(repr(x) for x in bad_py[:3]))
            ctx.obligation("corr:str impl=Lean-mechanism", "correspondence", not bad_impl, "%d/%d; " % (len(bad_impl), len(str_cases)) + "; ".join(repr(x) for x in bad_impl[:3]))
        else:
            ctx.obligation("tie.model.run.str", "tie", False, "rc=%s %d/%d" % (rc, len(so), len(str_cases)))
    # parseInt through the Lean transcription (sign / prefix / radix validation / accumulation loop / big path)
    if have_model and pint_cases:
        def units2(t):
            b = t.encode("utf-16-be", "surrogatepass")
            return b.hex() if b else "-"
        rc, po, _ = ctx.run_lines([model], ["pint %d %s" % (r, units2(t)) for _, r, t in pint_cases], timeout=900)
        if rc == 0 and len(po) == len(pint_cases):
            line_idx2 = {l: k for k, l in enumerate(lines)}
            bad_i, bad_s = [], []
            for (jl, r, t), o in zip(pint_cases, po):
                w = o.split()
                if len(w) != 3:
                    bad_s.append((jl, o)); continue
                if w[1] != "spec=same":
                    bad_s.append((jl, o))
                k = line_idx2.get(jl)
                if k is not None and k < len(impl) and impl[k] != py_canon_of_bits(int(w[2], 16)):
                    bad_i.append((jl[3:80], impl[k], w[0][:40], w[2]))
            ctx.obligation("corr:parseInt impl=Lean-mechanism", "correspondence", not bad_i, "%d/%d; " % (len(bad_i), len(pint_cases)) + "; ".join(repr(x) for x in bad_i[:3]))
            ctx.obligation("corr:parseInt Lean-mechanism=Lean-spec", "correspondence", not bad_s, "; ".join(repr(x) for x in bad_s[:3]))
        else:
            ctx.obligation("tie.model.run.pint", "tie", False, "rc=%s %d/%d" % (rc, len(po), len(pint_cases)))
    # second pass: canonicity of every numeric token the implementation produced (judge: the model's `Canon`)
    toks = sorted({t for t in impl if is_num_tok(t)})
    canon_of = {t: py_is_canon(t) for t in toks}
    if have_model:
        rc, co, _ = ctx.run_lines([model], ["canon " + t for t in toks], timeout=600)
        if rc == 0 and len(co) == len(toks):
            dis = [t for t, c in zip(toks, co) if (c == "1") != canon_of[t]]
            ctx.obligation("corr:python-canon-oracle=Lean-Canon", "correspondence", not dis, "disagree on " + ", ".join(dis[:5]))
            canon_of = {t: c == "1" for t, c in zip(toks, co)}

    # ---------------------------------------------------------------- judge
    stats = {"kinds": {}, "repr_tags": {"i": 0, "f": 0, "other": 0}, "branches": {}, "conv_err": 0, "obs_classes": {}}
    corr_bad = {}      # kind -> list of (line, impl, mech)
    oracle_bad = []    # python oracle vs Lean spec disagreements
    def viol(sig, summary, rep):
        ctx.violation(sig, summary, rep)
    def record_corr(kind, l, i, m):
        corr_bad.setdefault(kind, []).append((l, i, m))

    for k, l in enumerate(lines):
        if k >= len(impl):
            break
        w = l.split()
        kind = w[0]
        out = impl[k]
        stats["kinds"][kind] = stats["kinds"].get(kind, 0) + 1
        ctx.count()
        if is_num_tok(out):
            stats["repr_tags"][out[0]] += 1
        elif kind in ("js", "gov", "op", "f2v", "i2v", "tonum"):
            stats["repr_tags"]["other"] += 1
        m = mout.get(k)
        if out.startswith("PANIC"):
            viol("panic:" + kind, "harness call panicked: %s -> %s" % (l, out), {"kind": "input", "line": l, "observed": out})
            continue
        if kind in ("f2v", "tonum"):
            b = int(w[1][-16:], 16)
            spec = py_canon_of_bits(b)
            if m is not None and m != spec:
                oracle_bad.append((l, m, spec))
            if m is not None and out != m:
                record_corr(kind, l, out, m)
            if out != spec:
                viol("canonicaliser:%s:%s" % (kind, "noncanonical" if not canon_of.get(out, False) else "wrong-value"),
                     "%s gives %s, canonical value of these bits is %s" % (l, out, spec), {"kind": "input", "line": l, "expected": spec, "observed": out, "model": m})
            ctx.nontriv(("f2v-class", spec[0], (b >> 52) & 0x7ff, b >> 63, out == ftok(b)))
        elif kind == "f2i":
            if m is not None and out != m:
                record_corr(kind, l, out, m)
            b = int(w[1], 16); spec = py_canon_of_bits(b)
            exp = ("ok " + spec[1:]) if spec[0] == "i" else "no"
            if out != exp:
                viol("floatToInt:wrong", "%s gives %s, expected %s" % (l, out, exp), {"kind": "input", "line": l, "expected": exp, "observed": out})
        elif kind == "i2v":
            i = int(w[1])
            try:
                spec = py_canon_of_bits(f2b(float(i)))
            except OverflowError:
                spec = None
            mech = m.split()[0] if m else None
            if m is not None:
                ms = m.split()[2][2:]
                if spec is not None and ms != spec:
                    oracle_bad.append((l, ms, spec))
            if mech is not None and out != mech:
                record_corr(kind, l, out, mech)
            if spec is not None and out != spec:
                sig = classify_value_result(kind, l, out, spec) or ("intToValue:%s" % ("noncanonical" if not canon_of.get(out, False) else "wrong-value"))
                viol(sig, "intToValue(%d) gives %s; the canonical value is %s" % (i, out, spec), {"kind": "input", "line": l, "expected": spec, "observed": out, "model": m})
            ctx.nontriv(("i2v", abs(i) <= P53, abs(i) <= 256, i < 0, abs(i) in (P53 + 1,)))
        elif kind == "conv":
            name, v = w[1], w[2]
            x = tok_to_float(v)
            spec = py_spec_conv(name, x)
            if m is not None:
                mm, ms = m.split()
                if ms != spec:
                    oracle_bad.append((l, ms, spec))
                if out != mm:
                    record_corr(kind, l, out, mm)
            if out == "err":
                stats["conv_err"] += 1
            if out != spec:
                e = (int(v[1:], 16) >> 52) & 0x7ff if v[0] == "f" else 0
                if name in ("int8", "uint8", "int16", "uint16", "int32", "uint32") and v[0] == "f" and 1086 <= e < 2047:
                    sig = "toIntN-abs-ge-2p63:int64-conversion-out-of-range"
                else:
                    sig = "conv:%s:%s" % (name, "float" if v[0] == "f" else "int")
                viol(sig, "%s(%s = %r) gives %s; ECMAScript says %s" % (name, v, x, out, spec), {"kind": "input", "line": l, "expected": spec, "observed": out, "model": m})
            ctx.nontriv(("conv", name, v[0], out == "err", (int(v[1:], 16) >> 52) & 0x7ff if v[0] == "f" else min(int(v[1:]).bit_length(), 60), v[1] in "-89abcdef"))
        elif kind == "id":
            a, b = w[1], w[2]
            if m is not None and out != m.split()[0]:
                record_corr(kind, l, out, m.split()[0])
            if py_is_canon(a) and py_is_canon(b):
                sv, svz, seq = spec_identity(tok_to_float(a), tok_to_float(b))
                if m is not None:
                    s = m.split()[1][2:]
                    if s != "".join("1" if t else "0" for t in (sv, svz, seq)):
                        oracle_bad.append((l, s, (sv, svz, seq)))
                exp = "m=" + "".join("1" if t else "0" for t in (sv, sv, seq, seq, svz, svz))
                if out[:8] != exp or (svz and out[8] != "1"):
                    viol("identity:canonical-pair-misjudged", "%s gives %s, spec %s(+hash)" % (l, out, exp), {"kind": "input", "line": l, "expected": exp, "observed": out})
                ctx.nontriv(("id", a[0], b[0], sv, svz, seq))
        elif kind == "obs":
            a, b = w[1], w[2]
            sv, svz, seq = spec_identity(tok_to_float(a), tok_to_float(b))
            exp = obs_expected(sv, svz, seq)
            stats["obs_classes"][exp] = stats["obs_classes"].get(exp, 0) + 1
            if out != exp:
                diff = [OBS_NAMES[j] for j in range(min(len(out), len(exp))) if out[j] != exp[j]] if len(out) == len(exp) else ["<%s>" % out]
                negz = "f8000000000000000"
                only_incl = all(d.startswith("[") and "includes" in d for d in diff)
                if only_incl and ((diff == ["[a].includes(b)"] and a == negz) or (diff == ["[b].includes(a)"] and b == negz) or
                                  (set(diff) == {"[a].includes(b)", "[b].includes(a)"} and a == negz and b == negz)):
                    sig = "includes-element-negative-zero:never-found"
                else:
                    sig = "observers:" + ",".join(diff)[:80]
                viol(sig, "a=%s b=%s: observers %s differ from spec (got %s want %s)" % (a, b, diff, out, exp),
                     {"kind": "input", "line": l, "expected": exp, "observed": out, "observer_names": OBS_NAMES})
            ctx.nontriv(("obs", a[0], b[0], exp))
        elif kind == "op":
            name = w[1].split("@")[0]
            a, b = w[2], w[3]
            x = tok_to_float(a); y = tok_to_float(b) if b != "-" else None
            spec = py_spec_op(name, x, y)
            mech = None
            if m is not None and " c=" in m:
                mech = m.split()[0]
                ms = m.split()[2][2:]
                if ms != spec:
                    oracle_bad.append((l, ms, spec))
            if mech is not None and out != mech:
                record_corr(kind, l, out, mech)
            if out != spec:
                sig = classify_value_result(kind, l, out, spec) or ("op:%s:%s" % (name, "noncanonical" if not canon_of.get(out, False) else "wrong-value"))
                viol(sig, "%s gives %s; spec value (canonical) is %s" % (l, out, spec), {"kind": "input", "line": l, "expected": spec, "observed": out, "model": m})
            br = "%s:%s%s->%s" % (name, a[0], b[0], out[0])
            stats["branches"][br] = stats["branches"].get(br, 0) + 1
            ctx.nontriv(("op", w[1], a[0], b[0], out[0], spec[0], spec in ("f8000000000000000", "f7ff8000000000001", "i0")))
        elif kind == "js":
            exp, cls = js_expect.get(l, (None, "corpus"))
            if cls == "treepair":
                if out != exp:
                    got, want = out[len("o:string:"):], exp[len("o:string:"):]
                    diff = [OBS_NAMES[j] for j in range(len(want)) if j < len(got) and got[j] != want[j]] if len(got) == len(want) else ["<%s>" % out]
                    viol("tree-pair-observers:" + ",".join(diff)[:80], "two expression trees (%s): observers %s differ from spec (got %s want %s)" %
                         ("same value" if want[0] == "1" else "different values", diff, got, want),
                         {"kind": "program", "source": l[3:], "expected": exp, "observed": out, "observer_names": OBS_NAMES})
                ctx.nontriv(("treepair", exp))
                continue
            if not is_num_tok(out):
                sig = corpus_sig.get(l)
                if sig is None and "Math.sign(" in l and out.startswith("o:"):
                    sig = "math-sign-returns-argument-unconverted"
                viol(sig or ("producer:not-a-number:" + cls), "script `%s` should produce a Number, got %s" % (l[3:], out), {"kind": "program", "source": l[3:], "expected": exp, "observed": out})
                continue
            if not canon_of.get(out, False):
                sig = "intToValue-beyond-2p53-rounds-to-2p53:float-repr-of-2p53" if out in ("f4340000000000000", "fc340000000000000") else "producer:noncanonical:" + cls
                viol(sig, "script `%s` produced the non-canonical value %s" % (l[3:], out), {"kind": "program", "source": l[3:], "expected": exp, "observed": out})
            elif exp is not None and out != exp:
                sig = corpus_sig.get(l)
                if sig is not None:
                    pass
                elif cls == "str2num":
                    sig = classify_str(l, out, exp)
                elif cls == "bigint-typedarray" and re.match(r"js (new )?Number\(", l) and "n" in l:
                    sig = "number-of-bigint-beyond-int64:low-64-bits"
                elif re.search(r"\|0|>>>?0|~|&0x", l) and re.search(r"e21|9223372036854777856|2\*\*63", l):
                    sig = "toIntN-abs-ge-2p63:int64-conversion-out-of-range"
                elif re.fullmatch(r"js var a=-?\d+,b=-?\d+; a\*b", l) and out == "i0" and exp == "f8000000000000000":
                    sig = "mul-int-zero-times-negative:+0-instead-of--0"
                elif re.fullmatch(r"js parseInt\('-0+'\)", l) and out == "i0" and exp == "f8000000000000000":
                    sig = "parseInt-negative-zero-loses-sign"
                viol(sig or ("producer:wrong-value:" + cls), "script `%s` gives %s, spec %s" % (l[3:], out, exp), {"kind": "program", "source": l[3:], "expected": exp, "observed": out})
            ctx.nontriv(("js", cls, l[3:60] if cls == "producer" else ((l[3:12], len(l), exp) if cls == "radix-boundary" else (out[0], exp))))
        elif kind == "gov":
            exp = gov_expect.get(l)
            if exp is not None and out != exp:
                sig = classify_value_result(kind, l, out, exp) or "ToValue:%s:%s" % (w[1], "noncanonical" if not canon_of.get(out, False) else "wrong-value")
                viol(sig, "ToValue(%s %s) gives %s, canonical %s" % (w[1], w[2], out, exp), {"kind": "input", "line": l, "expected": exp, "observed": out})
            ctx.nontriv(("gov", w[1], out[0]))
        elif kind == "exp":
            v = w[1]
            exp = ("int64:" + v[1:]) if v[0] == "i" else ("float64:" + v[1:])
            if out != exp:
                viol("export:tag", "Export of %s gives %s" % (v, out), {"kind": "input", "line": l, "expected": exp, "observed": out})

    for kind in ("f2v", "f2i", "tonum", "i2v", "conv", "id", "op"):
        bad = corr_bad.get(kind, [])
        n = stats["kinds"].get(kind, 0)
        if have_model:
            ctx.obligation("corr:%s impl=mechanism-model" % kind, "correspondence", not bad,
                           "%d/%d disagree; first: %s" % (len(bad), n, "; ".join("%s impl=%s model=%s" % t for t in bad[:3])))
    if have_model:
        ctx.obligation("corr:python-oracle=Lean-spec", "correspondence", not oracle_bad,
                       "%d disagree; first: %s" % (len(oracle_bad), "; ".join("%s lean=%s py=%s" % t for t in oracle_bad[:3])))
    else:
        ctx.obligation("model-driver-available", "tie", False, "lean build / regeneration failed; judged with the python oracle only")

    for l, o in list(zip(lines, impl))[:: max(1, len(lines) // 10)][:10]:
        ctx.sample("%s -> %s" % (l[:100], o))
    stats["branches"] = dict(sorted(stats["branches"].items()))
    ctx.stats.update(stats)
    ctx.stats["sizes"] = {"bigint_typedarray": len(bt), "radix_boundary": len(rb), "trees": len(trees), "tree_pairs": len(tree_pairs), "lines": len(lines), "bit_patterns": len(bits), "ints": len(ints), "strings": len(strs), "scripts": len(jsc), "corpus": len(corpus),
                          "exhaustive": "no (sampled; boundary classes enumerated)"}
    return ctx.finish(level="proof",
                      rule="one case = one protocol line (a bit pattern / int / operand pair / string / script through one entry point); distinct non-trivial = "
                           "distinct (entry point, operand representation tags, exponent class or magnitude class, result tag/spec class) tuples; "
                           "expression trees: depth<=4 over 11 binary ops, 15 unary ops/functions, Math.max/min, leaves from the boundary grid, distinct by (value class) and by source text; "
                           "operands: boundary classes enumerated (±0, ±2^k±d for k in 7..1023, NaN payloads, subnormals, ≥2^63 with low bits) + seeded random in 10 strata")

def classify_str(line, out, exp):
    m = re.search(r'"((?:[^"\\]|\\.)*)"', line)
    s = json.loads('"' + m.group(1) + '"') if m else ""
    t = s.strip(JS_WS)
    xb = b2f(py_string_to_number_bits(s))
    if "charCodeAt" in line and exp == "i97" and out == "f7ff8000000000001" and re.match(r"[+-]?(\d{19,}|0[xX][0-9a-fA-F]{16,}|0[oO][0-7]{21,}|0[bB][01]{63,})", t) and xb != xb:
        return "string-ToInteger-invalid-text-with-overflowing-digit-prefix"
    if not s.isascii() and re.match(r"js (Math\.abs\(|-\(-|'abc)", line) and out in ("f7ff8000000000001", "i97"):
        return "unicode-string-ToFloat-ToInteger-ignore-content"
    if "charCodeAt" in line and s.isascii() and not math.isfinite(xb) and re.search(r"(?i)nan|inf|e\d", t):
        return "ascii-string-ToInteger-int64-of-nonfinite"
    if "\u0085" in s and "\u0085" not in t.strip("\u0085") and exp == "f7ff8000000000001":
        return "str2num:U+0085-trimmed-as-whitespace"
    if re.fullmatch(r"-0+", t) and out == "i0" and exp == "f8000000000000000":
        return "str2num:negative-zero-integer-text-loses-sign"
    if re.fullmatch(r"0[xXoObB][+-][0-9a-fA-F]+", t):
        return "str2num:sign-after-radix-prefix-accepted"
    if re.fullmatch(r"0[xXoObB][0-9a-fA-F]+", t) and out == "f7ff8000000000001":
        return "str2num:radix-literal-beyond-int64-gives-NaN"
    return None

def replay(ctx, path):
    with open(path) as f:
        rep = json.load(f)
    line = rep.get("line") or ("js " + rep["source"] if "source" in rep else None)
    if line is None:
        print(json.dumps(rep, indent=1))
        return 0
    ctx.regen()
    ctx.lake_build(["model_c05"])
    h = ctx.go_build()
    print("case      :", line)
    if h:
        _, o, _ = ctx.run_lines([h], [line])
        print("implementation:", o[0] if o else "?")
    w = line.split()
    if w[0] in ("f2v", "i2v", "f2i", "tonum", "conv", "id", "op") and os.path.exists(ctx.model_exe()):
        if w[0] == "op":
            w[1] = w[1].split("@")[0]
        _, o, _ = ctx.run_lines([ctx.model_exe()], [" ".join(w)])
        print("model (mechanism / c=canonical? / s=spec):", o[0] if o else "?")
    print("expected (spec):", rep.get("expected"))
    print("observed at detection:", rep.get("observed"))
    return 0
