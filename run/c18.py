"""
C18 — Map/Set/symbol-table ordered map.  Check = Lean theorems (GojaModel.C18.Props) about the mechanism model
of map.go + differential correspondence:  real orderedMap (raw through hooks, and behind JS Map / Set / object
symbol table)  vs  Lean mechanism model (state-for-state)  vs  Lean spec model  vs  an independent python oracle
(insertion-ordered list keyed by SameValueZero class).  See design/C18.md.
"""
import os, re, json, binascii, random, concurrent.futures as cf
from vlib import *

# ----------------------------------------------------------------------------------------------- key catalogue
def hx(s):
    return binascii.hexlify(s.encode("utf8")).decode()

def js(s):
    return "js:" + hx(s)

LONG = "abcdefghijklmnopqrstuvwxyz"
LONGU = "é" * 19
MIXEDU = "aé" + "b" * 20
TAILU = "b" * 20 + "世😀"
def u16(s):
    out = []
    for c in s:
        o = ord(c)
        if o >= 0x10000:
            o -= 0x10000
            out += [0xd800 + (o >> 10), 0xdc00 + (o & 0x3ff)]
        else:
            out.append(o)
    return "".join("%04x" % x for x in out)

# class name -> (canon, go-export canon, [representations])
JS_CLASSES = {
    "one": ("n:3ff0000000000000", None, [js("1"), js("0.5+0.5"), js("(function(){var x=-0;x++;return x})()"),
            js("Math.sqrt(1)"), "go:f64:3ff0000000000000", "go:i64:1", js('Number("1")'), js("-(-1)"),
            js("(function(){var x=2;x--;return x})()"), js("new Float64Array([1])[0]")]),
    "zero": ("n:0000000000000000", None, [js("0"), js("-0"), js("-1*0"), "nz", "pz", "go:f64:8000000000000000",
             "go:f64:0000000000000000", js("0/-5"), js("(function(){var z=0;return -z})()"), js("Math.round(-0.2)"),
             js("new Float64Array([-0])[0]")]),
    "nan": ("n:nan", None, [js("NaN"), js("0/0"), js("-(0/0)"), js("Math.sqrt(-1)"), "go:f64:7ff8000000000123",
            "go:f64:fff8000000000000", "go:f64:7ff0000000000001", js('Number("x")'), js("undefined-1"),
            js("new Float64Array(new Uint8Array([1,0,0,0,0,0,0xf8,0xff]).buffer)[0]")]),
    "big": ("n:4340000000000000", None, [js("9007199254740992"), js("Math.pow(2,53)"), js("4503599627370496*2"),
            "go:f64:4340000000000000", "go:i64:9007199254740992", js("9007199254740991+1")]),
    "half": ("n:3ff8000000000000", None, [js("1.5"), js("3/2"), "go:f64:3ff8000000000000", js("0.75*2")]),
    "neg": ("n:bff0000000000000", None, [js("-1"), js("1-2"), js("-(0.5+0.5)"), "go:i64:-1", js("~0")]),
    "ab": ("s:00610062", None, [js('"ab"'), js('"a"+"b"'), "go:str:6162", "go:u16:00610062", js('"xab".slice(1)'),
           js("String.fromCharCode(97,98)"), js('"ab\\u00e9".slice(0,2)'), js('["a","b"].join("")')]),
    "eacute": ("s:00e9", None, [js('"\\u00e9"'), js("String.fromCharCode(233)"), "go:str:c3a9", "go:u16:00e9",
               js('"a\\u00e9".slice(1)'), js('"e\\u0301".normalize()')]),
    "long": ("s:" + u16(LONG), None, [js('"%s"' % LONG), "go:str:" + hx(LONG), js('"%s"+"%s"' % (LONG[:13], LONG[13:])),
             "go:u16:" + u16(LONG), js('"%s".split("").join("")' % LONG)]),
    # > 16 bytes of non-ASCII UTF-8: ToValue keeps these as UNSCANNED importedStrings until something scans them
    "longu": ("s:" + u16(LONGU), None, ["go:str:" + hx(LONGU), js('"\\u00e9".repeat(19)'), "go:u16:" + u16(LONGU),
              "go:cat:" + hx(LONGU[:10]) + "+" + hx(LONGU[10:]), "go:str:" + hx(LONGU),
              js("JSON.parse('\"" + LONGU + "\"')"), js('Array(20).join("\\u00e9")')]),
    "mixedu": ("s:" + u16(MIXEDU), None, ["go:str:" + hx(MIXEDU), js('"a\\u00e9"+"b".repeat(20)'), "go:u16:" + u16(MIXEDU),
               "go:cat:" + hx(MIXEDU[:1]) + "+" + hx(MIXEDU[1:]), "go:str:" + hx(MIXEDU)]),
    "tailu": ("s:" + u16(TAILU), None, ["go:str:" + hx(TAILU), js('"b".repeat(20)+"\\u4e16\\ud83d\\ude00"'), "go:u16:" + u16(TAILU),
              "go:cat:" + hx(TAILU[:20]) + "+" + hx(TAILU[20:])]),
    "badutf": ("s:fffd" + u16("a" * 20), None, ["go:str:ff" + hx("a" * 20), "go:str:fe" + hx("a" * 20),
               js('"\\ufffd"+"a".repeat(20)')]),
    # surrogates: lone high, high-high-low adjacency, a pair assembled across a concatenation boundary
    "lonehi": ("s:d800", "*", [js('"\\ud800"'), js("String.fromCharCode(0xd800)"), "go:u16:d800", js('"\\ud800\\udc00".slice(0,1)'),
               js('"\\ud800\\udc00".charAt(0)')]),
    "hhl": ("s:d800d800dc00", "*", [js('"\\ud800\\ud800\\udc00"'), js("String.fromCharCode(0xd800,0xd800,0xdc00)"),
            "go:u16:d800d800dc00", js('"\\ud800"+"\\ud800\\udc00"'), js('"\\ud800\\ud800"+"\\udc00"'),
            js('"\\ud800"+String.fromCodePoint(0x10000)')]),
    "pairsplit": ("s:d83dde00", None, [js('"\\ud83d\\ude00"'), js('"\\ud83d"+"\\ude00"'), js("String.fromCodePoint(0x1f600)"),
                  "go:str:f09f9880", "go:u16:d83dde00", js('"x\\ud83d\\ude00".slice(1)'), js('["\\ud83d","\\ude00"].join("")')]),
    "empty": ("s:", None, [js('""'), "go:str:", js('"a".slice(1)'), js("String()")]),
    "strone": ("s:0031", None, [js('"1"'), js("String(1)"), js("(1).toString()"), "go:str:31"]),
    "true": ("b:1", None, [js("true"), js("!0"), js("1==1")]),
    "false": ("b:0", None, [js("false"), js("!1")]),
    "null": ("nl", "nil", [js("null")]),
    "undef": ("u", "nil", [js("undefined"), js("void 0"), js("[][0]")]),
    "big10": ("g:10", "*", [js("10n"), js("5n+5n"), js("BigInt(10)"), js('BigInt("10")')]),
    "big0": ("g:0", "*", [js("0n"), js("-0n"), js("1n-1n")]),
    "symreg": ("y", "*", [js('Symbol.for("c18r")'), js('Symbol.for("c18"+"r")')]),
    "symwk": ("y", "*", [js("Symbol.iterator"), js("Symbol.iterator")]),
    "obj": ("o", "*", [js("({})")]),           # + ref:
    "obj2": ("o", "*", [js("[]")]),
    "fn": ("o", "*", [js("(function(){})")]),
    "sym": ("y", "*", [js('Symbol("s")')]),
    "sym2": ("y", "*", [js('Symbol("s")')]),
}
SYM_CLASSES = ["symreg", "symwk", "sym", "sym2", "symA", "symB", "symC", "symD"]
for _n in ["symA", "symB", "symC", "symD"]:
    JS_CLASSES[_n] = ("y", "*", [js('Symbol("%s")' % _n)])
JS_CLASSES["symhas"] = ("y", "*", [js("Symbol.hasInstance"), js("Symbol.hasInstance")])
JS_CLASSES["symreg2"] = ("y", "*", [js('Symbol.for("")'), js('Symbol.for(String())')])
SYM_CLASSES += ["symhas", "symreg2"]
IDENTITY = {"obj", "obj2", "fn", "sym", "sym2", "symA", "symB", "symC", "symD"}   # fresh identity per evaluation

KINDS = {"raw": "r", "sym": "rra", "map": "rekvyfo", "set": "rekvyfo"}


class Case:
    """pool: list of (rep, hash, repr); canon2k: impl canon -> 'K<rep>'; gcanon[rep] = go-export canon of class."""
    def __init__(self, mode, pool, canon_of_rep, gcanon_of_rep, ops):
        self.mode, self.pool, self.ops = mode, pool, ops
        self.canon_of_rep, self.gcanon_of_rep = canon_of_rep, gcanon_of_rep
        self.canon2k = {c: "K%d" % r for r, c in canon_of_rep.items()}

    def line(self, ops=None):
        ops = self.ops if ops is None else ops
        return "%s %s %s" % (self.mode, ",".join("%d/%d/%s" % p for p in self.pool), " ".join(ops))

    def to_json(self):
        return {"mode": self.mode, "pool": self.pool, "canon_of_rep": {str(k): v for k, v in self.canon_of_rep.items()},
                "gcanon_of_rep": {str(k): v for k, v in self.gcanon_of_rep.items()}, "ops": self.ops}

    @staticmethod
    def from_json(d):
        return Case(d["mode"], [tuple(p) for p in d["pool"]], {int(k): v for k, v in d["canon_of_rep"].items()},
                    {int(k): v for k, v in d["gcanon_of_rep"].items()}, d["ops"])


def gen_pool(rng, mode, npool=12):
    pool, canon, gcanon = [], {}, {}
    if mode == "raw":
        nhash = rng.choice([1, 2, 3, 3, 4, 12])
        with_zero = rng.random() < 0.6
        while len(pool) < npool:
            left = npool - len(pool)
            if with_zero and left >= 2:
                with_zero = False
                rep = len(pool)
                for r in rng.sample(["nz", "pz"], 2) + (["nz"] if left > 4 and rng.random() < 0.3 else []):
                    pool.append((rep, 0, r))
                canon[rep], gcanon[rep] = "n:0000000000000000", "n:0000000000000000"
                continue
            rep = len(pool)
            h = rng.randrange(nhash)          # hash 0 collides with the real hash of +0
            for _ in range(min(left, rng.choice([1, 1, 2, 3]))):
                pool.append((rep, h, "syn"))
            canon[rep], gcanon[rep] = "c%d" % rep, "*"
        return pool, canon, gcanon
    names = SYM_CLASSES if mode == "sym" else [n for n in JS_CLASSES if n not in ("symA", "symB", "symC", "symD", "symhas", "symreg2")]
    names = names[:]
    rng.shuffle(names)
    if mode != "sym" and rng.random() < 0.4:
        # every run must contain pools where an UNSCANNED imported non-ASCII string sits next to the equal JS-built one
        # (hash / SameAs of importedString must scan first); the corpus does this deterministically as well
        pick = rng.choice(["longu", "mixedu", "tailu"])
        names.remove(pick)
        names.insert(0, pick)
    for name in names:
        if len(pool) >= npool:
            break
        c, g, reprs = JS_CLASSES[name]
        rep = len(pool)
        k = min(npool - len(pool), rng.choice([1, 2, 2, 3, 4]))
        if name in IDENTITY:
            pool.append((rep, rep, reprs[0]))
            for _ in range(k - 1):
                pool.append((rep, rep, "ref:%d" % rep))
        elif name in ("longu", "mixedu", "tailu") and npool - len(pool) >= 2:
            imp = [r for r in reprs if r.startswith(("go:str:", "go:cat:"))]
            oth = [r for r in reprs if not r.startswith(("go:str:", "go:cat:"))]
            chosen = [rng.choice(imp), rng.choice(oth)] + [rng.choice(reprs) for _ in range(max(0, k - 2))]
            rng.shuffle(chosen)
            for r in chosen:
                pool.append((rep, rep, r))
        else:
            for r in (rng.sample(reprs, k) if k <= len(reprs) else [rng.choice(reprs) for _ in range(k)]):
                pool.append((rep, rep, r))
        if c in ("o", "y"):
            c = c + str(rep)
        canon[rep] = c
        gcanon[rep] = g if g is not None else c
    return pool, canon, gcanon


def gen_ops(rng, mode, npool, maxlen=40):
    n = rng.randint(4, maxlen)
    hot = rng.sample(range(npool), rng.randint(2, min(npool, 8)))
    ops, slots, co, val = [], {}, None, 0
    kinds = KINDS[mode]
    w_iter = rng.choice([0.1, 0.3, 0.45])
    for _ in range(n):
        x = rng.random()
        k = rng.choice(hot) if rng.random() < 0.85 else rng.randrange(npool)
        if x < w_iter and slots:
            ops.append("n%d" % rng.choice(list(slots)))
        elif x < w_iter + 0.08:
            free = [j for j in range(3) if j != co]
            j = rng.choice(free)
            kind = rng.choice(kinds)
            if kind in "foa":
                if co is not None or j in slots and False:
                    kind = "r"
                else:
                    co = j
            slots[j] = kind
            ops.append("i%d%s" % (j, kind))
        else:
            y = rng.random()
            if y < 0.45:
                val += 1
                ops.append("s%d.%d" % (k, val))
            elif y < 0.68:
                ops.append("d%d" % k)
            elif y < 0.76:
                ops.append(("g%d" if mode != "set" else "h%d") % k)
            elif y < 0.83:
                ops.append("h%d" % k)
            elif y < 0.87 and mode != "sym":
                ops.append("c")
            elif y < 0.91:
                ops.append("z")
            elif y < 0.93 and slots:
                j = rng.choice(list(slots))
                if slots[j] == "r":
                    ops.append("x%d" % j)
                else:
                    ops.append("z")
            else:
                vs = {"raw": "R", "sym": "RAKOPTD", "map": "RAKGMFW", "set": "RAKGMSFW"}[mode]
                ops.append("e" + rng.choice(vs))
    return ops


def gen_case(rng, mode=None, maxlen=40):
    mode = mode or rng.choice(["raw", "raw", "map", "map", "set", "sym"])
    pool, canon, gcanon = gen_pool(rng, mode)
    return Case(mode, pool, canon, gcanon, gen_ops(rng, mode, len(pool), maxlen))


# ----------------------------------------------------------------------------------------------- python spec oracle
SIG_ASSIGN_LIVE = "sym/n[assign]/live-iteration-instead-of-key-snapshot"


def oracle(case, ops=None, assign_live=False):
    """Insertion-ordered list keyed by class; returns expected tokens 'K<rep>:v<n>' etc. in model notation, plus
    per-op iterator kind (for masking).  `assign_live` replaces the spec semantics of the Object.assign iterator (key
    snapshot) by live orderedMap iteration; used only to classify a deviation, never as the judge."""
    ops = case.ops if ops is None else ops
    rep = [p[0] for p in case.pool]
    setmode = case.mode == "set"
    data = []            # [rep or None, val]
    its = {}             # slot -> [idx, done, kind]
    out = []
    def find(k):
        for i, (kk, _) in enumerate(data):
            if kk == k:
                return i
        return None
    def ent(i):
        return "K%d:%s" % (data[i][0], "-" if (setmode or data[i][1] is None) else "v%d" % data[i][1])
    for op in ops:
        c, rest = op[0], op[1:]
        try:
            if c == "s":
                k, v = rest.split(".")
                k, v = rep[int(k)], int(v)
                i = find(k)
                if i is None:
                    data.append([k, v])
                else:
                    data[i][1] = v
                out.append(("ok", None))
            elif c == "g":
                i = find(rep[int(rest)])
                out.append(("u" if (i is None or setmode) else "v%d" % data[i][1], None))
            elif c == "h":
                out.append(("t" if find(rep[int(rest)]) is not None else "f", None))
            elif c == "d":
                i = find(rep[int(rest)])
                if i is not None:
                    data[i] = [None, None]
                out.append(("t" if i is not None else "f", None))
            elif c == "c":
                if case.mode == "sym":
                    out.append(("err:unsupported", None))
                else:
                    data = [[None, None] for _ in data]
                    out.append(("ok", None))
            elif c == "z":
                out.append(("n%d" % sum(1 for kk, _ in data if kk is not None), None))
            elif c == "i":
                its[int(rest[0])] = [0, False, rest[1]]
                out.append(("ok", None))
            elif c == "n":
                j = int(rest)
                if j not in its:
                    out.append(("err:noiter", None))
                    continue
                it = its[j]
                if it[1]:
                    out.append(("done", it[2]))
                    continue
                if it[2] == "a" and not assign_live:
                    # Object.assign: [[OwnPropertyKeys]] snapshot when it starts; each key still present is visited with
                    # its current value; keys added meanwhile are not (ECMA-262 20.1.2.1 / 7.3.26 CopyDataProperties)
                    if len(it) == 3:
                        it.append([kk for kk, _ in data if kk is not None])
                    res = None
                    while it[3]:
                        kk = it[3].pop(0)
                        i = find(kk)
                        if i is not None:
                            res = ent(i)
                            break
                    if res is None:
                        it[1] = True
                        out.append(("done", "a"))
                    else:
                        out.append((res, "a"))
                    continue
                while it[0] < len(data) and data[it[0]][0] is None:
                    it[0] += 1
                if it[0] >= len(data):
                    it[1] = True
                    out.append(("done", it[2]))
                else:
                    out.append((ent(it[0]), it[2]))
                    it[0] += 1
            elif c == "x":
                j = int(rest)
                if j not in its:
                    out.append(("err:noiter", None))
                elif its[j][2] != "r":
                    out.append(("err:notraw", None))
                else:
                    its[j][1] = True
                    out.append(("ok", None))
            elif c == "e":
                out.append(("[" + "|".join(ent(i) for i in range(len(data)) if data[i][0] is not None) + "]",
                            {"G": "G", "S": "G", "M": "M", "F": "TF", "W": "TW"}.get(rest)))
            else:
                out.append(("err:op", None))
        except (ValueError, IndexError):
            out.append(("err:parse", None))
    return out


def expected_impl_token(case, tok, kind):
    """What the harness should print (after canon->K mapping) for oracle token `tok` produced by an iterator of `kind`."""
    if kind is None or tok in ("done",) or tok.startswith("err"):
        return tok
    if kind in ("TF", "TW"):
        # typed Go container: defined only when every live key is a number (F) / a string (W)
        pre = "n:" if kind == "TF" else "s:"
        items = tok[1:-1].split("|") if tok != "[]" else []
        outi = []
        for it in items:
            k, v = it.split(":")
            g = case.gcanon_of_rep[int(k[1:])]
            if not g.startswith(pre):
                return None
            outi.append(g + ":" + v)
        if case.mode == "map":
            return "{" + "|".join(sorted(outi)) + "}"
        return "[" + "|".join(outi) + "]"
    if kind == "M":
        # Go map: order lost, keys must have distinct primitive Go images, else the comparison is skipped (None)
        items = tok[1:-1].split("|") if tok != "[]" else []
        outi, seen = [], set()
        for it in items:
            k, v = it.split(":")
            g = case.gcanon_of_rep[int(k[1:])]
            if g in ("*", "nil") or g in seen:
                return None
            seen.add(g)
            outi.append(g + ":" + v)
        return "{" + "|".join(sorted(outi)) + "}"
    if kind == "G":
        items = tok[1:-1].split("|") if tok != "[]" else []
        outi = []
        for it in items:
            k, v = it.split(":")
            outi.append(case.gcanon_of_rep[int(k[1:])] + ":" + v)
        return "[" + "|".join(outi) + "]"
    k, v = tok.split(":")
    if case.mode == "map":
        if kind == "k":
            return k + ":*"
        if kind == "v":
            return "*:" + v
    return tok


KEYTOK = re.compile(r"(?<![A-Za-z0-9?])(n:[0-9a-f]{16}|n:nan|s:[0-9a-f]*|b:[01]|g:-?[0-9]+|nl|u|nil|c[0-9]+|o[0-9]+|o\?|y[0-9]+|y\?)(?=[:~])")

def map_keys(case, s):
    return KEYTOK.sub(lambda m: case.canon2k.get(m.group(1), "K?" + m.group(1)), s)


def split_out(line, nops):
    toks = line.split(" ") if line else []
    res, dumps, extra = [], [], []
    for t in toks:
        p = t.split("@")
        res.append(p[0])
        dumps.append(p[1] if len(p) > 1 else "")
        extra.append(p[2] if len(p) > 2 else "")
    return res, dumps, extra


# ----------------------------------------------------------------------------------------------- Inv on a real dump
def parse_dump(d):
    m = re.match(r"sz=(-?\d+),F=([^,]*),L=([^,]*),T=([^,]*),E=(.*)$", d)
    if not m:
        return None
    def o(x):
        return None if x == "-" else (int(x) if x.isdigit() else -1)
    ents = []
    if m.group(5):
        for e in m.group(5).split("_"):
            p = e.split("~")
            ents.append((None if p[0] == "x" else p[0], o(p[1]), o(p[2]), o(p[3])))
    heads = [int(x) if x.isdigit() else -1 for x in m.group(4).split(".")] if m.group(4) else []
    return {"sz": int(m.group(1)), "F": o(m.group(2)), "L": o(m.group(3)), "T": heads, "E": ents}


def check_inv(d, hash_of_key):
    """The invariant `Inv` of GojaModel.C18.Lemmas, evaluated on the real structure. Returns '' or a reason."""
    E, n = d["E"], len(d["E"])
    live = [e[0] is not None for e in E]
    def dead_between(a, b):
        return all(not live[k] for k in range(a + 1, b))
    for i, (k, pv, nx, hn) in enumerate(E):
        if pv is None:
            if any(live[:i]):
                return "P: entry %d has iterPrev nil but a live entry precedes it" % i
        else:
            if not (0 <= pv < i) or not dead_between(pv, i):
                return "P: entry %d iterPrev=%s is not the nearest candidate below" % (i, pv)
            if live[i] and not live[pv]:
                return "PL: live entry %d has dead iterPrev %d" % (i, pv)
        if live[i]:
            if nx is None:
                if any(live[i + 1:]):
                    return "Nx: live entry %d has iterNext nil but a live entry follows" % i
            elif not (i < nx < n) or not live[nx] or not dead_between(i, nx):
                return "Nx: live entry %d iterNext=%s is not the next live entry" % (i, nx)
    lives = [i for i in range(n) if live[i]]
    if d["F"] != (lives[0] if lives else None):
        return "F: iterFirst=%s, first live=%s" % (d["F"], lives[0] if lives else None)
    if d["L"] != (lives[-1] if lives else None):
        return "L: iterLast=%s, last live=%s" % (d["L"], lives[-1] if lives else None)
    if d["sz"] != len(lives):
        return "size=%d but %d live entries" % (d["sz"], len(lives))
    keys = [E[i][0] for i in lives]
    if len(set(keys)) != len(keys):
        return "K: duplicate live key"
    seen = set()
    for h in d["T"]:
        chain, cur, steps = [], h, 0
        while cur is not None and steps <= n:
            if not (0 <= cur < n) or not live[cur]:
                return "B: bucket chain reaches dead/unknown entry %s" % cur
            chain.append(cur)
            cur = E[cur][3]
            steps += 1
        if steps > n or any(a >= b for a, b in zip(chain, chain[1:])):
            return "B: bucket chain not strictly increasing %s" % chain
        if hash_of_key is not None and len({hash_of_key(E[c][0]) for c in chain}) != 1:
            return "B: bucket chain mixes hashes %s" % chain
        if seen & set(chain):
            return "B: entry in two buckets"
        seen |= set(chain)
    if seen != set(lives):
        return "B: live entries %s not reachable from the hash table" % sorted(set(lives) - seen)
    return ""


# ----------------------------------------------------------------------------------------------- running
def run_one(ctx, exe, line, timeout=60, retry=True):
    rc, out, err = ctx.run_lines([exe], [line], timeout=timeout)
    if not out and rc == 124 and retry:
        # a slow machine must not look like a hang: retry once with a long timeout before calling it one
        rc, out, err = ctx.run_lines([exe], [line], timeout=max(240, 4 * timeout))
    if out:
        return out[0]
    return "CRASH rc=%d %s" % (rc, "hang(timeout)" if rc == 124 else err[-200:].replace("\n", " "))


def run_sharded(ctx, exe, lines, shards=16, timeout=600):
    """Run `lines` through `exe` in parallel shards.  A shard that crashes or hangs (a broken iterator can make
    Array.from / forEach loop forever) is re-run line by line with a short timeout so that only the culprit lines are
    marked CRASH."""
    if not lines:
        return []
    shards = max(1, min(shards, len(lines) // 50 + 1))
    chunks = [lines[i::shards] for i in range(shards)]
    outs = [None] * shards
    def work(i):
        rc, out, err = ctx.run_lines([exe], chunks[i], timeout=timeout)
        return i, rc, out, err
    with cf.ThreadPoolExecutor(max_workers=shards) as ex:
        for i, rc, out, err in ex.map(work, range(shards)):
            if len(out) < len(chunks[i]):
                done = len(out)
                rest = chunks[i][done:]
                with cf.ThreadPoolExecutor(max_workers=16) as ex2:
                    out = out + list(ex2.map(lambda l: run_one(ctx, exe, l), rest))
            outs[i] = out
    res = [None] * len(lines)
    for i in range(shards):
        for k, o in enumerate(outs[i]):
            if i + k * shards < len(lines):
                res[i + k * shards] = o
    return res


def judge(case, impl_line, ops=None, assign_live=False):
    """Property oracle: compare the implementation's results with the spec oracle. Returns (index, expected, got) of the
    first observable disagreement or None."""
    ops = case.ops if ops is None else ops
    exp = oracle(case, ops, assign_live)
    if impl_line.startswith(("ERR", "PANIC", "CRASH")):
        return (0, "results", impl_line[:200])
    res, _, _ = split_out(impl_line, len(ops))
    for i in range(len(ops)):
        want = expected_impl_token(case, exp[i][0], exp[i][1])
        got = map_keys(case, res[i]) if i < len(res) else "<missing>"
        if exp[i][1] in ("M", "TF", "TW"):
            got = res[i] if i < len(res) else "<missing>"
            if want is None:
                if got.startswith(("{", "[", "exc:")):
                    continue
                want = "{...}"
        if exp[i][1] == "G":
            got = res[i] if i < len(res) else "<missing>"
            # exported keys without a primitive Go image (objects, symbols, bigints) are wildcards
            wi, gi = want[1:-1].split("|"), got[1:-1].split("|")
            if len(wi) == len(gi) and got.startswith("["):
                got = "[" + "|".join(("*:" + g.rsplit(":", 1)[1] if w.startswith("*:") and ":" in g else g) for w, g in zip(wi, gi)) + "]"
        if want != got:
            return (i, want, got)
    return None


def shape(t):
    return re.sub(r"\d+", "#", re.sub(r"[0-9a-f]{4,}", "H", t))[:40]


def signature(case, ops, bad):
    i, want, got = bad
    op = ops[i] if i < len(ops) else "?"
    opn = re.sub(r"[\d.]+", "", op)
    if op.startswith("n"):
        try:
            k = oracle(case, ops)[i][1]
            if k == "a":
                opn = "n[assign]"
        except Exception:
            pass
    return "%s/%s/exp=%s/got=%s" % (case.mode, opn, shape(want), shape(got))


def shrink_and_report(ctx, h, case, bad):
    crash = bad[1] == "results"
    def fails(ops):
        return judge(case, run_one(ctx, h, case.line(ops), timeout=30, retry=False), ops) is not None
    ops = list(case.ops) if crash else list(case.ops[:bad[0] + 1])
    try:
        if fails(ops):
            ops = ctx.ddmin(ops, fails)
    except Exception:
        pass
    out = run_one(ctx, h, case.line(ops), timeout=60)
    b2 = judge(case, out, ops) or bad
    sig = signature(case, ops, b2)
    if sig.startswith("sym/n[assign]/") and not out.startswith("CRASH") and judge(case, out, ops, assign_live=True) is None:
        # the only deviation is that Object.assign iterated the symbol table live instead of over a key snapshot
        sig = SIG_ASSIGN_LIVE
    exp = [t for t, _ in oracle(case, ops)]
    ctx.violation(sig, "%s: op %s expected %s, implementation gave %s (ops: %s)" % (case.mode, ops[b2[0]] if b2[0] < len(ops) else "?", b2[1], b2[2], " ".join(ops)),
                  {"kind": "history", "case": case.to_json(), "ops": ops, "line": case.line(ops), "expected": exp,
                   "observed": [map_keys(case, r) for r in split_out(out, len(ops))[0]] if not out.startswith("CRASH") else out})


def tie_diff():
    """Names of the pinned Go functions whose regenerated source differs from the text the model was transcribed from."""
    pat = re.compile(r'\("((?:[^"\\]|\\.)*)",\s*"((?:[^"\\]|\\.)*)"\)')
    def pairs(path):
        try:
            return dict(pat.findall(open(path).read()))
        except OSError:
            return {}
    g = pairs(os.path.join(LEAN, "GojaModel", "Generated", "C18_MapGo.lean"))
    e = pairs(os.path.join(LEAN, "GojaModel", "C18", "Tie.lean"))
    return sorted(k for k in set(g) | set(e) if g.get(k) != e.get(k))


def corpus_cases():
    d = os.path.join(ROOT, "corpus", "C18")
    out = []
    if os.path.isdir(d):
        for fn in sorted(os.listdir(d)):
            if fn.endswith(".json"):
                with open(os.path.join(d, fn)) as f:
                    for c in json.load(f)["cases"]:
                        out.append(Case.from_json(c))
    return out


N_THEOREMS = 24
N_THEOREMS2 = 10


def lake_build_retry(ctx, targets):
    """lake build; a failure that names no C18 source file (build-lock contention with another property's check, a
    dependency being rebuilt) is retried once after a pause instead of being reported."""
    import time
    n_obl, n_br = len(ctx.obligations), len(ctx.broken)
    ok, errs = ctx.lake_build(targets)
    if not ok and not any("C18" in (e.get("file") or "") for e in errs):
        del ctx.obligations[n_obl:]
        del ctx.broken[n_br:]
        time.sleep(30)
        ok, errs = ctx.lake_build(targets)
    return ok, errs


def main(ctx):
    quick = ctx.tier == "quick"
    ok, errs = lake_build_retry(ctx, ["GojaModel.C18.Props", "model_c18"])
    # tie to the Go text: regenerate the canonical source of the transcribed functions and compare inside Lean
    if ctx.regen():
        tok, terrs = lake_build_retry(ctx, ["GojaModel.C18.Tie"])
        if tok:
            ctx.audit("GojaModel.C18.Tie", expect_min=1)
        else:
            changed = tie_diff()
            ctx.stats["tie_changed_functions"] = changed
            ctx.log("tie broken; transcribed Go functions whose source changed:", ", ".join(changed) or "?")
    if ok:
        ctx.audit("GojaModel.C18.Props", expect_min=N_THEOREMS)
        if not quick:
            ctx.leanchecker("GojaModel.C18.Props")
        # part 2 (representation-level refinement); built separately so that it can never mask part 1
        ok2, _ = lake_build_retry(ctx, ["GojaModel.C18.Props2"])
        if ok2:
            ctx.audit("GojaModel.C18.Props2", expect_min=N_THEOREMS2)
            if not quick:
                ctx.leanchecker("GojaModel.C18.Props2")
    model = ctx.model_exe() if os.path.exists(ctx.model_exe()) and ok else None
    h = ctx.go_build()
    if h is None:
        return ctx.finish(level="proof", rule="harness did not build")
    rc, out, _ = ctx.run_lines([h], ["ping"])
    if out != ["pong"]:
        ctx.obligation("tie.harness.ping", "tie", False, str(out)[:200])
        return ctx.finish(level="proof", rule="harness does not answer")

    rng = ctx.rng
    cases = corpus_cases()
    ncorp = len(cases)
    ngen = 2000 if quick else 40000
    for i in range(ngen):
        cases.append(gen_case(rng, maxlen=40 if i % 10 else 120))
    lines = [c.line() for c in cases]
    ctx.log("running %d cases (%d corpus)" % (len(cases), ncorp))
    impl = run_sharded(ctx, h, lines, timeout=300 if quick else 1200)
    mod = run_sharded(ctx, model, lines, shards=8) if model else [None] * len(lines)

    stats = {"modes": {}, "ops": {}, "iter_kinds": {}, "len_hist": {}, "collision_cases": 0, "clear_during_iter": 0,
             "delete_during_iter": 0, "insert_during_iter": 0, "max_chain": 0, "max_entries": 0}
    n_state_bad = n_spec_bad = n_inv_bad = n_viol = n_known = 0
    first_state = first_inv = first_spec = None
    for ci, case in enumerate(cases):
        ops = case.ops
        ctx.count(1)
        stats["modes"][case.mode] = stats["modes"].get(case.mode, 0) + 1
        stats["len_hist"][str(len(ops) // 10 * 10)] = stats["len_hist"].get(str(len(ops) // 10 * 10), 0) + 1
        live_it, mut_under_iter = set(), set()
        for op in ops:
            stats["ops"][op[0]] = stats["ops"].get(op[0], 0) + 1
            if op[0] == "i":
                stats["iter_kinds"][op[2]] = stats["iter_kinds"].get(op[2], 0) + 1
                live_it.add(op[1])
            elif op[0] in "sdc" and live_it:
                mut_under_iter.add(op[0])
            elif op[0] == "n" and mut_under_iter:
                mut_under_iter.add("n")
        if "n" in mut_under_iter:
            ctx.nontriv(lines[ci])
            for k, name in (("c", "clear_during_iter"), ("d", "delete_during_iter"), ("s", "insert_during_iter")):
                if k in mut_under_iter:
                    stats[name] += 1
        if ci < 3 or (ci - ncorp) in (0, 1, 2):
            ctx.sample({"line": lines[ci][:600], "impl": (impl[ci] or "")[:300]})
        # 1. property: implementation vs spec oracle
        bad = judge(case, impl[ci] or "CRASH")
        if bad is not None:
            if (case.mode == "sym" and ctx.known_signature(SIG_ASSIGN_LIVE) and not (impl[ci] or "CRASH").startswith("CRASH")
                    and judge(case, impl[ci], assign_live=True) is None):
                # known finding: exactly the live-instead-of-snapshot deviation of Object.assign; shrink the first one only
                n_known += 1
                if n_known == 1:
                    shrink_and_report(ctx, h, case, bad)
                continue
            n_viol += 1
            if n_viol <= 3:
                shrink_and_report(ctx, h, case, bad)
            continue
        ires, idumps, _ = split_out(impl[ci], len(ops))
        # 2. Inv on the real structure after every op
        hk = {}
        for r, hh, _ in case.pool:
            hk["K%d" % r] = case.pool[r][1]
        collided = False
        for oi, dmp in enumerate(idumps):
            pd = parse_dump(map_keys(case, dmp)) if dmp and dmp != "nodump" else None
            if pd is None:
                n_inv_bad += 1
                first_inv = first_inv or (ci, oi, "unparsable dump " + dmp[:80])
                break
            why = check_inv(pd, (lambda k: hk.get(k)) if case.mode == "raw" else None)
            if why:
                n_inv_bad += 1
                first_inv = first_inv or (ci, oi, why)
                break
            stats["max_entries"] = max(stats["max_entries"], len(pd["E"]))
            if any(e[3] is not None and e[0] is not None for e in pd["E"]):
                collided = True
        if collided:
            stats["collision_cases"] += 1
        # 3. state-for-state against the Lean mechanism model; Lean spec model against the python oracle
        if mod[ci] is not None:
            mres, mdumps, msres = split_out(mod[ci], len(ops))
            exp = oracle(case)
            for oi in range(len(ops)):
                e = exp[oi][0]
                if oi >= len(mres) or mres[oi] != e or msres[oi] != e:
                    if not (e.startswith("err") and oi < len(mres) and mres[oi].startswith("err")):
                        n_spec_bad += 1
                        first_spec = first_spec or (ci, oi, "oracle %s, lean mechanism %s, lean spec %s" % (e, mres[oi] if oi < len(mres) else None, msres[oi] if oi < len(msres) else None))
                        break
            for oi in range(len(ops)):
                a = map_keys(case, idumps[oi]) if oi < len(idumps) else None
                b = mdumps[oi] if oi < len(mdumps) else None
                if a != b:
                    n_state_bad += 1
                    first_state = first_state or (ci, oi, "impl %s | model %s" % (a, b))
                    break
    ctx.stats.update(stats)
    ctx.stats["cases"] = len(cases)
    ctx.stats["result_mismatch_cases"] = n_viol

    def where(f):
        ci, oi, why = f
        return "case %d op %d (%s): %s ; line: %s" % (ci, oi, cases[ci].ops[oi] if oi < len(cases[ci].ops) else "?", why[:500], lines[ci][:700])
    ctx.stats["known_finding_cases"] = n_known
    ctx.obligation("corr:results-equal-spec-oracle", "correspondence", n_viol == 0,
                   "%d cases disagree (+%d cases showing only the known Object.assign symbol-snapshot finding)" % (n_viol, n_known))
    ctx.obligation("corr:inv-holds-on-real-structure", "correspondence", n_inv_bad == 0, where(first_inv) if first_inv else "Inv checked after every op")
    if model:
        ctx.obligation("corr:state-for-state-vs-lean-mechanism", "correspondence", n_state_bad == 0, where(first_state) if first_state else "all dumps equal")
        ctx.obligation("corr:lean-models-vs-python-oracle", "correspondence", n_spec_bad == 0, where(first_spec) if first_spec else "all results equal")
    # A broken white-box obligation without an observable failure: search continuations of the offending prefix.
    if n_viol == 0 and (first_inv or first_state):
        ci, oi, _ = first_inv or first_state
        base = cases[ci]
        found = False
        ext_cases = []
        for t in range(3000):
            ext = gen_ops(rng, base.mode, len(base.pool), 40)
            ext_cases.append(Case(base.mode, base.pool, base.canon_of_rep, base.gcanon_of_rep, base.ops[:oi + 1] + ext))
        outs = run_sharded(ctx, h, [c.line() for c in ext_cases])
        for c, o in zip(ext_cases, outs):
            bad = judge(c, o or "CRASH")
            if bad is not None:
                shrink_and_report(ctx, h, c, bad)
                found = True
                break
        ctx.stats["continuation_search"] = {"tried": len(ext_cases), "found": found}
    ctx.assumptions += [
        "hash/maphash is treated as an arbitrary function of the bytes written (collisions between distinct real keys are not exercised at JS level; the raw mode forces collisions with synthetic keys)",
        "keys are compared through the harness canonicaliser (IEEE bits, UTF-16 units, pointer identity), which is independent of goja's SameAs/hash",
    ]
    ctx.trusted_base += ["/repo/verif_hooks_c18.go registry numbering entries in first-seen (= allocation) order",
                         "python oracle and Inv checker in run/c18.py"]
    return ctx.finish(level="proof", rule="one case = key pool (12 keys, SameValueZero-equal pairs in different representations, forced hash "
                      "collisions in raw mode) + op history (<=40, every 10th <=120) on raw orderedMap / Map / Set / object symbol table with "
                      "<=3 live iterators; non-trivial = an iterator is advanced after a set/delete/clear that happened while it was live; "
                      "distinct = distinct input line")


def replay(ctx, path):
    with open(path) as f:
        r = json.load(f)
    if r.get("kind") == "broken-obligation":
        print(json.dumps(r, indent=1))
        return 1
    case = Case.from_json(r["case"])
    ops = r["ops"]
    h = ctx.go_build()
    line = case.line(ops)
    print("line:     ", line)
    exp = [t for t, _ in oracle(case, ops)]
    print("expected: ", " ".join(exp))
    out = [run_one(ctx, h, line, timeout=30)]
    res = split_out(out[0] if out else "", len(ops))[0]
    print("observed: ", " ".join(map_keys(case, x) for x in res))
    if os.path.exists(ctx.model_exe()):
        mo = ctx.run_lines([ctx.model_exe()], [line])[1]
        print("lean mech:", " ".join(split_out(mo[0] if mo else "", len(ops))[0]))
    bad = judge(case, out[0] if out else "CRASH", ops)
    print("verdict:  ", "VIOLATION at op %d: expected %s got %s" % bad if bad else "no disagreement")
    return 1 if bad else 0
