#!/usr/bin/env python3
"""
seedtest — run a property's check against a seeded breaking change (mutation rehearsal).

  run/seedtest.py <Cnn> <dir-with-patch.diff> [quick|thorough] [--inplace]

Default: builds a scratch worktree of /repo under /tmp, copies the (possibly untracked) hook files
/repo/verif_hooks_*.go into it, applies patch.diff, runs `VERIF_REPO=<worktree> ./check Cnn <tier>`,
prints the outcome and removes the worktree.  With --inplace the patch is applied to /repo itself
(git -C /repo apply) and undone straight afterwards (git -C /repo apply -R) — use only when nothing
else is building against /repo.
Exit status: 0 if the check reported a VIOLATION (mutation caught), 3 if it did not (missed), 2 on set-up errors.
"""
import os, subprocess, sys, shutil, glob, json, time

ROOT = os.path.dirname(os.path.dirname(os.path.abspath(__file__)))


def run(cmd, **kw):
    return subprocess.run(cmd, stdout=subprocess.PIPE, stderr=subprocess.STDOUT, text=True, **kw)


def main():
    args = [a for a in sys.argv[1:] if not a.startswith("--")]
    inplace = "--inplace" in sys.argv
    if len(args) < 2:
        print(__doc__)
        return 2
    prop, pdir = args[0].upper(), os.path.abspath(args[1])
    tier = args[2] if len(args) > 2 else "quick"
    patch = pdir if pdir.endswith(".diff") else os.path.join(pdir, "patch.diff")
    if not os.path.exists(patch):
        print("no patch at", patch)
        return 2
    env = dict(os.environ)
    env.setdefault("VERIF_SEED", "1")
    t0 = time.time()
    if inplace:
        r = run(["git", "-C", "/repo", "apply", patch])
        if r.returncode != 0:
            print("patch does not apply:", r.stdout)
            return 2
        try:
            r = run([os.path.join(ROOT, "check"), prop, tier], cwd=ROOT, env=env)
        finally:
            run(["git", "-C", "/repo", "apply", "-R", patch])
    else:
        wt = "/tmp/seed-%s-%d" % (prop, os.getpid())
        r = run(["git", "-C", "/repo", "worktree", "add", "-q", "--detach", wt, "HEAD"])
        if r.returncode != 0:
            print("worktree:", r.stdout)
            return 2
        try:
            for f in glob.glob("/repo/verif_hooks*.go"):
                shutil.copy(f, wt)
            r = run(["git", "-C", wt, "apply", patch])
            if r.returncode != 0:
                print("patch does not apply:", r.stdout)
                return 2
            env["VERIF_REPO"] = wt
            r = run([os.path.join(ROOT, "check"), prop, tier], cwd=ROOT, env=env)
        finally:
            run(["git", "-C", "/repo", "worktree", "remove", "--force", wt])
            shutil.rmtree(wt, ignore_errors=True)
    out = r.stdout
    viol = [l for l in out.splitlines() if l.startswith("VIOLATION")]
    caught = r.returncode == 1 and bool(viol)
    concrete = [l for l in viol if not l.rstrip().endswith("no-failing-input-found")]
    print("\n".join(out.splitlines()[-25:]))
    res = {"property": prop, "patch": patch, "tier": tier, "caught": caught, "concrete_replay": bool(concrete),
           "violation_lines": viol, "exit": r.returncode, "wall_s": round(time.time() - t0, 1)}
    print("SEEDTEST " + json.dumps(res))
    return 0 if caught else 3


if __name__ == "__main__":
    sys.exit(main())
