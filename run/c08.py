"""
C08 — abrupt exits run each pending finally and iterator close exactly once, in order.

Check = Lean theorems about the reference semantics `exec` (GojaModel.C08.Props) + three ties to /repo:
  corr:behaviour   goja (instrumented JS) vs refSem: event log and final completion, every generated program,
                   modes F (function), S (script, completion value), G (generator return()/throw() injection),
                   A (async function: await before every log and at every try/catch/finally entry)
  corr:skeleton    real compiler dump of f (non-control instructions erased, jumps renormalised) vs compileCF
  corr:vm-vs-ref   model-internal: mini-VM on compileCF output vs refSem (what compileCF_correct states)
  corr:sites       built-in iteration sites vs the spec's IteratorClose rule (python oracle)
  corr:fatal       stack overflow / interrupt run no finally and no return()
Programs are nested tuples; `toks` prints the prefix token form read by the Lean driver, `tojs` the JavaScript.
"""
import os, sys, json, itertools, time
from concurrent.futures import ThreadPoolExecutor
from vlib import *

# ----------------------------------------------------------------------------- program syntax
# ('skip',) ('log',k) ('seq',a,b) ('brk',l|None) ('cont',l|None) ('ret',v) ('thr',v) ('fatal',)
# ('try',i,b,hasC,c,hasF,f) ('loop',kind,id,n,body) kind in w d f i   ('forof',id,n,nt|None,rm,body) rm in o t n
# ('lbl',l,s) ('sw',u,k,s0,s1) ('with',s) ('blk',s) ('if',m,s)

def optl(l):
    return '-' if l is None else str(l)

def toks(s):
    t = s[0]
    if t in ('skip', 'fatal'):
        return t
    if t in ('log', 'ret', 'thr'):
        return '%s %d' % (t, s[1])
    if t in ('brk', 'cont'):
        return '%s %s' % (t, optl(s[1]))
    if t == 'seq':
        return 'seq %s %s' % (toks(s[1]), toks(s[2]))
    if t == 'try':
        return 'try %d %s %d %s %d %s' % (s[1], toks(s[2]), 1 if s[3] else 0, toks(s[4]), 1 if s[5] else 0, toks(s[6]))
    if t == 'loop':
        return 'loop %s %d %d %s' % (s[1], s[2], s[3], toks(s[4]))
    if t == 'forof':
        return 'forof %d %d %s %s %s' % (s[1], s[2], optl(s[3]), s[4], toks(s[5]))
    if t == 'lbl':
        return 'lbl %d %s' % (s[1], toks(s[2]))
    if t == 'sw':
        return 'sw %d %d %s %s' % (1 if s[1] else 0, s[2], toks(s[3]), toks(s[4]))
    if t in ('with', 'blk'):
        return '%s %s' % (t, toks(s[1]))
    if t == 'if':
        return 'if %d %s' % (s[1], toks(s[2]))
    raise ValueError(s)


class JS:
    """JavaScript translation.  mode F|S|G|A; fatal 'o' (stack overflow) | 'i' (interrupt);
    deco: variant bits for decorations the reference semantics does not see (let-loops, closures)."""

    def __init__(self, mode, fatal='o', deco=0):
        self.mode, self.fatal, self.deco = mode, fatal, deco
        self.ids = set([0])

    def st(self, s, cur):
        t = s[0]
        if t == 'skip':
            return ''
        if t == 'log':
            return ('await 0; log(%d);' % s[1]) if self.mode == 'A' else 'log(%d);' % s[1]
        if t == 'seq':
            return (self.st(s[1], cur) + ' ' + self.st(s[2], cur)).strip()
        if t == 'brk':
            return 'break;' if s[1] is None else 'break L%d;' % s[1]
        if t == 'cont':
            return 'continue;' if s[1] is None else 'continue L%d;' % s[1]
        if t == 'ret':
            return ("yield ['r', %d];" % s[1]) if self.mode == 'G' else 'return %d;' % s[1]
        if t == 'thr':
            return ("yield ['t', %d];" % s[1]) if (self.mode == 'G' and s[1] % 2 == 0) else 'throw %d;' % s[1]
        if t == 'fatal':
            return 'so();' if self.fatal == 'o' else 'si();'
        if t == 'try':
            _, i, b, hasC, c, hasF, f = s
            # instrumentation uses `var _t = log(..)` (a VariableStatement: empty completion value)
            aw = 'await 0; ' if self.mode == 'A' else ''
            out = 'try { %s%s%s }' % (("var _t = log('T%d'); " % i) if hasF else '', aw, self.st(b, cur))
            if hasC:
                out += " catch (e) { var _t = log('C%d:'+cv(e)); %s%s }" % (i, aw, self.st(c, cur))
            if hasF:
                out += " finally { var _t = log('F%d'); %s%s }" % (i, aw, self.st(f, cur))
            return out
        if t == 'loop':
            return self.loop(s, cur, None)
        if t == 'forof':
            return self.forof(s, cur, None)
        if t == 'lbl':
            if s[2][0] == 'loop':
                return self.loop(s[2], cur, s[1])
            if s[2][0] == 'forof':
                return self.forof(s[2], cur, s[1])
            return 'L%d: { %s }' % (s[1], self.st(s[2], cur))
        if t == 'sw':
            sel = ('c%d' % cur) if s[1] else str(s[2])
            return 'switch (%s) { case 0: %s case 1: %s }' % (sel, self.st(s[3], cur), self.st(s[4], cur))
        if t == 'with':
            return 'with (wo) { %s }' % self.st(s[1], cur)
        if t == 'blk':
            if self.deco & 1:
                return '{ let z = 0; var _f = function(){ return z; }; %s }' % self.st(s[1], cur)
            return '{ let z = 0; %s }' % self.st(s[1], cur)
        if t == 'if':
            return 'if (c%d === %d) { %s }' % (cur, s[1], self.st(s[2], cur))
        raise ValueError(s)

    def loop(self, s, cur, label):
        _, kind, id_, n, body = s
        self.ids.add(id_)
        lab = ('L%d: ' % label) if label is not None else ''
        b = self.st(body, id_)
        c = 'c%d' % id_
        if kind == 'w':
            return 'var %s = -1; %swhile (++%s < %d) { %s }' % (c, lab, c, n, b)
        if kind == 'd':
            return 'var %s = 0; %sdo { %s } while (++%s < %d);' % (c, lab, b, c, n)
        if kind == 'f':
            if self.deco & 2:
                # lexical loop variable (blockIterScope / copyStash path); the body sees it through c
                return '%sfor (let q = 0; q < %d; q++) { var %s = q; var _f = function(){ return q; }; %s }' % (lab, n, c, b)
            return '%sfor (%s = 0; %s < %d; %s++) { %s }' % (lab, c, c, n, c, b)
        if kind == 'l':
            # lexical head declaration captured by a closure: per-iteration scope (blockIterScope, copyStash)
            return '%sfor (let q%d = 0; q%d < %d; q%d++) { var %s = q%d; var _f = function(){ return q%d; }; %s }' % (lab, id_, id_, n, id_, c, id_, id_, b)
        if kind == 'i':
            return '%sfor (k%d in mkObj(%d)) { var %s = +k%d; %s }' % (lab, id_, n, c, id_, b)
        raise ValueError(s)

    def forof(self, s, cur, label):
        _, id_, n, nt, rm, body = s
        self.ids.add(id_)
        lab = ('L%d: ' % label) if label is not None else ''
        b = self.st(body, id_)
        src = "mkIt(%d, %d, %d, '%s')" % (id_, n, -1 if nt is None else nt, rm.lower())
        if rm.isupper():
            # `for (let x of ..)` with a closure capturing x: head scope + per-iteration scope
            return '%sfor (let x%d of %s) { var c%d = x%d; var _f = function(){ return x%d; }; %s }' % (lab, id_, src, id_, id_, id_, b)
        if self.deco & 4:
            return '%sfor (let x of %s) { var c%d = x; var _f = function(){ return x; }; %s }' % (lab, src, id_, b)
        return '%sfor (c%d of %s) { %s }' % (lab, id_, src, b)

    def program(self, s):
        body = self.st(s, 0)
        decl = 'var ' + ', '.join(['c%d = 0' % i if i == 0 else 'c%d, k%d' % (i, i) for i in sorted(self.ids)]) + ';'
        if self.mode == 'S':
            return decl + ' ' + body
        if self.mode == 'G':
            return 'function* f(){ %s %s }' % (decl, body)
        if self.mode == 'A':
            # async function: an `await` (a suspension + resumption through the job queue) before every log and at
            # the entry of every try / catch / finally block; the reference semantics is that of a plain function
            return 'async function f(){ %s %s }' % (decl, body)
        return 'function f(){ %s %s }' % (decl, body)


def tojs(s, mode, fatal='o', deco=0):
    return JS(mode, fatal, deco).program(s)

# ----------------------------------------------------------------------------- well-formedness / features

def has(s, tag):
    if s[0] == tag:
        return True
    return any(isinstance(x, tuple) and has(x, tag) for x in s[1:])


def depth(s):
    subs = [depth(x) for x in s[1:] if isinstance(x, tuple)]
    return 1 + max(subs) if subs else 0

# ----------------------------------------------------------------------------- generators
# A context = (labels: tuple of (label, isLoop), inLoop, inBreakable, nextId) threaded through the chain builder.

class Ctx0:
    def __init__(self, labels=(), in_loop=False, in_brk=False):
        self.labels, self.in_loop, self.in_brk = labels, in_loop, in_brk

    def loop(self, label=None):
        labels = self.labels + (((label, True),) if label is not None else ())
        return Ctx0(labels, True, True)

    def sw(self):
        return Ctx0(self.labels, self.in_loop, True)

    def lbl(self, label):
        return Ctx0(self.labels + ((label, False),), self.in_loop, self.in_brk)


def leaves(cx, mode, fatal=False):
    """an abrupt (or normal) completion of each kind that is legal at this position"""
    if fatal:
        return [('fatal',)]
    out = [('log', 9), ('thr', 6)]
    if mode == 'G':
        out.append(('thr', 3))       # a plain throw statement (even values are injected with gen.throw())
    if mode != 'S':
        out.append(('ret', 5))
    if cx.in_brk:
        out.append(('brk', None))
    if cx.in_loop:
        out.append(('cont', None))
    for (l, is_loop) in cx.labels:
        out.append(('brk', l))
        if is_loop:
            out.append(('cont', l))
    return out


def overrides(cx, mode):
    """what a finally block may itself do (completion overriding)"""
    out = [('thr', 8)]
    if mode != 'S':
        out.append(('ret', 8))
    if cx.in_brk:
        out.append(('brk', None))
    if cx.in_loop:
        out.append(('cont', None))
    for (l, is_loop) in cx.labels[:1]:
        out.append(('brk', l))
    return out


def levels(cx, d, mode, width):
    """one nesting level: yields (builder, ctx for the hole).  builder(hole_stmt) -> stmt.
    d = remaining depth index, used to derive unique ids/labels.
    width 0 = core alphabet, 1 = narrow, 2 = wide."""
    i = 10 + d          # try id
    lid = 20 + d        # loop counter id
    lab = 30 + d        # label
    L = ('log', d + 1)
    T = ('thr', 7)
    narrow, wide = width >= 1, width >= 2
    yield (lambda h: ('try', i, h, True, L, False, ('skip',))), cx
    yield (lambda h: ('try', i, ('seq', L, T), True, h, False, ('skip',))), cx
    yield (lambda h: ('try', i, h, False, ('skip',), True, L)), cx
    yield (lambda h: ('try', i, L, False, ('skip',), True, h)), cx
    yield (lambda h: ('try', i, h, True, L, True, ('log', d + 40))), cx
    yield (lambda h: ('try', i, T, True, h, True, L)), cx
    yield (lambda h: ('try', i, T, True, L, True, h)), cx
    if narrow and mode != 'S':
        yield (lambda h: ('try', i, ('ret', 4), False, ('skip',), True, h)), cx      # finally entered by a pending return
    ovs = overrides(cx, mode)
    for k, ov in enumerate(ovs if narrow else ovs[2:3]):
        yield (lambda h, ov=ov: ('try', i, h, False, ('skip',), True, ov)), cx
        if wide or (narrow and k == 0):
            yield (lambda h, ov=ov: ('try', i, h, True, L, True, ('seq', L, ov))), cx
    if wide:
        yield (lambda h: ('try', i, L, True, L, True, h)), cx
    kinds = ['w', 'd', 'f', 'i'] if narrow else ['w']
    for k in kinds:
        yield (lambda h, k=k: ('loop', k, lid, 2, ('seq', h, L))), cx.loop()
        if wide or k in ('w', 'f'):
            yield (lambda h, k=k: ('lbl', lab, ('loop', k, lid, 2, ('seq', h, L)))), cx.loop(lab)
    if not narrow:
        yield (lambda h: ('lbl', lab, ('loop', 'f', lid, 2, ('seq', h, L)))), cx.loop(lab)
    # loops with a lexical head declaration captured by a closure (per-iteration scope blocks)
    yield (lambda h: ('loop', 'l', lid, 2, ('seq', h, L))), cx.loop()
    yield (lambda h: ('forof', lid, 2, None, 'O', ('seq', h, L))), cx.loop()
    if narrow:
        yield (lambda h: ('lbl', lab, ('loop', 'l', lid, 2, ('seq', h, L)))), cx.loop(lab)
        yield (lambda h: ('lbl', lab, ('forof', lid, 2, None, 'O', ('seq', h, L)))), cx.loop(lab)
        yield (lambda h: ('forof', lid, 2, None, 'T', ('seq', h, L))), cx.loop()
    if narrow:
        yield (lambda h: ('loop', 'w', lid, 3, ('seq', L, ('if', 1, h)))), cx.loop()
    yield (lambda h: ('forof', lid, 2, None, 'o', ('seq', h, L))), cx.loop()
    yield (lambda h: ('lbl', lab, ('forof', lid, 2, None, 'o', ('seq', h, L)))), cx.loop(lab)
    yield (lambda h: ('forof', lid, 2, None, 't', ('seq', h, L))), cx.loop()
    if narrow:
        yield (lambda h: ('forof', lid, 3, None, 'o', ('seq', L, ('if', 1, h)))), cx.loop()
        yield (lambda h: ('forof', lid, 2, None, 'n', ('seq', h, L))), cx.loop()
        yield (lambda h: ('forof', lid, 3, 1, 'o', ('seq', h, L))), cx.loop()
    if wide:
        yield (lambda h: ('forof', lid, 3, 1, 't', ('seq', L, ('if', 0, h)))), cx.loop()
        yield (lambda h: ('forof', lid, 0, None, 'o', h)), cx.loop()
        yield (lambda h: ('forof', lid, 2, 0, 'o', h)), cx.loop()
    yield (lambda h: ('sw', False, 0, h, L)), cx.sw()
    if narrow:
        yield (lambda h: ('sw', False, 1, L, ('seq', h, L))), cx.sw()
        if cx.in_loop:
            yield (lambda h: ('sw', True, 0, ('seq', L, h), ('log', d + 50))), cx.sw()
    yield (lambda h: ('with', ('seq', h, L))), cx
    yield (lambda h: ('blk', ('seq', h, L))), cx
    yield (lambda h: ('lbl', lab, ('seq', h, L))), cx.lbl(lab)


def chains(d, mode, width, cx=None, fatal=False):
    """all nesting chains of exactly d levels with every legal leaf in the innermost hole"""
    cx = cx or Ctx0()
    if d == 0:
        for lf in leaves(cx, mode, fatal):
            yield lf
        return
    for (build, cx2) in levels(cx, d, mode, width):
        for inner in chains(d - 1, mode, width, cx2, fatal):
            yield build(inner)


def rand_stmt(rng, d, cx, mode, st):
    """random program of depth <= d from the full grammar; st = {'n': counter, 'fatal': prob} for unique ids"""
    def leaf():
        ls = leaves(cx, mode)
        r = rng.random()
        if r < st.get('fatal', 0.0):
            return ('fatal',)
        if r < 0.45:
            return ('log', rng.randint(1, 9))
        x = rng.choice(ls)
        if x[0] == 'ret':
            return ('ret', rng.randint(1, 9))      # distinct values: an abandoned return must not leak its value
        return x
    if d == 0:
        return leaf()
    st['n'] += 1
    n = st['n']
    r = rng.random()
    sub = lambda c=cx, dd=d - 1: rand_stmt(rng, rng.randint(0, dd), c, mode, st)
    if r < 0.22:
        return ('seq', sub(), sub())
    if r < 0.50:
        hasC = rng.random() < 0.6
        hasF = rng.random() < 0.7 or not hasC
        return ('try', n, sub(), hasC, sub() if hasC else ('skip',), hasF, sub() if hasF else ('skip',))
    if r < 0.64:
        k = rng.choice('wdfil')
        cnt = rng.choice([0, 1, 2, 3])
        if rng.random() < 0.4:
            return ('lbl', 100 + n, ('loop', k, n, cnt, sub(cx.loop(100 + n))))
        return ('loop', k, n, cnt, sub(cx.loop()))
    if r < 0.80:
        cnt = rng.choice([0, 1, 2, 3])
        nt = rng.choice([None, None, None, 0, 1, 2])
        rm = rng.choice('ooootnOOT')
        if rng.random() < 0.4:
            return ('lbl', 100 + n, ('forof', n, cnt, nt, rm, sub(cx.loop(100 + n))))
        return ('forof', n, cnt, nt, rm, sub(cx.loop()))
    if r < 0.86:
        return ('lbl', 100 + n, sub(cx.lbl(100 + n)))
    if r < 0.91:
        u = cx.in_loop and rng.random() < 0.6
        return ('sw', u, rng.choice([0, 1, 2]), sub(cx.sw()), sub(cx.sw()))
    if r < 0.94:
        return ('with', sub())
    if r < 0.97:
        return ('blk', sub())
    return ('if', rng.choice([0, 1, 2]), sub())

# ----------------------------------------------------------------------------- skeleton normalisation

KEEP = {'copyStash', 'try', 'leaveTry', 'enterFinally', 'leaveFinally', 'jump', 'jneP', 'jeqP', 'jne', 'jeq', 'iterateP', 'iterNext',
        'enumPop', 'enumPopClose', 'enumerate', 'enumNext', 'enterWith', 'leaveWith', 'enterBlock', 'leaveBlock',
        'ret', 'throw', 'NOP'}
RENAME = {'enterCatchBlock': 'enterBlock', '<nil>': 'NOP'}
JUMPS = {'jump', 'jneP', 'jeqP', 'jne', 'jeq', 'iterNext', 'enumNext'}


def skeleton(listing, model):
    """erase non-control instructions, re-express jump/try targets as indices into the kept list"""
    ins = []
    for it in listing.split(';'):
        f = it.split()
        if not f:
            continue
        name = RENAME.get(f[0], f[0])
        ins.append((name, [int(x) for x in f[1:]]))
    keep = [(not n.startswith('.')) if model else (n in KEEP) for (n, _) in ins]
    newidx, k = [], 0
    for flag in keep:
        newidx.append(k)
        if flag:
            k += 1
    newidx.append(k)

    def tgt(pc):
        pc = max(0, min(pc, len(ins)))
        return newidx[pc]
    out = []
    for pc, ((n, ops), flag) in enumerate(zip(ins, keep)):
        if not flag:
            continue
        if n in JUMPS:
            out.append('%s->%d' % (n, tgt(pc + ops[0])))
        elif n == 'try':
            c = tgt(pc + ops[0]) if ops[0] > 0 else -1
            fpos = tgt(pc + ops[1]) if ops[1] > 0 else -1
            out.append('try(%d,%d)' % (c, fpos))
        else:
            out.append(n)
    # the function prologue/epilogue of the real compiler is outside the statement code
    return out

# ----------------------------------------------------------------------------- built-in iteration sites (spec oracle)

SITES = ['spread', 'arrspread', 'destr', 'destr_rest', 'destr_elision', 'arrayfrom', 'promiseall', 'promiserace', 'map', 'set',
         'weakmap', 'weakset', 'yieldstar', 'fromentries', 'allsettled', 'promiseany', 'typedarray', 'destr_default', 'destr_assign_setter']

# ----------------------------------------------------------------------------- running

def run_sharded(ctx, cmd, lines, shards=14, timeout=1200):
    if not lines:
        return []
    n = max(1, min(shards, (len(lines) + 199) // 200))
    size = (len(lines) + n - 1) // n
    parts = [lines[i:i + size] for i in range(0, len(lines), size)]

    def one(part):
        rc, out, err = ctx.run_lines(cmd, part, timeout=timeout)
        if len(out) != len(part):
            out = out + ['NO-OUTPUT rc=%s %s' % (rc, err[-200:].replace('\n', ' '))] * (len(part) - len(out))
        return out
    with ThreadPoolExecutor(max_workers=len(parts)) as ex:
        res = list(ex.map(one, parts))
    return [x for part in res for x in part]


def py_oracle_available():
    return True

# ----------------------------------------------------------------------------- the check

Q4 = 'compiler-panic-dead-code-after-branch-statement'
Q5 = 'script-completion-value-not-reset'
Q6 = 'generator-returning-slot-clobbered-by-abandoned-return'
Q7 = 'generator-return-then-native-throw-caught-inside-generator'


def split_try(s):
    """try B catch C finally F  ==>  try { try B catch C } finally F   (same reference semantics:
    theorem try_split); goja then uses two frames, which avoids defect Q1."""
    if not isinstance(s, tuple):
        return s
    s = tuple(split_try(x) for x in s)
    if s[0] == 'try' and s[3] and s[5]:
        return ('try', s[1], ('try', s[1], s[2], True, s[4], False, ('skip',)), False, ('skip',), True, s[6])
    return s


def trim_after_fatal(out):
    """drop R<j> events after the '!' event (defect Q2); returns None if anything else follows"""
    if ' | ' not in out:
        return None
    c, log = out.split(' | ', 1)
    ev = log.split()
    if '!' not in ev:
        return None
    k = ev.index('!')
    tail = ev[k + 1:]
    if not tail or any(not t.startswith('R') for t in tail):
        return None
    return c + ' | ' + ' '.join(ev[:k + 1])


class Case:
    __slots__ = ('prog', 'mode', 'fatal', 'deco', 'src')

    def __init__(self, prog, mode, fatal='o', deco=0, src=''):
        self.prog, self.mode, self.fatal, self.deco, self.src = prog, mode, fatal, deco, src

    def bline(self):
        return 'B %s%s %s' % (self.mode, self.fatal, toks(self.prog))

    def mline(self):
        # model side: an async function body has the reference semantics of a function body
        return 'B %s%s %s' % ('F' if self.mode == 'A' else self.mode, self.fatal, toks(self.prog))

    def js(self):
        return tojs(self.prog, self.mode, self.fatal, self.deco)

    def key(self):
        return '%s%s%d %s' % (self.mode, self.fatal, self.deco, toks(self.prog))


def children(s):
    return [x for x in s[1:] if isinstance(x, tuple)]


def shrink_candidates(s):
    """programs obtained by one local simplification"""
    out = []
    for c in children(s):
        out.append(c)
    if s[0] not in ('skip', 'log'):
        out.append(('log', 1))
        out.append(('skip',))
    for idx in range(1, len(s)):
        if isinstance(s[idx], tuple):
            for c in shrink_candidates(s[idx]):
                out.append(s[:idx] + (c,) + s[idx + 1:])
    if s[0] == 'try':
        if s[3] and s[5]:
            out.append(s[:3] + (False, ('skip',)) + s[5:])
            out.append(s[:5] + (False, ('skip',)))
    if s[0] in ('loop',) and s[3] > 1:
        out.append(s[:3] + (s[3] - 1,) + s[4:])
    if s[0] == 'forof' and s[2] > 1:
        out.append(s[:2] + (s[2] - 1,) + s[3:])
    return out


def size(s):
    return 1 + sum(size(c) for c in children(s))


class Checker:
    def __init__(self, ctx, harness, model):
        self.ctx, self.H, self.M = ctx, harness, model
        self.n_b = self.n_k = self.n_v = self.n_w = 0
        self.bad = {'B': [], 'K': [], 'V': [], 'W': [], 'S': []}
        self.n_s1 = 0
        self.known = {Q5: 0, Q6: 0}
        self.known_example = {}
        self.compl_hist = {}
        self.mode_hist = {}
        self.ev_hist = {}
        self.max_fin = 0
        self.max_depth = 0

    # ---- low level
    def goja_b(self, cases):
        if not self.H:
            return ['NO-HARNESS'] * len(cases)
        return run_sharded(self.ctx, [self.H], [c.bline() + ' @@ ' + c.js() for c in cases])

    def model_lines(self, lines):
        if not self.M or not os.path.exists(self.M):
            return ['NO-MODEL'] * len(lines)
        return run_sharded(self.ctx, [self.M], lines)

    def classify(self, case, g, m):
        return self.classify_many([(case, g, m)])[0]

    def classify_many(self, items):
        """goja/refSem disagreements [(case, goja, ref)]: explained by a defect still listed as `known`?  signature or None.
        (The repaired findings — catch/finally re-arm, uncatchable iterator close, generator return through finally,
        dummy-mode dead code, returning-mode native throw — are NOT recognised any more: they alarm if they come back.)"""
        out = []
        for (c, g, m) in items:
            sig = None
            if c.mode == 'S' and value_only(g, m) and (has(c.prog, 'brk') or has(c.prog, 'cont')):
                # Q5: same log, both complete normally, only the script's completion VALUE differs, and the program
                # has a break/continue: goja's completion-value bookkeeping (lastProducingIdx, clearResult)
                # is static and does not follow abrupt exits nested inside statements (see known finding)
                sig = Q5
            elif c.mode == 'G' and return_value_only(g, m) and ret_in_finally(c.prog):
                # Q6: same log, both return, only the returned VALUE differs, and some finally block contains a return
                sig = Q6
            out.append(sig)
        return out

    # ---- one batch of cases
    def batch(self, cases, do_kvw=True):
        ctx = self.ctx
        if not cases:
            return
        jss = [c.js() for c in cases]
        hl, ml = [], []
        for c, js in zip(cases, jss):
            t = toks(c.prog)
            full = c.mode == 'F' and do_kvw
            hl.append('%s %s%s %s @@ %s' % ('BK' if (full and c.deco == 0) else 'B', c.mode, c.fatal, t, js))
            mm = 'F' if c.mode == 'A' else c.mode      # an async function body has the reference semantics of a function body
            if full:
                ml.append('A %s%s %s' % (mm, c.fatal, t))
            else:
                ml.append('B %s%s %s' % (mm, c.fatal, t))
        gout = run_sharded(ctx, [self.H], hl) if self.H else ['NO-HARNESS'] * len(cases)
        retried = 0
        for i, o in enumerate(gout):
            if (o.startswith('TIMEOUT') or o.startswith('NO-OUTPUT')) and retried < 6:
                retried += 1
                # a loaded machine can starve a shard: re-run that one case alone before believing it
                rc, o2, err = ctx.run_lines([self.H], [hl[i]], timeout=120)
                if o2:
                    gout[i] = o2[0]
        mout = self.model_lines(ml)
        have_model = bool(mout) and mout[0] != 'NO-MODEL'
        mism = []
        for i, c in enumerate(cases):
            gparts = gout[i].split(' ## ')
            mparts = mout[i].split(' ## ')
            g, m = gparts[0], mparts[0]
            self.n_b += 1
            ctx.count(1)
            if not have_model:
                continue
            if len(mparts) == 5:
                v, w, km, s1 = mparts[1], mparts[2], mparts[3], mparts[4]
                if s1 != '-':
                    self.n_s1 += 1
                    if s1 != 'S1=':
                        self.bad['S'].append((c, s1))
                self.n_v += 1
                if v != 'ok':
                    self.bad['V'].append((c, v))
                if c.fatal == 'o' or not has(c.prog, 'fatal'):
                    self.n_w += 1
                    if w != g:
                        self.bad['W'].append((c, 'vm[%s] goja[%s]' % (w, g)))
                if len(gparts) == 2:
                    self.n_k += 1
                    a, b = skeleton(gparts[1], False), skeleton(km, True)
                    if a != b:
                        self.bad['K'].append((c, 'goja[%s] model[%s]' % (' '.join(a), ' '.join(b))))
            comp, _, log = m.partition(' | ')
            evs = log.split()
            nfin = sum(1 for e in evs if e[0] == 'F')
            nclose = sum(1 for e in evs if e[0] == 'R')
            if nfin or nclose:
                ctx.nontriv(c.key())
            self.max_fin = max(self.max_fin, nfin)
            ck = comp.split(':')[0]
            self.compl_hist[ck] = self.compl_hist.get(ck, 0) + 1
            self.mode_hist[c.mode + c.fatal] = self.mode_hist.get(c.mode + c.fatal, 0) + 1
            for e in evs:
                self.ev_hist[e[0]] = self.ev_hist.get(e[0], 0) + 1
            if g != m:
                mism.append((c, g, m))
            elif len(ctx.samples) < 8 and (nfin >= 2 or nclose >= 1) and i % 97 == 0:
                ctx.sample({'mode': c.mode, 'prog': toks(c.prog), 'js': jss[i], 'result': g})
        if mism:
            for (c, g, m), sig in zip(mism, self.classify_many(mism)):
                if sig is None:
                    self.bad['B'].append((c, g, m))
                else:
                    for q in sig.split('+'):
                        self.known[q] = self.known.get(q, 0) + 1
                        if q not in self.known_example or size(c.prog) < size(self.known_example[q][0].prog):
                            self.known_example[q] = (c, g, m)

    # ---- shrinking a behavioural disagreement
    def still_fails(self, case):
        g = self.goja_b([case])[0]
        m = self.model_lines([case.mline()])[0]
        if g.startswith('E:') or g.startswith('TIMEOUT') or 'SyntaxError' in g or m in ('PARSE-ERROR', 'NO-MODEL'):
            return None
        if g != m and self.classify(case, g, m) is None:
            return (g, m)
        return None

    def shrink(self, case, budget=150):
        best = case
        res = self.still_fails(case)
        if res is None:
            return case, None
        improved = True
        while improved and budget > 0:
            improved = False
            for cand in sorted(shrink_candidates(best.prog), key=size):
                if size(cand) >= size(best.prog):
                    continue
                budget -= 1
                if budget <= 0:
                    break
                c2 = Case(cand, best.mode, best.fatal, best.deco)
                r2 = self.still_fails(c2)
                if r2 is not None:
                    best, res, improved = c2, r2, True
                    break
        return best, res


def return_value_only(g, m):
    cg, _, lg = g.partition(' | ')
    cm, _, lm = m.partition(' | ')
    return lg == lm and cg.startswith('R:') and cm.startswith('R:') and cg != cm


def throwing_iterator(s):
    if s[0] == 'forof' and (s[4] != 'o' or s[3] is not None):
        return True
    return any(throwing_iterator(c) for c in children(s))


def ret_in_finally(s):
    if s[0] == 'try' and s[5] and has(s[6], 'ret'):
        return True
    return any(ret_in_finally(c) for c in children(s))


def value_only(g, m):
    cg, _, lg = g.partition(' | ')
    cm, _, lm = m.partition(' | ')
    return lg == lm and cg.startswith('N:') and cm.startswith('N:') and cg != cm


def has_do(s):
    if s[0] == 'loop' and s[1] == 'd':
        return True
    return any(has_do(c) for c in children(s))


def nested_branch_in_finally(s):
    """a finally block that contains a break/continue below its top-level statement list"""
    if s[0] == 'try' and s[5]:
        items = []
        def fl(x):
            if x[0] == 'seq':
                fl(x[1]); fl(x[2])
            else:
                items.append(x)
        fl(s[6])
        if any(it[0] not in ('brk', 'cont') and (has(it, 'brk') or has(it, 'cont')) for it in items):
            return True
    return any(nested_branch_in_finally(c) for c in children(s))


def strip_dead(s):
    """drop the statements that follow a break/continue in the same statement list (never executed)"""
    if not isinstance(s, tuple):
        return s
    if s[0] == 'seq':
        items, out = [], []
        def fl(x):
            if x[0] == 'seq':
                fl(x[1]); fl(x[2])
            else:
                items.append(x)
        fl(s)
        for it in items:
            out.append(strip_dead(it))
            if it[0] in ('brk', 'cont'):
                break
        r = out[-1]
        for it in reversed(out[:-1]):
            r = ('seq', it, r)
        return r
    return tuple(strip_dead(x) for x in s)


def ret_then_finally_throw(s):
    """some try..finally whose try/catch part contains a return and whose finally part contains a throw"""
    if s[0] == 'try' and s[5] and (has(s[2], 'ret') or has(s[4], 'ret')) and has(s[6], 'thr'):
        return True
    return any(ret_then_finally_throw(c) for c in children(s))


def has_cf(s):
    if s[0] == 'try' and s[3] and s[5]:
        return True
    return any(has_cf(c) for c in children(s))


def load_corpus():
    d = os.path.join(ROOT, 'corpus', 'C08')
    out = []
    if os.path.isdir(d):
        for fn in sorted(os.listdir(d)):
            if fn.endswith('.json'):
                with open(os.path.join(d, fn)) as f:
                    for e in json.load(f).get('cases', []):
                        out.append(Case(to_tuple(e['prog']), e.get('mode', 'F'), e.get('fatal', 'o'), e.get('deco', 0), 'corpus:' + fn))
    return out


def to_tuple(x):
    if isinstance(x, list):
        return tuple(to_tuple(y) for y in x)
    return x


def every(it, k, off):
    return itertools.islice(it, off % k, None, k)


def crossing_cases():
    """labelled continue/break (and the other exits) issued inside a NESTED loop — with and without a lexical head
    declaration — crossing a try/finally, for-of, with or block towards every kind of labelled outer loop"""
    L = ('log', 1)
    out = []
    outers = [lambda h, k=k: ('lbl', 61, ('loop', k, 41, 2, ('seq', h, ('log', 2)))) for k in 'wdfl']
    outers += [lambda h, rm=rm: ('lbl', 61, ('forof', 41, 2, None, rm, ('seq', h, ('log', 2)))) for rm in 'oO']
    mids = [lambda h: h,
            lambda h: ('try', 51, h, False, ('skip',), True, ('log', 3)),
            lambda h: ('try', 51, h, True, ('log', 4), True, ('log', 3)),
            lambda h: ('try', 51, ('thr', 7), True, h, True, ('log', 3)),
            lambda h: ('try', 51, ('log', 4), False, ('skip',), True, h),
            lambda h: ('forof', 42, 2, None, 'o', ('seq', h, ('log', 5))),
            lambda h: ('forof', 42, 2, None, 'O', ('seq', h, ('log', 5))),
            lambda h: ('with', ('seq', h, ('log', 5))),
            lambda h: ('blk', ('seq', h, ('log', 5))),
            lambda h: ('try', 51, ('forof', 42, 2, None, 't', ('seq', h, ('log', 5))), False, ('skip',), True, ('log', 3))]
    inners = [lambda h, k=k: ('loop', k, 43, 2, ('seq', h, ('log', 6))) for k in 'lfw']
    inners += [lambda h, rm=rm: ('forof', 43, 2, None, rm, ('seq', h, ('log', 6))) for rm in 'Oo']
    leafs = [('cont', 61), ('brk', 61), ('cont', None), ('brk', None), ('ret', 5), ('thr', 6)]
    for o in outers:
        for m in mids:
            for i in inners:
                for lf in leafs:
                    out.append(Case(o(m(i(lf))), 'F'))
    return out


def case_sets(ctx):
    """the generated program sets of this tier in priority order: (name, mandatory, thunk -> list of Case).
    Optional sets are run while the tier's time budget lasts; what was skipped is recorded in the evidence."""
    rng = ctx.rng
    thorough = ctx.tier == 'thorough'
    seed = ctx.seed
    sets = []
    sets.append(('corpus', True, load_corpus))
    sets.append(('exits from a nested (let-headed) loop across try/for-of/with/block to every labelled loop kind', True, crossing_cases))

    def exh(ds, mode, width):
        return lambda: [Case(p, mode) for d in ds for p in chains(d, mode, width)]

    def fatal_set(ds, mode, width, kinds):
        return lambda: [Case(p, mode, k) for d in ds for p in chains(d, mode, width, fatal=True) for k in kinds]

    def rand_set(n, salt):
        def f():
            r = __import__('random').Random(seed * 1000003 + salt)
            out = []
            for k in range(n):
                mode = 'FSG'[k % 3]
                st = {'n': 0, 'fatal': 0.04 if k % 5 == 0 else 0.0}
                p = rand_stmt(r, r.choice([3, 4, 5, 5]), Ctx0(), mode, st)
                out.append(Case(p, mode, 'oi'[k % 2], r.choice([0, 0, 1, 2, 4, 7])))
            return out
        return f
    if not thorough:
        sets.append(('exhaustive depth<=2 narrow F', True, exh((0, 1, 2), 'F', 1)))
        sets.append(('exhaustive depth<=2 core S', True, exh((0, 1, 2), 'S', 0)))
        sets.append(('exhaustive depth<=2 core G', True, exh((0, 1, 2), 'G', 0)))
        sets.append(('exhaustive depth<=2 core A (async function: await before every log and at every try/catch/finally entry)', True,
                     exh((0, 1, 2), 'A', 0)))
        sets.append(('uncatchable at every position, depth<=1 wide F/S/G + depth 2 core F, overflow and interrupt', True,
                     lambda: fatal_set((0, 1), 'F', 2, 'oi')() + fatal_set((0, 1), 'S', 2, 'oi')() + fatal_set((0, 1), 'G', 2, 'oi')()
                     + fatal_set((2,), 'F', 0, 'o')()))
        sets.append(('random programs depth<=5 (full grammar, decorations) x1200', True, rand_set(1200, 1)))
        # depth 3 core F in ten slices (rotated by the seed): all ten together are the exhaustive depth-3 core tier;
        # the first one is always run, the others while the time budget lasts (a quiet machine runs all)
        for j in range(10):
            k = (seed + j) % 10
            sets.append(('depth 3 core F, slice %d/10 (every 10th from offset %d)' % (k, k), False,
                         (lambda k=k: [Case(p, 'F') for p in every(chains(3, 'F', 0), 10, k)])))
        sets.append(('exhaustive depth 2 wide-minus-narrow F', False,
                     lambda: [Case(p, 'F') for p in set(chains(2, 'F', 2)) - set(chains(2, 'F', 1))]))
        sets.append(('every 12th (offset seed) of depth 3 core S, G and A', False,
                     lambda: [Case(p, m) for m in 'SGA' for p in every(chains(3, m, 0), 12, seed)]))
    else:
        for mode in 'FSGA':
            sets.append(('exhaustive depth<=2 wide %s' % mode, True, exh((0, 1, 2), mode, 2)))
        sets.append(('uncatchable at every position, depth<=2 wide F (overflow+interrupt), core S/G', True,
                     lambda: fatal_set((0, 1, 2), 'F', 2, 'oi')() + fatal_set((0, 1, 2), 'S', 0, 'oi')() + fatal_set((0, 1, 2), 'G', 0, 'oi')()))
        sets.append(('random programs depth<=5 (full grammar, decorations) x6000', True, rand_set(6000, 2)))
        for mode in 'FGSA':
            sets.append(('exhaustive depth 3 core %s' % mode, False, exh((3,), mode, 0)))
        sets.append(('uncatchable at every position, depth 3 core F', False, fatal_set((3,), 'F', 0, 'oi')))
        sets.append(('random programs depth<=5 x20000', False, rand_set(20000, 3)))
        sets.append(('exhaustive depth 3 narrow F', False, exh((3,), 'F', 1)))
        sets.append(('every 3rd (offset seed) of depth 4 core F', False,
                     lambda: [Case(p, 'F') for p in every(chains(4, 'F', 0), 3, seed)]))
        sets.append(('exhaustive depth 3 narrow G', False, exh((3,), 'G', 1)))
        sets.append(('exhaustive depth 3 narrow S', False, exh((3,), 'S', 1)))
        sets.append(('every 3rd (offset seed+1) of depth 4 core F', False,
                     lambda: [Case(p, 'F') for p in every(chains(4, 'F', 0), 3, seed + 1)]))
        sets.append(('every 3rd (offset seed+2) of depth 4 core F', False,
                     lambda: [Case(p, 'F') for p in every(chains(4, 'F', 0), 3, seed + 2)]))
    return sets


def report(ctx, ck):
    """turn collected disagreements into obligations / violations"""
    ok_b = not ck.bad['B']
    ctx.obligation('corr:behaviour goja==refSem (event log + completion)', 'correspondence', ok_b,
                   '%d programs; %d unexplained disagreements' % (ck.n_b, len(ck.bad['B'])))
    ctx.obligation('corr:skeleton real compiler dump == compileCF', 'correspondence', not ck.bad['K'],
                   '%d skeletons; %d differ%s' % (ck.n_k, len(ck.bad['K']), ('; first: ' + toks(ck.bad['K'][0][0].prog) + ' ' + ck.bad['K'][0][1]) if ck.bad['K'] else ''))
    ctx.obligation('corr:vm-vs-ref runVM(compileCF p) == refSem p', 'correspondence', not ck.bad['V'],
                   '%d programs; %d differ%s' % (ck.n_v, len(ck.bad['V']), ('; first: ' + toks(ck.bad['V'][0][0].prog) + ' ' + ck.bad['V'][0][1]) if ck.bad['V'] else ''))
    ctx.obligation('corr:mechanism goja == mini-VM on compileCF output', 'correspondence', not ck.bad['W'],
                   '%d programs; %d differ%s' % (ck.n_w, len(ck.bad['W']), ('; first: ' + toks(ck.bad['W'][0][0].prog) + ' ' + ck.bad['W'][0][1]) if ck.bad['W'] else ''))
    ctx.obligation('corr:compileS == compileCF on stage-1 programs', 'correspondence', not ck.bad['S'],
                   '%d stage-1 programs; %d differ%s' % (ck.n_s1, len(ck.bad['S']), ('; first: ' + toks(ck.bad['S'][0][0].prog)) if ck.bad['S'] else ''))
    # known findings
    for q, n in ck.known.items():
        if n:
            c, g, m = ck.known_example[q]
            ctx.violation(q, '%s reproduces on %d generated programs, e.g. [%s] goja[%s] spec[%s]' % (q, n, c.js(), g, m),
                          {'kind': 'program', 'mode': c.mode, 'fatal': c.fatal, 'deco': c.deco, 'prog': c.prog, 'js': c.js(), 'expected': m, 'observed': g})
    # unexplained behavioural disagreements: shrink, report each distinct minimised program
    seen = set()
    for (c, g, m) in sorted(ck.bad['B'], key=lambda x: size(x[0].prog))[:3]:
        small, res = ck.shrink(c, budget=40)
        if res is None:
            res = (g, m)
        key = small.key()
        if key in seen:
            continue
        seen.add(key)
        ctx.violation('behaviour:' + key, 'goja disagrees with the reference semantics on [%s]: goja[%s] spec[%s]' % (small.js(), res[0], res[1]),
                      {'kind': 'program', 'mode': small.mode, 'fatal': small.fatal, 'deco': small.deco, 'prog': small.prog, 'tokens': toks(small.prog),
                       'js': small.js(), 'expected': res[1], 'observed': res[0], 'original': toks(c.prog)})
    # skeleton / mechanism disagreement without behavioural disagreement: replay names the program
    for kind in ('K', 'W'):
        for (c, detail) in ck.bad[kind][:2]:
            ctx.stats.setdefault('first_' + kind, []).append({'prog': toks(c.prog), 'js': c.js(), 'detail': detail[:1500]})


def main(ctx):
    ok, errs = ctx.lake_build(['GojaModel.C08.Props', 'GojaModel.C08.CompileProps', 'GojaModel.C08.CompileSProps',
                               'GojaModel.C08.S2.Props', 'model_c08'])
    ctx.audit('GojaModel.C08.Props', expect_min=8)
    ctx.audit('GojaModel.C08.CompileProps', expect_min=6)
    ctx.audit('GojaModel.C08.CompileSProps', expect_min=6)
    ctx.audit('GojaModel.C08.S2.Props', expect_min=8)      # stage 2: stage 1 + for-of (copies in namespace S2)
    if ctx.tier == 'thorough':
        ctx.leanchecker('GojaModel.C08.Props')
        ctx.leanchecker('GojaModel.C08.CompileProps')
        ctx.leanchecker('GojaModel.C08.CompileSProps')
        ctx.leanchecker('GojaModel.C08.S2.Props')
    h = ctx.go_build()
    model = ctx.model_exe() if os.path.exists(ctx.model_exe()) and ok else None
    if not ok and os.path.exists(ctx.model_exe()):
        # a stale driver must not be trusted when the build is broken
        model = None
    ck = Checker(ctx, h, model)
    if h:
        budget = float(os.environ.get('VERIF_C08_BUDGET', '600' if ctx.tier == 'thorough' else '55'))
        plan = []
        t_start = time.time()
        first_cases = []
        sites_check(ctx, h)
        for (name, mandatory, thunk) in case_sets(ctx):
            if not mandatory and time.time() - t_start > budget:
                plan.append({'set': name, 'run': False, 'reason': 'time budget of the tier exhausted'})
                continue
            t1 = time.time()
            cases = thunk()
            B = 40000
            for i in range(0, len(cases), B):
                ck.batch(cases[i:i + B])
            if len(first_cases) < 20000:
                first_cases += cases[:20000]
            plan.append({'set': name, 'run': True, 'programs': len(cases), 'seconds': round(time.time() - t1, 1)})
            ctx.log('%s: %d programs, %.1fs; B-bad=%d K-bad=%d V-bad=%d W-bad=%d known=%s' % (name, len(cases), time.time() - t1, len(ck.bad['B']), len(ck.bad['K']), len(ck.bad['V']), len(ck.bad['W']), ck.known))
        ctx.stats['plan'] = plan
        if model is None:
            independent_search(ctx, ck, first_cases)
        report(ctx, ck)
    ctx.stats.update({'programs': ck.n_b, 'skeletons': ck.n_k, 'vm_vs_ref': ck.n_v, 'mechanism': ck.n_w,
                      'completion_kinds(ref)': ck.compl_hist, 'modes': ck.mode_hist, 'event_kinds(ref)': ck.ev_hist,
                      'max_finally_entries_in_one_run': ck.max_fin, 'known_defect_hits': ck.known,
                      'stage1_programs(compileS==compileCF checked)': ck.n_s1})
    ctx.assumptions += [
        'the JavaScript translation (run/c08.py JS) of a program means what the Stmt constructors mean (instrumentation by log() calls only)',
        'exhaustive = every nesting chain of the stated depth over the stated level alphabet with every legal leaf; other program shapes are sampled',
        'uncatchable errors are produced by stack overflow (SetMaxCallStackSize 150) and by Interrupt() from a Go callback followed by an empty loop',
    ]
    ctx.trusted_base += [
        'hand transcription of ECMA-262 14.7/14.12/14.15/7.4.11 into GojaModel.C08.Model.exec',
        'JS translation + skeleton erasure/renormalisation in run/c08.py; VerifC08DumpProgram in /repo/verif_hooks_c08.go',
        'python IteratorClose oracle for built-in iteration sites (run/c08.py site_oracle)',
    ]
    return ctx.finish(level='proof',
                      rule='one case = (program, run mode, fatal kind, decoration); distinct by token string; non-trivial iff the reference run enters >=1 finally block or calls >=1 iterator return()')


def independent_search(ctx, ck, cases):
    """Lean model unavailable (broken build): search with invariants that need no model:
    per try id #finE == #tryE unless fatal, bracket discipline, nothing after '!'."""
    g = ck.goja_b(cases[:60000])
    for c, out in zip(cases, g):
        comp, _, log = out.partition(' | ')
        bad = bracket_violation(comp, log.split())
        if bad and not (has_cf(c.prog) or has(c.prog, 'fatal')):
            ctx.violation('invariant:' + c.key(), 'goja log violates %s on [%s]: %s' % (bad, c.js(), out),
                          {'kind': 'program', 'mode': c.mode, 'prog': c.prog, 'js': c.js(), 'observed': out, 'expected': bad})
            break


def bracket_violation(comp, evs):
    st = []
    for k, e in enumerate(evs):
        t, rest = e[0], e[1:]
        if t == 'T':
            st.append('t' + rest)
        elif t == 'O':
            st.append('i' + rest)
        elif t == 'F':
            if not st or st[-1] != 't' + rest:
                return 'finally out of order (%s)' % e
            st.pop()
        elif t in 'DXR':
            if not st or st[-1] != 'i' + rest:
                return 'iterator close out of order (%s)' % e
            st.pop()
        elif t == '!':
            if k != len(evs) - 1:
                return 'events after an uncatchable error'
    if comp != 'F' and st:
        return 'pending finally / open iterator left behind: %s' % st
    return None


def replay(ctx, path):
    with open(path) as f:
        rp = json.load(f)
    if rp.get('kind') == 'broken-obligation':
        print(json.dumps(rp, indent=1))
        return 1
    ctx.lake_build(['model_c08'])
    h = ctx.go_build()
    if rp.get('kind') == 'site':
        line = rp['line']
        rc, out, err = ctx.run_lines([h], [line])
        print('site     :', line)
        print('expected :', rp.get('expected'))
        print('observed :', out[0] if out else err)
        return 0 if out and out[0] == rp.get('expected') else 1
    c = Case(to_tuple(rp['prog']), rp.get('mode', 'F'), rp.get('fatal', 'o'), rp.get('deco', 0))
    ck = Checker(ctx, h, ctx.model_exe())
    g = ck.goja_b([c])[0]
    m = ck.model_lines([c.mline()])[0]
    print('program  :', toks(c.prog))
    print('js       :', c.js())
    print('spec     :', m)
    print('goja     :', g)
    return 0 if g == m else 1

# ----------------------------------------------------------------------------- built-in iteration sites

SITE_LIST = ['spread', 'arrspread', 'destr', 'destr_elision', 'destr_rest', 'destr_setter', 'arrayfrom', 'map_entry', 'map_adder',
             'set_adder', 'weakset', 'weakmap', 'fromentries', 'typedarray', 'promiseall', 'allsettled', 'promiseany',
             'promiserace', 'yieldstar_return', 'yieldstar_throw']
# sites whose consumer step can fail with a thrown JS value 7 / with an engine TypeError (999), and take limit
SITE_TAKE = {'destr': 2, 'destr_elision': 2, 'destr_setter': 1}
SITE_FAILVAL = {'arrayfrom': 7, 'map_adder': 7, 'set_adder': 7, 'destr_setter': 7, 'map_entry': 999, 'weakset': 999, 'weakmap': 999,
                'fromentries': 999, 'promiseall': 7, 'allsettled': 7, 'promiseany': 7, 'promiserace': 7}
PROMISE_SITES = {'promiseall', 'allsettled', 'promiseany', 'promiserace'}
FATAL_SITES = ['destr_setter', 'arrayfrom', 'map_adder', 'set_adder', 'promiseall']


def close_result(status, rm):
    """IteratorClose(iterator, status) for the instrumented return(): status = ('N',) or ('T', v)"""
    if status[0] == 'T':
        return status
    if rm == 't':
        return ('T', 201)
    if rm == 'n':
        return ('T', 999)
    return status


def site_oracle(site, n, nt, rm, k, fk):
    """ECMA-262 expectation for one built-in iteration site; returns '<completion> | <events>'"""
    ev = ['O1']
    status = ('N',)
    fatal = False
    if site in ('yieldstar_return', 'yieldstar_throw'):
        # gi.next(): first step of yield*
        ev.append('N1')
        if nt == 0:
            ev.append('X1')
            return 'T:101 | ' + ' '.join(ev)
        if n == 0:
            ev.append('D1')
            # generator completed; return(5)/throw(7) on a completed generator
            if site == 'yieldstar_return':
                ev.append('V:5:true')
                return 'N | ' + ' '.join(ev)
            return 'T:7 | ' + ' '.join(ev)
        ev.append('R1')
        if site == 'yieldstar_return':
            # 27.5.3.? yield* with a return completion: call return(v); non-object -> TypeError; done -> return value
            if rm == 't':
                return 'T:201 | ' + ' '.join(ev)
            if rm == 'n':
                return 'T:999 | ' + ' '.join(ev)
            ev.append('V:9:true')
            return 'N | ' + ' '.join(ev)
        # throw with no throw method: IteratorClose(normal) then TypeError
        if rm == 't':
            return 'T:201 | ' + ' '.join(ev)
        return 'T:999 | ' + ' '.join(ev)
    take = SITE_TAKE.get(site)
    i = 0
    done = False
    while True:
        if take is not None and i == take:
            break
        ev.append('N1')
        if nt == i:
            ev.append('X1')
            status, done = ('T', 101), True
            break
        if i >= n:
            ev.append('D1')
            done = True
            break
        # item i delivered to the consumer
        fails = False
        if site == 'destr_setter':
            ev.append('S')
            fails = True
        elif site in SITE_FAILVAL and k == i:
            fails = True
        if fails:
            if fk != 't' and site in ('destr_setter', 'arrayfrom', 'map_adder', 'set_adder') + tuple(PROMISE_SITES):
                ev.append('!')
                fatal = True
            else:
                status = ('T', SITE_FAILVAL[site])
            break
        i += 1
    if fatal:
        return 'F | ' + ' '.join(ev)
    if site == 'destr_setter' and done and status[0] == 'N':
        # iterator exhausted: the target is assigned undefined -> the setter runs and fails, no close
        ev.append('S')
        if fk != 't':
            ev.append('!')
            return 'F | ' + ' '.join(ev)
        status = ('T', 7)
    if not done:
        ev.append('R1')
        status = close_result(status, rm)
    if site in PROMISE_SITES:
        if status[0] == 'N' and n == 0 and site == 'promiserace':
            return 'N | ' + ' '.join(ev)                 # race over nothing stays pending
        if status[0] == 'N' and n == 0 and site == 'promiseany':
            return 'N | ' + ' '.join(ev + ['J:AggregateError'])
        ev.append('K' if status[0] == 'N' else 'J:%d' % status[1])
        return 'N | ' + ' '.join(ev)
    return ('N' if status[0] == 'N' else 'T:%d' % status[1]) + ' | ' + ' '.join(ev)


def sites_check(ctx, h):
    lines, exp = [], []
    for site in SITE_LIST:
        for n in (0, 1, 2, 3):
            for nt in (-1, 0, 1, 2):
                for rm in 'otn':
                    ks = (-1, 0, 1, 2) if site in SITE_FAILVAL and site != 'destr_setter' else (-1,)
                    for k in ks:
                        lines.append('S %s %d %d %s %d t' % (site, n, nt, rm, k))
                        exp.append(site_oracle(site, n, nt, rm, k, 't'))
    nfat0 = len(lines)
    for site in FATAL_SITES:
        for n in (1, 2, 3):
            for rm in 'ot':
                for k in (0, 1):
                    for fk in 'oi':
                        lines.append('S %s %d -1 %s %d %s' % (site, n, rm, k, fk))
                        exp.append(site_oracle(site, n, -1, rm, k, fk))
    out = run_sharded(ctx, [h], lines, shards=8)
    bad, known = [], 0
    first_known = None
    for i, (l, e, o) in enumerate(zip(lines, exp, out)):
        ctx.count(1)
        if 'R1' in e or 'R1' in o:
            ctx.nontriv('site ' + l)
        if o == e:
            continue
        bad.append((l, e, o))
    ctx.stats['sites'] = {'cases': len(lines), 'of which uncatchable': len(lines) - nfat0, 'sites': SITE_LIST, 'disagreements': len(bad), 'known_defect_hits': known}
    ctx.obligation('corr:sites built-in iteration sites == IteratorClose oracle (exhaustive n<=3, fail step<=2, 3 return() behaviours)', 'correspondence',
                   not bad, '%d cases; %d disagree%s' % (len(lines), len(bad), ('; first: %s expected[%s] goja[%s]' % bad[0]) if bad else ''))
    for (l, e, o) in bad[:3]:
        ctx.violation('site:' + l, 'built-in iteration site deviates from IteratorClose rule: [%s] goja[%s] spec[%s]' % (l, o, e),
                      {'kind': 'site', 'line': l, 'expected': e, 'observed': o})
