#!/usr/bin/env python3
"""
C02 — compiled code matches the definitional semantics; compiler choices are invisible.

  1. lake build GojaModel.C02.Props + model_c02; audit the theorems (axioms), thorough: leanchecker.
  2. go build harness/cmd/c02 against /repo's working tree (-tags verif).
  3. correspondence, sharded over cores.  For every generated MiniJS program P (run/c02gen.py) x
     {strict, sloppy}:
        goja(P, global) = model(P);  goja(function-placement P) = model(function-placement P);
        goja(eval(src P)) = model(P);
     and for every applicable rewrite R of the catalogue (variant V = R-inserted P):
        goja(V, placement) = goja(P, placement)   for placement in {global, function, eval}   (metamorphic)
        model(V) = model(P);  goja(V) = model(V);  model(R_lean V) = model(P)  (the Lean rewrite undoes it)
     plus the bytecode-skeleton hash of V vs P (did the compiler really decide differently?).
  4. any disagreement is shrunk and reported as a concrete violation (the model is the judge).
"""
import json, os, random, subprocess, sys, time, hashlib, copy
from multiprocessing import Pool

sys.path.insert(0, os.path.dirname(os.path.abspath(__file__)))
from vlib import *
import c02gen as G

FUEL = 400
PLACEMENTS = ('global', 'function', 'eval')


def placement_src(prog, pl):
    if pl == 'global':
        return G.to_js(prog)
    if pl == 'function':
        return G.to_js(G.function_placement(prog))
    return 'eval(%s)' % json.dumps(G.to_js(prog))


def _limit():
    import resource
    try:
        resource.setrlimit(resource.RLIMIT_AS, (4 << 30, 4 << 30))   # a runaway allocation must fail fast
    except Exception:
        pass


def run_proc(cmd, lines, timeout=900, limit=False):
    p = subprocess.run(cmd, input='\n'.join(lines) + '\n', stdout=subprocess.PIPE, stderr=subprocess.PIPE,
                       text=True, timeout=timeout, preexec_fn=_limit if limit else None)
    return p.stdout.splitlines()


def run_harness(harness, greq):
    """Run the harness over all requests; if the process dies (a crash of the engine kills the host process
    and loses its buffered answers) re-run the unanswered requests in smaller pieces and report the
    request that kills it as a `CRASH` outcome."""
    out = {}

    def go(reqs):
        if not reqs:
            return
        got = 0
        try:
            lines = run_proc([harness], reqs, timeout=3600, limit=True)
        except subprocess.TimeoutExpired:
            lines = []
        for l in lines:
            try:
                o = json.loads(l)
                out[o['id']] = o
                got += 1
            except Exception:
                pass
        if got >= len(reqs):
            return
        rest = [r for r in reqs if json.loads(r)['id'] not in out]
        if len(rest) == 1:
            i = json.loads(rest[0])['id']
            out[i] = {'id': i, 'out': 'CRASH host process died', 'full': 'CRASH host process died', 'dump': '', 'ins': {}}
            return
        h = max(1, len(rest) // 8)
        for k in range(0, len(rest), h):
            go(rest[k:k + h])
    go(greq)
    return out


def comparable(m):
    return m is not None and (m.startswith('N ') or m.startswith('T '))


def make_variants(prog, rng, strict, plan=None):
    out = []
    for (name, fn, lean) in G.REWRITES:
        try:
            v = fn(random.Random(rng.random()), prog, strict)
        except Exception as e:        # a generator bug must not masquerade as an engine bug
            v = None
            if plan is not None:
                plan.append(('generr', name, repr(e)))
        if v is not None:
            out.append((name, v, lean))
    return out


def regen_variant(seed, i, strict, name):
    """Re-create variant `name` of program i exactly as work() built it."""
    rng = random.Random('%d/%d' % (seed, i))
    prog = G.gen_program(rng, 1.0)
    for st in (True, False):
        vs = make_variants(prog, rng, st)
        if st == bool(strict):
            for (n, v, _) in vs:
                if n == name:
                    return prog, v
    return prog, prog


def build_cases(prog, tag, rewrites=True, rng=None, only_strict=None):
    """All (id, kind, payload) lines for one base program.  Returns (goja_reqs, model_lines, plan)."""
    greq, mlines, plan = [], [], []
    for strict in ((True, False) if only_strict is None else (only_strict,)):
        variants = [('orig', prog, None)]
        if rewrites:
            variants += make_variants(prog, rng, strict, plan)
        for (name, v, lean) in variants:
            for pl in PLACEMENTS:
                if name == 'tostring_reeval' and pl != 'global':
                    continue
                gid = '%s|%d|%s|%s' % (tag, strict, name, pl)
                greq.append(json.dumps({'id': gid, 'src': placement_src(v, pl), 'strict': strict, 'timeout_ms': 3000}))
                if pl != 'eval':
                    vv = v if pl == 'global' else G.function_placement(v)
                    mlines.append((gid, 'run %d %s' % (FUEL, G.to_sexp(vv, strict))))
                    if lean and pl == 'global':
                        mlines.append((gid + '|rw', 'rw %s %d %s' % (lean, FUEL, G.to_sexp(vv, strict))))
                    if name == 'orig':
                        # the Lean-defined block_wrap (theorem block_wrap_sound) applied to the program itself
                        mlines.append((gid + '|bw', 'rw blockwrap %d %s' % (FUEL, G.to_sexp(vv, strict))))
                        # … and the Lean-defined expr_stmt_vs_value_position rewrite (theorem …_sound)
                        mlines.append((gid + '|ev', 'rw exprvoid %d %s' % (FUEL, G.to_sexp(vv, strict))))
                        mlines.append((gid + '|ec', 'rw exprcomma %d %s' % (FUEL, G.to_sexp(vv, strict))))
            plan.append(('variant', strict, name))
    return greq, mlines, plan


def evaluate(harness, model, greq, mlines):
    """Run the goja harness and the Lean model driver on the same batch, concurrently."""
    import threading
    box = {}

    def run_model():
        try:
            box['m'] = run_proc([model], [l for (_, l) in mlines], timeout=3600)
        except Exception as e:
            box['merr'] = e
    th = None
    if model and mlines:
        th = threading.Thread(target=run_model)
        th.start()
    gout = run_harness(harness, greq)
    mout = {}
    if th is not None:
        th.join()
        if 'merr' in box:
            raise box['merr']
        for (gid, _), o in zip(mlines, box.get('m', [])):
            mout[gid] = o
    return gout, mout


def check_program(tag, plan, gout, mout, st, fails, have_model=True):
    """Compare everything for one base program; append failures; update stats."""
    for item in plan:
        if item[0] == 'generr':
            fails.append({'kind': 'generator-error', 'tag': tag, 'detail': item[1] + ' ' + item[2]})
            continue
        _, strict, name = item
        for pl in PLACEMENTS:
            if name == 'tostring_reeval' and pl != 'global':
                continue
            gid = '%s|%d|%s|%s' % (tag, strict, name, pl)
            oid = '%s|%d|%s|%s' % (tag, strict, 'orig', pl)
            g = gout.get(gid)
            if g is None:
                fails.append({'kind': 'harness-missing', 'tag': tag, 'id': gid})
                continue
            st['goja_runs'] += 1
            kind = g['out'].split(' ')[0]
            st['goja_kind'][kind] = st['goja_kind'].get(kind, 0) + 1
            if kind in ('PANIC', 'SYNTAXERROR', 'ERROR', 'CRASH'):
                fails.append({'kind': 'goja-' + kind.lower(), 'tag': tag, 'id': gid, 'rewrite': name, 'placement': pl,
                              'strict': strict, 'expected': 'an outcome (the program is valid)', 'observed': g['out']})
                continue
            # goja vs model
            mid = gid if pl != 'eval' else '%s|%d|%s|%s' % (tag, strict, name, 'global')
            m = mout.get(mid)
            if have_model and m is not None:
                mk = m.split(' ')[0]
                if pl != 'eval':
                    st['model_kind'][mk] = st['model_kind'].get(mk, 0) + 1
                if comparable(m) and g['out'] != 'timeout':
                    st['compared'] += 1
                    if g['out'] != m:
                        fails.append({'kind': 'model-vs-goja', 'tag': tag, 'id': gid, 'rewrite': name, 'placement': pl,
                                      'strict': strict, 'expected': m, 'observed': g['out']})
            if have_model and name == 'orig' and pl != 'eval' and m is not None and comparable(m):
                for suf, nm, key in (('|bw', 'block_wrap(lean)', 'lean_blockwrap'), ('|ev', 'expr_stmt_void(lean)', 'lean_exprvoid'),
                                      ('|ec', 'expr_stmt_comma(lean)', 'lean_exprcomma')):
                    mb = mout.get(gid + suf)
                    if mb is not None:
                        st[key] += 1
                        if mb.rsplit(' | changed=', 1)[0] != m:
                            fails.append({'kind': 'lean-rewrite-does-not-undo', 'tag': tag, 'id': gid, 'rewrite': nm,
                                          'strict': strict, 'expected': m, 'observed': mb})
            # variant vs original on goja (metamorphic)
            if name != 'orig':
                o = gout.get(oid)
                if o is not None and g['out'] != 'timeout' and o['out'] != 'timeout':
                    st['metamorphic'] += 1
                    st['rw_applied'][name] = st['rw_applied'].get(name, 0) + 1
                    if g['full'] != o['full']:
                        fails.append({'kind': 'variant-vs-original', 'tag': tag, 'id': gid, 'rewrite': name, 'placement': pl,
                                      'strict': strict, 'expected': o['full'], 'observed': g['full']})
                    if pl in ('global', 'function'):
                        ch = g['dump'] != o['dump']
                        d = st['dump_changed'].setdefault(name + '@' + pl, [0, 0])
                        d[0] += 1 if ch else 0
                        d[1] += 1
                        for cat in ('stack', 'stash', 'dynamic'):
                            if g['ins'].get(cat, 0) != o['ins'].get(cat, 0):
                                k = name + '@' + pl + ':' + cat
                                st['ins_shift'][k] = st['ins_shift'].get(k, 0) + 1
                # model: variant vs original, and the Lean-defined rewrite applied to the variant
                if have_model and pl != 'eval':
                    mo = mout.get(oid)
                    if m is not None and mo is not None and comparable(m) and comparable(mo):
                        st['model_variant'] += 1
                        if m != mo and name != 'tostring_reeval':
                            fails.append({'kind': 'model-variant-vs-original', 'tag': tag, 'id': gid, 'rewrite': name,
                                          'strict': strict, 'expected': mo, 'observed': m})
                    mr = mout.get(gid + '|rw')
                    if mr is not None and mo is not None and comparable(mo):
                        st['lean_rw'] += 1
                        st['lean_rw_changed'] += 1 if mr.endswith('changed=1') else 0
                        if mr.rsplit(' | changed=', 1)[0] != mo:
                            fails.append({'kind': 'lean-rewrite-does-not-undo', 'tag': tag, 'id': gid, 'rewrite': name,
                                          'strict': strict, 'expected': mo + ' | changed=1', 'observed': mr})


SIG_SWITCH = 'goja-crash:switch-lexical-scope-made-dynamic'
SIG_JUMP = 'dead-branch-break-continue-escapes-scope-block'
SIG_PARAMS = 'strict-nonsimple-params-direct-eval'
SIG_FINALLY = 'exception-in-finally-caught-by-own-catch'
SIG_EVALFN = 'sloppy-eval-function-declaration-misses-eval-lexical-scope'
SIG_LEXDEAD = 'lexical-declaration-in-dead-code-rejected'
SIG_FWDPARAM = 'param-initialiser-after-forward-reference-not-stored'
SIG_DOWHILE = 'do-while-completion-value-stale-after-abrupt-exit'
SIG_CONSTTDZ = 'assignment-to-const-in-tdz-throws-typeerror'
SIG_BLOCKJUMP = 'block-wrapped-jump-loses-completion-value'
SIG_JUMPVALUE = 'jump-before-last-statement-keeps-stale-completion-value'
LEXDEAD_MSG = 'Compiler bug: Lexical declaration for an unbound name'
BADKINDS = ('PANIC', 'SYNTAXERROR', 'ERROR', 'CRASH')


def _known_sigs():
    """Signatures that are currently `known` (only those can suppress anything, so only their neutralisations
    are worth trying when a failure is attributed)."""
    out = set()
    paths = [os.path.join(ROOT, 'known_findings.json')]
    d = os.path.join(ROOT, 'known_findings.d')
    if os.path.isdir(d):
        paths += [os.path.join(d, fn) for fn in sorted(os.listdir(d)) if fn.endswith('.json')]
    for pth in paths:
        try:
            with open(pth) as f:
                for e in json.load(f).get('findings', []):
                    if e.get('property') == 'C02' and e.get('status') == 'known':
                        out.add(e.get('signature'))
        except Exception:
            pass
    return out


KNOWN_SIGS = _known_sigs()


def pair_ok(harness, model, orig, var, strict, pl):
    """Does the single case (variant `var` of `orig`, placement pl) pass all its comparisons?"""
    reqs = [json.dumps({'id': 'v', 'src': placement_src(var, pl), 'strict': strict, 'timeout_ms': 3000}),
            json.dumps({'id': 'o', 'src': placement_src(orig, pl), 'strict': strict, 'timeout_ms': 3000})]
    g = run_harness(harness, reqs)
    if 'v' not in g or 'o' not in g:
        return False
    for k in ('v', 'o'):
        if g[k]['out'].split(' ')[0] in BADKINDS:
            return False
    if g['v']['out'] != 'timeout' and g['o']['out'] != 'timeout' and g['v']['full'] != g['o']['full']:
        return False
    if model:
        vv = var if pl != 'function' else G.function_placement(var)
        m = run_proc([model], ['run %d %s' % (FUEL, G.to_sexp(vv, strict))])
        if m and comparable(m[0]) and g['v']['out'] != 'timeout' and g['v']['out'] != m[0]:
            return False
    return True


def classify_failure(harness, model, seed, i, f):
    """Attribute a failure to known goja defects: it must disappear when the syntax that triggers them is
    neutralised by semantics-preserving transformations (T: try/catch/finally -> nested try; J: break/continue
    in statically dead branches -> empty; R: eval/with text, which only ever occurs in dead code -> nothing).
    All subsets are tried, smallest first; the signature is that of the first transformation in the subset
    (for R the structural pattern of the respective defect must be present as well)."""
    parts = f['id'].split('|')
    if len(parts) != 4:
        return None
    strict, name, pl = parts[1] == '1', parts[2], parts[3]
    prog, var = regen_variant(seed, i, strict, name)
    if name == 'orig':
        var = prog

    def apply(x, sub):
        if 'T' in sub: x = G.split_try_catch_finally(x)
        if 'J' in sub: x = G.neutralise(x, 'jump')
        if 'R' in sub: x = G.neutralise(x, 'raw')
        if 'P' in sub: x = G.neutralise_params(x)
        if 'D' in sub: x = G.dowhile_to_while(x)
        if 'C' in sub: x = G.const_assign_reads_first(x)
        if 'B' in sub: x = G.unwrap_jump_blocks(x)
        if 'V' in sub: x = G.explicit_undefined_before_jumps(x)
        return x

    def raw_sig():
        if G.switch_lexical_dynamic(var) or G.switch_lexical_dynamic(prog):
            return SIG_SWITCH
        if strict and (G.nonsimple_params_with_raw(var) or G.nonsimple_params_with_raw(prog)):
            return SIG_PARAMS
        return None
    def model_raises_first():
        # The known parameter-store defect makes goja raise a ReferenceError (TDZ) the semantics does not raise
        # (possibly swallowed by a catch).  The OPPOSITE symptom -- at the first point where the two part ways the
        # semantics raises/logs a ReferenceError and goja does not -- is never attributed to it (that is what a
        # dropped TDZ check looks like).
        if not model:
            return True
        g = run_harness(harness, [json.dumps({'id': 'v', 'src': placement_src(var, pl), 'strict': strict, 'timeout_ms': 3000})])
        vv = var if pl != 'function' else G.function_placement(var)
        m = run_proc([model], ['run %d %s' % (FUEL, G.to_sexp(vv, strict))])
        if 'v' not in g or not m or not comparable(m[0]):
            return True
        go, mo = g['v']['out'], m[0]
        if ' | ' not in go or ' | ' not in mo:
            return True
        gc, gl = go.split(' | ', 1)
        mc, ml = mo.split(' | ', 1)
        if gl == ml:
            return mc == 'T <ReferenceError>' and gc != mc
        if gl.startswith(ml) and mc == 'T <ReferenceError>':
            return True
        k = 0
        while k < len(gl) and k < len(ml) and gl[k] == ml[k]:
            k += 1
        start = ml.rfind(',', 0, k) + 1
        return ml[start:].startswith('<ReferenceError>') and not gl[start:].startswith('<ReferenceError>')
    def evalfn_mechanism():
        # The known sloppy-direct-eval defect, by MECHANISM: placement eval, sloppy; goja raises
        # `ReferenceError: X is not defined` for a let/const X declared at the top level of the same eval code and
        # referenced from a top-level function declaration; and the twin program in which exactly those declarations
        # are `var f = function (..){..}` statements hoisted to the top behaves, on goja, as the definitional
        # semantics demands (and variant = original).  Anything else is not this finding.
        if pl != 'eval' or strict:
            return False
        names = G.toplevel_lexicals_used_by_fdecls(var) | G.toplevel_lexicals_used_by_fdecls(prog)
        if not names:
            return False
        import re
        # (the diagnostic runs log every caught exception first, so that a ReferenceError swallowed by a catch clause
        #  of the program is seen as well; their outcomes are not compared with anything)
        g = run_harness(harness, [json.dumps({'id': 'v', 'src': placement_src(G.log_all_catches(var), pl), 'strict': False, 'timeout_ms': 3000}),
                                  json.dumps({'id': 'o', 'src': placement_src(G.log_all_catches(prog), pl), 'strict': False, 'timeout_ms': 3000})])
        blamed = set()
        for k in ('v', 'o'):
            blamed.update(re.findall(r'ReferenceError: ([A-Za-z_$][A-Za-z0-9_$]*) is not defined', g.get(k, {}).get('full', '')))
        if not (blamed & names):
            return False
        return pair_ok(harness, model, G.hoist_fdecls_as_var(prog), G.hoist_fdecls_as_var(var), False, 'eval')
    try:
        if pair_ok(harness, model, prog, var, strict, pl):
            return None                      # does not reproduce in isolation: leave it unclassified
        if SIG_LEXDEAD in KNOWN_SIGS and (G.lexical_decl_in_dead_code(var) or G.lexical_decl_in_dead_code(prog)):
            g = run_harness(harness, [json.dumps({'id': 'v', 'src': placement_src(var, pl), 'strict': strict, 'timeout_ms': 3000}),
                                      json.dumps({'id': 'o', 'src': placement_src(prog, pl), 'strict': strict, 'timeout_ms': 3000})])
            if any(LEXDEAD_MSG in g.get(k, {}).get('full', '') for k in ('v', 'o')):
                return SIG_LEXDEAD           # goja rejects the (valid) program with exactly this internal error
        if SIG_EVALFN in KNOWN_SIGS and evalfn_mechanism():
            return SIG_EVALFN
        letters = 'VPDCBJRT'
        changed = {k: (apply(prog, k) != prog or apply(var, k) != var) for k in letters} if KNOWN_SIGS - {SIG_EVALFN} else \
            {k: False for k in letters}
        fwdpat = G.fwd_param_pattern(var) or G.fwd_param_pattern(prog)
        sig_of = {'V': SIG_JUMPVALUE, 'P': SIG_FWDPARAM, 'D': SIG_DOWHILE, 'C': SIG_CONSTTDZ, 'B': SIG_BLOCKJUMP, 'T': SIG_FINALLY,
                  'J': SIG_JUMP, 'R': raw_sig()}
        letters = ''.join(k for k in letters if sig_of[k] in KNOWN_SIGS)      # repaired defects cannot suppress anything
        usable = [k for k in letters if changed[k] and not (k == 'R' and raw_sig() is None)
                  and not (k == 'P' and not (fwdpat and not model_raises_first()))]
        import itertools
        for size in range(1, min(3, len(usable)) + 1):
            for sub in itertools.combinations(usable, size):
                sub = ''.join(sub)
                if pair_ok(harness, model, apply(prog, sub), apply(var, sub), strict, pl):
                    return {'V': SIG_JUMPVALUE, 'P': SIG_FWDPARAM, 'D': SIG_DOWHILE, 'C': SIG_CONSTTDZ, 'B': SIG_BLOCKJUMP, 'T': SIG_FINALLY, 'J': SIG_JUMP, 'R': raw_sig()}[sub[0]]
    except Exception:
        return None
    return None


def new_stats():
    return {'goja_runs': 0, 'compared': 0, 'metamorphic': 0, 'model_variant': 0, 'lean_rw': 0, 'lean_rw_changed': 0, 'lean_blockwrap': 0, 'lean_exprvoid': 0, 'lean_exprcomma': 0, 'goja_kind': {},
            'model_kind': {}, 'rw_applied': {}, 'dump_changed': {}, 'ins_shift': {}, 'programs': 0, 'nontriv': [],
            'src_len': 0, 'samples': [], 'cut_short': 0, 'inconclusive_batches': 0, 'with_pairs': 0, 'with_pairs_bytecode_differs': 0}


def merge_stats(a, b):
    for k, v in b.items():
        if isinstance(v, int):
            a[k] += v
        elif isinstance(v, list) and k in ('nontriv', 'samples'):
            a[k] += v
        elif isinstance(v, dict):
            for kk, vv in v.items():
                if isinstance(vv, list):
                    d = a[k].setdefault(kk, [0, 0])
                    d[0] += vv[0]; d[1] += vv[1]
                else:
                    a[k][kk] = a[k].get(kk, 0) + vv
    return a


def work(args):
    seed, start, count, harness, model, size, deadline = args
    st, fails = new_stats(), []
    batch = 10
    for b0 in range(start, start + count, batch):
        if deadline and time.time() > deadline:
            st['cut_short'] = st.get('cut_short', 0) + 1
            break
        greq, mlines, plans = [], [], {}
        progs = {}
        for i in range(b0, min(b0 + batch, start + count)):
            rng = random.Random('%d/%d' % (seed, i))
            prog = G.gen_program(rng, size)
            tag = 'p%d' % i
            progs[tag] = prog
            gq, ml, plan = build_cases(prog, tag, True, rng)
            greq += gq; mlines += ml; plans[tag] = plan
            st['programs'] += 1
            st['src_len'] += len(G.to_js(prog))
        # goja-only metamorphic pairs with `with` (outside MiniJS): inner let captured vs not captured, sloppy mode
        wpairs = {}
        for i in range(b0, min(b0 + batch, start + count)):
            for k in range(2):
                o_src, v_src = G.gen_with_pair(random.Random('%d/w%d/%d' % (seed, i, k)))
                for pl in PLACEMENTS:
                    wrap = (lambda x: x) if pl == 'global' else ((lambda x: '(function () { %s })();' % x) if pl == 'function'
                                                                 else (lambda x: 'eval(%s)' % json.dumps(x)))
                    wid = 'w%d.%d|%s' % (i, k, pl)
                    wpairs[wid] = (wrap(o_src), wrap(v_src))
                    greq.append(json.dumps({'id': wid + '|o', 'src': wrap(o_src), 'strict': False, 'timeout_ms': 3000}))
                    greq.append(json.dumps({'id': wid + '|v', 'src': wrap(v_src), 'strict': False, 'timeout_ms': 3000}))
        gout = None
        for attempt in (1, 2):
            try:
                gout, mout = evaluate(harness, model, greq, mlines)
                break
            except subprocess.TimeoutExpired:
                st['inconclusive_batches'] = st.get('inconclusive_batches', 0) + 1     # slow machine: retry, never a verdict
        if gout is None:
            continue
        for wid, (o_src, v_src) in wpairs.items():
            go, gv = gout.get(wid + '|o'), gout.get(wid + '|v')
            if go is None or gv is None:
                fails.append({'kind': 'harness-missing', 'tag': wid, 'id': wid})
                continue
            st['goja_runs'] += 2
            st['with_pairs'] += 1
            for g_, src_ in ((go, o_src), (gv, v_src)):
                if g_['out'].split(' ')[0] in BADKINDS:
                    fails.append({'kind': 'goja-' + g_['out'].split(' ')[0].lower(), 'tag': wid, 'rewrite': 'with_inner_capture',
                                  'expected': 'an outcome (the program is valid)', 'observed': g_['out'], 'src': src_, 'seed': seed})
            if go['out'] != 'timeout' and gv['out'] != 'timeout' and go['full'] != gv['full']:
                fails.append({'kind': 'variant-vs-original', 'tag': wid, 'rewrite': 'with_inner_capture', 'placement': wid.split('|')[1],
                              'strict': False, 'expected': go['full'], 'observed': gv['full'], 'src': v_src, 'original_src': o_src, 'seed': seed})
            if go['dump'] != gv['dump']:
                st['with_pairs_bytecode_differs'] += 1
        for tag, plan in plans.items():
            n0 = len(fails)
            check_program(tag, plan, gout, mout, st, fails, have_model=bool(model))
            cache = {}
            for f in fails[n0:]:
                f['seed_index'] = int(tag[1:])
                f['seed'] = seed
                if f['kind'] in ('model-vs-goja', 'variant-vs-original', 'goja-panic', 'goja-crash', 'goja-syntaxerror', 'goja-error') and 'id' in f:
                    if f['id'] not in cache and len(cache) < 24:
                        cache[f['id']] = classify_failure(harness, model, seed, int(tag[1:]), f)
                    f['sig'] = cache.get(f['id'])
                    if f['id'] not in cache and len(cache) >= 24 and all(v is not None for v in cache.values()):
                        # more than 24 failing cases of ONE base program, the first 24 all verified to stem from
                        # known defects: the remaining cases of this program inherit the most frequent signature
                        vals = list(cache.values())
                        f['sig'] = max(set(vals), key=vals.count)
                        f['sig_inherited'] = True
                    f['src'] = placement_src(regen_variant(seed, int(tag[1:]), f['id'].split('|')[1] == '1', f['id'].split('|')[2])[1], f['id'].split('|')[3])[:4000] if f.get('sig') else None
            o = gout.get('%s|1|orig|global' % tag)
            if o is not None and o['out'] not in ('timeout',):
                # non-trivial = terminated normally/abruptly with a non-empty log or a non-undefined value
                if not o['out'].endswith('| ') or not o['out'].startswith('N undefined'):
                    st['nontriv'].append(hashlib.sha1(G.to_js(progs[tag]).encode()).hexdigest()[:16])
                if len(st['samples']) < 2:
                    st['samples'].append({'src': G.to_js(progs[tag])[:300], 'out': o['out'][:120]})
    return st, fails


# ---------------------------------------------------------------------------------------------- shrinking

def still_fails(harness, model, prog, fail):
    """Does `prog` (candidate, smaller) still show a failure of the same kind?"""
    rng = random.Random(7)
    try:
        gq, ml, plan = build_cases(prog, 'q', fail['kind'] != 'model-vs-goja' or fail.get('rewrite') != 'orig', rng,
                                   only_strict=bool(fail.get('strict', True)))
        gout, mout = evaluate(harness, model, gq, ml)
    except Exception:
        return False
    st, fails = new_stats(), []
    check_program('q', plan, gout, mout, st, fails, have_model=bool(model))
    return any(f['kind'] == fail['kind'] for f in fails)


def shrink(harness, model, prog, fail, budget=60):
    prog = copy.deepcopy(prog)
    t0 = time.time()
    changed = True
    while changed and time.time() - t0 < budget:
        changed = False
        for site in G.collect_sites(prog):
            i = 0
            while i < len(site.lst) and time.time() - t0 < budget:
                saved = site.lst[i]
                del site.lst[i]
                if still_fails(harness, model, prog, fail):
                    changed = True
                else:
                    site.lst.insert(i, saved)
                    i += 1
    return prog


def first_failing_case(harness, model, prog, fail):
    rng = random.Random(7)
    gq, ml, plan = build_cases(prog, 'q', True, rng, only_strict=bool(fail.get('strict', True)))
    gout, mout = evaluate(harness, model, gq, ml)
    st, fails = new_stats(), []
    check_program('q', plan, gout, mout, st, fails, have_model=bool(model))
    for f in fails:
        if f['kind'] == fail['kind']:
            gid = f['id']
            src = [json.loads(l) for l in gq if json.loads(l)['id'] == gid]
            oid = gid.split('|'); oid[2] = 'orig'; oid = '|'.join(oid)
            osrc = [json.loads(l) for l in gq if json.loads(l)['id'] == oid]
            ms = [l for (i, l) in ml if i == gid]
            f = dict(f)
            f['case'] = src[0] if src else None
            f['original_case'] = osrc[0] if osrc else None
            f['model_line'] = ms[0] if ms else None
            return f
    return None


# ---------------------------------------------------------------------------------------------- main

def corpus_programs(ctx):
    d = os.path.join(ROOT, 'corpus', 'C02')
    out = []
    if os.path.isdir(d):
        for fn in sorted(os.listdir(d)):
            if fn.endswith('.json'):
                with open(os.path.join(d, fn)) as f:
                    out.append((fn, json.load(f)))
    return out


def run_corpus(ctx, harness, model):
    """Corpus entries: {"src":…, "strict":bool, "expect":"<out>"} (fixed sources with the outcome the
    definitional semantics demands) — run first, always."""
    items = corpus_programs(ctx)
    if not items:
        return
    reqs = [json.dumps({'id': fn, 'src': it['src'], 'strict': it.get('strict', False), 'timeout_ms': 3000}) for fn, it in items]
    outs = run_harness(harness, reqs)
    bad = []
    for fn, it in items:
        got = outs.get(fn, {}).get('out')
        ctx.count(1)
        if got != it['expect']:
            bad.append((fn, it, got))
    unknown = [b for b in bad if not ctx.known_signature(b[1].get('known_signature'))]
    ctx.obligation('corr:corpus', 'correspondence', not unknown,
                   '; '.join('%s: expected %s got %s' % (fn, it['expect'], got) for fn, it, got in unknown)[:1500])
    for fn, it, got in bad:
        ctx.violation(it.get('known_signature') or ('corpus:' + fn),
                      'corpus program %s (%s): the definitional semantics gives %s, goja gives %s' % (fn, it['src'][:120], it['expect'], got),
                      {'kind': 'program', 'source': it['src'], 'strict': it.get('strict', False), 'expected': it['expect'], 'observed': got})
    ctx.stats['corpus'] = len(items)


def main(ctx):
    ok, errs = ctx.lake_build(['GojaModel.C02.Props', 'model_c02'])
    model = ctx.model_exe()
    if not os.path.exists(model):
        model = None
    else:
        # the driver must at least answer a trivial program, else treat it as unavailable
        try:
            t = run_proc([model], ['run 50 (prog 1 () ((expr (num 1))))'], timeout=60)
            if t != ['N 1 | ']:
                model = None
        except Exception:
            model = None
    if model is None:
        ctx.obligation('model-driver', 'correspondence', False, 'model_c02 unavailable: only the metamorphic (goja vs goja) checks run')
    ctx.audit('GojaModel.C02.Props', expect_min=22)
    if ctx.tier == 'thorough':
        ctx.leanchecker('GojaModel.C02.Props')
    harness = ctx.go_build()
    if harness is None:
        return ctx.finish(level='proof', rule='harness did not build')
    run_corpus(ctx, harness, model)

    # Fixed COUNTS, no time box for the verdict: quick 300 programs (~38 goja runs and ~26 model runs each),
    # thorough 5000.  The only clock is a coverage cap for thorough (stop handing out new jobs after 40 min).
    nprog = int(os.environ.get('VERIF_C02_N', '0')) or (300 if ctx.tier == 'quick' else 5000)
    if ctx.broken and ctx.tier == 'quick':
        nprog *= 3          # something no longer checks: raise the search budget
    ncpu = max(1, min(16, (os.cpu_count() or 2)) - 1)
    per = 10 if ctx.tier == 'quick' else 25
    cap = None if ctx.tier == 'quick' else time.time() + 2400
    jobs = [(ctx.seed, s, min(per, nprog - s), harness, model, 1.0, cap) for s in range(0, nprog, per)]
    st, fails = new_stats(), []
    t_corr = time.time()
    with Pool(ncpu) as pool:
        for (s1, f1) in pool.imap_unordered(work, jobs):
            merge_stats(st, s1)
            fails += f1
    ctx.stats['correspondence_wall_s'] = round(time.time() - t_corr, 1)
    ctx.stats['programs_planned'] = nprog
    try:
        ctx.stats['loadavg'] = os.getloadavg()[0]
    except OSError:
        pass
    ctx.count(st['goja_runs'])
    for h in st['nontriv']:
        ctx.nontrivial.add(h)
    for s in st['samples'][:6]:
        ctx.sample(s)
    ctx.stats.update({
        'programs': st['programs'], 'goja_runs': st['goja_runs'], 'model_vs_goja_compared': st['compared'],
        'metamorphic_pairs': st['metamorphic'], 'model_variant_pairs': st['model_variant'], 'lean_rewrite_undo_checks': st['lean_rw'], 'lean_rewrite_changed_program': st['lean_rw_changed'], 'lean_blockwrap_checks': st['lean_blockwrap'], 'lean_exprvoid_checks': st['lean_exprvoid'], 'lean_exprcomma_checks': st['lean_exprcomma'],
        'goja_outcome_kinds': st['goja_kind'], 'model_outcome_kinds': st['model_kind'], 'rewrite_applications': st['rw_applied'],
        'bytecode_skeleton_changed_by_rewrite': {k: '%d/%d' % (v[0], v[1]) for k, v in st['dump_changed'].items()},
        'instruction_category_shift': st['ins_shift'], 'avg_source_len': st['src_len'] // max(1, st['programs']),
        'with_capture_pairs': st.get('with_pairs', 0), 'with_capture_pairs_bytecode_differs': st.get('with_pairs_bytecode_differs', 0),
        'jobs_cut_by_coverage_cap': st.get('cut_short', 0), 'inconclusive_batches_retried': st.get('inconclusive_batches', 0),
    })
    kinds = {}
    for f in fails:
        kinds.setdefault(f['kind'], []).append(f)
    for k in ('model-vs-goja', 'variant-vs-original', 'model-variant-vs-original', 'lean-rewrite-does-not-undo',
              'goja-panic', 'goja-crash', 'goja-syntaxerror', 'goja-error', 'generator-error', 'harness-missing', 'batch-timeout'):
        fl_all = kinds.get(k, [])
        fl = [f for f in fl_all if not ctx.known_signature(f.get('sig'))]
        if k in ('model-vs-goja', 'variant-vs-original', 'model-variant-vs-original', 'lean-rewrite-does-not-undo') or fl_all:
            ctx.obligation('corr:' + k, 'correspondence', not fl,
                           ('%d failures not attributable to a known finding (%d attributable); first: %s' % (len(fl), len(fl_all) - len(fl), json.dumps(fl[0])[:900])) if fl
                           else ('%d failures, all attributed to known findings' % len(fl_all) if fl_all else ''))
    # failures attributed to known findings: reported once per signature (KNOWN-FINDING line)
    attributed = {}
    for f in fails:
        if f.get('sig') and ctx.known_signature(f['sig']):
            attributed.setdefault(f['sig'], []).append(f)
    for sig, fl in attributed.items():
        f = fl[0]
        ctx.violation(sig, '%d failing cases attributed (the failure disappears when the dead/no-op syntax is neutralised); e.g. %s strict=%s: %s'
                      % (len(fl), f['id'], f['id'].split('|')[1], (f.get('src') or '')[:160]),
                      {'kind': 'program', 'failure': f, 'source': f.get('src')})
    ctx.stats['failures_attributed_to_known_findings'] = {k: len(v) for k, v in attributed.items()}
    # shrink and report (a few per kind)
    for k, fl0 in kinds.items():
        seen = 0
        fl = [f for f in fl0 if not ctx.known_signature(f.get('sig'))]
        for f in fl:
            if 'seed_index' not in f and f.get('rewrite') == 'with_inner_capture' and seen < 2:
                seen += 1
                sig = '%s:with_inner_capture:%s' % (k, hashlib.sha1((f.get('src') or '').encode()).hexdigest()[:10])
                ctx.violation(sig, '%s with_inner_capture placement=%s (sloppy): capturing an inner let in a never-called closure changes the '
                              'behaviour inside `with`: expected %s, goja gives %s' % (k, f.get('placement'), f.get('expected'), f.get('observed')),
                              {'kind': 'program', 'failure': {'case': {'id': 'variant', 'src': f.get('src'), 'strict': False, 'timeout_ms': 3000},
                                                              'original_case': {'id': 'original', 'src': f.get('original_src'), 'strict': False, 'timeout_ms': 3000},
                                                              'expected': f.get('expected'), 'observed': f.get('observed')},
                               'source': f.get('src')})
                continue
            if seen >= 2 or 'seed_index' not in f:
                break
            seen += 1
            i = f['seed_index']
            rng = random.Random('%d/%d' % (ctx.seed, i))
            prog = G.gen_program(rng, 1.0)
            small = prog
            if k == 'goja-crash':
                parts = f['id'].split('|')
                _, var = regen_variant(ctx.seed, i, parts[1] == '1', parts[2])
                src = placement_src(var, parts[3])
                sig = 'goja-crash:%s:%s' % (parts[2], hashlib.sha1(src.encode()).hexdigest()[:10])
                ctx.violation(sig, 'the host process dies while goja runs a program (rewrite=%s placement=%s strict=%s); '
                              'the original program runs fine' % (parts[2], parts[3], parts[1]),
                              {'kind': 'program', 'source': src, 'strict': parts[1] == '1', 'seed_index': i,
                               'expected': 'same outcome as the original program', 'observed': 'host process died (runaway allocation)',
                               'original_source': placement_src(prog, parts[3])})
                continue
            if k in ('model-vs-goja', 'variant-vs-original', 'goja-panic', 'goja-syntaxerror', 'goja-error'):
                try:
                    small = shrink(harness, model, prog, f, budget=25 if ctx.tier == 'quick' else 90)
                except Exception as e:
                    ctx.log('shrink failed', e)
            det = None
            try:
                det = first_failing_case(harness, model, small, f)
            except Exception as e:
                ctx.log('detail failed', e)
            if det is None:
                det, small = f, prog
            sig_src = (det.get('case') or {}).get('src', G.to_js(small))
            sig = '%s:%s:%s' % (k, det.get('rewrite', 'orig'), hashlib.sha1(sig_src.encode()).hexdigest()[:10])
            if k in ('model-vs-goja', 'variant-vs-original', 'goja-panic', 'goja-crash', 'goja-syntaxerror', 'goja-error'):
                ctx.violation(sig, '%s rewrite=%s placement=%s strict=%s: expected %s, goja gives %s' % (
                    k, det.get('rewrite'), det.get('placement'), det.get('strict'), det.get('expected'), det.get('observed')),
                    {'kind': 'program', 'failure': det, 'source': G.to_js(small), 'seed_index': i,
                     'sexp': G.to_sexp(small, bool(det.get('strict', True)))})
    return ctx.finish(level='proof',
                      rule='programs from the type/scope-directed MiniJS generator (seeded); each x {strict,sloppy} x {global,function,eval} x '
                           'every applicable catalogue rewrite; distinct non-trivial = distinct source text whose strict/global run logs '
                           'something or completes with a value other than undefined or throws')


def replay(ctx, path):
    with open(path) as f:
        r = json.load(f)
    harness = ctx.go_build()
    model = ctx.model_exe() if os.path.exists(ctx.model_exe()) else None
    cases = []
    fl = r.get('failure') or {}
    for key in ('case', 'original_case'):
        if fl.get(key):
            cases.append((key, fl[key]))
    if not cases and r.get('source'):
        cases.append(('source', {'id': 'replay', 'src': r['source'], 'strict': bool(r.get('strict', False)), 'timeout_ms': 3000}))
    bad = 0
    for key, c in cases:
        out = run_proc([harness], [json.dumps(c)])
        print('%s: strict=%s\n  src: %s\n  goja: %s' % (key, c.get('strict'), c['src'], out[0] if out else '?'))
    if fl.get('model_line') and model:
        print('  model: %s' % run_proc([model], [fl['model_line']])[0])
    print('  expected: %s\n  observed (recorded): %s' % (fl.get('expected', r.get('expected')), fl.get('observed', r.get('observed'))))
    return 0
