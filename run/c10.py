"""
C10 — promise jobs: exactly once, FIFO, drained before control returns to Go.

Order of work (BUILDERS.md): (regen + Tie) -> lake build Props + driver -> audit -> go build harness ->
corpus, then generated programs: harness (real goja) and model driver (Lean) read the same program lines;
outputs are diffed field by field; any difference is shrunk and reported as a violation (the model is the
oracle for the exact global order, the job-queue length, the tracker log and the final states).
"""
import json, os, re, sys, threading, time
from vlib import *

PROP = "C10"

# ----------------------------------------------------------------------------------------------- generator
VAL_KINDS = ["n", "p", "t", "u", "a"]


class Gen:
    """Generates one program (structured), ranks entities so that every body only refers (as handler,
    executor, callee or thenable) to entities generated before it => every program terminates."""

    def __init__(self, rng, size="std"):
        self.r = rng
        self.size = size

    def val(self, ctx, allow_arg=True):
        r = self.r
        x = r.random()
        if x < 0.33:
            return "n%d" % r.randrange(10)
        if x < 0.63:
            return "p%d" % r.randrange(ctx["np"])
        if x < 0.76 and ctx["ts"]:
            return "t%d" % r.choice(ctx["ts"])
        if x < 0.84 and ctx["ts"]:
            return "b%d" % r.choice(ctx["ts"])      # native promise with an overridden own `then`
        if x < 0.88 or not allow_arg:
            return "u"
        return "a"

    def fopt(self, ctx, pnone=0.25):
        if not ctx["fs"] or self.r.random() < pnone:
            return "-"
        return str(self.r.choice(ctx["fs"]))

    def act(self, ctx):
        r = self.r
        np_, ns = ctx["np"], ctx["ns"]
        w = [("then", 6), ("res", 4), ("rej", 3), ("new", 3), ("catch", 2), ("fin", 2), ("pres", 2.5), ("prej", 2),
             ("comb", 2), ("log", 1)]
        if ctx["as"] and ctx["kind"] != "A":
            w.append(("call", 2))
        if ctx["kind"] == "A":
            w.append(("await", 7))
        if ctx.get("allow_int"):
            w.append(("int", 0.25))
        tot = sum(x for _, x in w)
        x = r.random() * tot
        for name, wt in w:
            x -= wt
            if x < 0:
                break
        if name == "log":
            return ["log", str(r.randrange(10))]
        if name == "new":
            f = "-"
            if ctx["kind"] in ("R", "F") and ctx["fs"] and r.random() < 0.4:
                f = str(r.choice(ctx["fs"]))
            return ["new", str(r.randrange(np_)), str(r.randrange(ns)), f]
        if name in ("res", "rej"):
            return [name, str(r.randrange(ns)), self.val(ctx)]
        if name == "then":
            return ["then", str(r.randrange(np_)), self.fopt(ctx, 0.15), self.fopt(ctx, 0.5), str(r.randrange(np_))]
        if name == "catch":
            return ["catch", str(r.randrange(np_)), self.fopt(ctx, 0.1), str(r.randrange(np_))]
        if name == "fin":
            return ["fin", str(r.randrange(np_)), self.fopt(ctx, 0.1), str(r.randrange(np_))]
        if name in ("pres", "prej"):
            return [name, self.val(ctx), str(r.randrange(np_))]
        if name == "comb":
            kind = r.choice(["all", "aset", "aset", "race", "any"])
            n = r.choice([0, 1, 2, 2, 3, 3])
            if ctx.get("cs") and r.random() < 0.4:
                # the combinator called on a user-defined constructor whose static resolve returns a misbehaving thenable
                return [kind + "C", str(r.randrange(np_)), str(r.choice(ctx["cs"])), str(n)] + [self.val(ctx) for _ in range(n)]
            return [kind, str(r.randrange(np_)), str(n)] + [self.val(ctx) for _ in range(n)]
        if name == "call":
            return ["call", str(r.choice(ctx["as"])), str(r.randrange(np_))]
        if name == "await":
            return [r.choice(["await", "awaitt", "awaitt"]), self.val(ctx, allow_arg=False)]
        if name == "int":
            return ["int"]
        raise AssertionError(name)

    def compl(self, ctx):
        r = self.r
        return [r.choice(["ret", "ret", "throw"]), self.val(ctx)]

    def program(self):
        r = self.r
        big = self.size == "big"
        np_ = r.choice([2, 3, 4, 5])
        ns = r.choice([2, 3, 4])
        nent = r.choice([2, 3, 4, 5, 6] if not big else [4, 6, 7, 8])
        ctx = {"np": np_, "ns": ns, "fs": [], "ts": [], "as": [], "cs": [], "kind": "F"}
        secs = []
        allow_int = r.random() < 0.12
        for _ in range(nent):
            kind = "F" if not ctx["fs"] else r.choices(["F", "T", "A"], [6, 2, 2])[0]
            c = dict(ctx, kind=kind, allow_int=allow_int)
            nacts = r.choice([0, 0, 1, 1, 2, 3]) if kind != "A" else r.choice([1, 2, 3, 4])
            if kind == "T":
                # misbehaving thenables: call both functions, several times, synchronously (in then) or later (slot kept)
                acts = []
                for _ in range(r.choice([0, 1, 1, 2, 3])):
                    acts.append([r.choice(["res", "res", "rej"]), None, self.val(c, allow_arg=False)])
                if r.random() < 0.3:
                    acts.insert(r.randrange(len(acts) + 1), ["log", str(r.randrange(10))])
                if allow_int and r.random() < 0.2:
                    acts.insert(r.randrange(len(acts) + 1), ["int"])
                slot = r.randrange(ns)
                for a in acts:
                    if len(a) > 1 and a[1] is None:
                        a[1] = str(slot)
                gt = "-"
                if r.random() < 0.15:
                    gt = self.val(c, allow_arg=False)
                idn = len(ctx["ts"])
                secs.append({"k": "T", "head": [str(idn), str(slot), gt], "acts": acts, "compl": self.compl(dict(c, ts=ctx["ts"]))if r.random() < 0.8 else ["ret", "u"]})
                ctx["ts"] = ctx["ts"] + [idn]
                if r.random() < 0.5 and len(ctx["cs"]) < 2:
                    cid = len(ctx["cs"])
                    secs.append({"k": "C", "head": [str(cid), r.choice(["s", "f"]), str(idn)], "acts": None})
                    ctx["cs"] = ctx["cs"] + [cid]
            elif kind == "F":
                idn = len(ctx["fs"])
                secs.append({"k": "F", "head": [str(idn)], "acts": [self.act(c) for _ in range(nacts)], "compl": self.compl(c)})
                ctx["fs"] = ctx["fs"] + [idn]
            else:
                idn = len(ctx["as"])
                acts = [self.act(c) for _ in range(nacts)]
                secs.append({"k": "A", "head": [str(idn)], "acts": acts, "compl": self.compl(dict(c))})
                ctx["as"] = ctx["as"] + [idn]
        # top level: runs and Go-side operations
        nruns = r.choice([1, 1, 2, 2, 3, 4])
        budget = r.choice([3, 5, 7, 9, 12] if not big else [8, 12, 16, 20])
        c = dict(ctx, kind="R", allow_int=allow_int)
        runs = []
        for i in range(nruns):
            n = max(1, budget // nruns + r.choice([-1, 0, 1]))
            runs.append({"k": "R", "head": [], "acts": [self.act(c) for _ in range(n)], "compl": ["ret", "u"] if r.random() < 0.85 else ["throw", self.val(c, False)]})
        variants = [secs + runs]
        if r.random() < 0.5:
            # Go-side NewPromise; its resolver is called BETWEEN runs at every position (one variant per position)
            gk = r.randrange(np_)
            gnew = {"k": "G", "head": ["gnew", str(gk), "0"], "acts": None}
            gop = {"k": "G", "head": [r.choice(["gres", "gres", "grej"]), "0", self.val(c, False)], "acts": None}
            gop2 = {"k": "G", "head": [r.choice(["gres", "grej"]), "0", self.val(c, False)], "acts": None} if r.random() < 0.4 else None
            newpos = r.randrange(len(runs) + 1)
            variants = []
            for pos in range(newpos, len(runs) + 1):
                rs = list(runs)
                tail = [gop] + ([gop2] if gop2 else [])
                rs[pos:pos] = tail
                rs[newpos:newpos] = [gnew]
                variants.append(secs + rs)
        return variants


def render(secs):
    parts = []
    for s in secs:
        if s["k"] in ("G", "C"):
            parts.append(s["k"] + " " + " ".join(s["head"]))
        else:
            toks = [s["k"]] + s["head"]
            for a in s["acts"]:
                toks += a
            toks += [";"] + s["compl"]
            parts.append(" ".join(toks))
    return " | ".join(parts)


def act_positions(secs):
    return [(i, j) for i, s in enumerate(secs) if s["acts"] is not None for j in range(len(s["acts"]))] + \
           [(i, -1) for i, s in enumerate(secs) if s["k"] in ("G", "R")]


def restrict(secs, keep):
    keep = set(keep)
    out = []
    for i, s in enumerate(secs):
        if s["k"] == "C":
            out.append(s)
            continue
        if s["k"] == "G":
            if (i, -1) in keep:
                out.append(s)
            continue
        if s["k"] == "R" and (i, -1) not in keep:
            continue
        t = dict(s)
        t["acts"] = [a for j, a in enumerate(s["acts"]) if (i, j) in keep]
        out.append(t)
    return out


# ----------------------------------------------------------------------------------------------- running
def run_chunk(ctx, exe, chunk, timeout, depth=0):
    """Run one chunk.  The harness flushes after every line and exits after printing HANG, so when there are fewer
    answers than lines the offending line is known: it is re-run alone with a 4x deadline (a slow machine is not a
    violation), recorded as HANG/CRASH if it fails again, and the rest of the chunk is run afterwards.  A chunk-level
    timeout of the orchestrator is inconclusive (TIMEOUT), never a violation."""
    out = []
    rest = list(chunk)
    while rest:
        rc, o, err = ctx.run_lines([exe], rest, timeout=timeout)
        if len(o) >= len(rest):
            out += o[:len(rest)]
            break
        hung = bool(o) and o[-1] == "HANG"
        good = o[:-1] if hung else o
        out += good
        culprit = rest[len(good)]
        env = dict(os.environ, C10_DEADLINE_MS="80000")
        rc2, o2, err2 = ctx.run_lines([exe], [culprit], timeout=300, env=env)
        if len(o2) == 1 and o2[0] != "HANG":
            out.append(o2[0])
        elif hung or (o2 and o2[0] == "HANG"):
            out.append("HANG")
        elif rc == 124 and rc2 == 124:
            out.append("TIMEOUT")
        else:
            last = (err2 or err).strip().splitlines()
            out.append("CRASH rc=%s %s" % (rc2, " / ".join(last[:3])[:300] if last else ""))
        rest = rest[len(good) + 1:]
    return out


def run_sharded(ctx, exe, lines, shards=12, timeout=900):
    """Run `exe` over `lines` split into contiguous shards in parallel; returns output lines (same order)."""
    if not lines:
        return []
    n = max(1, min(shards, len(lines) // 200 + 1))
    size = (len(lines) + n - 1) // n
    chunks = [lines[i:i + size] for i in range(0, len(lines), size)]
    res = [None] * len(chunks)

    def work(i):
        res[i] = run_chunk(ctx, exe, chunks[i], timeout)
    th = [threading.Thread(target=work, args=(i,)) for i in range(len(chunks))]
    for t in th:
        t.start()
    for t in th:
        t.join()
    return [l for c in res for l in c]


FIELD_RE = re.compile(r"(ev|tr|q|err|depth)=([^;#]*)")


def first_diff_field(impl, model):
    if "ACT-VIOLATION" in impl:
        return "async-context-tracker"
    if impl.startswith("HANG"):
        return "hang"
    if impl.startswith(("CRASH", "PANIC")):
        return "crash"
    a, b = impl.split(" # "), model.split(" # ")
    if len(a) != len(b):
        return "shape"
    for x, y in zip(a, b):
        if x == y:
            continue
        if x.startswith("st=") or y.startswith("st="):
            return "state"
        fx, fy = dict(FIELD_RE.findall(x)), dict(FIELD_RE.findall(y))
        for f in ("err", "q", "depth", "ev", "tr"):
            if fx.get(f) != fy.get(f):
                return {"ev": "event-order", "tr": "tracker", "q": "queue-length", "err": "error-kind", "depth": "call-depth"}[f]
        return "segment"
    return "none"


def independent_checks(line, impl):
    """Property-level checks that need no model: queue must be empty after every outermost return;
    the tracker log per promise must be a prefix of [reject, handle]; no crash."""
    probs = []
    if impl == "TIMEOUT":
        return []
    if "ACT-VIOLATION" in impl:
        return ["async-context-tracker"]
    if impl.startswith("HANG"):
        return ["hang"]
    if impl.startswith(("PANIC", "CRASH", "SETUP-ERROR", "PARSE-ERROR")):
        return ["harness:" + impl.split(" ")[0]]
    seen = {}
    for seg in impl.split(" # "):
        if seg.startswith("st="):
            if "QUEUE-NOT-EMPTY" in seg:
                probs.append("queue-length")
            continue
        f = dict(FIELD_RE.findall(seg))
        if f.get("q", "0") != "0":
            probs.append("queue-length")
        if "depth" in f:
            probs.append("call-depth")
        for t in [x for x in f.get("tr", "").split(",") if x]:
            al, op = t.split(":")
            seen.setdefault(al, []).append(op)
    for al, ops in seen.items():
        if ops not in (["r"], ["r", "h"]):
            probs.append("tracker")
    return sorted(set(probs))


def stats_of(ctx, lines, outs):
    st = ctx.stats
    acts = st.setdefault("action_mix", {})
    for l in lines:
        for t in l.split():
            if t in ("then", "res", "rej", "new", "catch", "fin", "pres", "prej", "all", "aset", "race", "any", "call", "int", "await",
                     "awaitt", "log", "gnew", "gres", "grej", "allC", "asetC", "raceC", "anyC"):
                acts[t] = acts.get(t, 0) + 1
    st["bad_promise_values(b<id>)"] = st.get("bad_promise_values(b<id>)", 0) + sum(len(re.findall(r" b\d+", l)) for l in lines)
    evh = st.setdefault("events_per_case_hist", {})
    trh = st.setdefault("tracker_entries_per_case_hist", {})
    errs = st.setdefault("error_kinds", {})
    fin = st.setdefault("final_states", {"P": 0, "F": 0, "R": 0})
    kinds = st.setdefault("event_kinds", {})
    for o in outs:
        nev = ntr = 0
        for seg in o.split(" # "):
            if seg.startswith("st="):
                for s in seg[3:].split(","):
                    p = s.split(":")
                    if len(p) > 1 and p[1] in fin:
                        fin[p[1]] += 1
                continue
            f = dict(FIELD_RE.findall(seg))
            evs = [x for x in re.findall(r"(?:^|,)(int|cr|[fxaltgwceRJC])", f.get("ev", ""))]
            nev += len(evs)
            for kk in evs:
                kinds[kk] = kinds.get(kk, 0) + 1
            ntr += len([x for x in f.get("tr", "").split(",") if x])
            errs[f.get("err", "?")] = errs.get(f.get("err", "?"), 0) + 1
        b = str(min(nev, 40) // 4 * 4)
        evh[b] = evh.get(b, 0) + 1
        trh[str(min(ntr, 8))] = trh.get(str(min(ntr, 8)), 0) + 1


def nontrivial(out):
    """A case is non-trivial if at least 3 handler/body events ran in jobs or the tracker was called or a run was interrupted."""
    nev = out.count(",f") + out.count("=f") + out.count("w:") + out.count("c:") + out.count(",t") + out.count("=t")
    return nev >= 3 or "tr=T" in out or "err=int" in out


def load_corpus():
    d = os.path.join(ROOT, "corpus", PROP)
    lines = []
    if os.path.isdir(d):
        for fn in sorted(os.listdir(d)):
            if fn.endswith(".txt"):
                for l in open(os.path.join(d, fn)):
                    l = l.strip()
                    if l and not l.startswith("#"):
                        lines.append(l)
    return lines


def shrink(ctx, harness, model, secs, want_field):
    def fails(keep):
        line = render(restrict(secs, keep))
        rc1, o1, _ = ctx.run_lines([harness], [line], timeout=120, env=dict(os.environ, C10_DEADLINE_MS="4000"))
        if model:
            rc2, o2, _ = ctx.run_lines([model], [line], timeout=120)
            if not o1 or not o2 or o2[0] in ("PARSE-ERROR", "OOF"):
                return False
            if want_field == "hang":
                return o1[0].startswith("HANG")
            return o1[0] != o2[0] and not o1[0].startswith("HANG")
        return bool(o1) and want_field in independent_checks(line, o1[0])
    items = act_positions(secs)
    try:
        keep = ctx.ddmin(items, fails)
    except Exception:
        keep = items
    return restrict(secs, keep)


def main(ctx):
    quick = ctx.tier == "quick"
    ctx.trusted_base += [
        "hand transcription of /repo/builtin_promise.go, Runtime.leave/leaveAbrupt and asyncRunner into lean/GojaModel/C10/{Model,Interp}.lean",
        "Go harness compile step (program text -> JavaScript) and the Lean driver's parser read the same grammar",
        "promise identity in the tracker log is compared up to renaming by order of first appearance",
    ]
    ctx.assumptions += [
        "Promise, Promise.prototype.then and the `constructor` property are not tampered with by the program (no subclassing / species)",
        "interrupts are raised synchronously from a Go callback inside the running script (deterministic position)",
        "one Runtime, one goroutine (the documented usage)",
    ]
    have_tie = os.path.exists(os.path.join(ROOT, "extract", "c10.go")) and ctx.regen()
    targets = ["GojaModel.C10.Props", "GojaModel.C10.ActProps", "GojaModel.C10.ActProps2", "model_c10"] + (["GojaModel.C10.Tie"] if have_tie else [])
    ok, errs = ctx.lake_build(targets)
    model = ctx.model_exe()
    if not ok:
        # a broken Tie must not take the driver down: rebuild what is independent of it
        rc, o, e = sh(["lake", "build", "model_c10"], cwd=LEAN, timeout=1200)
        if rc != 0 or not os.path.exists(model):
            model = None
        rc, o, e = sh(["lake", "build", "GojaModel.C10.Props"], cwd=LEAN, timeout=1200)
    ctx.audit("GojaModel.C10.Props", expect_min=48)
    ctx.audit("GojaModel.C10.ActProps", expect_min=8)
    ctx.audit("GojaModel.C10.ActProps2", expect_min=7)
    tie_ok = have_tie and not any("Tie.lean" in (e.get("file") or "") for e in errs)
    if tie_ok:
        ctx.audit("GojaModel.C10.Tie", expect_min=2)
    elif not have_tie:
        ctx.obligation("tie.regen", "tie", False, "extract/c10.go missing or the decision skeleton could not be regenerated")
    if not quick:
        ctx.leanchecker("GojaModel.C10.Props")
    ctx.log("lean built + audited")
    harness = None
    for attempt in range(4):
        nob, nbr = len(ctx.obligations), len(ctx.broken)
        harness = ctx.go_build()
        if harness is not None:
            break
        det = ctx.obligations[-1]["detail"] if len(ctx.obligations) > nob else ""
        if attempt < 3 and ("verifying module" in det or "go.sum" in det or "missing go.sum entry" in det):
            # harness/go.sum is rewritten by every concurrently running check (vlib.go_build copies it): transient
            del ctx.obligations[nob:]
            del ctx.broken[nbr:]
            time.sleep(2 + attempt * 3)
            continue
        break
    if harness is None:
        return ctx.finish(level="proof", rule="harness did not build")
    ctx.log("harness built")

    # ------------------------------------------------------------------ cases: corpus first, then generated
    corpus = load_corpus()
    cases = [(l, None) for l in corpus]
    n_prog = 8000 if quick else 60000
    g = Gen(ctx.rng, "std")
    gb = Gen(ctx.rng, "big")
    for i in range(n_prog):
        gen = gb if i % 5 == 4 else g
        for secs in gen.program():
            cases.append((render(secs), secs))
    lines = [c[0] for c in cases]
    ctx.stats["corpus_cases"] = len(corpus)
    ctx.stats["generated_cases"] = len(lines) - len(corpus)

    ctx.log("generated %d cases" % len(lines))
    impl = run_sharded(ctx, harness, lines)
    ctx.log("harness done")
    mod = run_sharded(ctx, model, lines) if model else None
    ctx.log("model done")
    ctx.count(len(lines))
    stats_of(ctx, lines, impl)

    bad_model = 0
    mism = []
    indep = []
    for i, l in enumerate(lines):
        probs = independent_checks(l, impl[i])
        if probs:
            indep.append((i, probs))
        if mod is not None:
            if impl[i] == "TIMEOUT" or mod[i] == "TIMEOUT":
                ctx.stats["timeouts_inconclusive"] = ctx.stats.get("timeouts_inconclusive", 0) + 1
            elif mod[i] in ("PARSE-ERROR", "OOF") or mod[i].startswith("CRASH"):
                bad_model += 1
            elif mod[i] != impl[i]:
                mism.append(i)
            if mod[i] == impl[i] and nontrivial(impl[i]):
                ctx.nontriv(l)
        elif not probs and nontrivial(impl[i]):
            ctx.nontriv(l)
        if i % 997 == 0:
            ctx.sample({"program": l, "implementation": impl[i], "model": mod[i] if mod else None})
    ctx.obligation("corr:model-accepts-every-generated-program", "correspondence", bad_model == 0,
                   "%d programs rejected by the model driver (parse error / fuel)" % bad_model)
    ctx.obligation("corr:events+tracker+queue+states(model=goja)", "correspondence", mod is not None and not mism,
                   "model driver unavailable" if mod is None else "%d of %d programs differ; first: %s" % (len(mism), len(lines), lines[mism[0]] if mism else ""))
    ctx.obligation("inv:queue-empty-after-every-outermost-return(hook)", "correspondence", not any("queue-length" in p for _, p in indep),
                   "; ".join(lines[i] for i, p in indep if "queue-length" in p)[:600])
    ctx.obligation("inv:tracker-log-per-promise-in-{[r],[r,h]}", "correspondence", not any("tracker" in p for _, p in indep),
                   "; ".join(lines[i] for i, p in indep if "tracker" in p)[:600])
    ctx.obligation("inv:async-context-tracker-protocol(never nested, resumed context grabbed before, at most once)", "correspondence",
                   not any("async-context-tracker" in p for _, p in indep),
                   "; ".join("%s -> %s" % (lines[i], impl[i][-300:]) for i, p in indep if "async-context-tracker" in p)[:900])
    ctx.obligation("inv:no-harness-crash", "correspondence", not any(p[0].startswith("harness:") for _, p in indep),
                   "; ".join("%s -> %s" % (lines[i], impl[i][:200]) for i, p in indep if p[0].startswith("harness:"))[:900])
    ctx.obligation("inv:every-program-terminates(model terminates; per-case deadline 20 s, retried with 80 s)", "correspondence",
                   not any("hang" in p for _, p in indep), "; ".join(lines[i] for i, p in indep if "hang" in p)[:900])

    # ------------------------------------------------------------------ interrupt from ANOTHER goroutine, at an arbitrary moment
    # The first run is interrupted by rt.Interrupt() called from a second goroutine after a random delay.  Whatever the
    # moment: (1) what happened up to it is a prefix of the uninterrupted run predicted by the model (events, tracker log),
    # (2) the job queue is empty when RunString returns, (3) the next outermost call sees none of the dropped jobs
    # (`after_interrupt_only_new_jobs` holds for EVERY reachable kernel state, i.e. for every interrupt point);
    # if the interrupt arrives too late the whole run must equal the model's.
    gprogs = []
    for line, secs in cases:
        if secs is None or " int" in line or len(gprogs) >= (700 if quick else 6000):
            continue
        if any(x["k"] == "G" for x in secs):
            continue
        keep = [x for x in secs if x["k"] != "R"] + [x for x in secs if x["k"] == "R"][:1]
        gprogs.append(render(keep) + " | R log 9 ; ret u")
    gdel = ["%d:%d" % (ctx.rng.choice([0, 1, 1, 1, 2, 2, 3, 4, 6]), ctx.rng.choice([30, 100, 300, 1000, 1000])) for _ in gprogs]
    gimpl = run_sharded(ctx, harness, ["GINT %s %s" % (d, q) for d, q in zip(gdel, gprogs)], shards=8)
    gmod = run_sharded(ctx, model, gprogs) if model else None
    gstat = {"cases": len(gprogs), "interrupted": 0, "interrupted_before_first_event": 0, "interrupted_mid_run": 0, "too_late": 0}
    gbad = []
    if gmod is not None:
        for q, d, h, m in zip(gprogs, gdel, gimpl, gmod):
            if h == "TIMEOUT" or m in ("TIMEOUT", "OOF", "PARSE-ERROR"):
                continue
            hs, ms = h.split(" # "), m.split(" # ")
            f1, m1 = dict(FIELD_RE.findall(hs[0])), dict(FIELD_RE.findall(ms[0]))
            why = None
            if "ACT-VIOLATION" in h or h.startswith(("HANG", "CRASH", "PANIC")):
                why = "harness:" + h[:60]
            elif f1.get("err") != "int":
                gstat["too_late"] += 1
                if h != m:
                    why = "uninterrupted run differs from the model"
            else:
                gstat["interrupted"] += 1
                def is_prefix(a, b):
                    return a == "" or a == b or b.startswith(a + ",")
                if f1.get("ev", "") == "":
                    gstat["interrupted_before_first_event"] += 1
                elif f1.get("ev") != m1.get("ev"):
                    gstat["interrupted_mid_run"] += 1
                if not is_prefix(f1.get("ev", ""), m1.get("ev", "")):
                    why = "events before the interrupt are not a prefix of the uninterrupted run"
                elif not is_prefix(f1.get("tr", ""), m1.get("tr", "")):
                    why = "tracker calls before the interrupt are not a prefix of the uninterrupted run"
                elif f1.get("q") != "0" or "depth" in f1:
                    why = "job queue not empty / runtime not idle after the interrupted call"
                elif len(hs) < 2 or hs[1] != "ev=l9;tr=;q=0;err=none":
                    why = "the call after the interrupt saw jobs that had been dropped"
            if why:
                gbad.append((q, d, why, h, m))
    ctx.count(len(gprogs))
    ctx.stats["goroutine_interrupt"] = gstat
    def _known_async(q, h, m):
        f1 = dict(FIELD_RE.findall(h.split(" # ")[0]))
        mev = dict(FIELD_RE.findall(m.split(" # ")[0])).get("ev", "")
        return "depth" in f1 and mev[len(f1.get("ev", "")):].lstrip(",").startswith("g") and " call " in q
    gnew = [b for b in gbad if not _known_async(b[0], b[3], b[4])]
    ctx.stats["goroutine_interrupt"]["hit_known_async_start_defect"] = len(gbad) - len(gnew)
    ctx.obligation("corr:interrupt-from-another-goroutine(prefix of the model run, queue dropped, next call clean)", "correspondence",
                   gmod is not None and not gnew, "; ".join("%s [%s]: %s" % (q, d, w) for q, d, w, _, _ in gnew[:3])[:900])
    KNOWN_ASYNC = "c10:interrupt-in-async-start-getter:queue-never-drained"
    rest_bad = []
    for q, d, w, h, m in gbad:
        # the known defect: the interrupt lands in a `then`/`constructor` getter that asyncRunner.step runs while an async
        # function STARTS; symptom: call depth left > 0 and the next event the model predicts is a thenable getter
        f1 = dict(FIELD_RE.findall(h.split(" # ")[0]))
        mev = dict(FIELD_RE.findall(m.split(" # ")[0])).get("ev", "")
        nxt = mev[len(f1.get("ev", "")):].lstrip(",")
        if "depth" in f1 and nxt.startswith("g") and " call " in q:
            ctx.violation(KNOWN_ASYNC, "interrupt (from another goroutine, released at %s) inside a then-getter run by asyncRunner.step "
                          "during an async function's start leaves the call stack non-empty: %s" % (d, q),
                          {"kind": "schedule", "program": q, "release": d, "expected": "prefix of: " + m, "observed": h})
        else:
            rest_bad.append((q, d, w, h, m))
    for q, d, w, h, m in rest_bad[:2]:
        ctx.violation("c10:goroutine-interrupt", "interrupt from another goroutine (timing dependent, released at event:delay_us %s): %s: %s" % (d, w, q),
                      {"kind": "schedule", "program": q, "release": d, "expected": "prefix of: " + m, "observed": h, "difference": w})
    # deterministic probe of the same defect (known finding; fixes/C10-interrupt-in-async-start.diff)
    _, pr, _ = ctx.run_lines([harness], ["PROBE async-start-interrupt"], timeout=300)
    ctx.stats["probe_async_start_interrupt"] = pr[0] if pr else None
    if pr and any(("depth=0" not in x) or ('next-job="job"' not in x) or ("q=0" not in x) for x in pr[0].split(" | ")):
        ctx.violation(KNOWN_ASYNC, "after an interrupt raised in a then/constructor getter that runs while an async function starts, "
                      "the runtime keeps a call-stack frame and never drains its promise job queue again: %s" % pr[0],
                      {"kind": "program", "program": "(async function(){ await {get then(){ INT(); return undefined }} })()  then  "
                       "Promise.resolve(1).then(job)", "expected": "depth=0, next job runs, queue empty", "observed": pr[0]})
    # ------------------------------------------------------------------ AsyncContextTracker contract probes (func.go:41-43)
    # "for each invocation of Grab there will be exactly one subsequent invocation of Resumed and then Exited (assuming the
    # Promise is fulfilled or rejected)": every promise of these programs settles and no interrupt occurs.
    probes = ["F 0 ; ret a | R pres n1 0 catch 0 0 1 ; ret u",
              "F 0 ; ret a | R prej n1 0 then 0 0 - 1 catch 1 0 2 ; ret u",
              "F 0 ; ret a | R pres n1 0 then 0 0 0 1 fin 1 0 2 ; ret u",
              "A 0 await n1 awaitt p0 ; ret n2 | F 0 ; ret a | R prej n3 0 call 0 1 then 1 0 0 2 ; ret u"]
    _, pouts, _ = ctx.run_lines([harness], ["ACT " + q for q in probes], timeout=300)
    ctx.stats["act_probes"] = dict(zip(probes, pouts))
    for q, o in zip(probes, pouts):
        ev = [x for x in o[4:].split(",") if x] if o.startswith("act=") else None
        if ev is None:
            continue
        g, r_, x = sum(e[0] == "G" for e in ev), sum(e[0] == "R" for e in ev), sum(e == "X" for e in ev)
        if g != r_ or r_ != x:
            ctx.violation("c10:act:passthrough-reaction-never-resumed",
                          "AsyncContextTracker: a Grab is never followed by Resumed/Exited although the promise settled and its "
                          "reaction job ran (pass-through reaction without handler): %s -> %s" % (q, ",".join(ev)),
                          {"kind": "program", "program": q, "expected": "as many Resumed and Exited as Grab (func.go:41-43)",
                           "observed": ",".join(ev), "difference": "async-context-tracker-contract"})
    # ------------------------------------------------------------------ failing inputs: shrink, report
    reported = {}
    todo = [(i, first_diff_field(impl[i], mod[i])) for i in mism] if mod is not None else []
    todo += [(i, p[0]) for i, p in indep if mod is None or i not in set(mism)]
    # prefer short programs; at most 2 shrunk reports per failure class
    todo.sort(key=lambda t: len(lines[t[0]]))
    per_class = {}
    for i, field in todo:
        if per_class.get(field, 0) >= 2 or len(reported) >= 6:
            continue
        per_class[field] = per_class.get(field, 0) + 1
        secs = cases[i][1]
        line = lines[i]
        if secs is not None:
            small = shrink(ctx, harness, model, secs, field)
            line = render(small)
        def both(l):
            _, a, _ = ctx.run_lines([harness], [l], timeout=400)
            b = [None]
            if model:
                _, b, _ = ctx.run_lines([model], [l], timeout=120)
            return (a[0] if a else "CRASH"), (b[0] if b else None)
        obs, exp = both(line)
        if line != lines[i] and obs == exp and not independent_checks(line, obs):
            line = lines[i]                 # the shrunk program does not reproduce: report the original one
            obs, exp = both(line)
        if obs == exp and not independent_checks(line, obs):
            # not reproducible in isolation (e.g. fallout of another line's crash): not a failing input
            ctx.stats["unreproducible_mismatches"] = ctx.stats.get("unreproducible_mismatches", 0) + 1
            per_class[field] -= 1
            continue
        field2 = first_diff_field(obs, exp) if exp else field
        if field2 == "none":
            field2 = field
        sig = "c10:%s" % field2
        ctx.violation(sig, "promise program on which goja and the spec-level scheduler disagree (%s): %s" % (field2, line),
                      {"kind": "program", "program": line, "expected": exp, "observed": obs, "difference": field2,
                       "original_program": lines[i]})
        reported[sig] = line
    ctx.stats["mismatches"] = len(mism)
    return ctx.finish(
        level="proof",
        rule="programs generated from the seed: 1-8 ranked entities (handler functions, thenables, async functions; a body may only "
             "refer to earlier entities) + 1-4 top-level runs of 3-20 actions over <=5 promise slots; Go-side NewPromise resolver "
             "calls inserted at every position between runs (one variant per position). distinct = distinct program text; "
             "non-trivial = >=3 handler/await/thenable events, or a tracker call, or an interrupt, and model = implementation",
        explanation="Lean theorems (GojaModel.C10.Props) hold for every kernel state reachable by ANY op sequence; the interpreter's kernel "
                    "state is of type {k // Reach k}. The tie is the differential run above.")


def replay(ctx, path):
    d = json.load(open(path))
    line = d.get("program")
    if not line:
        print(json.dumps(d, indent=1))
        return 0
    harness = ctx.go_build()
    sh(["lake", "build", "model_c10"], cwd=LEAN, timeout=1200)
    model = ctx.model_exe()
    _, o1, e1 = ctx.run_lines([harness], [line], timeout=60)
    _, o2, e2 = ctx.run_lines([model], [line], timeout=60) if os.path.exists(model) else (0, ["(model unavailable)"], "")
    print("program        :", line)
    print("model (oracle) :", o2[0] if o2 else e2)
    print("implementation :", o1[0] if o1 else e1)
    same = bool(o1) and bool(o2) and o1[0] == o2[0] and not independent_checks(line, o1[0])
    print("agree" if same else "DISAGREE (%s)" % first_diff_field(o1[0] if o1 else "", o2[0] if o2 else ""))
    return 0 if same else 1
