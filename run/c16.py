"""
C16 — Programs and primitive values are shareable across goroutines.

Order (BUILDERS.md): regenerate the access tables from /repo → re-check Props + Tie in Lean → audit → build the harness
with -race → correspondence (exhaustive toValue decision, Scan as a function of the bytes, the memo model against an
independent vector-clock oracle) → the sharing runs under the race detector (one Program in 2..16 Runtimes on
goroutines, shared primitive values of every representation) → race reports parsed into signatures → decision.
"""
import json, os, re, sys, time, hashlib, random, subprocess
from concurrent.futures import ThreadPoolExecutor
from vlib import *

# Signatures of the two defects this check found (both repaired in /repo: 7f47297, 85b307c).  They are regression
# classes now: a report on the memo cells of a shared imported string or on the compiled template slots of a shared
# Program is a VIOLATION like any other race (a `fixed` entry in known_findings suppresses nothing).
MEMO_SIG = "race-on-importedString-memo"
TMPL_SIG = "race-on-compiled-template-slots"

# ----------------------------------------------------------------------------------------------- JS generator

UNI = ["é", "ß", "€", "😀", "𝒳", "Ж", "中", "퟿", " ", "ǆ", "İ"]
WORDS = ["alpha", "beta", "gamma", "delta", "xabbbz", "aAbB", "foo bar baz", "2024-01-02", "a,b;c d", "Hello World"]
REGEXES = [  # (pattern, flags) — re2-convertible and regexp2-only (lookbehind, backreference, lookahead) ones
    ("a(b+)", "g"), ("(?<y>\\d{4})-(?<m>\\d{2})", ""), ("\\b\\w+\\b", "g"), ("[a-c]+", "gi"), ("(a)|(b)", "g"),
    ("(?<=a)b", "g"), ("(\\w)\\1", "g"), ("a(?=b)", "g"), ("(?!x)\\w", "y"), (".", "gsu"), ("[\\u0400-\\u04ff]+", "gu"),
    ("\\s+", "g"), ("^\\w+", "gm"), ("o", "y"), ("(?:a|b)+?", "g"), ("\\p{L}+", "gu"), ("[^,;]+", "g"), ("$", "gm"),
]


def jstr(rng, uni=None):
    s = rng.choice(WORDS)
    if uni is None:
        uni = rng.random() < 0.5
    if uni:
        k = rng.randrange(len(s) + 1)
        s = s[:k] + rng.choice(UNI) + s[k:]
        if rng.random() < 0.3:
            s += rng.choice(UNI)
    return json.dumps(s, ensure_ascii=rng.random() < 0.5)


def sn_regex_exec(rng):
    p, f = rng.choice(REGEXES)
    s = jstr(rng)
    return ("var re=/%s/%s, m, out=[], g=0; re.lastIndex=%d; while((m=re.exec(%s)) && g++<6){ out.push(m.index, m[0], m.groups?Object.keys(m.groups).length:-1);"
            " if(!re.global&&!re.sticky) break; if(m[0]==='') re.lastIndex++; } R.push(out, re.lastIndex, re.flags, re.source);" % (p, f, rng.randrange(3), s))


def sn_regex_methods(rng):
    p, f = rng.choice(REGEXES)
    s = jstr(rng)
    k = rng.randrange(6)
    if k == 0:
        return "R.push(%s.replace(/%s/%s, function(m){ return '['+m.length+']' }));" % (s, p, f)
    if k == 1:
        return "R.push(%s.split(/%s/%s, 5));" % (s, p, f.replace("y", ""))
    if k == 2:
        g = f if "g" in f else f + "g"
        return "R.push(Array.from(%s.matchAll(/%s/%s), function(m){return m.index+':'+m[0]}).slice(0,6));" % (s, p, g)
    if k == 3:
        return "R.push(%s.search(/%s/%s), /%s/%s.test(%s));" % (s, p, f, p, f, s)
    if k == 4:
        return "R.push(%s.match(/%s/%s));" % (s, p, f)
    return "R.push(%s.replace(/%s/%s, '<$&>'));" % (s, p, f)


def sn_regex_fresh(rng):
    p, f = rng.choice(REGEXES)
    return ("function mk(){ return /%s/%s } var r1=mk(), r2=mk(); r1.lastIndex=3; r1.foo=1; R.push(r1!==r2, r2.lastIndex, r2.foo===undefined,"
            " r1.source===r2.source); for(var i=0;i<3;i++){ var q=/%s/%s; q.exec(%s); R.push(q.lastIndex) }" % (p, f, p, f, jstr(rng)))


def sn_tagged(rng):
    parts = [rng.choice(["x", "\\n", "é", "\\u{1F600}", "", "a b", "\\x41", "${'$'}"]) for _ in range(rng.randrange(1, 4))]
    tpl = "`" + "${i}".join(parts) + "`"
    muts = [
        "try{ a[0][0]='z' }catch(e){ R.push(e.name) }",
        "try{ (function(){'use strict'; a[0].raw.push(1)})() }catch(e){ R.push(e.name) }",
        "try{ Object.defineProperty(a[0],0,{value:a[0][0]}); R.push('same-ok') }catch(e){ R.push(e.name) }",
        "try{ Object.defineProperty(a[0].raw,0,{value:'other'}); R.push('changed') }catch(e){ R.push(e.name) }",
        "try{ a[0].sort() }catch(e){ R.push(e.name) }",
        "try{ a[0].reverse() }catch(e){ R.push(e.name) }",
        "a[0].length=0; R.push(a[0].length)",
        "Object.freeze(a[0]); Object.freeze(a[0].raw); R.push(Object.isFrozen(a[0]))",
        "R.push(delete a[0][0], a[0][0])",
        "try{ a[0].raw.fill('q') }catch(e){ R.push(e.name) }",
        "try{ a[0].copyWithin(0,1) }catch(e){ R.push(e.name) }",
        "R.push(Object.getOwnPropertyDescriptor(a[0],0), Object.getOwnPropertyDescriptor(a[0],'raw').enumerable)",
        "R.push(a[0].concat(a[0].raw).length, a[0].slice().length, JSON.stringify(a[0].raw))",
        "try{ a[0].raw[0]+='!' }catch(e){ R.push(e.name) } R.push(a[0].raw[0])",
        "var wm=new WeakMap(); wm.set(a[0],1); R.push(wm.get(a[1]))",
    ]
    rng.shuffle(muts)
    return ("function tag(s){ return s } var a=[]; for(var i=0;i<2;i++){ a.push(tag%s) } function other(){ return tag%s }"
            " R.push(a[0]===a[1], a[0]===other(), other()===other(), a[0].length, a[0].raw.length, String.raw%s, Object.isFrozen(a[0]), Object.isFrozen(a[0].raw)); %s"
            % (tpl, tpl, tpl, "; ".join(muts[:rng.randrange(2, 7)])))


def sn_class_private(rng):
    k = rng.randrange(5)
    if k == 0:
        return ("class A { #x=%d; static #c=0; #m(){ return this.#x*2 } get v(){ return this.#m() } set v(n){ this.#x=n } static make(){ A.#c++; return new A() }"
                " static count(){ return A.#c } has(o){ return #x in o } } var o=A.make(); o.v=%d; R.push(o.v, A.count(), o.has(o), o.has({}));"
                % (rng.randrange(10), rng.randrange(10)))
    if k == 1:
        return ("class B { #p=1; peek(){ return eval('this.#p') } poke(v){ eval('this.#p = v'); return this.#p } static #s(){ return 's' } static t(){ return eval('B.#s()') } }"
                " var b=new B(); R.push(b.peek(), b.poke(%d), B.t()); try{ eval('b.#p') }catch(e){ R.push(e.name) }" % rng.randrange(100))
    if k == 2:
        return ("class P { #a=1; static isP(o){ try{ o.#a; return true }catch(e){ return e.name } } } class Q extends P { #a=2; q(){ return this.#a } }"
                " R.push(P.isP(new Q()), P.isP({}), new Q().q());")
    if k == 3:
        return ("var mk=function(){ return class { #id; constructor(i){ this.#id=i } same(o){ return #id in o } id(){ return this.#id } } };"
                " var C1=mk(), C2=mk(); var x=new C1(1), y=new C2(2); R.push(x.same(x), x.same(y), y.id());")
    return ("class S { static #n = %d; static inc(){ return ++S.#n } static { S.boot = S.#n } #f = () => this; me(){ return this.#f()===this } }"
            " R.push(S.inc(), S.boot, new S().me());" % rng.randrange(50))


def sn_dynamic_scope(rng):
    k = rng.randrange(7)
    v = rng.randrange(100)
    if k == 0:
        return "function f(a){ eval('var q=%d; var a2=a+1'); return typeof q + q + a2 } R.push(f(1), f(2)); function g(){ eval('var z=1'); return delete z } R.push(g());" % v
    if k == 1:
        return "function f(o){ with(o){ var r=x+y; x=%d } return [r,o.x] } R.push(f({x:1,y:2}), f({x:'a',y:'b'}));" % v
    if k == 2:
        return ("function f(c){ if(c){ eval('function inner(){ return %d }') } return typeof inner==='function' ? inner() : 'none' } R.push(f(true), f(false));" % v)
    if k == 3:
        return ("function f(a,b){ arguments[0]=%d; b=7; return [a, arguments[1], arguments.length] } R.push(f(1,2), f(1));"
                " function s(a){ 'use strict'; arguments[0]=9; return a } R.push(s(1));" % v)
    if k == 4:
        return ("function outer(){ var n=0; return function(){ eval('n+=%d; var fresh=n'); return [n, typeof fresh] } } var c=outer(); R.push(c(), c());"
                " var F=new Function('a','b','return a*b+%d'); R.push(F(2,3));" % (v, v))
    if k == 5:
        return ("var gl=(0,eval)('var __g%d=%d; __g%d'); R.push(gl, typeof __g%d); function h(){ var x=1; { let x=2; eval('var y=x') } return y } R.push(h());" % (v, v, v, v))
    return ("function f(o){ with(o){ eval('var w=%d'); return [typeof w, o.w] } } R.push(f({}), f({w:1}));"
            " function g(){ var fns=[]; for(let i=0;i<3;i++){ fns.push(function(){ return eval('i') }) } return fns.map(function(f){return f()}) } R.push(g());" % v)


def sn_constfold(rng):
    exprs = ["1+2*3", "'a'+'b'+1+2", "typeof 1", "!0", "-(-0)", "1/(-0)", "(0 && x0, 2)", "(1 || x0)", "null ?? 5", "2**10", "7%3", "1<<31", "-1>>>0",
             "'5'*'2'", "+'0x10'", "void 0", "`t${1+1}s`", "typeof null", "1e21+1", "0.1+0.2", "9007199254740993", "(1,2,3)", "[1,(0 && x0, 2)].length",
             "true+true", "'b'>'a'", "1==='1'", "'é'.length", "'😀'.length", "-'3'", "~5", "!'x'", "3>2>1", "NaN!==NaN", "'abc'[1]", "4503599627370495.5+1"]
    rng.shuffle(exprs)
    ch = exprs[:rng.randrange(3, 9)]
    return "var x0=1; R.push(%s); R.push(Object.is(-0, -(0)), Object.is(0*-1, -0));" % ", ".join(ch)


def sn_generators(rng):
    k = rng.randrange(4)
    if k == 0:
        return ("function* g(n){ var got=[]; for(var i=0;i<n;i++){ try{ got.push(yield i) }finally{ got.push('f'+i) } } return got }"
                " var it=g(%d); R.push(it.next(), it.next('a'), it.next('b'), it.return(9), it.next());" % rng.randrange(2, 5))
    if k == 1:
        return "function* a(){ yield* [1,2]; var r=yield* b(); yield r } function* b(){ yield 'x'; return 'ret' } R.push(Array.from(a()), [...a()].length);"
    if k == 2:
        return ("var o={ *[Symbol.iterator](){ yield %d; yield %d } }; var [p,q=5,...r]=o; R.push(p,q,r); var {x:{y=3}={}, ...rest}={z:1,w:2}; R.push(y,rest);"
                % (rng.randrange(9), rng.randrange(9)))
    return ("var log=[]; async function af(){ log.push('a'); await null; log.push('b'); return 1 } af().then(function(v){ log.push(v) }); log.push('c'); R.push(log.slice());"
            " var P=Promise.resolve(2); P.then(function(v){ globalThis.__late=v });")


def sn_control(rng):
    k = rng.randrange(4)
    if k == 0:
        return ("function f(n){ out: for(var i=0;i<5;i++){ try{ if(i===n) break out; if(i===1) continue; } finally { R.push('f'+i) } } return i } R.push(f(%d));" % rng.randrange(5))
    if k == 1:
        return ("function f(x){ switch(x){ case 1: return 'one'; case 'a': case 'b': return 'ab'; default: return typeof x } } R.push(f(1), f('b'), f(null), f(%s));" % jstr(rng))
    if k == 2:
        return ("function f(){ try{ throw new TypeError(%s) }catch(e){ return [e.name, e.message, e instanceof TypeError, typeof e.stack, e.stack.split('\\n').length>0] }finally{ R.push('fin') } } R.push(f());"
                " try{ null.x }catch(e){ R.push(e.message, e.stack.indexOf('case.js')>=0) }" % jstr(rng))
    return ("var fs=[]; for(let i=0;i<3;i++){ fs.push(function(){ return i*%d }) } R.push(fs.map(function(f){return f()}));"
            " var c=0; do { c+=2 } while(c<7); R.push(c); var s=0; for(var k in {a:1,b:2,10:3,2:4}) s+=k; R.push(s);" % rng.randrange(1, 9))


def sn_collections(rng):
    k = rng.randrange(4)
    if k == 0:
        return ("var s1=Symbol('d'), s2=Symbol.for('app.k%d'); var o={[s1]:1,[s2]:2,k:3}; var m=new Map([[s1,'a'],[1,'b'],['1','c'],[NaN,'n'],[-0,'z']]);"
                " R.push(m.get(s1), m.get(NaN), m.get(0), m.size, Object.getOwnPropertySymbols(o).length, s1.description, s2===Symbol.for('app.k%d'), Symbol.keyFor(s2), s1.toString(), o[s1]+o[s2]);"
                % (rng.randrange(5), rng.randrange(5)))
    if k == 1:
        return ("var st=new Set([%s,%s,1,1.0,'1']); R.push(st.size, [...st].length); var ws=new WeakSet(), key={}; ws.add(key); R.push(ws.has(key), ws.has({}));"
                " var mm=new Map(); for(var i=0;i<20;i++) mm.set('k'+i,i); mm.delete('k3'); R.push([...mm.keys()].slice(0,5), mm.size);" % (jstr(rng), jstr(rng)))
    if k == 2:
        return ("var a=[5,1,%d,3]; a[10]=7; R.push(a.length, a.sort(function(x,y){return x-y}).slice(0,4), a.indexOf(7), Object.keys(a).length);"
                " var t=new Uint8Array([1,2,300,4]); R.push(Array.from(t), new DataView(t.buffer).getUint16(0,true), t.subarray(1,3).length);" % rng.randrange(9))
    return ("var p=new Proxy({a:1},{ get:function(t,k,r){ return k in t ? t[k] : 'dflt:'+String(k) }, has:function(){ return true } });"
            " R.push(p.a, p.zz, 'q' in p, Reflect.ownKeys(p), Reflect.getPrototypeOf(p)===Object.prototype);"
            " var o={ get g(){ return this._g||%d }, set g(v){ this._g=v*2 } }; o.g=4; R.push(o.g, Object.entries(o));" % rng.randrange(9))


def sn_strings(rng):
    a, b = jstr(rng), jstr(rng)
    ops = ["%s.toUpperCase()" % a, "%s.toLowerCase()" % a, "%s.indexOf(%s)" % (a, b), "%s.lastIndexOf('a')" % a, "(%s+%s).length" % (a, b), "%s.charCodeAt(2)" % a,
           "%s.codePointAt(1)" % a, "%s.padStart(14,%s)" % (a, b), "%s.localeCompare(%s)" % (a, b), "%s.normalize('NFD').length" % a, "%s.slice(-3)" % a,
           "%s.split('').reverse().join('')" % a, "[...%s].length" % a, "%s.replaceAll('a','_')" % a, "%s.trim().at(-1)" % a, "%s<%s" % (a, b), "%s.repeat(2).length" % a,
           "encodeURIComponent(%s)" % a, "JSON.stringify(%s)" % a, "JSON.parse(JSON.stringify({k:%s})).k===%s" % (a, a), "String.raw`\\n${%s}`" % a, "%s.substring(1,4)" % a,
           "escape(%s)" % a, "%s.includes(%s)" % (a, b), "%s.startsWith('a')" % a, "parseInt(%s)" % a, "Number(%s)" % a, "%s.concat(%s,1,null)" % (a, b), "({[%s]:1})[%s]" % (a, a)]
    rng.shuffle(ops)
    return "R.push(%s);" % ", ".join(ops[:rng.randrange(4, 10)])


def sn_numbers(rng):
    return ("R.push((255).toString(2), (0.1).toFixed(20), (1e21).toString(), (123.456).toPrecision(4), (-1.5e-7).toExponential(2), parseFloat('3.14abc'), Number('0b101'),"
            " Math.max(1,%d,3), Math.round(-0.5), (%d/7).toString(36).slice(0,8), 2**53+2, 0xFFFFFFFF|0, 5e-324, new Date(0).toISOString(), new Date(%d).getUTCDay());"
            % (rng.randrange(9), rng.randrange(1, 99), rng.randrange(10 ** 9)))


def sn_funcs(rng):
    return ("function outerFn(a, b = a+1, ...rest){ return [a,b,rest.length, outerFn.length, outerFn.name] } R.push(outerFn(1), outerFn(1,2,3,4), (function(){}).name, (()=>1).toString(), outerFn.toString().length);"
            " var obj={ m(){ return super.toString===Object.prototype.toString }, ['c'+%d]: 1 }; R.push(obj.m(), Object.keys(obj)); R.push((function(){ return typeof this }).call(5), (function(){ 'use strict'; return typeof this }).call(5));"
            % rng.randrange(9))


def sn_async(rng):
    k = rng.randrange(4)
    v = rng.randrange(50)
    if k == 0:
        return ("globalThis.__late = globalThis.__late || []; var L=__late; async function a1(x){ L.push('s'+x); var y = await x; L.push('r'+y); try { await Promise.reject(new RangeError('e'+y)) } catch(e) { L.push(e.message) } finally { L.push('fin') } return y*2 }"
                " a1(%d).then(function(v){ L.push('then'+v) }); L.push('sync'); R.push(L.length);" % v)
    if k == 1:
        return ("globalThis.__late = globalThis.__late || []; var L=__late; function later(x){ return new Promise(function(res){ res(x*%d) }) }"
                " (async function(){ var out=[]; for (var i=0;i<3;i++){ out.push(await later(i)) } for (var p of [later(7), 8, Promise.resolve(9)]) out.push(await p); L.push(out) })(); Promise.all([1,Promise.resolve(2),new Promise(function(r){ r(3) })]).then(function(v){ L.push(v) });"
                " Promise.race([new Promise(function(){}), Promise.resolve('w')]).then(function(v){ L.push(v) }); R.push('queued');" % (v + 1))
    if k == 2:
        return ("globalThis.__late = globalThis.__late || []; var L=__late; var thenable={ then: function(res){ L.push('thenable'); res(%d) } }; (async function(){ L.push(await thenable); L.push(await (async () => { throw new TypeError('t') })().catch(function(e){ return e.name })) })();"
                " Promise.allSettled([Promise.reject(1), 2]).then(function(r){ L.push(r.map(function(x){ return x.status })) }); R.push(typeof Promise.prototype.finally);" % v)
    if k == 3 and rng.random() < 0.5:
        return ("globalThis.__late = globalThis.__late || []; var L=__late; class MyP extends Promise { then(a,b){ L.push('then-called'); return super.then(a,b) } static get [Symbol.species](){ return Promise } }"
                " (async function(){ try { var x = await MyP.resolve(%d); L.push(x); await null; throw new RangeError('after-await') } catch(e){ L.push(e.name); return 'caught' } finally { L.push('fin') } })().then(function(v){ L.push(v) });"
                " (async function(){ lbl: for (var i=0;i<3;i++){ try { await i; if (i===1) break lbl } finally { L.push('f'+i) } } L.push('out'+i) })(); R.push(new MyP(function(r){ r(1) }) instanceof Promise);" % v)
    return ("globalThis.__late = globalThis.__late || []; var L=__late; class Q { #n=%d; async get(){ await null; return this.#n } static async make(){ var q=new Q(); return [await q.get(), #n in q] } } Q.make().then(function(v){ L.push(v) });"
            " var order=[]; Promise.resolve().then(function(){ order.push(1) }).then(function(){ order.push(3); L.push(order) }); Promise.resolve().then(function(){ order.push(2) }); R.push(order.length);" % v)


def sn_class_static(rng):
    k = rng.randrange(4)
    v = rng.randrange(20)
    if k == 0:
        return ("class K { static #count = %d; static #bump(){ return ++K.#count } static { K.first = K.#bump(); K.names = Object.getOwnPropertyNames(K).sort() } static get count(){ return K.#count } #priv(){ return 'p' } static call(o){ return o.#priv() } }"
                " R.push(K.first, K.count, K.names, K.call(new K())); try{ K.call({}) }catch(e){ R.push(e.name) }" % v)
    if k == 1:
        return ("var log=[]; class B0 { constructor(){ log.push('B0:'+new.target.name) } m(){ return 'b' } static s(){ return 'bs' } } class D0 extends B0 { #x = (log.push('field'), %d); static #sx = 'sx'; constructor(){ log.push('pre'); super(); log.push('post'+this.#x) }"
                " m(){ return super.m()+'d' } static s(){ return super.s()+D0.#sx } get x(){ return this.#x } set x(v){ this.#x = v } } var d=new D0(); d.x=d.x+1; R.push(log, d.m(), D0.s(), d.x, Object.getPrototypeOf(D0)===B0);" % v)
    if k == 2:
        return ("class Acc { static #reg = new Map(); #k; constructor(k){ this.#k=k; Acc.#reg.set(k,this) } static get(k){ return Acc.#reg.get(k) } get #secret(){ return 'k:'+this.#k } set #secret(v){ this.#k=v } reveal(){ this.#secret = this.#k+%d; return this.#secret }"
                " static { new Acc(1); new Acc(2) } static has(o){ return (#k in o) && (#secret in o) } } R.push(Acc.get(2).reveal(), Acc.has(Acc.get(1)), Acc.has({}), typeof Acc.get(3));" % v)
    return ("var C=class Named { static n = Named.name; ['comp'+%d](){ return 1 } static [Symbol.hasInstance](x){ return x===7 } *gen(){ yield* [1,2] } async am(){ return 3 } static async sam(){ return 4 } };"
            " R.push(C.n, Object.getOwnPropertyNames(C.prototype), 7 instanceof C, [...new C().gen()], typeof new C().am().then, (class {}).name, (class { static name = 'own' }).name);" % v)


def sn_destructuring(rng):
    k = rng.randrange(4)
    v = rng.randrange(20)
    if k == 0:
        return ("function f({a = %d, b: {c = a+1, ...inner} = {}, ...rest} = {}, [x = c, , y = x*2, ...zs] = [], ...more){ return [a,c,inner,rest,x,y,zs,more.length] }"
                " R.push(f(), f({a:1,b:{c:2,q:3},z:9},[undefined,0,null,4,5],6,7), f({b:undefined},'hey'));" % v)
    if k == 1:
        return ("var log=[]; var src={ get p(){ log.push('p'); return undefined }, get q(){ log.push('q'); return 1 } }; var { p = (log.push('dp'), %d), q = (log.push('dq'), 2), [ 'r'+1 ]: r1 = 'R' } = src; R.push(p,q,r1,log);"
                " var it={ [Symbol.iterator](){ var i=0; return { next(){ return {done:i>4, value:i++} }, return(){ log.push('closed'); return {} } } } }; var [h0,,h2]=it; R.push(h0,h2,log.slice(-1));" % v)
    if k == 2:
        return ("var a=1,b=2; [a,b]=[b,a]; var o={}; ({x:o.x, y:o['y'+%d]=5, ...o.rest} = {x:1,z:3}); R.push(a,b,o); for (var [k,{v=k+'!'}={}] of [['a',{v:1}],['b'],['c',{}]]) R.push(k,v);"
                " function g(a, b = function(){ return a }, c = eval('a+1')){ var a = 10; return [a, b(), c] } R.push(g(1));" % v)
    return ("function h(a = eval('var z%d = 5; 1')){ return [a, typeof z%d, (function(){ return typeof z%d })()] } R.push(h(), h(2)); var f2=(x, {y} = {y:x}, ...[z=y]) => [x,y,z]; R.push(f2(1), f2(1,{y:2},undefined), f2.length);"
            " try { var {n} = null } catch(e){ R.push(e.name) } try { var [m] = 5 } catch(e){ R.push(e.name) }" % (v, v, v))


def sn_loops(rng):
    k = rng.randrange(4)
    v = rng.randrange(2, 6)
    if k == 0:
        return ("var out=[]; outer: for (var i=0;i<4;i++){ inner: for (let j of [0,1,2,3]){ if (j===1) continue inner; if (j===3) continue outer; if (i===%d) break outer; try { out.push(i*10+j) } finally { if (j===2) out.push('f') } } } R.push(out, i);"
                " var fns=[]; for (let q=0, step=%d; q<6; q+=step){ fns.push(function(){ return q+step }) } R.push(fns.map(function(f){ return f() }));" % (v, v))
    if k == 1:
        return ("var o=Object.create({inh:1}); o.b=2; o[3]=3; o.a=1; o[1]=0; Object.defineProperty(o,'hid',{value:1,enumerable:false}); var ks=[]; for (var key in o){ ks.push(key); if (key==='b') { delete o.a; o.late=1 } } R.push(ks);"
                " var s=''; for (var ch of 'a😀b') s+='['+ch+']'; R.push(s); var n=0; lab: { n++; if (n) break lab; n=99 } R.push(n); var w=0; do { if (++w===%d) continue; if (w>5) break } while(true); R.push(w);" % v)
    if k == 2:
        return ("function sw(x){ var r=[]; switch(x){ case 0: r.push(0); case 1: r.push(1); break; default: r.push('d'); case 2: r.push(2); { let x='shadow'; r.push(x) } } return r } R.push(sw(0), sw(1), sw(2), sw(%d+5));"
                " var acc=[]; for (var i=0, j=10; i<j; i+=3, j-=2) acc.push(i+':'+j); R.push(acc); var c=0; while(true){ try { if (++c>%d) break; continue } finally { acc.push('w'+c) } } R.push(acc.length);" % (v, v))
    return ("function* walk(t){ if (!t) return; yield* walk(t.l); yield t.v; yield* walk(t.r) } var tree={v:%d,l:{v:1,l:null,r:{v:2}},r:{v:9}}; var seen=[]; for (var x of walk(tree)){ if (x===9) break; seen.push(x) } R.push(seen);"
            " var g=(function*(){ try { yield 1; yield 2 } finally { seen.push('cleanup') } })(); for (var y of g){ break } R.push(seen.slice(-1), g.next());" % v)


def sn_eval_sites(rng):
    """a direct sloppy eval declaring a var in every kind of scope position; __probe(1) (installed by the harness) renders
    the run-time scope chain and the stash bindVars targets — it must own its names map (Names.lean hOK)."""
    v = rng.randrange(100)
    E = "eval('var dyn%d = %d; __probe(1)')" % (v, v)
    forms = [
        "function f(){ var a=1; return [%s, typeof dyn%d] } R.push(f(), f());" % (E, v),
        "var f=() => { let b=2; return [%s, typeof dyn%d] }; R.push(f(), f());" % (E, v),
        "var o={ m(x){ { let c=x; var g=function(){ return c }; return [%s, g(), typeof dyn%d] } } }; R.push(o.m(1), o.m(2));" % (E, v),
        "function* gen(){ var r=%s; yield r; yield typeof dyn%d } R.push([...gen()], [...gen()]);" % (E, v),
        "function f(a = %s, b = typeof dyn%d){ return [a, b] } R.push(f(), f());" % (E, v),
        "function f(a = %s, h = function(){ return a }){ var a2 = 5; return [a, h(), typeof dyn%d] } R.push(f(), f());" % (E, v),
        "function f(a = () => b, b = %s){ return [typeof a(), typeof dyn%d] } R.push(f(), f());" % (E, v),
        "function f(){ try { throw 1 } catch(e){ var k=function(){ return e }; return [%s, k(), typeof dyn%d] } } R.push(f(), f());" % (E, v),
        "function f(){ var out=[]; for (let i=0;i<2;i++){ var h=function(){ return i }; out.push(%s, h()) } return [out, typeof dyn%d] } R.push(f(), f());" % (E, v),
        "function f(o){ with(o){ return [%s, typeof dyn%d] } } R.push(f({}), f({x:1}));" % (E, v),
        "function outer(){ var z=1; function inner(){ return [%s, typeof dyn%d, z] } return [inner(), typeof dyn%d] } R.push(outer(), outer());" % (E, v, v),
        "function f(){ return (function(){ return arguments.length })(1,2) + ':' + %s + ':' + typeof dyn%d } R.push(f(), f());" % (E, v),
        "globalThis.__late = globalThis.__late || []; (async function af(){ var r=%s; await null; __late.push(r, typeof dyn%d) })(); R.push('q');" % (E, v),
        "class C { m(){ return (function(){ 'use strict'; return 0 })() } static s(){ return eval('var strictLocal = 1; __probe(0)') } } R.push(C.s(), typeof strictLocal);",
        "function f(){ var r1=%s; var r2=eval('var second%d = 2; __probe(1)'); return [r1, r2, delete dyn%d, typeof dyn%d] } R.push(f(), f());" % (E, v, v, v),
        "var g2=new Function('return ' + JSON.stringify(\"eval('var nf = 1; __probe(1)')\") )(); R.push(typeof g2); R.push((new Function(\"return eval('var nf2 = 1; __probe(1)')\"))());",
    ]
    rng.shuffle(forms)
    return " ".join("(function(){ %s })();" % f for f in forms[:rng.randrange(2, 6)])


# ---- scope-chain correspondence: programs built from a compile-time scope chain, compared with Scopes.crun + Names.rtChain

def chain_src(tokens, k):
    """tokens outermost first: V sloppy function, S strict function, B block with a captured let (gets a stash), b plain block.
    A direct eval in the innermost scope declares a var and renders the run-time chain through __probe."""
    strict = "S" in tokens
    def gen(i):
        if i == len(tokens):
            return "return eval('var dyn%d = %d; __probe(%d)');" % (k, k, 0 if strict else 1)
        t = tokens[i]
        if t == "V":
            return "var a%d = %d; return (function(){ %s })();" % (i, i, gen(i + 1))
        if t == "S":
            return "return (function(){ 'use strict'; %s })();" % gen(i + 1)
        if t == "B":
            return "{ let c%d = %d; var g%d = function(){ return c%d }; %s }" % (i, i, i, i, gen(i + 1))
        return "{ %s }" % gen(i + 1)
    return "var R=[]; R.push((function(){ %s })()); JSON.stringify(R)" % gen(0)


CHAIN_FORMS = [  # (source with E, full spec incl. the outer wrapper)  — hand-written positions the generator above does not reach
    ("var f=() => { let b=2; return E }; return f();", "V V"),
    ("var o={ m(x){ { let c=x; var g=function(){ return c }; return E } } }; return o.m(1);", "V V B"),
    ("function* gen(){ yield E } return [...gen()][0];", "V V"),
    ("function f(a = E){ return a } return f();", "V V"),
    ("function f(a = () => b, b = E){ return b } return f();", "V V"),
    ("function f(a = E, h = function(){ return a }){ var a2 = 5; return a } return f();", "V V"),
    ("function f(a = 1, h = function(){ return a }){ var a2 = E; return a2 } return f();", "V V V"),
    ("function f(){ try { throw 1 } catch(e){ var k=function(){ return e }; return E } } return f();", "V V B"),
    ("function f(){ for (let i=0;i<1;i++){ var h=function(){ return i }; return E } } return f();", "V V B"),
    ("class C { static s(){ return F } } return C.s();", "V B S"),
    ("return (new Function(\"return G\"))();", "V"),
]


def chain_form_src(form, k):
    e = "eval('var dyn%d = %d; __probe(1)')" % (k, k)
    f0 = "eval('var dyn%d = %d; __probe(0)')" % (k, k)
    g = "eval('var dyn%d = %d; __probe(1)')" % (k, k)
    body = form.replace("E", e) if "E" in form else (form.replace("F", f0) if "return F" in form else form.replace("G", g))
    return "var R=[]; R.push((function(){ %s })()); JSON.stringify(R)" % body


def norm_probe(x):
    ch, t = x.split("|target=")
    items = [i for i in ch.split(",") if i and not i.startswith("O")]
    if items and items[-1] == "B-":
        items = items[:-1]
    return ",".join(items) + "|target=" + t


def sn_symbols(rng):
    v = rng.randrange(9)
    return ("var s=Symbol('d%d'), o={ [s]: 1, [Symbol.toStringTag]: 'Tagged', [Symbol.toPrimitive](h){ return h==='number' ? %d : 'prim' } }; class It { *[Symbol.iterator](){ yield 1; yield 2 } static [Symbol.hasInstance](x){ return x===1 } get [Symbol.toStringTag](){ return 'It' } }"
            " R.push(String(o), +o, `${o}`, Object.prototype.toString.call(new It()), 1 instanceof It, [...new It()], s.description, Object(s)==s, Symbol.keyFor(Symbol.for('a.b')), Symbol.iterator.toString(), Object.getOwnPropertySymbols(o).length,"
            " [1,2,3].concat({length:1,0:'x',[Symbol.isConcatSpreadable]:true}), 'a-b'.split({ [Symbol.split](str){ return str.length } }), /x/[Symbol.replace]('axb','_'), Array.prototype[Symbol.unscopables].flat);" % (v, v))


SNIPPETS = [(sn_regex_exec, 3), (sn_regex_methods, 3), (sn_regex_fresh, 2), (sn_tagged, 4), (sn_class_private, 3), (sn_dynamic_scope, 4), (sn_constfold, 3),
            (sn_generators, 3), (sn_control, 2), (sn_collections, 2), (sn_strings, 3), (sn_numbers, 1), (sn_funcs, 2),
            (sn_async, 3), (sn_class_static, 3), (sn_destructuring, 3), (sn_loops, 3), (sn_symbols, 2), (sn_eval_sites, 5)]


def gen_snippets(rng, k):
    pool = [f for f, w in SNIPPETS for _ in range(w)]
    out = []
    for _ in range(k):
        f = rng.choice(pool)
        out.append((f.__name__[3:], f(rng)))
    return out


def prog_src(snips):
    body = "\n".join("(function(){ %s\n})();" % s for _, s in snips)
    return "var R=[];\n" + body + "\nJSON.stringify(R, function(k,v){ return typeof v==='symbol' ? v.toString() : (typeof v==='bigint' ? String(v) : (v===undefined ? '<u>' : v)) });"


# ----------------------------------------------------------------------------------------------- primitive values

def hexs(b):
    return b.hex()


def rand_bytes_utf8ish(rng, n, ascii_only=False):
    out = bytearray()
    while len(out) < n:
        r = rng.random()
        if ascii_only or r < 0.55:
            out += bytes([rng.choice(b"abcdefghij XYZ019,.-_")])
        elif r < 0.75:
            out += rng.choice(UNI + ["Á", "ß", "￿"]).encode("utf8", "surrogatepass")
        elif r < 0.85:
            out += rng.choice([b"\xff", b"\xc0\xaf", b"\xed\xa0\x80", b"\xf4\x90\x80\x80", b"\xe2\x82", b"\x80", b"\xf0\x9f", b"\xc3", b"\xfe\xfe"])
        else:
            out += chr(rng.choice([0x7f, 0x80, 0x7ff, 0x800, 0xfffd, 0x10000, 0x10ffff])).encode("utf8")
    return bytes(out)


def gen_vals(rng):
    vals = []
    n = rng.randrange(2, 6)
    for _ in range(n):
        r = rng.random()
        if r < 0.30:
            vals.append({"t": "gostr", "hex": hexs(rand_bytes_utf8ish(rng, rng.randrange(17, 48), ascii_only=rng.random() < 0.3))})
        elif r < 0.45:
            vals.append({"t": "concat", "hex": hexs(rand_bytes_utf8ish(rng, rng.randrange(1, 30), ascii_only=rng.random() < 0.4)),
                         "hex2": hexs(rand_bytes_utf8ish(rng, rng.randrange(1, 30), ascii_only=rng.random() < 0.4))})
        elif r < 0.55:
            vals.append({"t": "short", "hex": hexs(rand_bytes_utf8ish(rng, rng.randrange(0, 16)))})
        elif r < 0.62:
            vals.append({"t": "ascii", "s": rng.choice(WORDS)})
        elif r < 0.72:
            vals.append({"t": "utf16", "u": [rng.choice([0x61, 0xe9, 0xd83d, 0xde00, 0xd800, 0x20ac, 0x41, 0xfffd]) for _ in range(rng.randrange(1, 12))]})
        elif r < 0.78:
            vals.append({"t": "json", "s": json.dumps({"k": rng.choice(UNI) * 3 + "tail-of-the-string", "n": [1, 2]}, ensure_ascii=False)})
        elif r < 0.82:
            vals.append({"t": "symbol", "s": rng.choice(["k", "desc é", "", "a long symbol description beyond sixteen bytes"])})
        elif r < 0.84:
            vals.append({"t": "wellknown", "i": rng.randrange(12)})
        elif r < 0.88:
            vals.append({"t": "int", "i": rng.choice([0, 1, -1, 2 ** 31, 2 ** 53 - 1, -7])})
        elif r < 0.92:
            vals.append({"t": "float", "f": rng.choice([0.5, -1.25, 1e21, 3.0, 1e-7])})
        elif r < 0.95:
            vals.append({"t": "bool", "b": rng.random() < 0.5})
        else:
            vals.append({"t": rng.choice(["null", "undef", "nan"])})
    # the same value reachable under two names (same identity twice): the second name must not see a different memo state
    if len(vals) >= 2 and rng.random() < 0.35:
        vals.append({"t": "same", "i": rng.randrange(len(vals))})
    # make sure at least one lazily scanned string is present in most cases
    if not any(v["t"] in ("gostr", "concat", "short", "json") for v in vals) and rng.random() < 0.9:
        vals[0] = {"t": "gostr", "hex": hexs(rand_bytes_utf8ish(rng, 24))}
    return vals


PRIM_OPS = [
    "S(V).length", "S(V).toUpperCase()", "S(V).toLowerCase()", "S(V).indexOf('b')", "S(V).lastIndexOf('a')", "S(V).charCodeAt(1)", "S(V).codePointAt(0)",
    "S(V)+S(W)", "(S(V)+S(W)).length", "S(V)===S(W)", "S(V)==S(W)", "S(V)<S(W)", "S(V).localeCompare(S(W))", "S(V).slice(1,5)", "S(V).substring(2)", "S(V).split('a').length",
    "S(V).replace(/a/g,'_')", "/b+/.exec(S(V))", "S(V).match(/\\w+/gu)", "S(V).normalize('NFC').length", "S(V).trim().length", "S(V).padEnd(40,'.').length", "[...S(V)].length",
    "JSON.stringify(S(V))", "encodeURIComponent(S(V).replace(/[\\ud800-\\udfff]/g,''))", "Number(S(V))", "parseInt(S(V))", "!!V", "typeof V", "({[K(V)]:1})[K(V)]", "new Map([[V,1]]).get(V)",
    "new Set([V,W,V]).size", "S(V).concat(S(W),S(V)).length", "S(V).includes(S(W))", "S(V).startsWith('a')", "S(V).endsWith(S(W).slice(-1))", "S(V).repeat(2).length", "Object(V)==V",
    "S(V).search(/[^\\x00-\\x7f]/)", "S(V).at(-1)", "isNaN(V)", "String(V).length", "S(V).toString()===S(V)", "S(V).valueOf().length", "escape(S(V)).length", "S(V).split(/(?<=a)/).length",
    "typeof V==='symbol' ? [V.description, V.toString(), Object(V).valueOf()===V, Symbol.keyFor(V)===undefined, ({[V]:7})[V], Object.getOwnPropertySymbols({[V]:1})[0]===V, new Map([[V,'m']]).get(V), new Set([V,V]).size, V===W] : 'nosym'",
    "typeof V==='symbol' ? (function(){ var o={}; Object.defineProperty(o,V,{get:function(){ return 'g' }}); var ws=new WeakSet(); try{ ws.add(V) }catch(e){ return [o[V], e.name] } return [o[V],'weak-ok'] })() : 'nosym'",
    "`${S(V)}|${S(W)}`.length", "[V,W].join('-').length", "S(V).charAt(3)", "S(V)[0]", "S(V) in {}", "Object.is(V,V)", "V===V", "[V].indexOf(V)", "[V].includes(W)",
]


def gen_prim_src(rng, nvals):
    ops = []
    for _ in range(rng.randrange(8, 24)):
        op = rng.choice(PRIM_OPS)
        v = "v%d" % rng.randrange(nvals)
        w = "v%d" % rng.randrange(nvals)
        ops.append(op.replace("V", v).replace("W", w))
    body = "\n".join("try{ R.push(%s) }catch(e){ R.push('!'+e.name) }" % o for o in ops)
    return ("function S(x){ return typeof x==='symbol' ? x.toString() : String(x) } function K(x){ return x } var R=[];\n" + body +
            "\nJSON.stringify(R, function(k,v){ return typeof v==='symbol' ? v.toString() : (v===undefined ? '<u>' : (typeof v==='number'&&!isFinite(v) ? String(v) : v)) });")


# ----------------------------------------------------------------------------------------------- foreign objects

OBJ_KINDS = ["plain", "array", "func", "arrow", "proxy", "date", "regexp", "symobj", "strobj", "map", "promise", "typed", "class", "generator", "error", "global",
             "gowrap", "nilptr", "selfnil", "noruntime"]
PATHS = ["ToValue", "Set", "ObjectSet", "SymbolSet", "NewArray", "SliceElem", "MapElem", "StructField", "FuncReturn", "FuncReturnIface",
         # values nested in Go containers are converted lazily, element by element, on every way of reading them
         "SliceOfObj", "SliceOfValue", "ArrayElem", "MapOfObj", "NestedSlice", "SliceForOf", "SliceSpread", "SliceMethod", "SliceValues",
         "MultiReturn", "MultiReturnIface", "StructIfaceField", "PtrToSlice", "CallArg", "SliceSpareCap", "SliceTwice"]


def tv_line(kind, same):
    is_nil = 1 if kind == "nilptr" else 0
    self_nil = 1 if kind == "selfnil" else 0
    rt = "-" if kind in ("noruntime", "nilptr") else "1"
    return "tv %d %d %s %d" % (is_nil, self_nil, rt, 1 if same else 2)


def tv_oracle(kind, same):
    """python transcription of the property: a live object of another runtime must raise TypeError."""
    if kind in ("nilptr", "selfnil"):
        return "null"
    if kind == "noruntime" or same:
        return "same"
    return "typeError"


# ----------------------------------------------------------------------------------------------- memo oracle (independent vector clocks)

def memo_oracle(cfg, sv, sched):
    """Textbook vector-clock race detection (DJIT+-style, per-location last-write epoch and read clocks)
    for the same protocol, written independently of the Lean model."""
    flag_atomic, use_once = cfg
    T = 1 + max([t for t, _ in sched] + [0])
    vc = [[0] * T for _ in range(T)]
    for t in range(T):
        vc[t][t] = 1
    pc = ["idle"] * T
    reg = [False] * T
    mem = {"flag": False, "u": 0}
    hist = {"u": [], "flag": []}      # (tid, clock-at-access, is_write)
    flag_rel = [0] * T
    once_rel = [0] * T
    once_done, once_run = False, None
    raced = bad = False

    def plain(t, loc, wr):
        nonlocal raced
        for (q, c, w) in hist[loc]:
            if q != t and (w or wr) and not (c <= vc[t][q]):
                raced = True
        hist[loc].append((t, vc[t][t], wr))
        vc[t][t] += 1

    def acquire(t, rel):
        for i in range(T):
            vc[t][i] = max(vc[t][i], rel[i])

    def load_flag(t):
        if flag_atomic:
            acquire(t, flag_rel)
        else:
            plain(t, "flag", False)
        reg[t] = mem["flag"]

    def read_u(t, check):
        nonlocal bad
        plain(t, "u", False)
        if check and mem["u"] != sv:
            bad = True

    for t, op in sched:
        p = pc[t]
        if p == "idle":
            pc[t] = {"f": "f0", "p": "p0", "w": "w0"}[op]
        elif p == "f0":
            load_flag(t); pc[t] = "f1"
        elif p == "f1":
            pc[t] = "f6" if reg[t] else "f2"
        elif p == "f2":
            if use_once:
                if once_done:
                    acquire(t, once_rel); pc[t] = "f6"
                elif once_run is None:
                    once_run = t; pc[t] = "f3"
            else:
                pc[t] = "f3"
        elif p == "f3":
            plain(t, "u", True); mem["u"] = sv; pc[t] = "f4"
        elif p == "f4":
            if flag_atomic:
                flag_rel[:] = vc[t][:]
                vc[t][t] += 1
            else:
                plain(t, "flag", True)
            mem["flag"] = True; pc[t] = "f5"
        elif p == "f5":
            if use_once:
                once_rel[:] = vc[t][:]; vc[t][t] += 1
                once_done, once_run = True, None
            pc[t] = "f6"
        elif p == "f6":
            read_u(t, True); pc[t] = "idle"
        elif p == "p0":
            load_flag(t); pc[t] = "p1"
        elif p == "p1":
            pc[t] = "p2" if reg[t] else "idle"
        elif p == "p2":
            read_u(t, True); pc[t] = "idle"
        elif p == "w0":
            read_u(t, False); pc[t] = "idle"
    return "raced=%d bad=%d u=%d flag=%d nU=%d nF=%d" % (raced, bad, mem["u"], mem["flag"], len(hist["u"]), len(hist["flag"]))


CFGS = {"unsync": (False, False), "once": (True, True), "atomic": (True, False), "plainonce": (False, True)}


# ----------------------------------------------------------------------------------------------- race reports

FRAME_RE = re.compile(r"^  (\S.*)\(\)$")
ACCESS_RE = re.compile(r"^(Previous )?(atomic )?(read|write) at (0x[0-9a-f]+) by (main )?goroutine", re.I)


def norm_frame(fn):
    fn = fn.strip()
    fn = re.sub(r"^github\.com/dop251/goja\.", "goja.", fn)
    fn = fn.replace("(*", "").replace(")", "")
    return fn


def parse_stderr(stderr):
    """-> (reports, ranges):  reports = [{case, kind, text, accesses:[{what, addr, frames}]}] for every
    'WARNING: DATA RACE' block (the text between two '=====' lines); ranges = {case: [(what, lo, hi)]} from the
    harness's @@ADDR lines (memory that is shared between the Runtimes by construction of the case)."""
    out, ranges = [], {}
    case, kind, block = 0, "", None
    for line in stderr.splitlines():
        m = re.match(r"^@@CASE (\d+) (\S+)", line)
        if m:
            case, kind = int(m.group(1)), m.group(2)
            continue
        m = re.match(r"^@@ADDR (\S+) (0x[0-9a-f]+) (0x[0-9a-f]+)", line)
        if m:
            ranges.setdefault(case, []).append((m.group(1), int(m.group(2), 16), int(m.group(3), 16)))
            continue
        if line.startswith("@@END"):
            continue
        if line.startswith("=================="):
            if block is None:
                block = []
            else:
                txt = "\n".join(block)
                if "WARNING: DATA RACE" in txt:
                    out.append({"case": case, "kind": kind, "text": txt, "accesses": race_accesses(block)})
                block = None
            continue
        if block is not None:
            block.append(line)
    return out, ranges


def race_accesses(lines):
    acc, cur = [], None
    for l in lines:
        m = ACCESS_RE.match(l)
        if m:
            cur = {"what": ((m.group(2) or "") + m.group(3)).lower(), "addr": int(m.group(4), 16), "frames": []}
            acc.append(cur)
            continue
        if l.startswith("Goroutine "):
            cur = None
            continue
        fm = FRAME_RE.match(l)
        if fm and cur is not None:
            cur["frames"].append(norm_frame(fm.group(1)))
    return acc[:2]


def top_frame(frames):
    for f in frames:
        if f.startswith("goja.") or f.startswith("main."):
            return f
    return frames[0] if frames else "?"


def race_signature(r, ranges, proto):
    """The class of a report is decided by WHAT MEMORY it is about (the harness tells which addresses hold the memo
    cells of the shared imported strings and the compiled template slots of the shared Program), never by a loose
    stack pattern: a race on any other memory has its own signature and alarms."""
    tops = sorted(top_frame(a["frames"]) for a in r["accesses"])
    whats = sorted(a["what"] for a in r["accesses"])
    hit = set()
    for a in r["accesses"]:
        for what, lo, hi in ranges:
            if lo <= a["addr"] < hi:
                hit.add(what.split("-")[0])
    # the array being filled by unistring.Scan called from importedString.scan IS the memo array (published only through i.u);
    # with the unsynchronised protocol two scans can each allocate one, and only the last survives to be listed by the harness
    for a in r["accesses"]:
        fr = a["frames"]
        if "write" in a["what"] and len(fr) >= 2 and fr[0].endswith("unistring.Scan") and fr[1] == "goja.importedString.scan":
            hit.add("imported")
    if hit == {"imported"}:
        return MEMO_SIG, tops
    if hit == {"template"}:
        return TMPL_SIG, tops
    return "race:" + "|".join(tops) + ":" + "/".join(whats), tops


# ----------------------------------------------------------------------------------------------- running

def run_harness(ctx, exe, cases, timeout):
    env = dict(os.environ)
    env["GORACE"] = "halt_on_error=0 history_size=4"
    env["GOMAXPROCS"] = env.get("GOMAXPROCS", "8")
    lines = [json.dumps(c, ensure_ascii=True) for c in cases]
    rc, out, err = ctx.run_lines([exe], lines, timeout=timeout, env=env)
    return rc, out, err


def run_sharded(ctx, exe, cases, shards, timeout):
    """-> (answers aligned with cases, race reports with global case index)"""
    shards = max(1, min(shards, len(cases)))
    parts = [list(range(i, len(cases), shards)) for i in range(shards)]
    answers = [None] * len(cases)
    races = []
    problems = []
    fatals = []

    def work(idx):
        rc, out, err = run_harness(ctx, exe, [cases[i] for i in idx], timeout)
        return idx, rc, out, err

    with ThreadPoolExecutor(max_workers=shards) as ex:
        for idx, rc, out, err in ex.map(work, parts):
            for j, i in enumerate(idx):
                if j < len(out):
                    try:
                        answers[i] = json.loads(out[j])
                    except ValueError:
                        answers[i] = {"ok": False, "info": "unparsable: " + out[j][:300]}
                else:
                    answers[i] = {"ok": False, "info": "no answer (harness rc=%d): %s" % (rc, err[-400:])}
            if rc not in (0, 66):
                # a Go runtime fatal error ("concurrent map writes", …) kills the process: attribute it to the case that was running
                fm = re.search(r"^fatal error: (.*)$", err, re.M)
                last = 0
                for mm in re.finditer(r"^@@CASE (\d+) ", err, re.M):
                    last = int(mm.group(1))
                if fm and 1 <= last <= len(idx):
                    tail = err[fm.start():fm.start() + 2500]
                    fatals.append({"gcase": idx[last - 1], "msg": fm.group(1).strip(), "text": tail})
                else:
                    problems.append("harness rc=%d: %s" % (rc, err[-600:]))
            reps, rngs = parse_stderr(err)
            for r in reps:
                r["gcase"] = idx[r["case"] - 1] if 1 <= r["case"] <= len(idx) else None
                r["ranges"] = rngs.get(r["case"], [])
                races.append(r)
    return answers, races, problems, fatals


def proto_from_generated():
    path = os.path.join(LEAN, "GojaModel", "Generated", "C16_Share.lean")
    try:
        txt = open(path).read()
    except OSError:
        return "unknown"
    m = re.search(r"def memoProg : List PInstr := \[(.*)\]", txt)
    if not m:
        return "unknown"
    p = m.group(1)
    if ".onceBegin" in p and ".loadFlag .atomic" in p and ".storeFlag .atomic" in p:
        return "once"
    if ".onceBegin" not in p and ".loadFlag .plain" in p:
        return "unsync"
    return "other"


def rerun_signatures(ctx, exe, variants, proto, timeout=240):
    """run the variant cases in one sharded batch; -> list (aligned) of {signature: report} seen for each"""
    answers, races, problems, _ = run_sharded(ctx, exe, variants, min(8, len(variants)), timeout)
    res = [dict() for _ in variants]
    for r in races:
        if r.get("gcase") is None:
            continue
        sig, tops = race_signature(r, r["ranges"], proto)
        res[r["gcase"]].setdefault(sig, r)
    return res, answers


def load_corpus():
    d = os.path.join(ROOT, "corpus", "C16")
    cases = []
    if os.path.isdir(d):
        for fn in sorted(os.listdir(d)):
            if fn.endswith(".jsonl"):
                for line in open(os.path.join(d, fn)):
                    line = line.strip()
                    if line and not line.startswith("#"):
                        c = json.loads(line)
                        c["_corpus"] = fn
                        cases.append(c)
    return cases


def main(ctx):
    quick = ctx.tier == "quick"
    rng = ctx.rng
    ctx.assumptions += [
        "Go memory model, goroutine scheduler, sync.Once and sync/atomic are trusted; the DRF theorems are about the access table and the protocol model (happens-before = program order + atomic release/acquire + Once), not the binary",
        "the race detector only sees the schedules that were executed",
        "instruction fields of interface type hold immutable primitive constants; maps/slices that escape an instruction are not written by their receivers (names maps: only on extensible stashes, which get a copy)",
    ]
    ctx.trusted_base += ["Go race detector (ThreadSanitizer runtime) and its report format", "dlclark/regexp2 and Go regexp engines are goroutine-safe as documented",
                         "extract/c16.go syntactic alias/escape analysis (no type checker): field types from struct declarations"]

    # (Lean and the harness are built concurrently below, once the cases are generated)

    # 3. cases
    corpus = load_corpus()
    n_prog = 36 if quick else 1000
    n_prim = 24 if quick else 700
    n_scan = 120 if quick else 3000
    n_memo = 300 if quick else 4000
    cases = []
    meta = []
    for c in corpus:
        cc = {k: v for k, v in c.items() if not k.startswith("_")}
        cases.append(cc)
        meta.append({"src": "corpus:" + c["_corpus"], "expect": c.get("expect")})
    # foreign: exhaustive
    for k in OBJ_KINDS:
        for p in PATHS:
            for same in (False, True):
                cases.append({"kind": "foreign", "obj": k, "path": p, "same": same})
                meta.append({"src": "foreign"})
    # scan
    scan_bytes = [b"", b"a", b"\xc3\xa9", b"\xff", b"abc\xf0\x9f\x98\x80", b"\xed\xa0\x80", b"\xc0\x80", b"\xf4\x90\x80\x80", b"\xe2\x82", b"a" * 17, ("é" * 9).encode()]
    while len(scan_bytes) < n_scan:
        scan_bytes.append(rand_bytes_utf8ish(rng, rng.randrange(0, 40), ascii_only=rng.random() < 0.15))
    for b in scan_bytes:
        cases.append({"kind": "scan", "hex": b.hex(), "n": rng.choice([2, 3, 4, 8])})
        meta.append({"src": "scan"})
    # programs
    for i in range(n_prog):
        snips = gen_snippets(rng, rng.randrange(2, 7))
        n = rng.choice([2, 3, 4, 8] if quick else [2, 3, 4, 6, 8, 12, 16])
        cases.append({"kind": "prog", "src": prog_src(snips), "n": n, "reps": rng.choice([1, 2, 3])})
        meta.append({"src": "prog", "snips": snips})
    # primitives
    for i in range(n_prim):
        vals = gen_vals(rng)
        cases.append({"kind": "prim", "vals": vals, "src": gen_prim_src(rng, len(vals)), "n": rng.choice([2, 4, 8] if quick else [2, 4, 8, 16])})
        meta.append({"src": "prim"})

    # scope-chain programs (compared with the model's `chain` further down)
    n_chain = 40 if quick else 500
    chain_idx = []
    for form, spec in CHAIN_FORMS:
        chain_idx.append((len(cases), spec))
        cases.append({"kind": "prog", "src": chain_form_src(form, rng.randrange(100)), "n": 2, "reps": 1})
        meta.append({"src": "chain"})
    for i in range(n_chain):
        toks = [rng.choice("VVVSBBb") for _ in range(rng.randrange(0, 6))]
        chain_idx.append((len(cases), " ".join(["V"] + toks)))
        cases.append({"kind": "prog", "src": chain_src(toks, rng.randrange(100)), "n": 2, "reps": 1})
        meta.append({"src": "chain"})

    shards = 6 if quick else 14

    # 1+2. two independent pipelines run side by side (the Lean side needs no Go binary, the harness needs no Lean):
    #   A: regenerate facts -> build the model driver (imports only the hand-written model, so a broken Props/Tie theorem
    #      never takes the correspondence down) -> re-check Props + Tie -> the two audits in parallel (-> leanchecker)
    #   B: build the harness with -race -> run all cases
    def lean_side():
        t = time.time()
        regen_ok = ctx.regen()
        ctx.obligation("tie.regen", "tie", regen_ok, "extractor ran" if regen_ok else "extractor failed")
        drv_ok, _ = ctx.lake_build(["model_c16"])
        ok, errs = ctx.lake_build(["GojaModel.C16.Props", "GojaModel.C16.Tie", "GojaModel.C16.Tie2"])
        ctx.log("lean: regenerated + built in %.1fs" % (time.time() - t))
        if ok:
            # every theorem of Props is audited for axioms on every run; the Tie theorems (all `decide`/`rfl` over regenerated
            # data) were just re-checked by `lake build` — the quick tier records them from that build and leaves their axiom
            # audit (one more Lean process that has to import Lean.Elab) to the thorough tier
            with ThreadPoolExecutor(max_workers=3) as ex:
                fs = [ex.submit(ctx.audit, "GojaModel.C16.Props", 31)]
                if ctx.tier == "thorough":
                    fs.append(ex.submit(ctx.audit, "GojaModel.C16.Tie", 18))
                    fs.append(ex.submit(ctx.audit, "GojaModel.C16.Tie2", 4))
                    fs.append(ex.submit(ctx.leanchecker, "GojaModel.C16.Props"))
                for f in fs:
                    f.result()
            if ctx.tier != "thorough":
                total = 0
                for mod in ("Tie", "Tie2"):
                    tie_src = open(os.path.join(LEAN, "GojaModel", "C16", mod + ".lean")).read()
                    names = re.findall(r"^theorem\s+(\S+)", tie_src, re.M)
                    total += len(names)
                    for n in names:
                        ctx.obligation("thm:GojaModel.C16.%s.%s" % (mod, n), "theorem", True, "re-checked by lake build (axiom audit in the thorough tier)")
                ctx.obligation("tie:theorems-present", "tie", total >= 23, "%d Tie theorems" % total)
        ctx.log("lean side done in %.1fs" % (time.time() - t))
        return drv_ok, ok

    def go_side():
        t = time.time()
        exe = ctx.go_build(race=True)
        ctx.log("harness built (-race) in %.1fs" % (time.time() - t))
        if exe is None:
            return None, None
        ctx.log("running %d cases in %d shards" % (len(cases), shards))
        t0 = time.time()
        res = run_sharded(ctx, exe, cases, shards, timeout=600 if quick else 3000)
        ctx.stats["harness_wall_s"] = round(time.time() - t0, 1)
        return exe, res

    with ThreadPoolExecutor(max_workers=2) as ex:
        fl, fg = ex.submit(lean_side), ex.submit(go_side)
        drv_ok, lean_ok = fl.result()
        exe, res = fg.result()
    model = ctx.model_exe()
    model_ok = drv_ok and os.path.exists(model)
    proto = proto_from_generated()
    ctx.stats["protocol_shape"] = proto
    if exe is None:
        return ctx.finish(level="proof", rule="harness did not build")
    answers, races, problems, fatals = res
    ctx.log("harness done: %d race reports" % len(races))
    ctx.obligation("corr:harness-ran", "correspondence", not problems, "; ".join(problems)[:1500])

    # 4. judge answers
    kinds = {}
    reprs = {}
    foreign_bad, scan_lines, scan_idx = [], [], []
    tv_lines, tv_idx = [], []
    result_viol = []
    n_lost = 0
    for i, (c, a, m) in enumerate(zip(cases, answers, meta)):
        if str(a.get("info", "")).startswith("no answer"):
            n_lost += 1          # the harness process died before this case (reported through `fatals` / `problems`)
            continue
        ctx.count()
        kinds[c["kind"]] = kinds.get(c["kind"], 0) + 1
        if c["kind"] == "foreign":
            tv_lines.append(tv_line(c["obj"], c["same"]))
            tv_idx.append(i)
            ctx.nontriv(("foreign", c["obj"], c["path"], c["same"]))
        elif c["kind"] == "scan":
            scan_lines.append("scan " + c["hex"])
            scan_idx.append(i)
            if not a.get("ok"):
                result_viol.append((i, "scan-length-disagrees", a))
            if any(x >= 0x80 for x in bytes.fromhex(c["hex"])):
                ctx.nontriv(("scan", c["hex"]))
        elif c["kind"] in ("prog", "prim"):
            if a.get("info", "").startswith(("compile-error", "value-error")) or (c["kind"] == "prog" and str(a.get("base", "")).startswith("compile-error")):
                ctx.obligation("corr:generator-valid:%d" % i, "correspondence", False, "generated case does not compile: %s" % (a.get("info") or a.get("base")))
                continue
            if not a.get("ok"):
                result_viol.append((i, "names-contract-broken" if a.get("contract") else ("shared-object-mutated" if a.get("mutated") else "result-differs-from-isolated-run"), a))
            if c["kind"] == "prog":
                n_pr = str(a.get("base", "")).count("|target=")
                if n_pr:
                    ctx.stats["stash_probes"] = ctx.stats.get("stash_probes", 0) + n_pr
                    for m_ in re.finditer(r"([OVB][-so](?:,[OVB][-so])*)\|target=([OVB][-so]|none)", str(a.get("base", ""))):
                        ctx.stats.setdefault("stash_probe_shapes", {})
                        k_ = m_.group(0)
                        ctx.stats["stash_probe_shapes"][k_] = ctx.stats["stash_probe_shapes"].get(k_, 0) + 1
            if str(a.get("info", "")).startswith("timeouts="):
                ctx.stats["watchdog_timeouts"] = ctx.stats.get("watchdog_timeouts", 0) + int(a["info"].split("=")[1])
            base = str(a.get("base", ""))
            if c["kind"] == "prim":
                for r in a.get("info", "").split(","):
                    reprs[r] = reprs.get(r, 0) + 1
            if base.startswith("value:") and len(base) > 12:
                ctx.nontriv((c["kind"], hashlib.sha1(c["src"].encode()).hexdigest(), json.dumps(c.get("vals"), sort_keys=True)))
            if m.get("snips"):
                for name, _ in m["snips"]:
                    k = "snippet:" + name
                    ctx.stats.setdefault("snippet_mix", {})
                    ctx.stats["snippet_mix"][name] = ctx.stats["snippet_mix"].get(name, 0) + 1
            if m.get("expect") is not None and base != m["expect"]:
                ctx.obligation("corr:corpus-expect:%d" % i, "correspondence", False, "corpus case result %r, expected %r" % (base[:200], m["expect"][:200]))
    ctx.stats["cases_by_kind"] = kinds
    ctx.stats["cases_lost_to_harness_abort"] = n_lost
    ctx.stats["shared_value_representations"] = reprs
    ctx.stats["goroutines"] = "2..8 (quick)" if quick else "2..16"
    for i in (next((j for j, c in enumerate(cases) if c["kind"] == k), None) for k in ("prog", "prim", "foreign", "scan")):
        if i is not None:
            ctx.sample({"case": {k: (v if not isinstance(v, str) or len(v) < 400 else v[:400] + "…") for k, v in cases[i].items()}, "answer": {k: (str(v)[:300]) for k, v in answers[i].items()}})

    # 4a. toValue decision: implementation vs Lean model vs python transcription of the property (exhaustive)
    model_tv = None
    if model_ok:
        rc, model_tv, _ = ctx.run_lines([model], tv_lines)
    bad_model, bad_prop = [], []
    for j, i in enumerate(tv_idx):
        c, a = cases[i], answers[i]
        got = a.get("res", "?" + a.get("info", ""))
        want = tv_oracle(c["obj"], c["same"])
        if model_tv is not None and j < len(model_tv) and model_tv[j] != got:
            bad_model.append((c, got, model_tv[j]))
        if got != want:
            bad_prop.append((c, got, want))
    ctx.obligation("corr:toValue-object-decision(exhaustive %d cells)" % len(tv_idx), "correspondence", not bad_model and model_tv is not None or (not model_ok and not bad_prop),
                   "; ".join("%s/%s/same=%s impl=%s model=%s" % (c["obj"], c["path"], c["same"], g, w) for c, g, w in bad_model[:6]) or ("model driver unavailable" if model_tv is None else ""))
    accepted = {}
    for c, got, want in bad_prop:
        foreign = (not c["same"]) and c["obj"] not in ("nilptr", "selfnil", "noruntime")
        if foreign and got != "typeError":
            accepted.setdefault(c["path"], []).append((c, got, want))
    for path, lst in accepted.items():
        c, got, want = lst[0]
        ctx.violation("foreign-object-accepted:%s" % path, "Object of another Runtime passed through %s was not rejected with TypeError (got %s) — %d object kinds: %s"
                      % (path, got, len(lst), ",".join(x[0]["obj"] for x in lst)), {"kind": "input", "case": c, "expected": want, "observed": got})
    for c, got, want in bad_prop:
        foreign = (not c["same"]) and c["obj"] not in ("nilptr", "selfnil", "noruntime")
        if foreign and got != "typeError":
            continue
        else:
            ctx.obligation("corr:toValue-oracle:%s:%s:%s" % (c["obj"], c["path"], c["same"]), "correspondence", False, "impl=%s oracle=%s" % (got, want))

    # 4b. Scan as a function of the bytes
    if model_ok:
        rc, mscan, _ = ctx.run_lines([model], scan_lines)
        bad = [(cases[i]["hex"], answers[i].get("res"), mscan[j] if j < len(mscan) else "?") for j, i in enumerate(scan_idx) if j >= len(mscan) or answers[i].get("res") != mscan[j]]
        ctx.obligation("corr:scan-memo-equals-model(%d byte strings)" % len(scan_idx), "correspondence", not bad, "; ".join("%s impl=%s model=%s" % b for b in bad[:5]))
    else:
        ctx.obligation("corr:scan-memo-equals-model", "correspondence", False, "model driver unavailable")

    # 4b'. the run-time scope chain an eval-declared var meets: implementation (stash probe) vs Scopes.crun + Names.rtChain
    if model_ok:
        rc, mch, _ = ctx.run_lines([model], ["chain " + spec for _, spec in chain_idx])
        bad = []
        shapes = {}
        for j, (i, spec) in enumerate(chain_idx):
            a = answers[i]
            if str(a.get("info", "")).startswith("no answer"):
                continue
            got = {norm_probe(x) for x in re.findall(r"((?:[OVB][-so],?)+\|target=(?:[OVB][-so]|none))", str(a.get("base", "")))}
            want = mch[j].split("|mode=")[0] if j < len(mch) else "?"
            shapes[want] = shapes.get(want, 0) + 1
            if got != {want}:
                bad.append("%s: impl=%s model=%s" % (spec, sorted(got), want))
        ctx.stats["scope_chain_shapes"] = len(shapes)
        ctx.obligation("corr:scope-chain-equals-model(%d programs, %d distinct chains)" % (len(chain_idx), len(shapes)), "correspondence", not bad, "; ".join(bad[:4]))
    else:
        ctx.obligation("corr:scope-chain-equals-model", "correspondence", False, "model driver unavailable")

    # 4c. memo model vs independent vector-clock oracle
    memo_lines, memo_want = [], []
    for k in range(n_memo):
        name = rng.choice(list(CFGS))
        T = rng.randrange(1, 5)
        L = rng.randrange(1, 40)
        ops = "fpw" if rng.random() < 0.4 else "fp"
        sched = [(rng.randrange(T), rng.choice(ops)) for _ in range(L)]
        sv = rng.randrange(0, 4)
        memo_lines.append("memo %s %d %s" % (name, sv, ",".join("%d:%s" % x for x in sched)))
        memo_want.append(memo_oracle(CFGS[name], sv, sched))
    if model_ok:
        rc, mm, _ = ctx.run_lines([model], memo_lines)
        bad = [(memo_lines[j], mm[j] if j < len(mm) else "?", memo_want[j]) for j in range(len(memo_lines)) if j >= len(mm) or mm[j] != memo_want[j]]
        raced = sum(1 for w in memo_want if w.startswith("raced=1"))
        ctx.stats["memo_schedules"] = {"n": len(memo_lines), "raced_by_oracle": raced}
        ctx.count(len(memo_lines))
        ctx.obligation("corr:memo-model-equals-vector-clock-oracle(%d schedules)" % len(memo_lines), "correspondence", not bad, "; ".join("%s model=%s oracle=%s" % b for b in bad[:3]))
        # drf claim cross-check on the oracle: no `once` schedule without raw clients may race
        bad_drf = [memo_lines[j] for j in range(len(memo_lines)) if memo_lines[j].startswith("memo once") and ":w" not in memo_lines[j] and memo_want[j].startswith("raced=1")]
        ctx.obligation("corr:oracle-agrees-with-memo_drf", "correspondence", not bad_drf, "; ".join(bad_drf[:2]))

    # 4d. Go runtime fatal errors (concurrent map access …) while sharing: a violation with the running case as replay
    for f in fatals[:3]:
        gi = f["gcase"]
        ctx.violation("go-fatal:" + f["msg"], "the Go runtime aborted while a Program / values were shared between goroutines: " + f["msg"],
                      {"kind": "schedule", "case": cases[gi], "report": f["text"]})

    # 5. result differences are property violations outright
    for i, sig, a in result_viol[:5]:
        c = cases[i]
        shr = c
        if c["kind"] == "prog" and meta[i].get("snips"):
            snips = meta[i]["snips"]

            def fails(sub):
                cc = dict(c, src=prog_src(sub))
                for _ in range(2):
                    rc, out, err = run_harness(ctx, exe, [cc], 120)
                    try:
                        if out and not json.loads(out[0]).get("ok"):
                            return True
                    except ValueError:
                        return True
                return False
            small = ctx.ddmin(snips, fails)
            shr = dict(c, src=prog_src(small))
            sig = sig + ":" + "+".join(sorted(set(n for n, _ in small)))
        ctx.violation(sig, "a run sharing a Program / primitive values gave a different result than the isolated run: %s" % "; ".join(a.get("diff", [])[:2])[:400],
                      {"kind": "program", "case": shr, "observed": a})

    # 6. races: classified by the memory they are about
    by_sig = {}
    for r in races:
        sig, tops = race_signature(r, r["ranges"], proto)
        by_sig.setdefault(sig, []).append((r, tops))
    ctx.stats["race_reports"] = {s: len(v) for s, v in by_sig.items()}
    ctx.stats["race_report_frames"] = {s: sorted({" vs ".join(t) for _, t in v})[:12] for s, v in by_sig.items()}
    unknown = []
    for sig, lst in by_sig.items():
        r, tops = lst[0]
        unknown.append((sig, r, tops, r.get("gcase")))
    # every race report is a violation; reduce the program to one snippet where possible (one batch of single-snippet
    # variants per signature, first 6 signatures), then report with the case as replay
    for k, (sig, r, tops, gi) in enumerate(unknown[:24]):
        c = cases[gi] if gi is not None else None
        shr, rep = c, r
        if k < 6 and c is not None and c["kind"] == "prog" and meta[gi].get("snips") and len(meta[gi]["snips"]) > 1:
            snips = meta[gi]["snips"]
            variants = [dict(c, src=prog_src([sn]), n=8, reps=3) for sn in snips for _ in range(2)]
            seen, _ = rerun_signatures(ctx, exe, variants, proto)
            for j, d in enumerate(seen):
                if sig in d:
                    shr, rep = variants[j], d[sig]
                    break
        n = len(by_sig[sig])
        frames = sorted({" vs ".join(t) for _, t in by_sig[sig]})[:6]
        what = {MEMO_SIG: "on the memo cells of an imported string shared between Runtimes (lazy scan not synchronised?)",
                TMPL_SIG: "on the compiled tagged-template slots of a shared Program (template arrays not cloned per use?)"}.get(sig, "while sharing a Program / primitive values between Runtimes")
        ctx.violation(sig, "data race %s: %d report(s), e.g. %s" % (what, n, "; ".join(frames)),
                      {"kind": "schedule", "case": shr, "report": rep["text"][:4000], "accesses": rep["accesses"], "shared_ranges": rep.get("ranges", [])[:40]})

    # the protocol regenerated from the source must be the once-style one the theorems are about
    ctx.obligation("tie.memo-protocol-shape", "tie", proto == "once", "scan/ensureScanned regenerate to shape %r; memo_generated_drf / Tie.memo_shape are about the once-style protocol" % proto)

    return ctx.finish(
        level="proof",
        rule="cases: every corpus case; the toValue decision over all 20 object shapes × 24 API paths (direct, and nested in Go slices / arrays / maps / structs / multi-value returns, read by index, for-of, spread, array methods) × {same,other runtime} (exhaustive); byte strings "
             "(ASCII / valid multi-byte / invalid UTF-8) for Scan; generated JS programs (2-6 snippets from 13 families: regex literals incl. regexp2-only, tagged templates "
             "with mutation attempts, private names incl. eval-resolved, eval/with/arguments dynamic scopes, constant folding, generators, …) compiled once and run by 2..16 goroutines; "
             "generated sets of shared primitive values (imported >16-byte Go strings, unscanned concatenations, short imported, UTF-16, JSON.stringify results, symbols, numbers) with "
             "8-24 string operations each plus every Go-level String method; random schedules of the memo model. distinct & non-trivial = distinct (kind, source, values) whose "
             "baseline is a non-empty value, distinct foreign cells, distinct non-ASCII byte strings",
        extra={"exhaustive": ["toValue(*Object) decision: %d cells" % (len(OBJ_KINDS) * len(PATHS) * 2)]})


def replay(ctx, path):
    rep = json.load(open(path))
    print("replay", path)
    print("signature:", rep.get("signature"))
    print("summary:", rep.get("summary"))
    if rep.get("kind") == "broken-obligation":
        for o in rep.get("obligations", []):
            print("broken obligation:", o["name"], "-", o["detail"][:500])
        return 0
    c = rep.get("case")
    if not c:
        print("no case in replay file")
        return 2
    exe = ctx.go_build(race=True)
    if exe is None:
        print("harness did not build")
        return 2
    proto = proto_from_generated()
    seen = False
    if c.get("kind") == "foreign":
        rc, out, err = run_harness(ctx, exe, [c], 300)
        print("implementation answer:", (out[0] if out else "<none>")[:500])
        want = tv_oracle(c["obj"], c["same"])
        try:
            got = json.loads(out[0]).get("res")
        except (ValueError, IndexError):
            got = None
        print("expected (property):", want)
        model = ctx.model_exe()
        if os.path.exists(model):
            rc, mout, _ = ctx.run_lines([model], [tv_line(c["obj"], c["same"])])
            print("model:", mout[:1])
        print("REPRODUCED" if got != want else "not reproduced")
        return 1 if got != want else 0
    for k in range(5):
        rc, out, err = run_harness(ctx, exe, [c], 300)
        print("implementation answer:", (out[0] if out else "<none>")[:2000])
        reps, rngs = parse_stderr(err)
        for r in reps:
            sig, tops = race_signature(r, rngs.get(r["case"], []), proto)
            print("race:", sig, tops)
            seen = True
        try:
            if out and not json.loads(out[0]).get("ok", True):
                seen = True
        except ValueError:
            pass
        if seen:
            break
    print("expected:", rep.get("expected", "no race report; every goroutine's result equals the isolated result"))
    print("REPRODUCED" if seen else "not reproduced in 5 runs")
    return 1 if seen else 0
