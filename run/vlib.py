#!/usr/bin/env python3
"""
vlib — shared orchestration for the per-property checks (python3 stdlib only).

A property check is a module run/cNN.py with a function `main(ctx)`.  It uses the helpers of
`Ctx` in this order (DESIGN.md §1, "A run of ./check"):

  1. ctx.regen()                    regenerate lean/GojaModel/Generated/CNN_*.lean from /repo
  2. ctx.lake_build([...])          re-check model theorems + Tie theorems, build the model driver
  3. ctx.audit("GojaModel.CNN.Props")   one obligation per theorem, axioms ⊆ {propext, choice, Quot.sound}
  4. ctx.go_build("cNN")            build the Go harness against /repo's *current working tree*, -tags verif
  5. correspondence: ctx.run_lines(...) for harness and model, ctx.diff(...)
  6. ctx.violation(...) / ctx.broken(...) ; ctx.finish(...)

Decision rule (DESIGN.md §2.4) is implemented in `finish`:
  * every concrete violation whose signature is not listed as `known` in known_findings.json
      -> "VIOLATION property=<id> replay=<path>"            exit 1
  * a broken obligation (theorem / tie / correspondence) for which no concrete failing input was
    found  -> "VIOLATION property=<id> replay=<path> no-failing-input-found"   exit 1
  * known findings that still reproduce -> "KNOWN-FINDING: property=<id> <what fails>"   exit 0
"""
import json, os, re, subprocess, sys, time, hashlib, random, shutil

ROOT = os.path.dirname(os.path.dirname(os.path.abspath(__file__)))
REPO = os.environ.get("VERIF_REPO", "/repo")
LEAN = os.path.join(ROOT, "lean")
BUILD = os.path.join(ROOT, ".build")          # git-ignored scratch (binaries, op files)
ALLOWED_AXIOMS = {"propext", "Classical.choice", "Quot.sound"}
FORBIDDEN = re.compile(r"\bsorry\b|\badmit\b|^\s*axiom\s|native_decide|bv_decide|implemented_by|\bunsafe\s|maxHeartbeats\s+0\b")

GOENV = dict(os.environ)
GOENV.update({"GOFLAGS": "-mod=mod", "GOPROXY": "off", "CGO_ENABLED": GOENV.get("CGO_ENABLED", "1")})
# NB: GOTOOLCHAIN=local / GOSUMDB=off must NOT be forced with the default go (see memory notes).


def sh(cmd, cwd=None, env=None, timeout=None, input=None):
    """Run a command, return (rc, stdout, stderr); never raises on non-zero."""
    try:
        p = subprocess.run(cmd, cwd=cwd, env=env, timeout=timeout, input=input,
                           stdout=subprocess.PIPE, stderr=subprocess.PIPE, text=True, errors="replace")
        return p.returncode, p.stdout, p.stderr
    except subprocess.TimeoutExpired as e:
        out = e.stdout.decode("utf8", "replace") if isinstance(e.stdout, bytes) else (e.stdout or "")
        err = e.stderr.decode("utf8", "replace") if isinstance(e.stderr, bytes) else (e.stderr or "")
        return 124, out, err + "\n[timeout]"


class Ctx:
    def __init__(self, prop, tier="quick", seed=None):
        self.prop = prop
        self.low = prop.lower()
        self.tier = tier
        if seed is None:
            seed = int(os.environ.get("VERIF_SEED", "1") or "1")
        self.seed = seed
        self.rng = random.Random(seed)
        self.t0 = time.time()
        self.obligations = []      # {name, kind, ok, detail}
        self.violations = []       # concrete, not known
        self.known_hits = []       # concrete, listed as known
        self.broken = []           # broken obligations (name, detail)
        self.samples = []
        self.stats = {}
        self.assumptions = []
        self.trusted_base = [
            "Lean 4.33.0 kernel; axioms allowed: propext, Classical.choice, Quot.sound",
            "go/ast fact extractor (extract/) and Go harness (harness/) incl. canonicalisation",
            "run/vlib.py orchestration and diffing",
        ]
        self.evaluations = 0
        self.nontrivial = set()
        self.checker_cmds = []
        os.makedirs(BUILD, exist_ok=True)
        os.makedirs(os.path.join(ROOT, "evidence"), exist_ok=True)
        os.makedirs(os.path.join(ROOT, "replay", prop), exist_ok=True)
        self.known = self._load_known()

    # ------------------------------------------------------------------ known findings
    def _load_known(self):
        # committed files only; never written at run time
        paths = [os.path.join(ROOT, "known_findings.json")]
        d = os.path.join(ROOT, "known_findings.d")
        if os.path.isdir(d):
            paths += [os.path.join(d, fn) for fn in sorted(os.listdir(d)) if fn.endswith(".json")]
        out = []
        for p in paths:
            if not os.path.exists(p):
                continue
            with open(p) as f:
                data = json.load(f)
            out += [e for e in data.get("findings", []) if e.get("property") == self.prop]
        return out

    def known_signature(self, signature):
        for e in self.known:
            if e.get("status") == "known" and e.get("signature") == signature:
                return e
        return None

    # ------------------------------------------------------------------ logging
    def log(self, *a):
        print("[%s %6.1fs]" % (self.prop, time.time() - self.t0), *a, file=sys.stderr, flush=True)

    # ------------------------------------------------------------------ obligations
    def obligation(self, name, kind, ok, detail=""):
        self.obligations.append({"name": name, "kind": kind, "ok": bool(ok), "detail": detail[:2000]})
        if not ok:
            self.broken.append((name, detail))
        return ok

    # ------------------------------------------------------------------ regenerate facts
    def regen(self, timeout=300):
        """Run the go/ast extractor for this property. Generated files: lean/GojaModel/Generated/<PROP>_*.lean
        (stale ones deleted first).  Returns True on success; failure is a broken tie obligation."""
        gen = os.path.join(LEAN, "GojaModel", "Generated")
        os.makedirs(gen, exist_ok=True)
        for fn in os.listdir(gen):
            if fn.startswith(self.prop + "_") or fn == self.prop + ".lean":
                os.remove(os.path.join(gen, fn))
        # one extractor binary per property (checks of different properties may run concurrently)
        exe = os.path.join(BUILD, "extract_" + self.low)
        rc, out, err = sh(["go", "build", "-o", exe, "."], cwd=os.path.join(ROOT, "extract"), env=GOENV, timeout=timeout)
        if rc != 0:
            self.obligation("tie.extract.build", "tie", False, err)
            return False
        rc, out, err = sh([exe, "-repo", REPO, "-out", gen, "-only", self.prop], timeout=timeout)
        if rc != 0:
            self.obligation("tie.extract.run", "tie", False, (out + err))
            return False
        self.stats["extract"] = out.strip().splitlines()[-5:]
        return True

    # ------------------------------------------------------------------ lean
    def lake_build(self, targets, timeout=3000):
        """lake build the given targets (module names or exe names). Returns (ok, errors) where errors is a
        list of {file, line, decl, msg}.  Each failing declaration becomes a broken obligation."""
        cmd = ["lake", "build"] + list(targets)
        self.checker_cmds.append("cd lean && " + " ".join(cmd))
        rc, out, err = sh(cmd, cwd=LEAN, timeout=timeout)
        text = out + "\n" + err
        errors = []
        for m in re.finditer(r"^error: ([^\s:]+\.lean):(\d+):(\d+): (.*)$", text, re.M):
            f, line, col, msg = m.group(1), int(m.group(2)), int(m.group(3)), m.group(4)
            errors.append({"file": f, "line": line, "decl": self._decl_at(f, line), "msg": msg[:400]})
        if rc != 0 and not errors:
            errors.append({"file": "?", "line": 0, "decl": "lake build", "msg": text[-1500:]})
        seen = set()
        for e in errors:
            key = (e["file"], e["decl"])
            if key in seen:
                continue
            seen.add(key)
            self.obligation("lean:%s:%s" % (e["file"], e["decl"]), "theorem", False, "%s:%d %s" % (e["file"], e["line"], e["msg"]))
        return rc == 0, errors

    def _decl_at(self, relfile, line):
        p = relfile if os.path.isabs(relfile) else os.path.join(LEAN, relfile)
        try:
            lines = open(p, errors="replace").read().splitlines()
        except OSError:
            return "?"
        pat = re.compile(r"^\s*(?:@\[[^\]]*\]\s*)?(?:private |protected |noncomputable )*(theorem|lemma|def|example|instance|abbrev|structure|inductive)\s+([^\s:(\[{]+)?")
        for i in range(min(line, len(lines)) - 1, -1, -1):
            m = pat.match(lines[i])
            if m:
                return (m.group(2) or m.group(1))
        return "?"

    def audit(self, module, expect_min=1, timeout=900):
        """One obligation per theorem of `module`; ok iff its axioms ⊆ ALLOWED_AXIOMS.  Also greps the
        property's Lean directory for forbidden constructs.  Returns list of theorem names."""
        os.makedirs(os.path.join(BUILD, "audit"), exist_ok=True)
        f = os.path.join(BUILD, "audit", module.replace(".", "_") + ".lean")
        with open(f, "w") as fh:
            fh.write("import GojaModel.Audit\nimport %s\n#audit_module %s\n" % (module, module))
        cmd = ["lake", "env", "lean", f]
        self.checker_cmds.append("cd lean && lake env lean <audit:%s>" % module)
        rc, out, err = sh(cmd, cwd=LEAN, timeout=timeout)
        names = []
        for m in re.finditer(r"AUDIT (\S+) ::(.*)$", out, re.M):
            name = m.group(1)
            axs = set(m.group(2).split())
            bad = sorted(axs - ALLOWED_AXIOMS)
            names.append(name)
            self.obligation("thm:" + name, "theorem", not bad, ("axioms: " + " ".join(sorted(axs))) if not bad else ("forbidden axioms: " + " ".join(bad)))
        if rc != 0 or "AUDIT-DONE" not in out:
            self.obligation("audit:" + module, "theorem", False, (out + err)[-1500:])
        elif len(names) < expect_min:
            self.obligation("audit:" + module, "theorem", False, "only %d theorems found, expected >= %d" % (len(names), expect_min))
        # forbidden-construct grep over the property's Lean sources (+ Base)
        hits = []
        for d in [os.path.join(LEAN, "GojaModel", self.prop), os.path.join(LEAN, "GojaModel", "Base")]:
            for dp, _, fns in os.walk(d):
                for fn in fns:
                    if fn.endswith(".lean"):
                        hits += self._grep_forbidden(os.path.join(dp, fn))
        self.obligation("audit:no-sorry-axiom-native:" + self.prop, "theorem", not hits, "; ".join(hits[:10]))
        return names

    def _grep_forbidden(self, path):
        hits = []
        txt = open(path, errors="replace").read()
        # strip block comments and line comments
        txt2 = re.sub(r"/-.*?-/", lambda m: "\n" * m.group(0).count("\n"), txt, flags=re.S)
        for i, l in enumerate(txt2.splitlines(), 1):
            l = l.split("--")[0]
            if FORBIDDEN.search(l):
                hits.append("%s:%d: %s" % (os.path.relpath(path, LEAN), i, l.strip()[:80]))
        return hits

    def leanchecker(self, module, timeout=1800):
        cmd = ["lake", "env", "leanchecker", module]
        self.checker_cmds.append("cd lean && " + " ".join(cmd))
        rc, out, err = sh(cmd, cwd=LEAN, timeout=timeout)
        return self.obligation("leanchecker:" + module, "theorem", rc == 0, (out + err)[-800:])

    # ------------------------------------------------------------------ go
    def go_build(self, name=None, race=False, tags="verif", extra=None, timeout=900):
        """Build harness/cmd/<name> against /repo's working tree. Returns path of the binary or None."""
        name = name or self.low
        alt = "" if os.path.abspath(REPO) == "/repo" else "_alt" + hashlib.sha1(REPO.encode()).hexdigest()[:8]
        out = os.path.join(BUILD, "harness_%s%s%s" % (name, "_race" if race else "", alt))
        if os.path.exists(out):
            os.remove(out)                      # never run a stale binary
        hdir = os.path.join(ROOT, "harness")
        gosum = os.path.join(hdir, "go.sum")
        try:
            want = open(os.path.join(REPO, "go.sum"), "rb").read()
            have = open(gosum, "rb").read() if os.path.exists(gosum) else None
            if want != have:            # atomic replace: other checks may be building concurrently
                tmp = gosum + ".%d.tmp" % os.getpid()
                with open(tmp, "wb") as f:
                    f.write(want)
                os.replace(tmp, gosum)
        except OSError:
            pass
        cmd = ["go", "build", "-tags", tags, "-o", out]
        if os.path.abspath(REPO) != "/repo":
            # mutation rehearsal: build the harness against another tree (VERIF_REPO) through an alternative go.mod
            alt = os.path.join(BUILD, "alt_%s.mod" % hashlib.sha1(REPO.encode()).hexdigest()[:10])
            with open(os.path.join(hdir, "go.mod")) as f:
                mod = f.read().replace("=> /repo", "=> " + os.path.abspath(REPO))
            with open(alt, "w") as f:
                f.write(mod)
            shutil.copyfile(os.path.join(REPO, "go.sum"), alt[:-4] + ".sum")
            cmd.append("-modfile=" + alt)
        if race:
            cmd.append("-race")
        if extra:
            cmd += extra
        cmd.append("./cmd/" + name)
        rc, o, e = sh(cmd, cwd=hdir, env=GOENV, timeout=timeout)
        if rc != 0:
            self.obligation("tie.harness.build:" + name, "tie", False, (o + e)[-2000:])
            return None
        return out

    def model_exe(self, name=None):
        name = name or ("model_" + self.low)
        return os.path.join(LEAN, ".lake", "build", "bin", name)

    # ------------------------------------------------------------------ running line protocols
    def run_lines(self, cmd, lines, timeout=600, env=None, cwd=None):
        """Feed `lines` (list of str) to cmd's stdin; return (rc, list of output lines, stderr)."""
        data = "\n".join(lines) + "\n"
        rc, out, err = sh(cmd, input=data, timeout=timeout, env=env, cwd=cwd)
        return rc, out.splitlines(), err

    def diff(self, ops, impl_out, model_out):
        """Indices where the two output streams differ (length mismatch counts as a diff at the end)."""
        bad = [i for i in range(min(len(impl_out), len(model_out))) if impl_out[i] != model_out[i]]
        if len(impl_out) != len(model_out):
            bad.append(min(len(impl_out), len(model_out)))
        return bad

    @staticmethod
    def ddmin(items, fails):
        """Delta debugging: minimal sub-list of `items` for which fails(sublist) is True."""
        n = 2
        items = list(items)
        while len(items) >= 2:
            chunk = max(1, len(items) // n)
            subsets = [items[i:i + chunk] for i in range(0, len(items), chunk)]
            reduced = False
            for i in range(len(subsets)):
                comp = [x for j, s in enumerate(subsets) if j != i for x in s]
                if comp and fails(comp):
                    items = comp
                    n = max(n - 1, 2)
                    reduced = True
                    break
            if not reduced:
                if n >= len(items):
                    break
                n = min(len(items), n * 2)
        return items

    # ------------------------------------------------------------------ coverage bookkeeping
    def count(self, n=1):
        self.evaluations += n

    def nontriv(self, key):
        """Record one distinct non-trivial case (key = any hashable canonical description)."""
        if not isinstance(key, str):
            key = json.dumps(key, sort_keys=True, default=str)
        self.nontrivial.add(hashlib.sha1(key.encode("utf8", "replace")).hexdigest()[:16])

    def sample(self, s, limit=12):
        if len(self.samples) < limit:
            self.samples.append(s)

    # ------------------------------------------------------------------ violations
    def write_replay(self, tag, obj):
        safe = re.sub(r"[^A-Za-z0-9_.-]+", "_", tag)[:60]
        path = os.path.join(ROOT, "replay", self.prop, "%s_%s_seed%d_%s.json" % (self.prop, self.tier, self.seed, safe))
        obj = dict(obj)
        obj.setdefault("property", self.prop)
        obj.setdefault("tier", self.tier)
        obj.setdefault("seed", self.seed)
        with open(path, "w") as f:
            json.dump(obj, f, indent=1, default=str)
        return path

    def violation(self, signature, summary, replay):
        """A concrete input/history/program on which the PROPERTY fails on the implementation.
        `signature` is the canonical class of the minimised failing case (matched against known_findings.json)."""
        k = self.known_signature(signature)
        rec = {"signature": signature, "summary": summary}
        if k is not None:
            if not any(h["signature"] == signature for h in self.known_hits):
                self.known_hits.append(rec)
            return "known"
        if any(v["signature"] == signature for v in self.violations):
            return "dup"
        replay = dict(replay)
        replay.update({"signature": signature, "summary": summary})
        rec["replay"] = self.write_replay(signature, replay)
        self.violations.append(rec)
        return "new"

    # ------------------------------------------------------------------ finish
    def finish(self, level="proof", rule="", extra=None, explanation=None):
        wall = time.time() - self.t0
        lines = []
        for h in self.known_hits:
            lines.append("KNOWN-FINDING: property=%s %s [%s]" % (self.prop, h["summary"], h["signature"]))
        for v in self.violations:
            lines.append("VIOLATION property=%s replay=%s" % (self.prop, v["replay"]))
        n_viol = len(self.violations)
        if self.broken and not self.violations:
            # the property is no longer shown to hold, and the search found no failing input
            path = self.write_replay("broken-obligation", {
                "kind": "broken-obligation",
                "obligations": [{"name": n, "detail": d[:1500]} for n, d in self.broken],
                "note": "no concrete failing input found by the search; the named theorem / tie / correspondence no longer checks",
            })
            lines.append("VIOLATION property=%s replay=%s no-failing-input-found" % (self.prop, path))
            n_viol += 1
        elif self.broken and self.violations:
            # attach broken obligations to the first replay for the record
            pass
        obligations = len(self.obligations)
        discharged = sum(1 for o in self.obligations if o["ok"])
        cov = {
            "obligations": obligations,
            "discharged": discharged,
            "checker_cmd": " ; ".join(dict.fromkeys(self.checker_cmds)) or "none",
            "trusted_base": self.trusted_base,
            "evaluations": self.evaluations,
            "distinct_nontrivial": len(self.nontrivial),
            "rule": rule,
            "samples": self.samples or ["(no samples recorded)"],
            "obligation_list": [{"name": o["name"], "kind": o["kind"], "ok": o["ok"]} for o in self.obligations],
            "broken_obligations": [{"name": n, "detail": d[:600]} for n, d in self.broken],
            "known_findings_reproduced": [h["signature"] for h in self.known_hits],
            "stats": self.stats,
        }
        if explanation:
            cov["explanation"] = explanation
        if extra:
            cov.update(extra)
        # schema: coverage.exhaustive is a boolean; a list of the exhaustively enumerated domains goes beside it
        if "exhaustive" in cov and not isinstance(cov["exhaustive"], bool):
            cov["exhaustive_domains"] = cov["exhaustive"]
            del cov["exhaustive"]
        for k in ("evaluations", "distinct_nontrivial", "obligations", "discharged", "states", "transitions", "programs"):
            if k in cov and not isinstance(cov[k], int):
                try:
                    cov[k] = int(cov[k])
                except Exception:
                    cov[k + "_note"] = str(cov.pop(k))
        ev = {
            "property_id": self.prop,
            "tier": self.tier,
            "seed": self.seed,
            "level": level,
            "coverage": cov,
            "assumptions": self.assumptions,
            "wall_s": round(wall, 2),
            "violations": n_viol,
        }
        evdir = os.path.join(ROOT, "evidence")
        if os.path.abspath(REPO) != "/repo":
            # mutation rehearsal against another tree: never overwrite the evidence of the real tree
            evdir = os.path.join(BUILD, "evidence_alt")
            os.makedirs(evdir, exist_ok=True)
        with open(os.path.join(evdir, self.prop + ".json"), "w") as f:
            json.dump(ev, f, indent=1, default=str)
        for l in lines:
            print(l, flush=True)
        self.log("obligations %d/%d discharged; evaluations=%d distinct_nontrivial=%d; violations=%d known=%d; %.1fs"
                 % (discharged, obligations, self.evaluations, len(self.nontrivial), n_viol, len(self.known_hits), wall))
        return 1 if n_viol else 0


def main(argv):
    if len(argv) < 2:
        print("usage: check <Cnn> [quick|thorough] [--replay file]", file=sys.stderr)
        return 2
    prop = argv[1].upper()
    tier = os.environ.get("VERIF_TIER", "quick")
    replay = None
    rest = argv[2:]
    i = 0
    while i < len(rest):
        a = rest[i]
        if a in ("quick", "thorough"):
            tier = a
        elif a == "--replay":
            replay = rest[i + 1]
            i += 1
        i += 1
    sys.path.insert(0, os.path.join(ROOT, "run"))
    try:
        mod = __import__(prop.lower())
    except ImportError as e:
        print("no check module for %s: %s" % (prop, e), file=sys.stderr)
        return 2
    ctx = Ctx(prop, tier)
    if replay:
        if hasattr(mod, "replay"):
            return mod.replay(ctx, replay) or 0
        print("replay not implemented for", prop, file=sys.stderr)
        return 2
    return mod.main(ctx)


if __name__ == "__main__":
    sys.exit(main(sys.argv))
