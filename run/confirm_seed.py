#!/usr/bin/env python3
"""
confirm_seed — independently confirm a red-team mutation before it is kept under /verif/seeded/:
  (a) patch applies to /repo HEAD and `go build ./...` succeeds,
  (b) the repository's own suite passes with the change,
  (c) the demonstration fails WITH the change and passes WITHOUT it.
usage: run/confirm_seed.py <srcdir with patch.diff, demo_test.go|demo_main.go, meta.json> <seed id, e.g. C10-m1>
Writes /verif/seeded/<id>/{patch.diff, demo*, meta.json(+confirmed)} only if everything is confirmed.
"""
import json, os, shutil, subprocess, sys, glob, time
ROOT = os.path.dirname(os.path.dirname(os.path.abspath(__file__)))
ENV = dict(os.environ, GOFLAGS="-mod=mod", GOPROXY="off")

def run(cmd, cwd, timeout=1800):
    p = subprocess.run(cmd, cwd=cwd, env=ENV, stdout=subprocess.PIPE, stderr=subprocess.STDOUT, text=True, timeout=timeout)
    return p.returncode, p.stdout

def main():
    src, sid = os.path.abspath(sys.argv[1]), sys.argv[2]
    meta = json.load(open(os.path.join(src, "meta.json")))
    wt = "/tmp/confirm-%s-%d" % (sid, os.getpid())
    rc, out = run(["git", "-C", "/repo", "worktree", "add", "-q", "--detach", wt, "HEAD"], "/")
    if rc: print(out); return 2
    res = {"head": subprocess.run(["git", "-C", "/repo", "rev-parse", "--short", "HEAD"], capture_output=True, text=True).stdout.strip()}
    try:
        demos = glob.glob(os.path.join(src, "demo*_test.go")) + glob.glob(os.path.join(src, "demo_test.go"))
        demos = sorted(set(demos))
        race = bool(meta.get("demo_requires_race_detector")) or "race" in json.dumps(meta.get("commands_run", "")).lower() and meta.get("property") == "C16"
        def demo():
            for d in demos:
                shutil.copy(d, os.path.join(wt, "zz_" + os.path.basename(d)))
            cmd = ["go", "test", "-mod=mod", "-vet=off", "-count=1", "-run", "TestZZDemo", "."]
            if race: cmd.insert(2, "-race")
            rc, out = run(cmd, wt)
            for d in demos:
                os.remove(os.path.join(wt, "zz_" + os.path.basename(d)))
            return rc, out
        if not demos:
            print("no demo test found in", src); return 2
        rc, out = run(["git", "apply", "--3way", os.path.join(src, "patch.diff")], wt)
        if rc:
            rc, out = run(["git", "apply", os.path.join(src, "patch.diff")], wt)
        res["applies"] = rc == 0
        if rc: print("APPLY FAIL", out[-500:]); return 3
        run(["git", "reset", "-q"], wt)
        newpatch = subprocess.run(["git", "diff"], cwd=wt, capture_output=True, text=True).stdout
        rc, out = run(["go", "build", "./..."], wt); res["builds"] = rc == 0
        if rc: print("BUILD FAIL", out[-500:]); return 3
        rc, out = run(["go", "test", "-mod=mod", "-vet=off", "-count=1", "./..."], wt); res["suite_passes"] = rc == 0
        if rc: print("SUITE FAIL", out[-800:]); return 3
        rc, out = demo(); res["demo_fails_with"] = rc != 0
        if rc == 0: print("DEMO DOES NOT FAIL WITH CHANGE"); return 3
        res["demo_output_with"] = out[-600:]
        run(["git", "checkout", "-q", "--", "."], wt)
        rc, out = demo(); res["demo_passes_without"] = rc == 0
        if rc: print("DEMO FAILS WITHOUT CHANGE", out[-800:]); return 3
        dst = os.path.join(ROOT, "seeded", sid)
        os.makedirs(dst, exist_ok=True)
        with open(os.path.join(dst, "patch.diff"), "w") as f: f.write(newpatch)
        for d in demos: shutil.copy(d, dst)
        meta["confirmed_by_coordinator"] = res
        meta["confirmed_commands"] = ["git apply patch.diff (worktree of /repo HEAD %s)" % res["head"], "go build ./...", "go test -mod=mod -vet=off -count=1 ./...", ("go test -race" if race else "go test") + " -run TestZZDemo . (with change: FAIL; without: PASS)"]
        json.dump(meta, open(os.path.join(dst, "meta.json"), "w"), indent=1)
        print("CONFIRMED", sid)
        return 0
    finally:
        run(["git", "-C", "/repo", "worktree", "remove", "--force", wt], "/")
        shutil.rmtree(wt, ignore_errors=True)

if __name__ == "__main__":
    sys.exit(main())
