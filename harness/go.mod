module verifharness

go 1.25

require github.com/dop251/goja v0.0.0

replace github.com/dop251/goja => /repo
