// Harness for property C18: drives goja's real orderedMap (map.go) — raw through the verif hooks, and behind
// JS Map, Set and the symbol-property table of an ordinary object — with one case (key pool + op sequence) per
// stdin line, and prints one token "<result>@<dump>" per op.  The Lean model driver (model_c18) speaks the same
// protocol; run/c18.py diffs the two and judges against the spec oracle.  See design/C18.md for the grammar.
package main

import (
	"encoding/hex"
	"fmt"
	"math"
	"math/big"
	"sort"
	"strconv"
	"strings"

	"github.com/dop251/goja"
	"verifharness/common"
)

const prelude = `({
 mset:function(m,k,v){m.set(k,v)}, sadd:function(m,k){m.add(k)}, mget:function(m,k){return m.get(k)},
 has:function(m,k){return m.has(k)}, del:function(m,k){return m.delete(k)}, clear:function(m){m.clear()},
 size:function(m){return m.size},
 oset:function(o,k,v){o[k]=v}, oget:function(o,k){return o[k]},
 ohas:function(o,k){return Object.prototype.hasOwnProperty.call(o,k)},
 odel:function(o,k){var h=Object.prototype.hasOwnProperty.call(o,k); delete o[k]; return h},
 osize:function(o){return Object.getOwnPropertySymbols(o).length},
 entries:function(m){return m.entries()}, keys:function(m){return m.keys()}, values:function(m){return m.values()},
 symit:function(m){return m[Symbol.iterator]()},
 next:function(it){var r=it.next(); return [r.done, r.value]},
 fe:function(m,cb){m.forEach(cb)},
 fo:function(m,cb){for (const x of m) cb(x)},
 arr:function(m){return Array.from(m)}, ks:function(m){return [...m.keys()]}, vs:function(m){return [...m.values()]},
 osyms:function(o){return Object.getOwnPropertySymbols(o)},
 okeys:function(o){return Reflect.ownKeys(o).filter(function(k){return typeof k==='symbol'})},
 assign:function(o){return Object.assign({},o)}, spread:function(o){return {...o}},
 rest:function(o){var {zzz, ...r}=o; return r},
 descs:function(o){var d=Object.getOwnPropertyDescriptors(o), r={}; Object.getOwnPropertySymbols(d).forEach(function(s){r[s]=d[s].value}); return r},
 fa:function(o,cb){Object.assign(new Proxy({}, {set:function(t,k,v){cb(k,v);return true}}), o)}
})`

type slot struct {
	kind byte
	raw  *goja.VerifC18Iter
	js   goja.Value
	done bool
}

type caseSt struct {
	mode      string
	vm        *goja.Runtime
	pool      []goja.Value
	obj       *goja.Object
	h         *goja.VerifC18Map
	fn        map[string]goja.Callable
	ops       []string
	pos       int
	out       []string
	slots     [4]*slot
	coSlot    int
	coActive  bool
	coPending bool
}

func bitsCanon(f float64) string {
	if math.IsNaN(f) {
		return "n:nan"
	}
	return fmt.Sprintf("n:%016x", math.Float64bits(f))
}

func unitsCanon(s goja.String) string {
	var b strings.Builder
	b.WriteString("s:")
	for i := 0; i < s.Length(); i++ {
		fmt.Fprintf(&b, "%04x", s.CharAt(i))
	}
	return b.String()
}

// canon renders a key independently of goja's SameAs/hash: numbers by IEEE bits, strings by code units,
// objects and symbols by pointer identity against the pool.
func (c *caseSt) canon(v goja.Value) string {
	if v == nil {
		return "nil"
	}
	if cls, ok := goja.VerifC18SynClass(v); ok {
		return "c" + strconv.Itoa(cls)
	}
	switch x := v.(type) {
	case *goja.Object:
		for i, p := range c.pool {
			if po, ok := p.(*goja.Object); ok && po == x {
				return "o" + strconv.Itoa(i)
			}
		}
		return "o?"
	case *goja.Symbol:
		for i, p := range c.pool {
			if ps, ok := p.(*goja.Symbol); ok && ps == x {
				return "y" + strconv.Itoa(i)
			}
		}
		return "y?"
	case goja.String:
		return unitsCanon(x)
	}
	if goja.IsUndefined(v) {
		return "u"
	}
	if goja.IsNull(v) {
		return "nl"
	}
	switch e := v.Export().(type) {
	case int64:
		return bitsCanon(float64(e))
	case float64:
		return bitsCanon(e)
	case bool:
		if e {
			return "b:1"
		}
		return "b:0"
	case *big.Int:
		return "g:" + e.String()
	}
	return "?" + fmt.Sprintf("%T", v)
}

func goCanon(x interface{}) string {
	switch e := x.(type) {
	case nil:
		return "nil"
	case int64:
		return bitsCanon(float64(e))
	case float64:
		return bitsCanon(e)
	case bool:
		if e {
			return "b:1"
		}
		return "b:0"
	case string:
		return unitsCanon(goja.StringFromUTF16(utf16Of(e)))
	}
	return "*"
}

func utf16Of(s string) []uint16 {
	var out []uint16
	for _, r := range s {
		if r >= 0x10000 {
			r -= 0x10000
			out = append(out, uint16(0xd800+(r>>10)), uint16(0xdc00+(r&0x3ff)))
		} else {
			out = append(out, uint16(r))
		}
	}
	return out
}

func goVal(x interface{}) string {
	switch e := x.(type) {
	case nil:
		return "-"
	case int64:
		return "v" + strconv.FormatInt(e, 10)
	case float64:
		return "v" + strconv.FormatInt(int64(e), 10)
	}
	return "v?"
}

func vtok(v goja.Value) string {
	if v == nil || goja.IsUndefined(v) {
		return "-"
	}
	return goVal(v.Export())
}

func (c *caseSt) call(name string, args ...goja.Value) goja.Value {
	v, err := c.fn[name](goja.Undefined(), args...)
	if err != nil {
		panic(err)
	}
	return v
}

func boolTok(b bool) string {
	if b {
		return "t"
	}
	return "f"
}

func (c *caseSt) buildKey(i int, rep int, hash uint64, repr string) (goja.Value, error) {
	switch {
	case repr == "syn":
		return goja.VerifC18SynKey(rep, hash), nil
	case repr == "nz":
		return goja.VerifC18NegZero(), nil
	case repr == "pz":
		return goja.VerifC18PosZero(), nil
	case strings.HasPrefix(repr, "js:"):
		src, err := hex.DecodeString(repr[3:])
		if err != nil {
			return nil, err
		}
		return c.vm.RunString("(" + string(src) + ")")
	case strings.HasPrefix(repr, "ref:"):
		j, err := strconv.Atoi(repr[4:])
		if err != nil || j < 0 || j >= i {
			return nil, fmt.Errorf("bad ref")
		}
		return c.pool[j], nil
	case strings.HasPrefix(repr, "go:f64:"):
		b, err := strconv.ParseUint(repr[7:], 16, 64)
		if err != nil {
			return nil, err
		}
		return c.vm.ToValue(math.Float64frombits(b)), nil
	case strings.HasPrefix(repr, "go:i64:"):
		n, err := strconv.ParseInt(repr[7:], 10, 64)
		if err != nil {
			return nil, err
		}
		return c.vm.ToValue(n), nil
	case strings.HasPrefix(repr, "go:str:"):
		b, err := hex.DecodeString(repr[7:])
		if err != nil {
			return nil, err
		}
		return c.vm.ToValue(string(b)), nil
	case strings.HasPrefix(repr, "go:cat:"):
		// JS-level concatenation of two Go strings imported with ToValue (neither scanned yet):
		// importedString.Concat keeps the result as an unscanned importedString.
		parts := strings.SplitN(repr[7:], "+", 2)
		if len(parts) != 2 {
			return nil, fmt.Errorf("bad go:cat")
		}
		a, err := hex.DecodeString(parts[0])
		if err != nil {
			return nil, err
		}
		b, err := hex.DecodeString(parts[1])
		if err != nil {
			return nil, err
		}
		f, err := c.vm.RunString("(function(a,b){return a+b})")
		if err != nil {
			return nil, err
		}
		fn, _ := goja.AssertFunction(f)
		return fn(goja.Undefined(), c.vm.ToValue(string(a)), c.vm.ToValue(string(b)))
	case strings.HasPrefix(repr, "go:u16:"):
		hx := repr[7:]
		if len(hx)%4 != 0 {
			return nil, fmt.Errorf("bad u16")
		}
		var u []uint16
		for k := 0; k < len(hx); k += 4 {
			n, err := strconv.ParseUint(hx[k:k+4], 16, 16)
			if err != nil {
				return nil, err
			}
			u = append(u, uint16(n))
		}
		return goja.StringFromUTF16(u), nil
	}
	return nil, fmt.Errorf("unknown repr %q", repr)
}

func (c *caseSt) dump() string {
	if c.h == nil {
		return "nodump"
	}
	return c.h.Dump(c.canon)
}

func (c *caseSt) emit(res string) {
	d := common.Safe(func() string { return c.dump() })
	c.out = append(c.out, res+"@"+strings.ReplaceAll(d, " ", "_"))
}

func excTok(r interface{}) string {
	if _, ok := r.(*goja.Exception); ok {
		return "exc:js"
	}
	s := strings.Fields(fmt.Sprint(r))
	w := "panic"
	if len(s) > 0 {
		w = "panic-" + strings.Map(func(r rune) rune {
			if r == '@' || r == ' ' {
				return '_'
			}
			return r
		}, strings.Join(s[:min(len(s), 6)], "_"))
	}
	return "exc:" + w
}

// entryTok renders what an iterator of the given kind delivered.
func (c *caseSt) entryTok(kind byte, k, v goja.Value, hasK, hasV bool) string {
	ks, vs := "*", "*"
	if hasK {
		ks = c.canon(k)
	}
	if c.mode == "set" {
		vs = "-"
		if hasV && hasK && c.canon(v) != ks {
			vs = "!" + c.canon(v)
		}
	} else if hasV {
		vs = vtok(v)
	}
	return ks + ":" + vs
}

func (c *caseSt) arrayOf(v goja.Value) []goja.Value {
	o := v.ToObject(c.vm)
	n := int(o.Get("length").ToInteger())
	out := make([]goja.Value, n)
	for i := 0; i < n; i++ {
		out[i] = o.Get(strconv.Itoa(i))
	}
	return out
}

func (c *caseSt) key(s string) goja.Value {
	i, err := strconv.Atoi(s)
	if err != nil || i < 0 || i >= len(c.pool) {
		panic("badkey")
	}
	return c.pool[i]
}

// exec runs one op; emitted = the token(s) for it have already been written (coroutine start).
func (c *caseSt) exec(op string) (res string, emitted bool) {
	defer func() {
		if r := recover(); r != nil {
			res = excTok(r)
		}
	}()
	if op == "" {
		return "err:empty", false
	}
	rest := op[1:]
	js := c.mode != "raw"
	switch op[0] {
	case 's':
		parts := strings.Split(rest, ".")
		if len(parts) != 2 {
			return "err:parse", false
		}
		k := c.key(parts[0])
		vi, err := strconv.ParseInt(parts[1], 10, 64)
		if err != nil {
			return "err:parse", false
		}
		v := c.vm.ToValue(vi)
		switch c.mode {
		case "raw":
			c.h.Set(k, v)
		case "map":
			c.call("mset", c.obj, k, v)
		case "set":
			c.call("sadd", c.obj, k)
		case "sym":
			c.call("oset", c.obj, k, v)
		}
		return "ok", false
	case 'g':
		k := c.key(rest)
		var v goja.Value
		switch c.mode {
		case "raw":
			v = c.h.Get(k)
		case "map":
			v = c.call("mget", c.obj, k)
		case "sym":
			v = c.call("oget", c.obj, k)
		default:
			return "u", false
		}
		if v == nil || goja.IsUndefined(v) {
			return "u", false
		}
		return vtok(v), false
	case 'h':
		k := c.key(rest)
		switch c.mode {
		case "raw":
			return boolTok(c.h.Has(k)), false
		case "sym":
			return boolTok(c.call("ohas", c.obj, k).ToBoolean()), false
		}
		return boolTok(c.call("has", c.obj, k).ToBoolean()), false
	case 'd':
		k := c.key(rest)
		switch c.mode {
		case "raw":
			return boolTok(c.h.Remove(k)), false
		case "sym":
			return boolTok(c.call("odel", c.obj, k).ToBoolean()), false
		}
		return boolTok(c.call("del", c.obj, k).ToBoolean()), false
	case 'c':
		switch c.mode {
		case "raw":
			c.h.Clear()
		case "sym":
			return "err:unsupported", false
		default:
			c.call("clear", c.obj)
		}
		return "ok", false
	case 'z':
		switch c.mode {
		case "raw":
			return "n" + strconv.Itoa(c.h.Size()), false
		case "sym":
			return "n" + strconv.FormatInt(c.call("osize", c.obj).ToInteger(), 10), false
		}
		return "n" + strconv.FormatInt(c.call("size", c.obj).ToInteger(), 10), false
	case 'i':
		if len(rest) != 2 || rest[0] < '0' || rest[0] > '3' {
			return "err:parse", false
		}
		j := int(rest[0] - '0')
		kind := rest[1]
		s := &slot{kind: kind}
		switch kind {
		case 'r':
			if c.h == nil {
				return "err:nohandle", false
			}
			s.raw = c.h.NewIter()
		case 'e', 'k', 'v', 'y':
			if !js || c.mode == "sym" {
				return "err:unsupported", false
			}
			name := map[byte]string{'e': "entries", 'k': "keys", 'v': "values", 'y': "symit"}[kind]
			s.js = c.call(name, c.obj)
		case 'f', 'o', 'a':
			if !js || (c.mode == "sym") != (kind == 'a') {
				return "err:unsupported", false
			}
			if c.coSlot >= 0 {
				return "err:nested", false
			}
			c.coSlot = j
		default:
			return "err:kind", false
		}
		c.slots[j] = s
		return "ok", false
	case 'n':
		j, err := strconv.Atoi(rest)
		if err != nil || j < 0 || j > 3 {
			return "err:parse", false
		}
		s := c.slots[j]
		if s == nil {
			return "err:noiter", false
		}
		if s.done {
			return "done", false
		}
		switch s.kind {
		case 'r':
			k, v, ok := s.raw.Next()
			if !ok {
				s.done = true
				return "done", false
			}
			if c.mode == "set" {
				return c.canon(k) + ":-", false
			}
			return c.canon(k) + ":" + vtok(v), false
		case 'e', 'k', 'v', 'y':
			r := c.arrayOf(c.call("next", s.js))
			if r[0].ToBoolean() {
				s.done = true
				return "done", false
			}
			val := r[1]
			pair := s.kind == 'e' || (s.kind == 'y' && c.mode == "map")
			if pair {
				kv := c.arrayOf(val)
				return c.entryTok(s.kind, kv[0], kv[1], true, true), false
			}
			if s.kind == 'v' && c.mode == "map" {
				return c.entryTok(s.kind, nil, val, false, true), false
			}
			return c.entryTok(s.kind, val, nil, true, false), false
		case 'f', 'o', 'a':
			if c.coActive {
				// only reachable if the generator interleaves wrongly; run() intercepts n<coSlot> inside the callback
				return "err:reentrant", false
			}
			c.startCoroutine(s)
			return "", true
		}
		return "err:kind", false
	case 'x':
		j, err := strconv.Atoi(rest)
		if err != nil || j < 0 || j > 3 {
			return "err:parse", false
		}
		s := c.slots[j]
		if s == nil {
			return "err:noiter", false
		}
		if s.kind != 'r' {
			return "err:notraw", false
		}
		s.raw.Close()
		s.done = true
		return "ok", false
	case 'e':
		return c.listAll(rest), false
	}
	return "err:op", false
}

func (c *caseSt) listAll(variant string) string {
	var items []string
	switch variant {
	case "R":
		if c.h == nil {
			return "err:nohandle"
		}
		it := c.h.NewIter()
		for n := 0; n < 100000; n++ {
			k, v, ok := it.Next()
			if !ok {
				break
			}
			if c.mode == "set" {
				items = append(items, c.canon(k)+":-")
			} else {
				items = append(items, c.canon(k)+":"+vtok(v))
			}
		}
	case "A", "K":
		switch c.mode {
		case "map":
			if variant == "A" {
				for _, e := range c.arrayOf(c.call("arr", c.obj)) {
					kv := c.arrayOf(e)
					items = append(items, c.canon(kv[0])+":"+vtok(kv[1]))
				}
			} else {
				ks := c.arrayOf(c.call("ks", c.obj))
				vs := c.arrayOf(c.call("vs", c.obj))
				if len(ks) != len(vs) {
					return "err:kvlen"
				}
				for i := range ks {
					items = append(items, c.canon(ks[i])+":"+vtok(vs[i]))
				}
			}
		case "set":
			name := "arr"
			if variant == "K" {
				name = "vs"
			}
			for _, e := range c.arrayOf(c.call(name, c.obj)) {
				items = append(items, c.canon(e)+":-")
			}
		case "sym":
			name := "osyms"
			if variant == "K" {
				name = "okeys"
			}
			for _, e := range c.arrayOf(c.call(name, c.obj)) {
				items = append(items, c.canon(e)+":"+vtok(c.call("oget", c.obj, e)))
			}
		default:
			return "err:unsupported"
		}
	case "O", "P", "T", "D":
		// symbol table copied by Object.assign / object spread / rest destructuring / getOwnPropertyDescriptors
		if c.mode != "sym" {
			return "err:unsupported"
		}
		name := map[string]string{"O": "assign", "P": "spread", "T": "rest", "D": "descs"}[variant]
		cp := c.call(name, c.obj)
		for _, e := range c.arrayOf(c.call("osyms", cp)) {
			items = append(items, c.canon(e)+":"+vtok(c.call("oget", cp, e)))
		}
	case "M":
		// Go-side ExportTo into a Go map (mapObject.exportToMap / setObject.exportToMap); order is lost: sorted
		switch c.mode {
		case "map":
			var m map[interface{}]interface{}
			if err := c.vm.ExportTo(c.obj, &m); err != nil {
				return "exc:exportto"
			}
			for k, v := range m {
				items = append(items, goCanon(k)+":"+goVal(v))
			}
		case "set":
			var m map[interface{}]bool
			if err := c.vm.ExportTo(c.obj, &m); err != nil {
				return "exc:exportto"
			}
			for k := range m {
				items = append(items, goCanon(k)+":-")
			}
		default:
			return "err:unsupported"
		}
		sort.Strings(items)
		return "{" + strings.Join(items, "|") + "}"
	case "F", "W":
		// Go-side ExportTo into TYPED containers: F = float64 keys ([]float64 / map[float64]int64),
		// W = string keys ([]string / map[string]int64).  Only meaningful when every live key has that type.
		switch {
		case c.mode == "set" && variant == "F":
			var sl []float64
			if err := c.vm.ExportTo(c.obj, &sl); err != nil {
				return "exc:exportto"
			}
			for _, e := range sl {
				items = append(items, goCanon(e)+":-")
			}
		case c.mode == "set" && variant == "W":
			var sl []string
			if err := c.vm.ExportTo(c.obj, &sl); err != nil {
				return "exc:exportto"
			}
			for _, e := range sl {
				items = append(items, goCanon(e)+":-")
			}
		case c.mode == "map" && variant == "F":
			var m map[float64]int64
			if err := c.vm.ExportTo(c.obj, &m); err != nil {
				return "exc:exportto"
			}
			for k, v := range m {
				items = append(items, goCanon(k)+":"+goVal(v))
			}
			sort.Strings(items)
			return "{" + strings.Join(items, "|") + "}"
		case c.mode == "map" && variant == "W":
			var m map[string]int64
			if err := c.vm.ExportTo(c.obj, &m); err != nil {
				return "exc:exportto"
			}
			for k, v := range m {
				items = append(items, goCanon(k)+":"+goVal(v))
			}
			sort.Strings(items)
			return "{" + strings.Join(items, "|") + "}"
		default:
			return "err:unsupported"
		}
	case "S":
		// Go-side ExportTo into a slice (setObject.exportToArrayOrSlice), and into an array of the right length
		if c.mode != "set" {
			return "err:unsupported"
		}
		var sl []interface{}
		if err := c.vm.ExportTo(c.obj, &sl); err != nil {
			return "exc:exportto"
		}
		for _, e := range sl {
			items = append(items, goCanon(e)+":-")
		}
		var arr [3]interface{}
		err := c.vm.ExportTo(c.obj, &arr)
		if (err == nil) != (len(sl) == 3) {
			return "err:arraylen"
		}
		if err == nil {
			for i := range arr {
				if goCanon(arr[i]) != goCanon(sl[i]) {
					return "err:arrayelem"
				}
			}
		}
	case "G":
		switch c.mode {
		case "map":
			ex, ok := c.obj.Export().([][2]interface{})
			if !ok {
				return "err:exporttype"
			}
			for _, e := range ex {
				items = append(items, goCanon(e[0])+":"+goVal(e[1]))
			}
		case "set":
			ex, ok := c.obj.Export().([]interface{})
			if !ok {
				return "err:exporttype"
			}
			for _, e := range ex {
				items = append(items, goCanon(e)+":-")
			}
		default:
			return "err:unsupported"
		}
	default:
		return "err:variant"
	}
	return "[" + strings.Join(items, "|") + "]"
}

// startCoroutine runs forEach / for-of with a callback that keeps interpreting the op list from inside
// the callback until the next n<coSlot>, so that mutations and other iterators interleave with it.
func (c *caseSt) startCoroutine(s *slot) {
	c.coActive = true
	c.coPending = true
	deliver := func(k, v goja.Value, hasV bool) {
		if !c.coPending {
			return // the line ended inside an earlier callback: drain
		}
		c.coPending = false
		c.emit(c.entryTok(s.kind, k, v, true, hasV))
		c.run(true)
	}
	var cb func(call goja.FunctionCall) goja.Value
	if s.kind == 'f' {
		cb = func(call goja.FunctionCall) goja.Value {
			deliver(call.Argument(1), call.Argument(0), true)
			return goja.Undefined()
		}
	} else if s.kind == 'a' {
		cb = func(call goja.FunctionCall) goja.Value {
			deliver(call.Argument(0), call.Argument(1), true)
			return goja.Undefined()
		}
	} else {
		cb = func(call goja.FunctionCall) goja.Value {
			x := call.Argument(0)
			if c.mode == "map" {
				kv := c.arrayOf(x)
				deliver(kv[0], kv[1], true)
			} else {
				deliver(x, nil, false)
			}
			return goja.Undefined()
		}
	}
	name := "fe"
	if s.kind == 'o' {
		name = "fo"
	} else if s.kind == 'a' {
		name = "fa"
	}
	res := common.Safe(func() string {
		c.call(name, c.obj, c.vm.ToValue(cb))
		return ""
	})
	c.coActive = false
	s.done = true
	if c.coPending {
		c.coPending = false
		if res != "" {
			c.emit("exc:coroutine")
		} else {
			c.emit("done")
		}
	}
}

func (c *caseSt) run(inCo bool) {
	for c.pos < len(c.ops) {
		op := c.ops[c.pos]
		c.pos++
		if inCo && c.coSlot >= 0 && op == "n"+strconv.Itoa(c.coSlot) {
			c.coPending = true
			return
		}
		res, emitted := c.exec(op)
		if !emitted {
			c.emit(res)
		}
	}
}

func runCase(line string) string {
	f := strings.Fields(line)
	if len(f) >= 1 && f[0] == "ping" {
		return "pong"
	}
	if len(f) < 2 {
		return "ERR malformed"
	}
	c := &caseSt{mode: f[0], ops: f[2:], coSlot: -1}
	switch c.mode {
	case "raw", "map", "set", "sym":
	default:
		return "ERR mode"
	}
	c.vm = goja.New()
	pv, err := c.vm.RunString(prelude)
	if err != nil {
		return "ERR prelude " + common.OneLine(err.Error())
	}
	po := pv.ToObject(c.vm)
	c.fn = map[string]goja.Callable{}
	for _, k := range po.Keys() {
		fn, ok := goja.AssertFunction(po.Get(k))
		if !ok {
			return "ERR prelude fn"
		}
		c.fn[k] = fn
	}
	for i, el := range strings.Split(f[1], ",") {
		p := strings.SplitN(el, "/", 3)
		if len(p) != 3 {
			return "ERR pool"
		}
		rep, e1 := strconv.Atoi(p[0])
		h, e2 := strconv.ParseUint(p[1], 10, 64)
		if e1 != nil || e2 != nil {
			return "ERR pool numbers"
		}
		var v goja.Value
		var berr error
		msg := common.Safe(func() string {
			v, berr = c.buildKey(i, rep, h, p[2])
			return ""
		})
		if msg != "" || berr != nil || v == nil {
			return "ERR poolkey " + strconv.Itoa(i) + " " + common.OneLine(fmt.Sprint(msg, berr))
		}
		c.pool = append(c.pool, v)
	}
	switch c.mode {
	case "raw":
		c.h = goja.VerifC18NewRaw()
	case "map", "set", "sym":
		src := map[string]string{"map": "new Map()", "set": "new Set()", "sym": "({})"}[c.mode]
		v, err := c.vm.RunString(src)
		if err != nil {
			return "ERR create"
		}
		c.obj = v.ToObject(c.vm)
		c.h = goja.VerifC18OfObject(c.obj)
	}
	c.run(false)
	return strings.Join(c.out, " ")
}

func main() {
	common.Loop(runCase)
}
