// Harness for property C15 (interrupts).  Two kinds of input lines:
//
//	case <api> <k> <v> <mode> <pre> <w> | <program>
//	    api   run|call|try|errstr   (errstr: RunString throws an object whose toString() is the program; the host then
//	                          calls err.Error() while idle)
//	    api   run|call|try    outermost API call: RunString(program), Callable(main), or Runtime.Try around a Go-side
//	                          property read whose getter is the program (Try does not drain the job queue)
//	    k     0..             the k-th probe() calls Interrupt(v) (0 = never)
//	    mode  self|self2|other   Interrupt called on the runner goroutine (self2: twice, the last value must win),
//	                          or by a 2nd goroutine the probe waits for
//	    pre   none|intr|intrclear   before the call, while idle: Interrupt(w) / Interrupt(w);ClearInterrupt()
//	    program = block in the prefix syntax of lean/GojaModel/C15/Model.lean (L n, P, T, W, Y, N, Q, A, F);
//	    N kinds 13..18: host functions that re-panic / return the nested call's error WRAPPED (%w, errors.Join, nested)
//	  answer: res=<ok|exc|intr:V> log=<events> st=<flag>/<jobs>/<call>/<try>/<asyncRunner> after=<..> log2=<..> st2=<..>
//
//	soak <seed> <rounds> <maxDelayMicros>
//	    a 2nd goroutine interrupts running scripts at random delays (built with -race in the thorough tier);
//	  answer: soak bad=<n> rounds=<n> maxextra=<n> kinds=<...> [first failure]
package main

import (
	"errors"
	"fmt"
	"io"
	"os"
	"sort"
	"strconv"
	"strings"
	"sync"
	"sync/atomic"
	"time"

	"github.com/dop251/goja"
	"verifharness/common"
)

// ---------------------------------------------------------------- abstract programs

type stmt struct {
	op         byte // L P T W Y N Q F
	n, a, b    int
	b1, b2, b3 []stmt
}

type parser struct {
	toks []string
	pos  int
}

func (p *parser) next() string {
	if p.pos >= len(p.toks) {
		panic("parse: unexpected end")
	}
	t := p.toks[p.pos]
	p.pos++
	return t
}

func (p *parser) num() int {
	n, err := strconv.Atoi(p.next())
	if err != nil || n < 0 {
		panic("parse: bad number")
	}
	return n
}

func (p *parser) block() []stmt {
	if p.next() != "(" {
		panic("parse: expected (")
	}
	out := []stmt{}
	for {
		if p.pos < len(p.toks) && p.toks[p.pos] == ")" {
			p.pos++
			return out
		}
		out = append(out, p.stmt())
	}
}

func (p *parser) stmt() stmt {
	switch t := p.next(); t {
	case "L":
		return stmt{op: 'L', n: p.num()}
	case "P":
		return stmt{op: 'P'}
	case "T":
		return stmt{op: 'T'}
	case "W":
		n := p.num()
		return stmt{op: 'W', n: n, b1: p.block()}
	case "Y":
		c, f := p.num(), p.num()
		return stmt{op: 'Y', a: c, b: f, b1: p.block(), b2: p.block(), b3: p.block()}
	case "N":
		k, r := p.num(), p.num()
		return stmt{op: 'N', a: k, n: r, b1: p.block()}
	case "Q":
		return stmt{op: 'Q', b1: p.block()}
	case "H":
		return stmt{op: 'H', b1: p.block()}
	case "A":
		return stmt{op: 'A', b1: p.block(), b2: p.block()}
	case "B":
		return stmt{op: 'B', b1: p.block(), b2: p.block(), b3: p.block()}
	case "F":
		n, brk := p.num(), p.num()
		return stmt{op: 'F', n: n, a: brk, b1: p.block(), b2: p.block(), b3: p.block()}
	default:
		panic("parse: unknown token " + t)
	}
}

// ---------------------------------------------------------------- rendering to JavaScript

type renderer struct {
	uniq   int
	nested []string // sources of nested RunString bodies, by id
}

const nKinds = 21

func (r *renderer) block(ss []stmt) string {
	var b strings.Builder
	for _, s := range ss {
		b.WriteString(r.stmt(s))
	}
	return b.String()
}

func (r *renderer) stmt(s stmt) string {
	switch s.op {
	case 'L':
		return fmt.Sprintf("ev(%d);", s.n)
	case 'P':
		return "probe();"
	case 'T':
		return "throw new Error('t');"
	case 'W':
		r.uniq++
		v := fmt.Sprintf("i%d", r.uniq)
		return fmt.Sprintf("for(let %s=0;%s<%d;%s++){%s}", v, v, s.n, v, r.block(s.b1))
	case 'Y':
		out := "try{" + r.block(s.b1) + "}"
		if s.a != 0 {
			out += "catch(e){" + r.block(s.b2) + "}"
		}
		if s.b != 0 || s.a == 0 {
			out += "finally{" + r.block(s.b3) + "}"
		}
		return out
	case 'Q':
		return "Promise.resolve().then(function(){" + r.block(s.b1) + "});"
	case 'H': // a job made by a thenable (newPromiseResolveThenableJob): the user's then() is the job body
		return "Promise.resolve({then(zzr){" + r.block(s.b1) + "zzr()}});"
	case 'A':
		return "(async function(){" + r.block(s.b1) + "await 1;" + r.block(s.b2) + "})();"
	case 'B': // async chain of depth 2: the outer async function awaits the inner one's promise
		return "(async function zzOuter(){await (async function zzInner(){" + r.block(s.b1) + "await 1;" + r.block(s.b2) + "})();" + r.block(s.b3) + "})();"
	case 'F':
		r.uniq++
		v := fmt.Sprintf("j%d", r.uniq)
		brk := ""
		if s.a != 0 {
			brk = "break;"
		}
		return fmt.Sprintf("for(const x of {[Symbol.iterator](){let %s=0;return{next(){%sreturn %s++<%d?{value:1,done:false}:{value:undefined,done:true}},return(){%sreturn {}}}}}){%s%s}",
			v, r.block(s.b1), v, s.n, r.block(s.b3), r.block(s.b2), brk)
	case 'N':
		body := r.block(s.b1)
		switch s.a % nKinds {
		case 0: // accessor getter
			return "({get x(){" + body + "}}).x;"
		case 1: // Array.prototype.forEach callback, reps calls
			return fmt.Sprintf("new Array(%d).fill(0).forEach(function(){%s});", s.n, body)
		case 2: // sort comparator on two elements (reps must be 1)
			return "[2,1].sort(function(a,b){" + body + "return a-b});"
		case 3: // generator body
			return "(function*(){" + body + "})().next();"
		case 4, 6: // nested RunString from a Go function; 4 re-panics the error, 6 ignores it
			id := len(r.nested)
			r.nested = append(r.nested, "") // reserve (body may nest further)
			r.nested[id] = body
			return fmt.Sprintf("nestedRun(%d,%d);", id, (s.a%nKinds)/6)
		case 5: // Go function calling a JS function through a Callable, re-panics the error
			return "callGo(function(){" + body + "},0);"
		case 7: // same, ignores the error
			return "callGo(function(){" + body + "},1);"
		case 8: // ToPrimitive
			return "String({toString(){" + body + "return ''}});"
		case 9: // proxy trap
			return "new Proxy({}, {get(){" + body + "}}).x;"
		case 10: // class constructor
			return "new (class{constructor(){" + body + "}})();"
		case 11:
			return "Reflect.apply(function(){" + body + "},undefined,[]);"
		case 12:
			return "JSON.stringify({toJSON(){" + body + "}});"
		case 13: // Go function calling a JS function; re-panics the error wrapped with %w
			return "callGo(function(){" + body + "},2);"
		case 14: // … wrapped with errors.Join
			return "callGo(function(){" + body + "},3);"
		case 15, 16: // nested RunString; the error re-panicked wrapped with %w (15) / errors.Join (16)
			id := len(r.nested)
			r.nested = append(r.nested, "")
			r.nested[id] = body
			return fmt.Sprintf("nestedRun(%d,%d);", id, s.a%nKinds-13)
		case 17: // reflection-wrapped host function RETURNING the wrapped error (func(goja.Callable) error)
			return "invoke(function(){" + body + "});"
		case 18: // doubly wrapped: %w around errors.Join around %w
			return "callGo(function(){" + body + "},4);"
		case 19, 20: // Go function formats the *Exception a callback threw: err.Error() (19) / ex.String() (20); the thrown
			// object's toString() is script (the body).  Exception.valueString swallows an uncatchable raised in there.
			return fmt.Sprintf("errStr(function(){throw {toString(){%sreturn 'boom'}}},%d);", body, s.a%nKinds-19)
		}
	}
	panic("render: bad stmt")
}

// ---------------------------------------------------------------- one deterministic case

type env struct {
	rt      *goja.Runtime
	log     []string
	probes  int
	k       int
	v       int
	other   bool
	twice   bool
	nested  []string
	reqCh   chan int
	doneCh  chan struct{}
	started bool
}

// wrapErr applies the error-handling style of a host function to the error of a nested call:
// 0 pass through, 1 swallow (caller ignores), 2 %w, 3 errors.Join, 4 %w(errors.Join(%w)).
func wrapErr(mode int, err error) error {
	if _, isJS := err.(*goja.Exception); isJS {
		return err // a script exception is re-thrown as it is; only host-level failures get annotated
	}
	switch mode {
	case 2:
		return fmt.Errorf("host function: nested call failed: %w", err)
	case 3:
		return errors.Join(errors.New("host function: cleanup also failed"), err)
	case 4:
		return fmt.Errorf("outer: %w", errors.Join(errors.New("side"), fmt.Errorf("inner: %w", err)))
	}
	return err
}

// asyncBit: 1 iff the idle VM still points at an async runner (vm.curAsyncRunner != nil)
func asyncBit(rt *goja.Runtime) int {
	if goja.VerifC15AsyncIdle(rt) {
		return 0
	}
	return 1
}

func classify(err error) string {
	if err == nil {
		return "ok"
	}
	var ie *goja.InterruptedError
	if errors.As(err, &ie) {
		return fmt.Sprintf("intr:%v", ie.Value())
	}
	var ex *goja.Exception
	if errors.As(err, &ex) {
		return "exc"
	}
	return "err:" + common.OneLine(err.Error())
}

func (e *env) state() string {
	f, j, c, t := goja.VerifC15State(e.rt)
	return fmt.Sprintf("%d/%d/%d/%d/%d", f, j, c, t, asyncBit(e.rt))
}

func (e *env) takeLog() string {
	s := strings.Join(e.log, ",")
	e.log = nil
	return s
}

func (e *env) install() {
	rt := e.rt
	rt.Set("ev", func(call goja.FunctionCall) goja.Value {
		e.log = append(e.log, strconv.Itoa(int(call.Argument(0).ToInteger())))
		return goja.Undefined()
	})
	rt.Set("probe", func(call goja.FunctionCall) goja.Value {
		e.probes++
		e.log = append(e.log, "P")
		if e.k != 0 && e.probes == e.k {
			if e.other {
				if !e.started {
					e.started = true
					go func() {
						for v := range e.reqCh {
							rt.Interrupt(v)
							e.doneCh <- struct{}{}
						}
					}()
				}
				e.reqCh <- e.v
				<-e.doneCh
			} else {
				if e.twice {
					rt.Interrupt(e.v + 1000) // overwritten: the error must carry the LAST value
				}
				rt.Interrupt(e.v)
			}
		}
		return goja.Undefined()
	})
	rt.Set("nestedRun", func(call goja.FunctionCall) goja.Value {
		id := int(call.Argument(0).ToInteger())
		mode := int(call.Argument(1).ToInteger())
		_, err := rt.RunString(e.nested[id])
		if err != nil && mode != 1 {
			panic(wrapErr(mode, err))
		}
		return goja.Undefined()
	})
	rt.Set("callGo", func(call goja.FunctionCall) goja.Value {
		f, ok := goja.AssertFunction(call.Argument(0))
		if !ok {
			panic("callGo: not a function")
		}
		mode := int(call.Argument(1).ToInteger())
		_, err := f(goja.Undefined())
		if err != nil && mode != 1 {
			panic(wrapErr(mode, err))
		}
		return goja.Undefined()
	})
	rt.Set("errStr", func(call goja.FunctionCall) goja.Value {
		f, ok := goja.AssertFunction(call.Argument(0))
		if !ok {
			panic("errStr: not a function")
		}
		if _, err := f(goja.Undefined()); err != nil {
			if ex, isEx := err.(*goja.Exception); isEx && call.Argument(1).ToInteger() != 0 {
				_ = ex.String()
			} else {
				_ = err.Error() // e.g. logging the failure of a callback
			}
		}
		return goja.Undefined()
	})
	// reflection-wrapped host function that RETURNS the annotated error (goja re-panics it)
	rt.Set("invoke", func(fn goja.Callable) error {
		if _, err := fn(nil); err != nil {
			return fmt.Errorf("callback failed: %w", err)
		}
		return nil
	})
}

// postCheck: after everything else, the runtime must be indistinguishable from a fresh one as far as stack traces go
// (no phantom frames of an aborted run) and the VM must not point at an async runner.
const traceSrc = `function zzPlain(){ return new Error("x").stack }
async function zzAsync(){ return new Error("y").stack }
var zzS1 = zzPlain(); var zzS2 = ""; zzAsync().then(function(s){ zzS2 = s });
var zzS3 = zzCap();
(async function zzA2(){ await 1; zzS4 = zzPlain() + "|" + zzCap() })(); var zzS4 = "";`

func traceOf(rt *goja.Runtime) string {
	rt.Set("zzCap", func(goja.FunctionCall) goja.Value {
		var b strings.Builder
		for _, fr := range rt.CaptureCallStack(0, nil) {
			b.WriteString(fr.FuncName())
			b.WriteString("@")
			b.WriteString(fr.Position().String())
			b.WriteString(";")
		}
		return rt.ToValue(b.String())
	})
	if _, err := rt.RunString(traceSrc); err != nil {
		return "ERR " + common.OneLine(err.Error())
	}
	out := ""
	for _, n := range []string{"zzS1", "zzS2", "zzS3", "zzS4"} {
		out += n + "=" + common.OneLine(rt.Get(n).String()) + "\n"
	}
	return out
}

var freshTrace string

func postCheck(rt *goja.Runtime) string {
	if freshTrace == "" {
		freshTrace = traceOf(goja.New())
	}
	stale := !goja.VerifC15AsyncIdle(rt) // white box
	t := traceOf(rt)                      // black box: new Error().stack (plain, async, after await) and CaptureCallStack
	stale = stale || !goja.VerifC15AsyncIdle(rt)
	switch {
	case t != freshTrace && stale:
		return "stale-async-runner+phantom-stack-frames:" + strings.Join(strings.Fields(common.OneLine(t)), "_")
	case t != freshTrace:
		return "phantom-stack-frames:" + strings.Join(strings.Fields(common.OneLine(t)), "_")
	case stale:
		return "stale-async-runner"
	}
	return "ok"
}

func runCase(f []string, prog string) string {
	if len(f) != 6 {
		return "ERR bad case header"
	}
	api, mode, pre := f[0], f[3], f[4]
	k, _ := strconv.Atoi(f[1])
	v, _ := strconv.Atoi(f[2])
	w, _ := strconv.Atoi(f[5])
	p := &parser{toks: strings.Fields(prog)}
	ast := p.block()
	if p.pos != len(p.toks) {
		return "ERR trailing tokens"
	}
	r := &renderer{}
	src := r.block(ast)
	e := &env{rt: goja.New(), k: k, v: v, other: mode == "other", twice: mode == "self2", nested: r.nested,
		reqCh: make(chan int), doneCh: make(chan struct{})}
	defer close(e.reqCh)
	e.install()
	var callable goja.Callable
	if api == "call" {
		if _, err := e.rt.RunString("function main(){" + src + "}"); err != nil {
			return "ERR setup: " + common.OneLine(err.Error())
		}
		callable, _ = goja.AssertFunction(e.rt.Get("main"))
	}
	var tryObj *goja.Object
	if api == "try" {
		if _, err := e.rt.RunString("var tryObj={get x(){" + src + "}}"); err != nil {
			return "ERR setup: " + common.OneLine(err.Error())
		}
		tryObj = e.rt.Get("tryObj").ToObject(e.rt)
	}
	switch pre {
	case "intr":
		e.rt.Interrupt(w)
	case "intrclear":
		e.rt.Interrupt(w)
		e.rt.ClearInterrupt()
	}
	var err error
	resOverride := ""
	switch api {
	case "errstr":
		// depth 0: the host formats the exception the call returned; the thrown object's toString() is the program
		_, err = e.rt.RunString("throw {toString(){" + src + "return 'boom'}}")
		if ex, isEx := err.(*goja.Exception); isEx {
			if strings.HasPrefix(ex.Error(), "boom") {
				resOverride = "errstr:boom"
			} else {
				resOverride = "errstr:placeholder"
			}
		}
	case "call":
		_, err = callable(goja.Undefined())
	case "try":
		err = func() (err error) {
			defer func() {
				if x := recover(); x != nil { // Runtime.Try re-panics uncatchable errors
					if xe, ok := x.(error); ok {
						err = xe
					} else {
						panic(x)
					}
				}
			}()
			if ex := e.rt.Try(func() { tryObj.Get("x") }); ex != nil {
				return ex
			}
			return nil
		}()
	default:
		_, err = e.rt.RunString(src)
	}
	res := classify(err)
	if resOverride != "" {
		res = resOverride
	}
	log1 := e.takeLog()
	st1 := e.state()
	// reusability / dropped queue: a follow-up call on the same runtime
	e.k = 0
	_, err2 := e.rt.RunString("ev(999)")
	after, log2, st2 := classify(err2), e.takeLog(), e.state()
	return fmt.Sprintf("res=%s log=%s st=%s after=%s log2=%s st2=%s post=%s", res, log1, st1, after, log2, st2, postCheck(e.rt))
}

// ---------------------------------------------------------------- asynchronous soak

var soakScripts = []struct{ name, src string }{
	{"loop", "for(;;){tick()}"},
	{"tryfinally", "for(;;){try{tick()}catch(e){bad()}finally{tick()}}"},
	{"nestedfinally", "try{try{for(;;){tick()}}finally{bad()}}catch(e){bad()}finally{bad()}"},
	{"foreach", "var a=new Array(50).fill(0);for(;;){a.forEach(function(){try{tick()}finally{tick()}})}"},
	{"getter", "var o={get x(){tick();return 1}};for(;;){o.x}"},
	{"generator", "function* g(){for(;;){try{tick();yield 1}finally{tick()}}};for(const x of g()){tick()}"},
	{"iterator", "var it={[Symbol.iterator](){return{next(){tick();return{value:1,done:false}},return(){bad();return{}}}}};for(const x of it){tick()}"},
	{"iterator-native-return", "var it={[Symbol.iterator](){return{next(){tick();return{value:1,done:false}},return:bad}}};for(const x of it){tick()}"},
	{"sort", "var a=[];for(var i=0;i<200;i++)a.push(i%7);for(;;){a.sort(function(x,y){tick();return x-y})}"},
	{"job", "Promise.resolve().then(function(){for(;;){tick()}});Promise.resolve().then(function(){bad()})"},
	{"jobchain", "function f(){tick();Promise.resolve().then(f)};f()"},
	{"nested", "for(;;){nestedLoop()}"},
	{"callgo", "for(;;){callGoTick(function(){try{tick()}finally{tick()}})}"},
	{"async", "async function f(){for(;;){try{tick();await 1}finally{tick()}}};f();"},
	{"asyncchain", "async function inner(){for(;;){tick();await 1}};async function outer(){try{await inner()}finally{bad()}};outer()"},
	{"asyncchain3", "async function a(){for(;;){await 1;tick()}};async function b(){await a();bad()};async function c(){try{await b()}catch(e){bad()}};c()"},
	{"emptyloop", "for(;;){}"},
	{"catchloop", "for(;;){try{tick();throw 1}catch(e){tick()}}"},
}

func soak(f []string) string {
	if len(f) != 3 {
		return "ERR bad soak header"
	}
	seed, _ := strconv.ParseUint(f[0], 10, 64)
	rounds, _ := strconv.Atoi(f[1])
	maxDelay, _ := strconv.Atoi(f[2])
	rng := &common.SplitMix64{S: seed}
	bad, maxExtra := 0, int64(0)
	first := ""
	kinds := map[string]int{}
	extraHist := map[int64]int{}
	fails := map[string]int{}
	roundBad := false
	forceNew := false
	curKind := ""
	fail := func(symptom, msg string) {
		bad++
		roundBad = true
		fails[curKind+"/"+symptom]++
		if first == "" {
			first = msg
		}
	}
	var rt *goja.Runtime
	var ticks, bads int64
	newRT := func() {
		rt = goja.New()
		rt.Set("tick", func(goja.FunctionCall) goja.Value { atomic.AddInt64(&ticks, 1); return goja.Undefined() })
		rt.Set("bad", func(goja.FunctionCall) goja.Value { atomic.AddInt64(&bads, 1); return goja.Undefined() })
		rt.Set("nestedLoop", func(goja.FunctionCall) goja.Value {
			_, err := rt.RunString("for(var i=0;i<50;i++){try{tick()}finally{tick()}}")
			if err != nil {
				panic(err)
			}
			return goja.Undefined()
		})
		rt.Set("callGoTick", func(call goja.FunctionCall) goja.Value {
			fn, _ := goja.AssertFunction(call.Argument(0))
			if _, err := fn(goja.Undefined()); err != nil {
				panic(err)
			}
			return goja.Undefined()
		})
	}
	newRT()
	if os.Getenv("C15_PROFILE") == "1" {
		if err := goja.StartProfile(io.Discard); err != nil {
			return "ERR " + err.Error()
		}
		defer goja.StopProfile()
	}
	for i := 0; i < rounds; i++ {
		if rng.Intn(4) == 0 || roundBad || forceNew {
			newRT() // otherwise re-use the runtime that was interrupted in the previous round (C03 link)
		}
		roundBad = false
		forceNew = false
		sc := soakScripts[rng.Intn(len(soakScripts))]
		curKind = sc.name
		variant := rng.Intn(10) // 0: interrupt while idle; 1: idle interrupt then clear; else async
		v := int64(1000 + i)
		atomic.StoreInt64(&ticks, 0)
		atomic.StoreInt64(&bads, 0)
		switch {
		case variant == 0:
			kinds["idle"]++
			var wg sync.WaitGroup
			wg.Add(1)
			go func() { defer wg.Done(); rt.Interrupt(v) }()
			wg.Wait()
			_, err := rt.RunString(sc.src)
			if got := classify(err); got != fmt.Sprintf("intr:%d", v) {
				fail("result", fmt.Sprintf("round %d idle %s: got %s", i, sc.name, got))
			}
			if t := atomic.LoadInt64(&ticks); t != 0 {
				fail("extra", fmt.Sprintf("round %d idle %s: %d ticks ran", i, sc.name, t))
			}
		default:
			if variant == 1 {
				kinds["idle-clear"]++
				var wg sync.WaitGroup
				wg.Add(1)
				go func() { defer wg.Done(); rt.Interrupt(int64(-1)) }()
				wg.Wait()
				rt.ClearInterrupt()
			}
			kinds[sc.name]++
			delay := time.Duration(rng.Intn(maxDelay+1)) * time.Microsecond
			var atIntr int64
			done := make(chan struct{})
			go func() {
				time.Sleep(delay)
				rt.Interrupt(v)
				atIntr = atomic.LoadInt64(&ticks) // Interrupt has returned: the store is visible
				close(done)
			}()
			// a call that does not come back although Interrupt has returned is the symptom `hang` (30 s is four orders
			// of magnitude above a normal round, so machine load cannot trigger it)
			hang := time.AfterFunc(30*time.Second, func() {
				fmt.Printf("soak bad=1 rounds=%d maxextra=0 extra0=0 extra1=0 kinds= fails=%s/hang:1 first=round %d %s: call did not return within 30 s\n", i, sc.name, i, sc.name)
				os.Exit(3)
			})
			_, err := rt.RunString(sc.src)
			hang.Stop()
			<-done
			end := atomic.LoadInt64(&ticks)
			if got := classify(err); got != fmt.Sprintf("intr:%d", v) {
				fail("result", fmt.Sprintf("round %d %s: got %s", i, sc.name, got))
			}
			extra := end - atIntr
			extraHist[extra]++
			if extra > maxExtra {
				maxExtra = extra
			}
			if extra > 1 {
				fail("extra", fmt.Sprintf("round %d %s: %d native calls completed after Interrupt returned", i, sc.name, extra))
			}
			if b := atomic.LoadInt64(&bads); b != 0 {
				fail("ran", fmt.Sprintf("round %d %s: catch/finally/return()/later job ran %d times", i, sc.name, b))
			}
		}
		// afterwards: idle, flag clear, queue empty, reusable (with a watchdog: leftover jobs must not hang the check)
		if fl, jobs, cs, _ := goja.VerifC15State(rt); fl != 0 || jobs != 0 || cs != 0 {
			fail("state", fmt.Sprintf("round %d %s: state after return flag=%d jobs=%d callStack=%d", i, sc.name, fl, jobs, cs))
		}
		before := atomic.LoadInt64(&ticks)
		// watchdog: leftover jobs must not hang the check.  20 s is far above a normal follow-up call; if the timer fires
		// anyway (starved machine) without having interrupted the call, wait for it and discard this runtime, so that
		// its pending Interrupt(-2) cannot be mistaken for a result of the next round.
		wrt := rt
		fired := make(chan struct{})
		wd := time.AfterFunc(20*time.Second, func() { wrt.Interrupt(int64(-2)); close(fired) })
		val, err := rt.RunString("tick();41+1")
		if !wd.Stop() {
			<-fired
			forceNew = true
		}
		if !forceNew && err == nil {
			if pc := postCheck(rt); pc != "ok" {
				fail("post", fmt.Sprintf("round %d %s: %s", i, sc.name, pc))
			}
		}
		if err != nil || val.ToInteger() != 42 || atomic.LoadInt64(&ticks) != before+1 || atomic.LoadInt64(&bads) != 0 {
			fail("reuse", fmt.Sprintf("round %d %s: runtime not reusable: %v err=%v ticks+%d", i, sc.name, val, err, atomic.LoadInt64(&ticks)-before))
		}
	}
	ks := []string{}
	for _, s := range soakScripts {
		ks = append(ks, fmt.Sprintf("%s:%d", s.name, kinds[s.name]))
	}
	ks = append(ks, fmt.Sprintf("idle:%d", kinds["idle"]), fmt.Sprintf("idle-clear:%d", kinds["idle-clear"]))
	fs := []string{}
	for k, n := range fails {
		fs = append(fs, fmt.Sprintf("%s:%d", k, n))
	}
	sort.Strings(fs)
	out := fmt.Sprintf("soak bad=%d rounds=%d maxextra=%d extra0=%d extra1=%d kinds=%s fails=%s", bad, rounds, maxExtra, extraHist[0], extraHist[1], strings.Join(ks, ","), strings.Join(fs, ","))
	if first != "" {
		out += " first=" + common.OneLine(first)
	}
	return out
}

// tickcase <script> <n> <v>: run soak script <script>; its n-th tick() calls Interrupt(v) on the runner goroutine.
// answer: res=<..> ticks=<n> bad=<n> st=<..> after=<ok|..> ticks2=<n>
func tickCase(f []string) string {
	if len(f) != 3 {
		return "ERR bad tickcase header"
	}
	var src string
	for _, sc := range soakScripts {
		if sc.name == f[0] {
			src = sc.src
		}
	}
	if src == "" {
		return "ERR unknown script"
	}
	n, _ := strconv.Atoi(f[1])
	v, _ := strconv.Atoi(f[2])
	rt := goja.New()
	ticks, bads := 0, 0
	rt.Set("tick", func(goja.FunctionCall) goja.Value {
		ticks++
		if ticks == n {
			rt.Interrupt(v)
		}
		if ticks > n+1000 {
			rt.Interrupt(-1) // safety net: the interrupt was lost
		}
		return goja.Undefined()
	})
	rt.Set("bad", func(goja.FunctionCall) goja.Value { bads++; return goja.Undefined() })
	rt.Set("nestedLoop", func(goja.FunctionCall) goja.Value {
		if _, err := rt.RunString("for(var i=0;i<50;i++){try{tick()}finally{tick()}}"); err != nil {
			panic(err)
		}
		return goja.Undefined()
	})
	rt.Set("callGoTick", func(call goja.FunctionCall) goja.Value {
		fn, _ := goja.AssertFunction(call.Argument(0))
		if _, err := fn(goja.Undefined()); err != nil {
			panic(err)
		}
		return goja.Undefined()
	})
	_, err := rt.RunString(src)
	fl, jobs, cs, ts := goja.VerifC15State(rt)
	ab := asyncBit(rt)
	t1 := ticks
	n = -1
	_, err2 := rt.RunString("tick()")
	t2 := ticks - t1
	return fmt.Sprintf("res=%s ticks=%d bad=%d st=%d/%d/%d/%d/%d after=%s ticks2=%d post=%s", classify(err), t1, bads, fl, jobs, cs, ts, ab, classify(err2), t2, postCheck(rt))
}

func main() {
	common.Loop(func(line string) string {
		line = strings.TrimSpace(line)
		if line == "profile on" {
			// from here on vm.run() delegates to vm.runWithProfiler(): the second run loop (vm.go) is EXECUTED, not only shape-tied
			if err := goja.StartProfile(io.Discard); err != nil {
				return "ERR " + err.Error()
			}
			return "profile on"
		}
		if line == "profile off" {
			goja.StopProfile()
			return "profile off"
		}
		if strings.HasPrefix(line, "tickcase ") {
			return tickCase(strings.Fields(line)[1:])
		}
		if strings.HasPrefix(line, "soak ") {
			return soak(strings.Fields(line)[1:])
		}
		if strings.HasPrefix(line, "case ") {
			parts := strings.SplitN(line[5:], "|", 2)
			if len(parts) != 2 {
				return "ERR no program"
			}
			return runCase(strings.Fields(parts[0]), parts[1])
		}
		return "ERR unknown line"
	})
}
