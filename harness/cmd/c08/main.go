// Harness for property C08 (abrupt exits run each pending finally and iterator close exactly once,
// in order).  Line protocol (same lines as the Lean driver model_c08; the JavaScript text follows
// the token "@@"):
//
//	B <mode> <program tokens> @@ <js>     run the instrumented program, print "<completion> | <events>"
//	                                      mode = F|S|G|A (function / script / generator / async function) + o|i (fatal = stack
//	                                      overflow / interrupt), e.g. "Fo"
//	K <program tokens> @@ <js>            dump the bytecode of function f: "name ops;name ops;..."
//	S <site> <n> <k> <fail> <rm>          built-in iteration site driven by an instrumented iterator
//	                                      prints "<completion> | <events>"
package main

import (
	"fmt"
	"os"
	"strconv"
	"strings"
	"time"

	"github.com/dop251/goja"
	"verifharness/common"
)

const prelude = `
function cv(e){ if (e instanceof TypeError) return 999; if (e === undefined) return 0; return e; }
function mkIt(j, n, nt, rm) {
  var i = 0;
  var it = {
    next: function(){ log('N'+j); if (i === nt) { i++; log('X'+j); throw 100+j; } if (i >= n) { log('D'+j); return {done:true, value:undefined}; } return {value:i++, done:false}; },
    'return': function(){ log('R'+j); if (rm === 't') throw 200+j; if (rm === 'n') return 1; return {}; }
  };
  var o = {}; o[Symbol.iterator] = function(){ log('O'+j); return it; };
  return o;
}
function mkObj(n){ var o = {}; for (var i = 0; i < n; i++) o[i] = 0; return o; }
var wo = {};
function so1(){ return so1()+1; }
function so(){ log('!'); return so1(); }
function si(){ log('!'); intr(); for(;;){} }
function drive(){ var g = f(); var r = g.next(); while (!r.done) { var a = r.value; r = (a[0] === 'r') ? g['return'](a[1]) : g['throw'](a[1]); } return r.value; }
`

var stackLeaks int

var preludePrg = goja.MustCompile("prelude", prelude, false)

type run struct {
	r   *goja.Runtime
	log []string
}

func newRun() *run {
	x := &run{r: goja.New()}
	x.r.SetMaxCallStackSize(150)
	x.r.Set("log", func(v goja.Value) goja.Value {
		if s, ok := v.Export().(string); ok {
			x.log = append(x.log, s)
		} else {
			x.log = append(x.log, "L"+v.String())
		}
		return v
	})
	x.r.Set("intr", func() { x.r.Interrupt("c08") })
	if _, err := x.r.RunProgram(preludePrg); err != nil {
		panic(err)
	}
	return x
}

func (x *run) canonVal(v goja.Value) string {
	if v == nil || goja.IsUndefined(v) {
		return "0"
	}
	if o, ok := v.(*goja.Object); ok {
		if te := x.r.Get("TypeError"); te != nil && x.r.InstanceOf(v, te.ToObject(x.r)) {
			return "999"
		}
		return "?obj:" + common.OneLine(o.String())
	}
	switch e := v.Export().(type) {
	case int64:
		return strconv.FormatInt(e, 10)
	case float64:
		return strconv.FormatFloat(e, 'g', -1, 64)
	}
	return "?" + common.OneLine(v.String())
}

// finish turns (value, error) of a top-level call into "<completion> | <events>"
func (x *run) finish(mode byte, v goja.Value, err error) string {
	var c string
	switch e := err.(type) {
	case nil:
		if mode == 'S' {
			c = "N:" + x.canonVal(v)
		} else if v == nil || goja.IsUndefined(v) {
			c = "N"
		} else {
			c = "R:" + x.canonVal(v)
		}
	case *goja.Exception:
		c = "T:" + x.canonVal(e.Value())
	case *goja.InterruptedError:
		c = "F"
	case *goja.StackOverflowError:
		c = "F"
	default:
		c = "E:" + common.OneLine(err.Error())
	}
	x.r.ClearInterrupt()
	t, i, rf, cs := goja.VerifC08Stacks(x.r)
	if t != 0 || i != 0 || rf != 0 || cs != 0 {
		// not part of C08's statement (belongs to C03): reported on stderr only
		stackLeaks++
		if stackLeaks <= 3 {
			fmt.Fprintf(os.Stderr, "c08-harness: note: VM stacks not empty after top-level return (try=%d iter=%d ref=%d call=%d) completion=%s\n", t, i, rf, cs, c)
		}
	}
	return c + " | " + strings.Join(x.log, " ")
}

func runProgram(mode string, js string) string {
	x := newRun()
	done := make(chan struct{})
	timer := time.AfterFunc(20*time.Second, func() {
		select {
		case <-done:
		default:
			x.r.Interrupt("timeout")
		}
	})
	defer timer.Stop()
	var v goja.Value
	var err error
	switch mode[0] {
	case 'F':
		v, err = x.r.RunString(js + "\nf()")
	case 'G':
		v, err = x.r.RunString(js + "\ndrive()")
	case 'A':
		// async function: every `await` suspends; goja drains the job queue before RunString returns
		_, err = x.r.RunString(js + "\nvar __r = ['P']; f().then(function(v){ __r = ['R', v]; }, function(e){ __r = ['T', e]; });")
		if err == nil {
			st, _ := x.r.RunString("__r[0]")
			val, _ := x.r.RunString("__r[1]")
			switch st.String() {
			case "R":
				v = val
			case "T":
				close(done)
				x.r.ClearInterrupt()
				return "T:" + x.canonVal(val) + " | " + strings.Join(x.log, " ")
			default:
				close(done)
				return "PENDING | " + strings.Join(x.log, " ")
			}
		}
	default:
		v, err = x.r.RunString(js)
	}
	close(done)
	if ie, ok := err.(*goja.InterruptedError); ok && fmt.Sprint(ie.Value()) == "timeout" {
		return "TIMEOUT | " + strings.Join(x.log, " ")
	}
	return x.finish(mode[0], v, err)
}

func dump(js string) string {
	lines, err := goja.VerifC08DumpProgram(js, "f")
	if err != nil {
		return "ERR " + common.OneLine(err.Error())
	}
	out := make([]string, len(lines))
	for i, l := range lines {
		// strip the pc
		if k := strings.IndexByte(l, ' '); k >= 0 {
			l = l[k+1:]
		}
		out[i] = l
	}
	return strings.Join(out, ";")
}

func handle(line string) string {
	js := ""
	if k := strings.Index(line, " @@ "); k >= 0 {
		js = line[k+4:]
		line = line[:k]
	}
	f := strings.Fields(line)
	if len(f) == 0 {
		return "BAD-OP"
	}
	switch f[0] {
	case "B":
		if len(f) < 2 {
			return "BAD-OP"
		}
		return runProgram(f[1], js)
	case "K":
		return dump(js)
	case "BK":
		// behaviour and bytecode dump of the same source in one line
		if len(f) < 2 {
			return "BAD-OP"
		}
		return runProgram(f[1], js) + " ## " + dump(js)
	case "S":
		return site(f[1:])
	}
	return "BAD-OP"
}

func main() { common.Loop(handle) }
