package main

// Built-in iteration sites driven by an instrumented iterator that fails at the k-th step.
//
//	S <site> <n> <nt> <rm> <k> <fail>
//	   n    number of items the iterator has            nt  index of the next() call that throws 101 (-1: none)
//	   rm   return() behaviour: o = returns an object, t = throws 201, n = returns a non-object
//	   k    index of the consumer step that fails (-1: none)
//	   fail t = consumer throws 7, o = consumer overflows the stack, i = consumer is interrupted
//
// Output: "<completion> | <events>" with events O1 N1 D1 X1 R1 (iterator), S (setter ran), K / J:<v>
// (promise fulfilled / rejected with v), V:<v> (generator result value), ! (uncatchable raised).

import (
	"fmt"
	"strings"
	"time"

	"github.com/dop251/goja"
)

const sitePrelude = `
function mkItV(n, nt, rm, valf) {
  var i = 0;
  var it = {
    next: function(){ log('N1'); if (i === nt) { i++; log('X1'); throw 101; } if (i >= n) { log('D1'); return {done:true, value:undefined}; } var v = valf(i); i++; return {value:v, done:false}; },
    'return': function(v){ log('R1'); if (rm === 't') throw 201; if (rm === 'n') return 1; return {done:true, value:9}; }
  };
  var o = {}; o[Symbol.iterator] = function(){ log('O1'); return it; };
  return o;
}
function ident(i){ return i; }
function FAIL(kind){ if (kind === 't') throw 7; if (kind === 'o') so(); si(); }
`

var siteScripts = map[string]string{
	"spread":        `(function(){ })(...mkItV(N, NT, RM, ident)); undefined`,
	"arrspread":     `[...mkItV(N, NT, RM, ident)]; undefined`,
	"destr":         `var [a, b] = mkItV(N, NT, RM, ident); undefined`,
	"destr_elision": `var [, b] = mkItV(N, NT, RM, ident); undefined`,
	"destr_rest":    `var [a, ...r] = mkItV(N, NT, RM, ident); undefined`,
	"destr_setter":  `var o = { set x(v){ log('S'); FAIL(FK); } }; [o.x] = mkItV(N, NT, RM, ident); undefined`,
	"arrayfrom":     `Array.from(mkItV(N, NT, RM, ident), function(v, i){ if (i === K) FAIL(FK); return v; }); undefined`,
	"map_entry":     `new Map(mkItV(N, NT, RM, function(i){ return i === K ? 5 : [i, i]; })); undefined`,
	"map_adder":     `var c = 0; class M extends Map { set(a, b){ if (c++ === K) FAIL(FK); return super.set(a, b); } }; new M(mkItV(N, NT, RM, function(i){ return [i, i]; })); undefined`,
	"set_adder":     `var c = 0; class M extends Set { add(a){ if (c++ === K) FAIL(FK); return super.add(a); } }; new M(mkItV(N, NT, RM, ident)); undefined`,
	"weakset":       `new WeakSet(mkItV(N, NT, RM, function(i){ return i === K ? 5 : {}; })); undefined`,
	"weakmap":       `new WeakMap(mkItV(N, NT, RM, function(i){ return i === K ? 5 : [{}, i]; })); undefined`,
	"fromentries":   `Object.fromEntries(mkItV(N, NT, RM, function(i){ return i === K ? 5 : ['k' + i, i]; })); undefined`,
	"typedarray":    `new Uint8Array(mkItV(N, NT, RM, ident)); undefined`,
	"promiseall":    `var c = 0; var orig = Promise.resolve; Promise.resolve = function(v){ if (c++ === K) FAIL(FK); return orig.call(this, v); }; try { Promise.all(mkItV(N, NT, RM, ident)).then(function(){ log('K'); }, function(e){ log('J:' + cv(e)); }); } finally { Promise.resolve = orig; } undefined`,
	"allsettled":    `var c = 0; var orig = Promise.resolve; Promise.resolve = function(v){ if (c++ === K) FAIL(FK); return orig.call(this, v); }; try { Promise.allSettled(mkItV(N, NT, RM, ident)).then(function(){ log('K'); }, function(e){ log('J:' + cv(e)); }); } finally { Promise.resolve = orig; } undefined`,
	"promiseany":    `var c = 0; var orig = Promise.resolve; Promise.resolve = function(v){ if (c++ === K) FAIL(FK); return orig.call(this, v); }; try { Promise.any(mkItV(N, NT, RM, ident)).then(function(){ log('K'); }, function(e){ log('J:' + cv(e)); }); } finally { Promise.resolve = orig; } undefined`,
	"promiserace":   `var c = 0; var orig = Promise.resolve; Promise.resolve = function(v){ if (c++ === K) FAIL(FK); return orig.call(this, v); }; try { Promise.race(mkItV(N, NT, RM, ident)).then(function(){ log('K'); }, function(e){ log('J:' + cv(e)); }); } finally { Promise.resolve = orig; } undefined`,
	"yieldstar_return": `function* g(){ yield* mkItV(N, NT, RM, ident); } var gi = g(); gi.next(); var r = gi['return'](5); log('V:' + cv(r.value) + ':' + r.done); undefined`,
	"yieldstar_throw":  `function* g(){ yield* mkItV(N, NT, RM, ident); } var gi = g(); gi.next(); var r = gi['throw'](7); log('V:' + cv(r.value) + ':' + r.done); undefined`,
}

var sitePrg = goja.MustCompile("siteprelude", sitePrelude, false)

func site(args []string) string {
	if len(args) != 6 {
		return "BAD-OP"
	}
	script, ok := siteScripts[args[0]]
	if !ok {
		return "BAD-SITE"
	}
	rep := strings.NewReplacer("NT", args[2], "RM", "'"+args[3]+"'", "FK", "'"+args[5]+"'", "N", args[1], "K", args[4])
	// replace whole-word parameters only: the scripts use N, NT, RM, K, FK as bare identifiers
	js := replaceParams(script, map[string]string{"N": args[1], "NT": args[2], "RM": "'" + args[3] + "'", "K": args[4], "FK": "'" + args[5] + "'"})
	_ = rep
	x := newRun()
	if _, err := x.r.RunProgram(sitePrg); err != nil {
		panic(err)
	}
	done := make(chan struct{})
	timer := time.AfterFunc(20*time.Second, func() {
		select {
		case <-done:
		default:
			x.r.Interrupt("timeout")
		}
	})
	defer timer.Stop()
	v, err := x.r.RunString(js)
	close(done)
	if ie, ok := err.(*goja.InterruptedError); ok && fmt.Sprint(ie.Value()) == "timeout" {
		return "TIMEOUT | " + strings.Join(x.log, " ")
	}
	return x.finish('F', v, err)
}

func isIdent(c byte) bool {
	return c == '_' || c == '$' || (c >= '0' && c <= '9') || (c >= 'a' && c <= 'z') || (c >= 'A' && c <= 'Z')
}

func replaceParams(s string, m map[string]string) string {
	var b strings.Builder
	i := 0
	for i < len(s) {
		if isIdent(s[i]) && (i == 0 || !isIdent(s[i-1])) {
			j := i
			for j < len(s) && isIdent(s[j]) {
				j++
			}
			w := s[i:j]
			if r, ok := m[w]; ok && (i == 0 || (s[i-1] != '.' && s[i-1] != '\'')) {
				b.WriteString(r)
			} else {
				b.WriteString(w)
			}
			i = j
			continue
		}
		b.WriteByte(s[i])
		i++
	}
	return b.String()
}
