// Harness for property C16: Programs and primitive values shared between goroutines.
//
// One JSON case per stdin line, one JSON answer per stdout line (same order).  Meant to be built with -race: the
// race detector's reports go to stderr; before each case the harness writes "@@CASE <n> <kind>" to stderr so that
// run/c16.py can attribute a report to the case that was running.
//
//	{"kind":"prog","src":JS,"n":8,"reps":2}
//	     Compile once; run once in a fresh Runtime (sequential baseline); then n goroutines, each with its own fresh
//	     Runtime, run the SAME *Program reps times concurrently.  Answer: {"ok":bool,"base":..., "diff":[...]}
//	{"kind":"prim","vals":[spec…],"src":JS,"n":8}
//	     Build the primitive values ONCE (shared), build equal but separate values for the baseline; baseline =
//	     the script with v0..vk bound to the separate values; then n goroutines with own Runtimes bind the SHARED values
//	     and run the script; also the Go-level String methods (hook digest) are exercised concurrently on the shared values.
//	{"kind":"foreign","obj":K,"path":P,"same":bool}
//	     Object created by runtime A handed to runtime B (or A when same) through path P.  Answer one of
//	     null | typeError | same | other:<text>   — the alphabet of the Lean model's `tv`.
//	{"kind":"scan","hex":H,"n":4}
//	     An imported string with these bytes is forced by n goroutines at once; answer `nil` or `u16 <hex>` = the memo.
package main

import (
	"encoding/hex"
	"encoding/json"
	"fmt"
	"os"
	"strings"
	"sync"
	"time"

	"github.com/dop251/goja"
	"verifharness/common"
)

type valSpec struct {
	T   string  `json:"t"`   // gostr | short | concat | ascii | utf16 | int | float | bool | null | undef | symbol | json
	Hex string  `json:"hex"` // bytes for gostr/short/concat(left)
	Hx2 string  `json:"hex2"`
	U   []int   `json:"u"` // utf16 units
	I   int64   `json:"i"`
	F   float64 `json:"f"`
	B   bool    `json:"b"`
	S   string  `json:"s"`
}

type tcase struct {
	Kind string    `json:"kind"`
	Src  string    `json:"src"`
	N    int       `json:"n"`
	Reps int       `json:"reps"`
	Vals []valSpec `json:"vals"`
	Obj  string    `json:"obj"`
	Path string    `json:"path"`
	Same bool      `json:"same"`
	Hex  string    `json:"hex"`
}

type answer struct {
	OK   bool     `json:"ok"`
	Base string   `json:"base,omitempty"`
	Diff []string `json:"diff,omitempty"`
	Res  string   `json:"res,omitempty"`
	Info string   `json:"info,omitempty"`
	// Mutated: memory reachable from the shared Program / the internals of a shared Symbol changed
	Mutated bool `json:"mutated,omitempty"`
	// Contract: an eval-declared var was created in a names map owned by the Program (rendering of the scope chain)
	Contract string `json:"contract,omitempty"`
}

var caseNo int

func main() {
	common.Loop(func(line string) string {
		var c tcase
		if err := json.Unmarshal([]byte(line), &c); err != nil {
			return `{"ok":false,"info":"bad case json"}`
		}
		caseNo++
		fmt.Fprintf(os.Stderr, "@@CASE %d %s\n", caseNo, c.Kind)
		var a answer
		switch c.Kind {
		case "prog":
			a = runProg(&c)
		case "prim":
			a = runPrim(&c)
		case "foreign":
			a = runForeign(&c)
		case "scan":
			a = runScan(&c)
		default:
			a = answer{Info: "unknown kind"}
		}
		fmt.Fprintf(os.Stderr, "@@END %d\n", caseNo)
		out, _ := json.Marshal(a)
		return string(out)
	})
}

// runOne executes prg in vm and renders the completion canonically.
func runOne(vm *goja.Runtime, prg *goja.Program) (res string) {
	probe := goja.VerifC16InstallStashProbe(vm, prg)
	defer func() {
		// the compiler contract of the names maps, observed on the real heap: an eval that declares a var must find
		// a private names map on the stash bindVars targets (see Names.lean `hOK`)
		for _, p := range *probe {
			if strings.HasSuffix(p, "target=Vs") || strings.HasSuffix(p, "target=Bs") {
				res += " NAMES-CONTRACT-BROKEN(" + p + ")"
				break
			}
		}
	}()
	defer func() {
		if r := recover(); r != nil {
			res = "gopanic:" + common.OneLine(fmt.Sprint(r))
		}
	}()
	timer := time.AfterFunc(180*time.Second, func() { vm.Interrupt("timeout") })
	defer timer.Stop()
	v, err := vm.RunProgram(prg)
	if err != nil {
		if ex, ok := err.(*goja.Exception); ok {
			return "throw:" + common.OneLine(ex.Value().String())
		}
		return "error:" + common.OneLine(err.Error())
	}
	if v == nil {
		return "nil"
	}
	res = "value:" + common.OneLine(v.String())
	// what promise jobs (run when RunProgram returns) left behind, by convention in the global __late
	if late, err := vm.RunString("typeof __late === 'undefined' ? '' : JSON.stringify(__late)"); err == nil {
		if ls := late.String(); ls != "" {
			res += " late:" + common.OneLine(ls)
		}
	} else {
		res += " late-error:" + common.OneLine(err.Error())
	}
	return res
}

func concurrently(n int, f func(i int) string) []string {
	res := make([]string, n)
	var wg sync.WaitGroup
	start := make(chan struct{})
	for i := 0; i < n; i++ {
		wg.Add(1)
		go func(i int) {
			defer wg.Done()
			defer func() {
				if r := recover(); r != nil {
					res[i] = "gopanic:" + common.OneLine(fmt.Sprint(r))
				}
			}()
			<-start
			res[i] = f(i)
		}(i)
	}
	close(start)
	wg.Wait()
	return res
}

// printRanges tells run/c16.py (on stderr, inside the case's @@CASE … @@END bracket) which memory is shared by design.
func printRanges(rs []goja.VerifC16Range) {
	for _, r := range rs {
		fmt.Fprintf(os.Stderr, "@@ADDR %s 0x%x 0x%x\n", r.What, r.Lo, r.Hi)
	}
}

func clamp(n, lo, hi int) int {
	if n < lo {
		return lo
	}
	if n > hi {
		return hi
	}
	return n
}

func runProg(c *tcase) answer {
	prg, err := goja.Compile("case.js", c.Src, false)
	if err != nil {
		return answer{OK: true, Base: "compile-error:" + common.OneLine(err.Error())}
	}
	n := clamp(c.N, 2, 16)
	reps := clamp(c.Reps, 1, 8)
	digest0 := goja.VerifC16ProgramDigest(prg) // everything reachable from the Program, right after Compile
	// the goroutines run FIRST on the fresh Program (lazy state inside it, if any, is still unset), the sequential
	// baseline afterwards in yet another Runtime
	res := concurrently(n, func(i int) string {
		var parts []string
		for k := 0; k < reps; k++ {
			parts = append(parts, runOne(goja.New(), prg))
		}
		return strings.Join(parts, "\x00")
	})
	base := runOne(goja.New(), prg)
	printRanges(goja.VerifC16TemplateRanges(prg))
	// an independently compiled Program is the "in isolation" reference
	prg2, err2 := goja.Compile("case.js", c.Src, false)
	a := answer{OK: true, Base: base}
	if d := goja.VerifC16ProgramDigest(prg); d != digest0 {
		a.OK = false
		a.Mutated = true
		a.Diff = append(a.Diff, "the Program's object graph changed while it was run (digest "+digest0[:12]+" -> "+d[:12]+")")
	}
	if err2 != nil {
		a.OK = false
		a.Diff = append(a.Diff, "second compile failed: "+err2.Error())
		return a
	}
	iso := runOne(goja.New(), prg2)
	for _, r := range append([]string{base, iso}, res...) {
		if i := strings.Index(r, "NAMES-CONTRACT-BROKEN("); i >= 0 {
			a.OK = false
			a.Contract = r[i:]
			if j := strings.Index(a.Contract, ")"); j > 0 {
				a.Contract = a.Contract[:j+1]
			}
			break
		}
	}
	if iso != base {
		a.OK = false
		a.Diff = append(a.Diff, fmt.Sprintf("sequential run of the shared Program differs from an isolated compile+run: %q vs %q", base, iso))
	}
	timeouts := 0
	for i, r := range res {
		for k, p := range strings.Split(r, "\x00") {
			if strings.HasPrefix(p, "error:timeout") { // the watchdog fired (overloaded machine): inconclusive, not a difference
				timeouts++
				continue
			}
			if p != iso {
				a.OK = false
				if len(a.Diff) < 4 {
					a.Diff = append(a.Diff, fmt.Sprintf("goroutine %d rep %d: got %q want %q", i, k, p, iso))
				}
			}
		}
	}
	if timeouts > 0 {
		a.Info = fmt.Sprintf("timeouts=%d", timeouts)
	}
	return a
}

func mkVal(s *valSpec) (goja.Value, error) {
	dec := func(h string) (string, error) {
		b, err := hex.DecodeString(h)
		return string(b), err
	}
	switch s.T {
	case "gostr": // Runtime.ToValue(goString): imported (lazily scanned) when longer than 16 bytes
		str, err := dec(s.Hex)
		if err != nil {
			return nil, err
		}
		return goja.New().ToValue(str), nil
	case "short": // a lazily scanned imported string of any length (white-box constructor)
		str, err := dec(s.Hex)
		if err != nil {
			return nil, err
		}
		return goja.VerifC16NewImported(str), nil
	case "concat": // concatenation of two unscanned imported strings: stays unscanned
		a, err := dec(s.Hex)
		if err != nil {
			return nil, err
		}
		b, err := dec(s.Hx2)
		if err != nil {
			return nil, err
		}
		l := goja.VerifC16NewImported(a).(goja.String)
		r := goja.VerifC16NewImported(b).(goja.String)
		return l.Concat(r), nil
	case "ascii":
		return goja.New().ToValue(s.S), nil
	case "utf16":
		u := make([]uint16, len(s.U))
		for i, x := range s.U {
			u[i] = uint16(x)
		}
		return goja.StringFromUTF16(u), nil
	case "int":
		return goja.New().ToValue(s.I), nil
	case "float":
		return goja.New().ToValue(s.F), nil
	case "bool":
		return goja.New().ToValue(s.B), nil
	case "null":
		return goja.Null(), nil
	case "undef":
		return goja.Undefined(), nil
	case "nan":
		return goja.NaN(), nil
	case "symbol":
		return goja.NewSymbol(s.S), nil
	case "wellknown": // package-level well-known symbols are shared by every Runtime of the process
		w := goja.VerifC16WellKnownSymbols()
		return w[int(s.I)%len(w)], nil
	case "json": // result of JSON.stringify with non-ASCII content is an imported string made by another runtime
		vm := goja.New()
		v, err := vm.RunString("JSON.stringify(" + s.S + ")")
		return v, err
	}
	return nil, fmt.Errorf("unknown value spec %q", s.T)
}

func mkVals(specs []valSpec) ([]goja.Value, error) {
	vals := make([]goja.Value, len(specs))
	for i := range specs {
		if specs[i].T == "same" { // the same value (identity) a second time
			j := int(specs[i].I)
			if j < 0 || j >= i {
				return nil, fmt.Errorf("bad alias index")
			}
			vals[i] = vals[j]
			continue
		}
		v, err := mkVal(&specs[i])
		if err != nil {
			return nil, err
		}
		vals[i] = v
	}
	return vals, nil
}

// firstTouch: the FIRST operation a goroutine performs on a shared string decides which access races with another
// goroutine's scan (a reader that does not force the scan — JSON.stringify's utf16Reader, Reader, Concat, equality with
// an ASCII string — against one that does).  Goroutine i starts with operation i mod 7; results are discarded.
func firstTouch(vm *goja.Runtime, v goja.Value, i int) {
	s, ok := v.(goja.String)
	if !ok {
		return
	}
	defer func() { _ = recover() }()
	switch i % 7 {
	case 0: // JSON.stringify(x): quote() walks x.utf16Reader() without forcing the scan
		_ = vm.Set("__t", v)
		_, _ = vm.RunString("JSON.stringify(__t); JSON.stringify({k:__t,[__t]:1})")
	case 1:
		_ = s.Length() // forces the scan
	case 2:
		rd := s.Reader()
		for {
			if _, _, err := rd.ReadRune(); err != nil {
				break
			}
		}
	case 3:
		_ = s.Concat(s)
	case 4:
		_ = s.StrictEquals(vm.ToValue("plain ascii"))
		_ = vm.ToValue("plain ascii").StrictEquals(s)
	case 5:
		_ = s.ToNumber() // forces the scan
	case 6: // regexp / escape paths that read the Go string directly
		_ = vm.Set("__t", v)
		_, _ = vm.RunString("new RegExp(__t.replace(/[^a-z]/g,'')||'x'); __t.normalize(); encodeURI(__t.replace(/[\\ud800-\\udfff]/g,''))")
	}
}

func runPrimOnce(prg *goja.Program, vals []goja.Value, rot int) string {
	vm := goja.New()
	if rot >= 0 {
		for j := range vals {
			firstTouch(vm, vals[(j+rot)%len(vals)], rot+j)
		}
	}
	if rot < 0 {
		rot = 0
	}
	for i, v := range vals {
		if err := vm.Set(fmt.Sprintf("v%d", i), v); err != nil {
			return "set-error:" + err.Error()
		}
	}
	res := runOne(vm, prg)
	// Go-level String methods on the shared values (every method of the String interface)
	var b strings.Builder
	b.WriteString(res)
	k := len(vals)
	for j := 0; j < k; j++ {
		i := (j + rot) % k // different goroutines start at different values
		if _, ok := vals[i].(goja.String); ok {
			fmt.Fprintf(&b, "\n#%d %s", i, goja.VerifC16StringDigest(vm, vals[i], vals[(i+1)%k]))
		} else {
			// non-string primitives: the Value methods
			v := vals[i]
			num := common.Safe(func() string { return v.ToNumber().String() }) // Symbol → TypeError
			if strings.HasPrefix(num, "PANIC") {
				num = "throws"
			}
			fmt.Fprintf(&b, "\n#%d str=%q num=%v bool=%v same=%v eq=%v exp=%v", i, v.String(), num, v.ToBoolean(), v.SameAs(v), v.Equals(vals[(i+1)%k]), v.Export())
		}
	}
	// canonical order regardless of rotation
	lines := strings.Split(b.String(), "\n")
	head, rest := lines[0], lines[1:]
	sortStrings(rest)
	return head + "\n" + strings.Join(rest, "\n")
}

func sortStrings(a []string) {
	for i := 1; i < len(a); i++ {
		for j := i; j > 0 && a[j] < a[j-1]; j-- {
			a[j], a[j-1] = a[j-1], a[j]
		}
	}
}

func runPrim(c *tcase) answer {
	prg, err := goja.Compile("prim.js", c.Src, false)
	if err != nil {
		return answer{OK: false, Info: "compile-error:" + err.Error()}
	}
	shared, err := mkVals(c.Vals)
	if err != nil {
		return answer{OK: false, Info: "value-error:" + err.Error()}
	}
	n := clamp(c.N, 2, 16)
	reprs := make([]string, len(shared))
	for i, v := range shared {
		reprs[i] = goja.VerifC16StringRepr(v)
		if reprs[i] == "imported" && goja.VerifC16ImportedScanned(v) {
			reprs[i] = "imported-scanned"
		}
	}
	for _, v := range shared {
		printRanges(goja.VerifC16ImportedRanges(v)) // the structs, before anything is scanned
	}
	symBefore := make([]string, len(shared))
	for i, v := range shared {
		symBefore[i] = goja.VerifC16SymbolDigest(v)
	}
	res := concurrently(n, func(i int) string { return runPrimOnce(prg, shared, i) })
	for _, v := range shared {
		printRanges(goja.VerifC16ImportedRanges(v)) // … and the memo arrays the run produced
	}
	symChanged := ""
	for i, v := range shared {
		if d := goja.VerifC16SymbolDigest(v); d != symBefore[i] {
			symChanged = fmt.Sprintf("internals of shared symbol v%d changed: %s -> %s", i, symBefore[i], d)
		}
	}
	sep, err := mkVals(c.Vals) // equal but separate values: "in isolation"
	if err != nil {
		return answer{OK: false, Info: "value-error:" + err.Error()}
	}
	base := runPrimOnce(prg, sep, -1)
	a := answer{OK: true, Base: common.OneLine(base), Info: strings.Join(reprs, ",")}
	if symChanged != "" {
		a.OK = false
		a.Mutated = true
		a.Diff = append(a.Diff, symChanged)
	}
	for i, r := range res {
		if strings.HasPrefix(r, "error:timeout") { // watchdog (overloaded machine): inconclusive
			continue
		}
		if r != base {
			a.OK = false
			if len(a.Diff) < 4 {
				a.Diff = append(a.Diff, fmt.Sprintf("goroutine %d: got %q want %q", i, r, base))
			}
		}
	}
	return a
}

func isTypeError(x interface{}) (bool, string) {
	switch e := x.(type) {
	case *goja.Object:
		nm := e.Get("name")
		if nm != nil && nm.String() == "TypeError" {
			return true, e.String()
		}
		return false, e.String()
	case *goja.Exception:
		if o, ok := e.Value().(*goja.Object); ok {
			return isTypeError(o)
		}
		return false, e.Error()
	case error:
		return false, e.Error()
	}
	return false, fmt.Sprint(x)
}

func runForeign(c *tcase) (a answer) {
	ra := goja.New()
	rb := ra
	if !c.Same {
		rb = goja.New()
	}
	var obj *goja.Object
	mk := func(src string) *goja.Object {
		v, err := ra.RunString(src)
		if err != nil {
			panic(err)
		}
		return v.(*goja.Object)
	}
	switch c.Obj {
	case "plain":
		obj = ra.NewObject()
	case "array":
		obj = mk("[1,2,3]")
	case "func":
		obj = mk("(function f(){ return 1 })")
	case "arrow":
		obj = mk("(() => 1)")
	case "proxy":
		obj = mk("new Proxy({}, {})")
	case "date":
		obj = mk("new Date(0)")
	case "regexp":
		obj = mk("/a+/g")
	case "symobj":
		obj = mk("Object(Symbol('s'))")
	case "strobj":
		obj = mk("new String('abc')")
	case "map":
		obj = mk("new Map([[1,2]])")
	case "promise":
		obj = mk("Promise.resolve(1)")
	case "typed":
		obj = mk("new Uint8Array(4)")
	case "class":
		obj = mk("(class A { #x = 1; static s = 2 })")
	case "generator":
		obj = mk("(function*(){ yield 1 })()")
	case "error":
		obj = mk("new RangeError('x')")
	case "global":
		obj = ra.GlobalObject()
	case "gowrap":
		obj = ra.ToValue(map[string]interface{}{"k": 1}).(*goja.Object)
	case "nilptr":
		obj = nil
	case "selfnil":
		obj = goja.VerifC16ObjectVariant(ra, "selfnil")
	case "noruntime":
		obj = goja.VerifC16ObjectVariant(ra, "noruntime")
	default:
		return answer{Info: "unknown obj kind"}
	}
	classify := func(v goja.Value) string {
		if v == nil {
			return "other:nil"
		}
		if goja.IsNull(v) {
			return "null"
		}
		if o, ok := v.(*goja.Object); ok && o == obj {
			return "same"
		}
		return "other:" + common.OneLine(v.String())
	}
	defer func() {
		if r := recover(); r != nil {
			if ok, txt := isTypeError(r); ok {
				if strings.Contains(txt, "Illegal runtime transition") {
					a = answer{OK: true, Res: "typeError"}
				} else {
					a = answer{OK: true, Res: "other:TypeError " + common.OneLine(txt)}
				}
			} else {
				a = answer{OK: true, Res: "other:panic " + common.OneLine(txt)}
			}
		}
	}()
	fromErr := func(err error, then func() string) string {
		if err == nil {
			return then()
		}
		panic(err)
	}
	var res string
	switch c.Path {
	case "ToValue":
		res = classify(rb.ToValue(obj))
	case "Set":
		res = fromErr(rb.Set("x", obj), func() string { return classify(rb.Get("x")) })
	case "ObjectSet":
		h := rb.NewObject()
		res = fromErr(h.Set("x", obj), func() string { return classify(h.Get("x")) })
	case "SymbolSet":
		h := rb.NewObject()
		sym := goja.NewSymbol("k")
		res = fromErr(h.SetSymbol(sym, obj), func() string { return classify(h.GetSymbol(sym)) })
	case "NewArray":
		arr := rb.NewArray(obj)
		res = classify(arr.Get("0"))
	case "SliceElem":
		_ = rb.Set("a", []interface{}{obj})
		v, err := rb.RunString("a[0]")
		res = fromErr(err, func() string { return classify(v) })
	case "MapElem":
		_ = rb.Set("m", map[string]interface{}{"k": obj})
		v, err := rb.RunString("m.k")
		res = fromErr(err, func() string { return classify(v) })
	case "StructField":
		type S struct{ F *goja.Object }
		_ = rb.Set("s", &S{F: obj})
		v, err := rb.RunString("s.F")
		res = fromErr(err, func() string { return classify(v) })
	case "FuncReturn":
		_ = rb.Set("f", func() *goja.Object { return obj })
		v, err := rb.RunString("f()")
		res = fromErr(err, func() string { return classify(v) })
	case "SliceOfObj":
		_ = rb.Set("a", []*goja.Object{obj})
		v, err := rb.RunString("a[0]")
		res = fromErr(err, func() string { return classify(v) })
	case "SliceOfValue":
		_ = rb.Set("a", []goja.Value{obj})
		v, err := rb.RunString("a[0]")
		res = fromErr(err, func() string { return classify(v) })
	case "ArrayElem":
		_ = rb.Set("a", [1]interface{}{obj})
		v, err := rb.RunString("a[0]")
		res = fromErr(err, func() string { return classify(v) })
	case "MapOfObj":
		_ = rb.Set("m", map[string]*goja.Object{"k": obj})
		v, err := rb.RunString("m.k")
		res = fromErr(err, func() string { return classify(v) })
	case "NestedSlice":
		_ = rb.Set("a", []interface{}{[]interface{}{obj}})
		v, err := rb.RunString("a[0][0]")
		res = fromErr(err, func() string { return classify(v) })
	case "SliceForOf":
		_ = rb.Set("a", []interface{}{1, obj})
		v, err := rb.RunString("var got; for (var x of a) got = x; got")
		res = fromErr(err, func() string { return classify(v) })
	case "SliceSpread":
		_ = rb.Set("a", []interface{}{obj})
		v, err := rb.RunString("[...a][0]")
		res = fromErr(err, func() string { return classify(v) })
	case "SliceMethod":
		_ = rb.Set("a", []interface{}{obj})
		v, err := rb.RunString("Array.prototype.map.call(a, function(x){ return x })[0]")
		res = fromErr(err, func() string { return classify(v) })
	case "SliceValues":
		_ = rb.Set("a", []interface{}{obj})
		v, err := rb.RunString("Object.values(a)[0]")
		res = fromErr(err, func() string { return classify(v) })
	case "MultiReturn":
		_ = rb.Set("f", func() (interface{}, *goja.Object) { return 1, obj })
		v, err := rb.RunString("f()[1]")
		res = fromErr(err, func() string { return classify(v) })
	case "MultiReturnIface":
		_ = rb.Set("f", func() (interface{}, interface{}) { return obj, 2 })
		v, err := rb.RunString("f()[0]")
		res = fromErr(err, func() string { return classify(v) })
	case "StructIfaceField":
		type S struct{ F interface{} }
		_ = rb.Set("s", S{F: obj})
		v, err := rb.RunString("s.F")
		res = fromErr(err, func() string { return classify(v) })
	case "PtrToSlice":
		sl := []interface{}{obj}
		_ = rb.Set("a", &sl)
		v, err := rb.RunString("a[0]")
		res = fromErr(err, func() string { return classify(v) })
	case "SliceSpareCap": // a Go slice with spare capacity that the script grows: the pushed and the old element are both converted lazily
		sl := append(make([]interface{}, 0, 8), 1, obj)
		_ = rb.Set("a", &sl)
		v, err := rb.RunString("a.push(2); a[1]")
		res = fromErr(err, func() string { return classify(v) })
	case "SliceTwice": // the same Object reachable twice
		_ = rb.Set("a", []interface{}{obj, obj})
		v, err := rb.RunString("var first; try { first = a[0] } catch(e) { first = undefined } a[1]")
		res = fromErr(err, func() string { return classify(v) })
	case "CallArg":
		fn, err := rb.RunString("(function(x){ return x })")
		if err != nil {
			panic(err)
		}
		call, _ := goja.AssertFunction(fn)
		v, err := call(goja.Undefined(), rb.ToValue(obj))
		res = fromErr(err, func() string { return classify(v) })
	case "FuncReturnIface":
		_ = rb.Set("f", func() interface{} { return obj })
		v, err := rb.RunString("f()")
		res = fromErr(err, func() string { return classify(v) })
	default:
		return answer{Info: "unknown path"}
	}
	return answer{OK: true, Res: res}
}

func runScan(c *tcase) answer {
	b, err := hex.DecodeString(c.Hex)
	if err != nil {
		return answer{Info: "bad hex"}
	}
	v := goja.VerifC16NewImported(string(b))
	n := clamp(c.N, 2, 16)
	lens := concurrently(n, func(i int) string {
		s := v.(goja.String)
		if i%2 == 1 { // odd goroutines start with a NON-forcing reader (JSON.stringify / Reader / Concat / ascii equality)
			firstTouch(goja.New(), v, []int{0, 2, 3, 4, 6}[(i/2)%5])
		}
		switch i % 4 {
		case 0:
			return fmt.Sprint(s.Length())
		case 1:
			_ = s.ToNumber()
			return fmt.Sprint(s.Length())
		case 2:
			_ = s.Concat(s)
			return fmt.Sprint(s.Length())
		default:
			_ = s.StrictEquals(s.Substring(0, s.Length()))
			return fmt.Sprint(s.Length())
		}
	})
	units, _ := goja.VerifC16ImportedMemo(v)
	printRanges(goja.VerifC16ImportedRanges(v))
	res := "nil"
	if units != nil {
		var sb strings.Builder
		sb.WriteString("u16 ")
		for _, u := range units {
			fmt.Fprintf(&sb, "%04x", u)
		}
		res = sb.String()
	}
	a := answer{OK: true, Res: res}
	// every goroutine must have seen the same length = number of UTF-16 units (without the BOM)
	want := len(b)
	if units != nil {
		want = len(units) - 1
	}
	for i, l := range lens {
		if l != fmt.Sprint(want) {
			a.OK = false
			a.Diff = append(a.Diff, fmt.Sprintf("goroutine %d saw length %s, memo says %d", i, l, want))
		}
	}
	return a
}
