// Harness for property C01 (no script can crash the host).  Line protocol on stdin/stdout:
//
//	compile <ctx> <hex(js)>      ctx: g (global) | f (function f): canonical instructions between the markers
//	classify <kind>              the engine's own classification of a panic payload kind
//	run <hex(js)>                one source through Parse / Compile / dump / traced run; JSON result
//	search <seed> <shard> <nshards> <count> <seconds> <outprefix> <maxdepth>
//	                             generate+run programs; writes <outprefix>.dump/.src/.obs; prints a JSON summary
package main

import (
	"bufio"
	"encoding/hex"
	"encoding/json"
	"fmt"
	"os"
	"runtime/debug"
	"sort"
	"strconv"
	"strings"
	"syscall"
	"time"

	"github.com/dop251/goja"
	"verifharness/common"
)

// ---- correspondence 1: canonical code of the statement between the markers ------------------------------

var canonName = map[string]string{
	"loadStack1": "loadStack", "loadStash": "loadStack", "loadStack1Lex": "loadStackLex", "loadStashLex": "loadStackLex",
	"storeStack1": "storeStack", "storeStash": "storeStack", "storeStack1Lex": "storeStackLex", "storeStashLex": "storeStackLex",
	"storeStack1P": "storeStackP", "storeStashP": "storeStackP", "storeStack1LexP": "storeStackLexP", "storeStashLexP": "storeStackLexP",
	"resolveMixedStack": "resolveMixed", "resolveMixedStack1": "resolveMixed",
	"loadMixedLex": "loadMixed", "loadMixedStack": "loadMixed", "loadMixedStack1": "loadMixed", "loadMixedStackLex": "loadMixed", "loadMixedStack1Lex": "loadMixed",
	"loadThisStack": "loadStack", "loadThisStash": "loadStack",
	"initStack1P": "initStackP", "initStashP": "initStackP",
}

var keepN = map[string]bool{"jump": true, "jne": true, "jeq": true, "jneP": true, "jeqP": true, "jcoalesc": true, "jcoalescP": true,
	"call": true, "_new": true, "rdupN": true, "dupLast": true, "concatStrings": true}

func fields(ins string) (name string, kv map[string]string) {
	parts := strings.Split(ins, "|")
	kv = map[string]string{}
	for _, p := range parts[1:] {
		if i := strings.Index(p, "="); i >= 0 {
			kv[p[:i]] = p[i+1:]
		}
	}
	return parts[0], kv
}

func canonInstr(ins string) string {
	name, kv := fields(ins)
	if c, ok := canonName[name]; ok {
		name = c
	}
	n := "0"
	if keepN[name] {
		n = kv["n"]
	}
	if name == "loadMixed" {
		n = kv["callee"]
	}
	if name == "try" { // both handler offsets, as one number (the model prints catchOffset*10000 + finallyOffset)
		c, _ := strconv.Atoi(kv["catchOffset"])
		f, _ := strconv.Atoi(kv["finallyOffset"])
		n = strconv.Itoa(c*10000 + f)
	}
	return name + ":" + n
}

func isMarker(ins, tag string) bool {
	return strings.HasPrefix(ins, "loadVal|") && strings.HasSuffix(ins, "|s=$"+tag)
}

func cmdCompile(ctx, src string) string {
	p, err := goja.Compile("", src, false)
	if err != nil {
		return "ERR " + common.OneLine(err.Error())
	}
	units := goja.VerifC01DumpProgram(p)
	var code []string
	if ctx == "g" || ctx == "G" {
		code = units[0].Code
	} else {
		if len(units) < 2 {
			return "ERR no function unit"
		}
		code = units[1].Code
	}
	start, end := -1, -1
	for i, ins := range code {
		if isMarker(ins, "@@1") {
			start = i + 3
		}
		if isMarker(ins, "@@2") {
			end = i
			// ctx G: the end marker is `var zz = "@@2"` (a statement with an empty result, so that the statement under
			// test is the last value-producing one of the program): resolveVar1 zz; loadVal; initValueP
			if ctx == "G" && i > 0 && strings.HasPrefix(code[i-1], "resolveVar1") {
				end = i - 1
			}
		}
	}
	if start < 0 || end < start {
		return "ERR markers not found"
	}
	var out []string
	for _, ins := range code[start:end] {
		out = append(out, canonInstr(ins))
	}
	return strings.Join(out, " ")
}

// ---- one program through everything ---------------------------------------------------------------------

type Result struct {
	Outcome   string   `json:"outcome"`             // ok | exception:<Name> | syntax | compile-error | interrupted | stack-overflow | ...
	Violation string   `json:"violation,omitempty"` // non-empty = property violated
	Detail    string   `json:"detail,omitempty"`
	Units     []string `json:"-"`
	unitKinds []string
}

func classifyPanic(x interface{}) string {
	s := fmt.Sprint(x)
	if len(s) > 300 {
		s = s[:300]
	}
	// the innermost goja function on the panicking stack (the frames after the last "panic(" line)
	site := ""
	lines := strings.Split(string(debug.Stack()), "\n")
	last := -1
	for i, l := range lines {
		if strings.HasPrefix(l, "panic(") {
			last = i
		}
	}
	for i := last + 1; i >= 0 && i < len(lines); i++ {
		l := lines[i]
		if strings.HasPrefix(l, "github.com/dop251/goja.") && !strings.Contains(l, "verifC01") {
			site = strings.TrimPrefix(l, "github.com/dop251/goja.")
			if k := strings.LastIndex(site, "("); k > 0 {
				site = site[:k]
			}
			break
		}
	}
	return fmt.Sprintf("%T: %s @%s", x, common.OneLine(s), site)
}

// errText: err.Error() of a goja error can itself panic (it converts the thrown value to a string, which may
// run script code); the harness must survive that.
func errText(err error) (s string) {
	defer func() {
		if x := recover(); x != nil {
			s = "<Error() panicked>"
		}
	}()
	return err.Error()
}

func hasBugText(s string) bool {
	return strings.Contains(s, "Compiler bug") || strings.Contains(s, "BUG:")
}

// runOne: Parse, Compile (with dump), instrumented RunProgram on a fresh runtime with a watchdog.
func runOne(src string, obs map[string]int, obsSkip map[string]int, timeout time.Duration) (res Result) {
	// 1. Parse
	func() {
		defer func() {
			if x := recover(); x != nil {
				res.Violation, res.Detail = "panic-in-parse", classifyPanic(x)
			}
		}()
		_, _ = goja.Parse("", src)
	}()
	if res.Violation != "" {
		return
	}
	// 2. Compile
	var prg *goja.Program
	var cerr error
	func() {
		defer func() {
			if x := recover(); x != nil {
				res.Violation, res.Detail = "panic-in-compile", classifyPanic(x)
			}
		}()
		prg, cerr = goja.Compile("", src, false)
	}()
	if res.Violation != "" {
		return
	}
	if cerr != nil {
		msg := errText(cerr)
		if hasBugText(msg) {
			res.Violation, res.Detail = "compiler-bug-diagnostic", common.OneLine(msg)
			return
		}
		if _, ok := cerr.(*goja.CompilerSyntaxError); ok {
			res.Outcome = "syntax"
		} else if _, ok := cerr.(*goja.CompilerReferenceError); ok {
			res.Outcome = "compile-reference-error"
		} else {
			res.Violation, res.Detail = "undocumented-compile-error-kind", fmt.Sprintf("%T: %s", cerr, common.OneLine(msg))
		}
		return
	}
	// 3. dump (before instrumenting: same code either way)
	for _, u := range goja.VerifC01DumpProgram(prg) {
		endOk := "0" // function / constructor: ends with ret
		if u.Kind == "program" {
			endOk = "1" // runs to the end of the code at the entry height
		} else if u.Kind == "fields" || u.Kind == "static" {
			endOk = "2" // field initialiser program: runs to the end with the frame's this slot still there
		}
		res.Units = append(res.Units, "verify "+endOk+" "+strings.Join(u.Code, ";"))
		res.unitKinds = append(res.unitKinds, u.Kind)
	}
	// 4. run, traced
	var o *goja.VerifC01Obs
	var evalUnits []goja.VerifC01Unit
	if obs != nil {
		o = goja.VerifC01Instrument(prg)
		o.EvalUnits = &evalUnits // code compiled by eval at run time is dumped and verified too
	}
	defer func() {
		for _, u := range evalUnits {
			endOk := "0"
			if u.Kind == "eval" {
				endOk = "1"
			} else if u.Kind == "fields" || u.Kind == "static" {
				endOk = "2"
			}
			res.Units = append(res.Units, "verify "+endOk+" "+strings.Join(u.Code, ";"))
			res.unitKinds = append(res.unitKinds, u.Kind)
		}
	}()
	vm := goja.New()
	vm.SetMaxCallStackSize(400)
	sp0, _, cs0, ts0, is0, rs0 := goja.VerifC01SP(vm)
	timer := time.AfterFunc(timeout, func() { vm.Interrupt("timeout") })
	var rerr error
	func() {
		defer func() {
			if x := recover(); x != nil {
				res.Violation, res.Detail = "panic-in-run", classifyPanic(x)
			}
		}()
		_, rerr = vm.RunProgram(prg)
	}()
	timer.Stop()
	if o != nil {
		for k, n := range o.Counts {
			obs[k] += n
		}
		for k, n := range o.FrameSwitch {
			obsSkip["frame-switch "+strings.SplitN(k, "|", 2)[0]] += n
		}
		for k, n := range o.Handler {
			obsSkip["handler "+strings.SplitN(k, "|", 2)[0]] += n
		}
	}
	if res.Violation != "" {
		return
	}
	switch e := rerr.(type) {
	case nil:
		res.Outcome = "ok"
	case *goja.Exception:
		name := "value"
		if obj, ok := e.Value().(*goja.Object); ok {
			func() {
				defer func() { _ = recover() }()
				if c := obj.Get("name"); c != nil {
					name = c.String()
				}
			}()
		}
		if len(name) > 24 {
			name = name[:24]
		}
		res.Outcome = "exception:" + name
		if hasBugText(errText(e)) {
			res.Violation, res.Detail = "compiler-bug-diagnostic", common.OneLine(errText(e))
			return
		}
	case *goja.InterruptedError:
		res.Outcome = "interrupted"
	case *goja.StackOverflowError:
		res.Outcome = "stack-overflow"
	default:
		res.Violation, res.Detail = "undocumented-error-kind", fmt.Sprintf("%T: %s", rerr, common.OneLine(errText(rerr)))
		return
	}
	// 5. the VM must be back at its entry state (interrupt included)
	defer func() {
		// 6. (only if nothing else is wrong) the returned error must be usable: Error() must not panic
		if res.Violation == "" && rerr != nil {
			func() {
				defer func() {
					if x := recover(); x != nil {
						res.Violation, res.Detail = "error-method-panics", classifyPanic(x)
					}
				}()
				_ = rerr.Error()
			}()
		}
	}()
	sp1, sb1, cs1, ts1, is1, rs1 := goja.VerifC01SP(vm)
	if sp1 != sp0 || cs1 != cs0 || ts1 != ts0 || is1 != is0 || rs1 != rs0 || sb1 != -1 {
		res.Violation = "vm-state-not-restored"
		res.Detail = fmt.Sprintf("outcome=%s sp %d->%d sb=%d callStack %d->%d tryStack %d->%d iterStack %d->%d refStack %d->%d",
			res.Outcome, sp0, sp1, sb1, cs0, cs1, ts0, ts1, is0, is1, rs0, rs1)
	}
	return
}

func cmdRun(src string) string {
	obs, skip := map[string]int{}, map[string]int{}
	r := runOne(src, obs, skip, 2*time.Second)
	type out struct {
		Result
		Units []string `json:"units"`
		Obs   []string `json:"obs"`
	}
	var ol []string
	for k, n := range obs {
		ol = append(ol, "obs "+k+" "+strconv.Itoa(n))
	}
	sort.Strings(ol)
	b, _ := json.Marshal(out{r, r.Units, ol})
	return string(b)
}

// ---- search -----------------------------------------------------------------------------------------------

type Violation struct {
	Kind   string `json:"kind"`
	Detail string `json:"detail"`
	Src    string `json:"src"`
	Class  string `json:"class"`
	Id     int    `json:"id"`
}

type Summary struct {
	Programs   int            `json:"programs"`
	Classes    map[string]int `json:"classes"`
	Outcomes   map[string]int `json:"outcomes"`
	Units      int            `json:"units"`
	Instrs     int            `json:"instrs"`
	Bytes      int            `json:"bytes"`
	MaxLen     int            `json:"max_len"`
	Violations []Violation    `json:"violations"`
	Dropped    int            `json:"violations_dropped"`
	Written    int            `json:"units_written"`
	WriteErr   string         `json:"write_error"`
	ObsSkipped map[string]int `json:"obs_skipped"`
	Seconds    float64        `json:"seconds"`
	CPUSeconds float64        `json:"cpu_seconds"`
	Samples    []string       `json:"samples"`
}

func cmdSearch(args []string) string {
	if len(args) != 7 {
		return "ERR usage"
	}
	seed, _ := strconv.ParseUint(args[0], 10, 64)
	shard, _ := strconv.Atoi(args[1])
	nshards, _ := strconv.Atoi(args[2])
	count, _ := strconv.Atoi(args[3])
	secs, _ := strconv.ParseFloat(args[4], 64)
	prefix := args[5]
	maxDepth, _ := strconv.Atoi(args[6])
	r := &common.SplitMix64{S: seed*1000003 + uint64(shard)*7919 + 17}
	_ = nshards
	dumpF, err := os.Create(prefix + ".dump")
	if err != nil {
		return "ERR " + err.Error()
	}
	defer dumpF.Close()
	srcF, _ := os.Create(prefix + ".src")
	defer srcF.Close()
	dw := bufio.NewWriterSize(dumpF, 1<<20)
	sw := bufio.NewWriterSize(srcF, 1<<20)
	defer dw.Flush()
	defer sw.Flush()
	sum := Summary{Classes: map[string]int{}, Outcomes: map[string]int{}, ObsSkipped: map[string]int{}}
	obs := map[string]int{}
	seenUnit := map[string]bool{}
	t0 := time.Now()
	// the budget is CPU time of this process (load tolerant); wall time only as a very generous safety net
	cpu0 := cpuSeconds()
	wallCap := t0.Add(time.Duration(secs*40*float64(time.Second)) + 5*time.Minute)
	var lastValid string
	// … and a floor on the number of programs: on a heavily loaded many-core machine the CPU time of a Go process is
	// inflated by scheduler and GC-worker contention (measured: 18 instead of 96 programs per CPU-second at load 100+),
	// which would silently shrink the search
	minPrograms := int(secs * 40)
	for i := 0; i < count && (cpuSeconds()-cpu0 < secs || i < minPrograms) && time.Now().Before(wallCap); i++ {
		var src, class string
		k := r.Intn(100)
		switch {
		case k < 62:
			o := GenOpt{Strict: r.Intn(3) == 0, Placement: r.Intn(3), MaxDepth: 3 + r.Intn(maxDepth), MaxLen: 3000 + r.Intn(6000)}
			if r.Intn(40) == 0 {
				o.MaxLen = 60000
			}
			src = GenProgram(r, o)
			class = fmt.Sprintf("gen/s%v/p%d", o.Strict, o.Placement)
			lastValid = src
		case k < 68:
			d := []int{20, 50, 100, 200}[r.Intn(4)]
			src = GenDeep(r, GenOpt{MaxDepth: d})
			if r.Intn(3) == 0 {
				src = "\"use strict\"; " + src
			}
			if r.Intn(4) == 0 {
				src = "(function(){ " + src + " })();"
			}
			class = "deep"
		case k < 90:
			base := lastValid
			if base == "" || r.Intn(3) == 0 {
				base = GenProgram(r, GenOpt{Strict: r.Intn(3) == 0, Placement: r.Intn(3), MaxDepth: 4, MaxLen: 1500})
			}
			src = MutateTokens(r, base)
			class = "mutated"
		default:
			src = RandomBytes(r, 1+r.Intn(400))
			class = "bytes"
		}
		if len(src) > 65536 {
			src = src[:65536]
		}
		sum.Programs++
		sum.Classes[class]++
		sum.Bytes += len(src)
		if len(src) > sum.MaxLen {
			sum.MaxLen = len(src)
		}
		// remember the program being run: a fatal Go error (stack exhaustion, out of memory) kills the process
		// without passing through recover, and the orchestrator then finds the culprit here
		_ = os.WriteFile(prefix+".cur", []byte(src), 0o644)
		res := runOne(src, obs, sum.ObsSkipped, time.Second)
		if res.Violation != "" {
			sum.Outcomes["VIOLATION:"+res.Violation]++
			if len(sum.Violations) < 400 && len(src) <= 16384 || len(sum.Violations) < 20 {
				sum.Violations = append(sum.Violations, Violation{res.Violation, res.Detail, src, class, i})
			} else {
				sum.Dropped++
			}
		} else {
			sum.Outcomes[res.Outcome]++
		}
		wroteSrc := false
		for ui, u := range res.Units {
			sum.Units++
			sum.Instrs += strings.Count(u, ";") + 1
			if seenUnit[u] {
				continue
			}
			seenUnit[u] = true
			if _, err := fmt.Fprintf(dw, "%d %d %s %s\n", i, ui, res.unitKinds[ui], u); err != nil && sum.WriteErr == "" {
				sum.WriteErr = err.Error()
			}
			sum.Written++
			if !wroteSrc {
				b, _ := json.Marshal(map[string]interface{}{"id": i, "class": class, "src": src})
				sw.Write(b)
				sw.WriteByte('\n')
				wroteSrc = true
			}
		}
		if len(sum.Samples) < 3 && class[0] == 'g' && len(src) < 1200 {
			sum.Samples = append(sum.Samples, src)
		}
	}
	of, _ := os.Create(prefix + ".obs")
	ow := bufio.NewWriter(of)
	keys := make([]string, 0, len(obs))
	for k := range obs {
		keys = append(keys, k)
	}
	sort.Strings(keys)
	for _, k := range keys {
		fmt.Fprintf(ow, "obs %s %d\n", k, obs[k])
	}
	ow.Flush()
	of.Close()
	if err := dw.Flush(); err != nil && sum.WriteErr == "" {
		sum.WriteErr = err.Error()
	}
	if err := sw.Flush(); err != nil && sum.WriteErr == "" {
		sum.WriteErr = err.Error()
	}
	sum.Seconds = time.Since(t0).Seconds()
	sum.CPUSeconds = cpuSeconds() - cpu0
	b, _ := json.Marshal(sum)
	return string(b)
}

func cpuSeconds() float64 {
	var ru syscall.Rusage
	if err := syscall.Getrusage(syscall.RUSAGE_SELF, &ru); err != nil {
		return 0
	}
	return float64(ru.Utime.Sec+ru.Stime.Sec) + float64(ru.Utime.Usec+ru.Stime.Usec)/1e6
}

func unhex(s string) string {
	b, err := hex.DecodeString(s)
	if err != nil {
		return ""
	}
	return string(b)
}

// loop: like common.Loop, but flushes after every answer (the orchestrator talks to the harness interactively).
func loop(f func(line string) string) {
	in := bufio.NewScanner(os.Stdin)
	in.Buffer(make([]byte, 1<<20), 1<<26)
	out := bufio.NewWriterSize(os.Stdout, 1<<16)
	for in.Scan() {
		line := in.Text()
		out.WriteString(common.Safe(func() string { return f(line) }))
		out.WriteByte('\n')
		out.Flush()
	}
}

func main() {
	debug.SetGCPercent(200)
	debug.SetMaxStack(256 << 20)
	loop(func(line string) string {
		f := strings.Fields(line)
		if len(f) == 0 {
			return "ERR empty"
		}
		switch f[0] {
		case "compile":
			if len(f) != 3 {
				return "ERR usage"
			}
			return cmdCompile(f[1], unhex(f[2]))
		case "classify":
			if len(f) != 2 {
				return "ERR usage"
			}
			return goja.VerifC01Classify(goja.New(), f[1])
		case "run":
			if len(f) != 2 {
				return "ERR usage"
			}
			return cmdRun(unhex(f[1]))
		case "search":
			return cmdSearch(f[1:])
		}
		return "ERR unknown command"
	})
}
