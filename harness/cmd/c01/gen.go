package main

// Seeded grammar-based generator of JavaScript programs over the syntax goja supports, a token-level mutator and a
// raw byte-string generator (property C01).  Everything derives from one SplitMix64.

import (
	"fmt"
	"strings"

	"verifharness/common"
)

type GenOpt struct {
	Strict    bool
	Placement int // 0 global, 1 function, 2 eval
	MaxDepth  int
	MaxLen    int
}

type jsgen struct {
	r      *common.SplitMix64
	o      GenOpt
	b      int // statement budget
	strict bool
	// context
	inFunc, inArrow, inGen, inAsync, inMethod, inDerivedCtor, inClassInit bool
	loops, switches                                                       int
	labels                                                                []string
	privs                                                                 []string // private names in scope
	uid                                                                   int
	realFunc                                                              bool            // inside a non-arrow function (new.target / arguments allowed)
	noReturn                                                              bool            // class static block / field initialiser: no return
	lex                                                                   map[string]bool // names declared let/const/class in the current function scope
	simpleParams                                                          bool            // last params() produced a simple parameter list
	risk                                                                  int             // how many compile-time-rejectable constructs this program may still contain
}

var gIds = []string{"a", "b", "c", "x", "y", "z", "f", "g", "o", "arr", "u1", "é", "日本", "\\u0061b"}

func (g *jsgen) n(k int) int             { return g.r.Intn(k) }
func (g *jsgen) p(pct int) bool          { return g.r.Intn(100) < pct }
func (g *jsgen) pick(xs []string) string { return xs[g.r.Intn(len(xs))] }
func (g *jsgen) id() string              { return g.pick(gIds) }
func (g *jsgen) fresh(p string) string {
	g.uid++
	if g.p(15) {
		// non-ASCII / escaped identifier characters wherever a fresh identifier is used (parameters, rest elements,
		// labels, class and function names, private names, pattern variables)
		if strings.HasPrefix(p, "#") {
			return fmt.Sprintf("#%s%s%d", g.pick([]string{"é", "日本", "\\u0061", "\\u{62}", "𐐀"}), p[1:], g.uid)
		}
		return fmt.Sprintf("%s%s%d", g.pick([]string{"é", "日本", "\\u0061", "\\u{62}", "𐐀", "ñ_"}), p, g.uid)
	}
	return fmt.Sprintf("%s%d", p, g.uid)
}

var gEdgeCodePoints = []string{"0", "61", "D7FF", "D800", "DBFF", "DC00", "DFFF", "FFFF", "10000", "10FFFF", "10FFFE", "110000", "FFFFFFFF", "00000041"}

// edgeEscape: a \u escape at the boundaries of the code point range, well-formed or truncated
func (g *jsgen) edgeEscape() string {
	if g.risk <= 0 {
		// only escapes every context accepts
		cp := g.pick([]string{"0", "61", "D7FF", "FFFF", "10000", "10FFFF", "10FFFE", "00000041", "E000"})
		switch g.n(4) {
		case 0, 1:
			return "\\u{" + cp + "}"
		case 2:
			return g.pick([]string{"\\uD83D\\uDE00", "\\u0041", "\\uFFFF", "\\uD800\\uDC00", "\\uDBFF\\uDFFF"})
		default:
			return g.pick([]string{"é", "日", "𐐀", "a", "\\x41"})
		}
	}
	g.risk--
	cp := g.pick(gEdgeCodePoints)
	switch g.n(9) {
	case 0, 1, 2, 3:
		return "\\u{" + cp + "}"
	case 4:
		if len(cp) <= 4 {
			return "\\u" + strings.Repeat("0", 4-len(cp)) + cp
		}
		return "\\uD83D\\uDE00"
	case 5:
		return g.pick([]string{"\\uD83D\\uDE00", "\\uD83D", "\\uDE00", "\\uDBFF\\uDFFF", "\\uD800\\uDC00"})
	case 6:
		return g.pick([]string{"\\uD83D\\uDE0", "\\uD83D\\u", "\\uD83D\\", "\\u{", "\\u{}", "\\u{1", "\\u12", "\\u", "\\x4", "\\u{10FFFF", "\\uD83D\\uDE0g"})
	case 7:
		return g.pick([]string{"\\x41", "\\0", "\\1", "\\u2028", "\\\n", "\\cA", "\\k<n>", "\\p{L}", "\\P{Lu}", "\\p{", "\\b", "\\B", "\\d"})
	default:
		return g.pick([]string{"é", "日", "𐐀", "\u2028", "a"})
	}
}

// regexBody: a regular expression pattern over the constructs the engines treat specially
func (g *jsgen) regexBody(d int) string {
	var b strings.Builder
	k := 1 + g.n(4)
	for i := 0; i < k; i++ {
		switch g.n(12) {
		case 0, 1:
			b.WriteString(g.pick([]string{"a", "b", ".", "\\d", "\\w+", "x*", "y?", "^", "$", "é", "\\s", "[^]", "[]"}))
		case 2, 3, 4:
			b.WriteString(g.edgeEscape())
		case 5:
			b.WriteString("[" + g.pick([]string{"a-z", "^a", "\\d-x", "é-ü"}) + g.edgeEscape() + g.pick([]string{"", "-" + g.edgeEscape()}) + "]")
		case 6:
			if d > 0 {
				b.WriteString(g.pick([]string{"(", "(?:", "(?=", "(?!", "(?<=", "(?<!", "(?<n>", "(?<é>"}) + g.regexBody(d-1) + ")")
			} else {
				b.WriteString("(a)")
			}
		case 7:
			b.WriteString(g.pick([]string{"a{2}", "a{1,}", "a{1,2}?", "a{,2}", "a{2,1}", "a**", "+", "{", "}", "a{99999999999}"}))
		case 8:
			b.WriteString(g.pick([]string{"\\1", "\\2", "\\k<n>", "(?<n>a)\\k<n>", "(a)|b", "|", "a|"}))
		case 9:
			b.WriteString(g.pick([]string{"\\/", "\\\\", "[/]", "\\]", "\\-"}))
		default:
			b.WriteString(g.pick([]string{"ab", "12", "é+", "(?:)", "\\uD83D\\uDE00+", "[\\uD83D\\uDE00]", "\\uD83D\\uDE00"}))
		}
	}
	if g.p(25) { // make a \u escape (possibly truncated) the very end of the pattern
		b.WriteString(g.edgeEscape())
	}
	return b.String()
}

func (g *jsgen) regexFlags() string {
	fl := ""
	for _, f := range []string{"g", "i", "m", "s", "u", "y", "d"} {
		if g.p(30) {
			fl += f
		}
	}
	if g.p(45) && !strings.Contains(fl, "u") {
		fl += "u"
	}
	if g.p(4) {
		fl += g.pick([]string{"u", "g", "x", "v"})
	}
	return fl
}

// regexExpr: a regular expression (literal, or built at run time from the same pattern text) and a use of it
func (g *jsgen) regexExpr(d int) string {
	fl := g.regexFlags()
	literal := g.risk > 0 && g.p(60)
	saved := g.risk
	if !literal {
		g.risk = 1000 // a pattern built at run time sits in a string literal: every escape, also truncated ones, is allowed
	}
	body := g.regexBody(d)
	if !literal {
		g.risk = saved
	}
	var re string
	if literal && body != "" && !strings.HasPrefix(body, "*") && !strings.Contains(body, "\n") {
		g.risk--
		re = "/" + body + "/" + fl
	} else if g.p(15) {
		re = g.pick([]string{"/\\uD83D\\uDE00/u", "/[\\u{10000}-\\u{10FFFF}]+/gu", "/(?<n>é)\\k<n>/u", "/a\\u{61}/u", "/\\uD83D/", "/^.$/su"})
	} else {
		q := gQuote(strings.ReplaceAll(body, "\\", "\\"))
		re = g.pick([]string{"new RegExp(", "RegExp("}) + q + ", \"" + fl + "\")"
	}
	subj := g.pick([]string{"\"a\\uD83D\\uDE00b\"", "\"aab\"", "\"\"", "\"é\\u{10FFFE}\"", "arr", "\"\\uD83D\"", "\"x\\uDE00\"", "\"aé\""})
	switch g.n(8) {
	case 0:
		return re
	case 1:
		return re + ".test(" + subj + ")"
	case 2:
		return re + ".exec(" + subj + ")"
	case 3:
		return subj + ".replace(" + re + ", " + g.pick([]string{"\"$1$<n>$&\"", "\"\"", "(m) => m + m", "\"$\""}) + ")"
	case 4:
		return subj + ".match(" + re + ")"
	case 5:
		return "[..." + subj + ".matchAll(" + re + ")]"
	case 6:
		return subj + ".split(" + re + ", 5)"
	default:
		return subj + ".search(" + re + ")"
	}
}

// edgeLit: string / template / identifier / regexp literals built around boundary escapes
func (g *jsgen) edgeLit(d int) string {
	switch g.n(7) {
	case 0, 1:
		return "\"" + g.pick([]string{"", "a"}) + g.edgeEscape() + g.pick([]string{"", g.edgeEscape()}) + "\""
	case 2:
		return "'" + g.edgeEscape() + "'"
	case 3:
		return "`" + g.edgeEscape() + "${" + g.lit() + "}" + g.edgeEscape() + "`"
	case 4:
		return "String.raw`" + g.edgeEscape() + "`"
	case 5:
		if g.risk > 0 {
			g.risk--
			return g.pick([]string{"a\\u{10000}", "\\u{10FFFF}", "\\u{110000}", "\\uD83D\\uDE00", "\\u{0}x", "o.\\u{110000}"})
		}
		return g.pick([]string{"\\u{61}", "\\u0061", "é\\u{62}", "o.\\u{61}", "o.é", "({é: 1, \\u{62}: 2}).é", "o[\"\\u{10FFFF}\"]"})
	default:
		return g.regexExpr(d)
	}
}

var gLits = []string{"0", "1", "2", "-1", "\"\"", "\"a\"", "'str'", "true", "false", "null", "void 0", "1n", "0n", "0.5", "1e3",
	"NaN", "undefined", "/a+/g", "`t`", "[]", "{}", "0x10", "-0", "Infinity", "\"__proto__\""}

var gBinOps = []string{"+", "-", "*", "/", "%", "**", "<", ">", "<=", ">=", "==", "!=", "===", "!==", "&", "|", "^", "<<", ">>", ">>>", "in", "instanceof"}
var gAssignOps = []string{"=", "+=", "-=", "*=", "/=", "%=", "**=", "&=", "|=", "^=", "<<=", ">>=", ">>>=", "&&=", "||=", "??="}
var gUnOps = []string{"!", "~", "-", "+", "typeof ", "void ", "delete "}

func (g *jsgen) lit() string { return g.pick(gLits) }

func (g *jsgen) constExpr(d int) string {
	if d <= 0 || g.p(40) {
		return g.lit()
	}
	switch g.n(6) {
	case 0:
		return "((" + g.constExpr(d-1) + ") " + g.pick(gBinOps[:20]) + " " + g.constExpr(d-1) + ")"
	case 1:
		return "(" + g.constExpr(d-1) + " " + g.pick([]string{"&&", "||", "??"}) + " " + g.constExpr(d-1) + ")"
	case 2:
		return g.pick(gUnOps[:6]) + g.constExpr(d-1)
	case 3:
		return "(" + g.constExpr(d-1) + ", " + g.constExpr(d-1) + ")"
	case 4:
		return "(" + g.constExpr(d-1) + " ? " + g.constExpr(d-1) + " : " + g.constExpr(d-1) + ")"
	default:
		return "(" + g.constExpr(d-1) + ")"
	}
}

// target of an assignment / update
func (g *jsgen) target(d int) string {
	switch g.n(10) {
	case 0, 1, 2, 3:
		return g.id()
	case 4, 5:
		return g.lhsBase(d-1) + "." + g.pick([]string{"x", "y", "z", "length", "f"})
	case 6:
		return g.lhsBase(d-1) + "[" + g.expr(d-1) + "]"
	case 7:
		if g.inMethod {
			return g.pick([]string{"super.x", "super[" + g.expr(d-1) + "]"})
		}
		return g.id() + ".x"
	case 8:
		if len(g.privs) > 0 && g.inMethod {
			return "this." + g.pick(g.privs)
		}
		return "o.y.z"
	default:
		if g.realFunc && !g.inClassInit && !g.strict {
			return g.pick([]string{"arguments", "arguments[0]"})
		}
		return "arr[0]"
	}
}

// lhsBase: an object expression that may be followed by .name / [expr] in an assignment target
func (g *jsgen) lhsBase(d int) string {
	switch g.n(6) {
	case 0:
		return g.pick([]string{"o", "arr", "o.y", "f", "g"})
	case 1:
		if g.inFunc || g.inMethod {
			return "this"
		}
		return "o"
	case 2:
		if d > 0 {
			return "(" + g.expr(d-1) + ")"
		}
		return "o"
	default:
		return g.id()
	}
}

func (g *jsgen) member(d int) string {
	base := g.primary(d)
	switch g.n(6) {
	case 0, 1:
		return base + "." + g.pick([]string{"x", "y", "z", "length", "f", "constructor"})
	case 2:
		return base + "[" + g.expr(d-1) + "]"
	case 3:
		return base + "?." + g.pick([]string{"x", "y", "f"})
	case 4:
		return base + "?.[" + g.expr(d-1) + "]"
	default:
		return base + "[\"x\"]"
	}
}

func (g *jsgen) primary(d int) string {
	switch g.n(9) {
	case 0, 1, 2:
		return g.id()
	case 3:
		return g.pick([]string{"o", "arr", "o.y", "this"})
	case 4:
		return "(" + g.expr(d-1) + ")"
	case 5:
		return "(" + g.lit() + ")"
	default:
		return g.pick([]string{"o", "arr", "f", "g", "a"})
	}
}

func (g *jsgen) args(d int) string {
	k := g.n(4)
	var xs []string
	for i := 0; i < k; i++ {
		if g.p(15) {
			xs = append(xs, "..."+g.pick([]string{"arr", "[1,2]", "\"ab\"", g.expr(d - 1)}))
		} else {
			xs = append(xs, g.expr(d-1))
		}
	}
	return "(" + strings.Join(xs, ", ") + ")"
}

func (g *jsgen) pattern(d int, decl bool) string {
	leaf := func() string {
		if decl {
			return g.fresh("p")
		}
		return g.target(d - 1)
	}
	sub := func() string {
		if d > 1 && g.p(30) {
			nested := g.pattern(d-1, decl)
			if g.p(50) {
				// nested pattern with an initialiser: `{p: [a,,b] = [7,8,9]}`
				nested += " = " + g.pick([]string{"[7, 8, 9]", "{x: 1, y: [2]}", "arr", "o", "\"ab\"", "[[1], [2]]", "[]", "{}"})
			}
			return nested
		}
		t := leaf()
		if g.p(30) {
			t += " = " + g.expr(d-1)
		}
		return t
	}
	if g.p(50) {
		k := g.n(3) + 1
		var xs []string
		for i := 0; i < k; i++ {
			if g.p(22) {
				xs = append(xs, "")
				if g.p(30) {
					xs = append(xs, "")
				}
			} else {
				xs = append(xs, sub())
			}
		}
		if g.p(25) {
			xs = append(xs, "..."+leaf())
		}
		return "[" + strings.Join(xs, ", ") + "]"
	}
	k := g.n(3) + 1
	var xs []string
	for i := 0; i < k; i++ {
		switch g.n(3) {
		case 0:
			if decl {
				nm := g.fresh("q")
				xs = append(xs, nm)
			} else {
				xs = append(xs, g.pick([]string{"x", "y"})+": "+sub())
			}
		case 1:
			xs = append(xs, g.pick([]string{"x", "y", "z"})+": "+sub())
		default:
			xs = append(xs, "["+g.expr(d-1)+"]: "+sub())
		}
	}
	if g.p(20) {
		xs = append(xs, "..."+func() string {
			if decl {
				return g.fresh("r")
			}
			return g.id()
		}())
	}
	return "{" + strings.Join(xs, ", ") + "}"
}

func (g *jsgen) params(d int) string {
	k := g.n(4)
	g.simpleParams = true
	var xs []string
	for i := 0; i < k; i++ {
		switch g.n(6) {
		case 0:
			g.simpleParams = false
			xs = append(xs, g.fresh("p")+" = "+g.expr(d-1))
		case 1:
			g.simpleParams = false
			xs = append(xs, g.pattern(d-1, true))
		case 2:
			g.simpleParams = false
			xs = append(xs, g.pattern(d-1, true)+" = "+g.pick([]string{"[]", "{}", "arr", "o"}))
		default:
			xs = append(xs, g.pick([]string{"a", "b", "c", "x"})+fmt.Sprint(i))
		}
	}
	if g.p(15) {
		g.simpleParams = false
		xs = append(xs, "..."+g.fresh("rest"))
	}
	return "(" + strings.Join(xs, ", ") + ")"
}

type gCtx struct {
	realFunc, noReturn                                                            bool
	lex                                                                           map[string]bool
	inFunc, inArrow, inGen, inAsync, inMethod, inDerivedCtor, inClassInit, strict bool
	loops, switches                                                               int
	labels                                                                        []string
}

func (g *jsgen) save() gCtx {
	return gCtx{g.realFunc, g.noReturn, g.lex, g.inFunc, g.inArrow, g.inGen, g.inAsync, g.inMethod, g.inDerivedCtor, g.inClassInit, g.strict, g.loops, g.switches, g.labels}
}
func (g *jsgen) restore(c gCtx) {
	g.realFunc, g.noReturn, g.lex = c.realFunc, c.noReturn, c.lex
	g.inFunc, g.inArrow, g.inGen, g.inAsync, g.inMethod, g.inDerivedCtor, g.inClassInit, g.strict, g.loops, g.switches, g.labels =
		c.inFunc, c.inArrow, c.inGen, c.inAsync, c.inMethod, c.inDerivedCtor, c.inClassInit, c.strict, c.loops, c.switches, c.labels
}

// funcBody: `{ decls; stmts }` in a fresh function context
func (g *jsgen) funcBody(d int, gen, async, arrow, method bool) string {
	c := g.save()
	defer g.restore(c)
	if !arrow {
		g.inMethod = method
		g.inDerivedCtor = false
		g.inClassInit = false
	}
	simple := g.simpleParams
	g.inFunc, g.inArrow, g.inGen, g.inAsync = true, arrow, gen, async
	if !arrow {
		g.realFunc = true
		g.noReturn = false
	}
	g.lex = map[string]bool{}
	g.loops, g.switches, g.labels = 0, 0, nil
	var b strings.Builder
	b.WriteString("{ ")
	if !g.strict && simple && g.p(8) {
		b.WriteString("\"use strict\"; ")
		g.strict = true
	}
	if g.p(40) {
		b.WriteString(g.localDecls(d))
	}
	k := g.n(3) + 1
	for i := 0; i < k; i++ {
		b.WriteString(g.stmt(d - 1))
		b.WriteString(" ")
	}
	if g.p(50) && !g.noReturn {
		b.WriteString("return " + g.expr(d-1) + "; ")
	}
	b.WriteString("}")
	return b.String()
}

func (g *jsgen) localDecls(d int) string {
	var b strings.Builder
	for _, id := range []string{"a", "x", "f", "c"} {
		if !g.p(35) {
			continue
		}
		switch g.n(4) {
		case 0:
			b.WriteString("var " + id + " = " + g.expr(d-1) + "; ")
		case 1:
			g.lex[id] = true
			b.WriteString("let " + id + " = " + g.expr(d-1) + "; ")
		case 2:
			g.lex[id] = true
			b.WriteString("const " + id + " = " + g.expr(d-1) + "; ")
		default:
			b.WriteString("var " + id + "; ")
		}
	}
	return b.String()
}

func (g *jsgen) funcExpr(d int) string {
	if d <= 0 {
		return "function(){}"
	}
	switch g.n(8) {
	case 0:
		return "function " + g.pick([]string{"f", "g", "a", "x"}) + g.params(d) + " " + g.funcBody(d, false, false, false, false)
	case 1:
		return "function" + g.params(d) + " " + g.funcBody(d, false, false, false, false)
	case 2:
		if g.p(50) {
			return "(" + g.params(d) + " => " + g.funcBody(d, false, false, true, false) + ")"
		}
		c := g.save()
		ps := g.params(d)
		g.inArrow, g.inGen, g.inAsync = true, false, false
		g.inFunc = true
		s := "(" + ps + " => (" + g.expr(d-1) + "))"
		g.restore(c)
		return s
	case 3:
		return "function*" + g.params(d) + " " + g.funcBody(d, true, false, false, false)
	case 4:
		return "async function" + g.params(d) + " " + g.funcBody(d, false, true, false, false)
	case 5:
		return "(async " + g.params(d) + " => " + g.funcBody(d, false, true, true, false) + ")"
	case 6:
		return g.classExpr(d)
	default:
		return "function " + g.pick([]string{"f", "g"}) + "() " + g.funcBody(d, false, false, false, false)
	}
}

func (g *jsgen) propKey(d int) string {
	switch g.n(6) {
	case 0:
		return "[" + g.expr(d-1) + "]"
	case 1:
		return "[" + g.constExpr(1) + "]"
	case 2:
		return g.pick([]string{"\"s\"", "1", "0x2"})
	default:
		return g.pick([]string{"x", "y", "z", "f", "m", "get", "set", "static", "async"})
	}
}

func (g *jsgen) classExpr(d int) string {
	c := g.save()
	savedPrivs := g.privs
	defer func() { g.restore(c); g.privs = savedPrivs }()
	g.strict = true
	var b strings.Builder
	b.WriteString("class ")
	if g.p(50) {
		b.WriteString(g.pick([]string{"C", "D", "f", "a"}) + " ")
	}
	derived := g.p(40)
	if derived {
		b.WriteString("extends " + g.pick([]string{"Object", "Array", "null", "(class {})", "Function", "o.f", g.expr(d - 1)}) + " ")
	}
	b.WriteString("{ ")
	np := g.n(3)
	var privs []string
	for i := 0; i < np; i++ {
		privs = append(privs, g.fresh("#p"))
	}
	g.privs = append(append([]string{}, g.privs...), privs...)
	for _, pn := range privs {
		st := ""
		if g.p(30) {
			st = "static "
		}
		switch g.n(4) {
		case 0:
			g.inClassInit = true
			b.WriteString(st + pn + " = " + g.exprIn(d-1, true) + "; ")
			g.inClassInit = false
		case 1:
			b.WriteString(st + pn + g.params(d-1) + " " + g.funcBody(d-1, false, false, false, true) + " ")
		case 2:
			b.WriteString(st + "get " + pn + "() " + g.funcBody(d-1, false, false, false, true) + " ")
		default:
			b.WriteString(st + pn + "; ")
		}
	}
	if g.p(50) {
		cc := g.save()
		g.inDerivedCtor = derived
		body := g.funcBody(d-1, false, false, false, true)
		if derived {
			body = "{ super" + g.args(d-1) + "; " + body[1:]
			c2 := g.save()
			_ = c2
		}
		g.restore(cc)
		b.WriteString("constructor" + g.params(d-1) + " " + body + " ")
	}
	k := g.n(7)
	for i := 0; i < k; i++ {
		st := ""
		if g.p(40) {
			st = "static "
		}
		switch g.n(8) {
		case 0:
			b.WriteString(st + g.propKey(d) + g.params(d-1) + " " + g.funcBody(d-1, false, false, false, true) + " ")
		case 1:
			b.WriteString(st + "get " + g.propKey(d) + "() " + g.funcBody(d-1, false, false, false, true) + " ")
		case 2:
			b.WriteString(st + "set " + g.propKey(d) + "(v) " + g.funcBody(d-1, false, false, false, true) + " ")
		case 3:
			b.WriteString(st + "*" + g.propKey(d) + g.params(d-1) + " " + g.funcBody(d-1, true, false, false, true) + " ")
		case 4:
			b.WriteString(st + "async " + g.propKey(d) + g.params(d-1) + " " + g.funcBody(d-1, false, true, false, true) + " ")
		case 5:
			g.inClassInit = true
			b.WriteString(st + g.propKey(d) + " = " + g.exprIn(d-1, true) + "; ")
			g.inClassInit = false
		case 6:
			g.simpleParams = true
			body := g.funcBody(d-1, false, false, false, true)
			b.WriteString("static " + g.staticBlock(d-1) + " ")
			_ = body
		default:
			b.WriteString(st + g.propKey(d) + "; ")
		}
	}
	// boundary class "member order": the code emitted for a member depends on what the previous member left on the
	// operand stack (class function, prototype copy, static-field initialiser). One member of each layout category —
	// prototype / static × plain / computed key × method / accessor / field — in a random order, with trivial bodies,
	// so that every adjacent pair of categories turns up within a few classes.
	if g.p(30) {
		canon := []string{"m1() {}", "static s1() {}", "[o.x] = 1;", "static [o.y] = 2;", "get [\"k\" + 1]() { return 1; }",
			"static set [arr[0]](v) {}", "f1 = 3;", "static f2 = 4;", "static [f] () {}", "*[g]() {}"}
		for i := len(canon) - 1; i > 0; i-- {
			j := g.n(i + 1)
			canon[i], canon[j] = canon[j], canon[i]
		}
		for _, m := range canon[:3+g.n(len(canon)-2)] {
			b.WriteString(m + " ")
		}
	}
	b.WriteString("}")
	return b.String()
}

// staticBlock: `{ stmts }` of a class static initialisation block (no return, no arguments, this/super allowed)
func (g *jsgen) staticBlock(d int) string {
	c := g.save()
	defer g.restore(c)
	g.inMethod, g.inFunc, g.inArrow, g.inGen, g.inAsync, g.inClassInit, g.noReturn = true, true, false, false, false, true, true
	g.realFunc = false
	g.lex = map[string]bool{}
	g.loops, g.switches, g.labels = 0, 0, nil
	var b strings.Builder
	b.WriteString("{ ")
	for i := 0; i < 1+g.n(2); i++ {
		b.WriteString(g.stmt(d-1) + " ")
	}
	b.WriteString("}")
	return b.String()
}

// exprIn: expression inside a class member initialiser (this/super allowed, arguments not)
func (g *jsgen) exprIn(d int, method bool) string {
	c := g.save()
	defer g.restore(c)
	g.inMethod, g.inFunc, g.inArrow, g.inGen, g.inAsync = method, true, true, false, false
	g.realFunc, g.noReturn = false, true
	return g.expr(d)
}

func (g *jsgen) objectLit(d int) string {
	k := g.n(4)
	var xs []string
	proto := false
	for i := 0; i < k; i++ {
		c := g.n(9)
		if c == 6 {
			if proto {
				c = 0
			}
			proto = true
		}
		switch c {
		case 0:
			xs = append(xs, g.propKey(d)+": "+g.expr(d-1))
		case 1:
			xs = append(xs, g.pick([]string{"a", "b", "x", "o"}))
		case 2:
			xs = append(xs, "..."+g.expr(d-1))
		case 3:
			xs = append(xs, g.propKey(d)+g.params(d-1)+" "+g.funcBody(d-1, false, false, false, true))
		case 4:
			xs = append(xs, "get "+g.propKey(d)+"() "+g.funcBody(d-1, false, false, false, true))
		case 5:
			xs = append(xs, "set "+g.propKey(d)+"(v) "+g.funcBody(d-1, false, false, false, true))
		case 6:
			xs = append(xs, "__proto__: "+g.pick([]string{"null", "o", "arr", g.expr(d - 1)}))
		case 7:
			xs = append(xs, "*"+g.propKey(d)+"() "+g.funcBody(d-1, true, false, false, true))
		default:
			xs = append(xs, g.propKey(d)+": "+g.funcExpr(d-1))
		}
	}
	return "({" + strings.Join(xs, ", ") + "})"
}

func (g *jsgen) templateLit(d int) string {
	k := g.n(3)
	var b strings.Builder
	if g.p(25) {
		b.WriteString(g.pick([]string{"f", "g", "o.f", "String.raw", "(x=>x)"}))
	}
	b.WriteString("`")
	if g.p(50) {
		b.WriteString("h")
	}
	for i := 0; i < k; i++ {
		b.WriteString("${" + g.expr(d-1) + "}")
		if g.p(50) {
			b.WriteString(g.pick([]string{"m", " ", "\\n", "\\u0041"}))
		}
	}
	b.WriteString("`")
	return b.String()
}

func (g *jsgen) expr(d int) string {
	if d <= 0 {
		if g.p(50) {
			return g.lit()
		}
		return g.id()
	}
	switch g.n(38) {
	case 34, 35:
		if g.p(30) {
			return g.regexExpr(2)
		}
		return g.lit()
	case 36:
		if g.p(30) {
			return g.edgeLit(2)
		}
		return g.id()
	case 0, 1:
		return g.lit()
	case 2, 3:
		return g.id()
	case 4:
		return g.constExpr(2)
	case 5:
		op := g.pick(gUnOps)
		if op == "delete " {
			if g.strict {
				return "delete " + g.member(d-1)
			}
			return "delete " + g.pick([]string{g.id(), g.member(d - 1), g.expr(d - 1), "f()", "o?.x", "(0, a)"})
		}
		if op == "typeof " && g.p(40) {
			return "typeof " + g.pick([]string{"undeclared1", g.id()})
		}
		return op + g.expr(d-1)
	case 6:
		t := g.target(d)
		if strings.HasPrefix(t, "arguments") && !strings.Contains(t, "[") {
			t = "a"
		}
		if g.p(50) {
			return g.pick([]string{"++", "--"}) + t
		}
		return t + g.pick([]string{"++", "--"})
	case 7, 8:
		return "((" + g.expr(d-1) + ") " + g.pick(gBinOps) + " " + g.expr(d-1) + ")"
	case 9, 10:
		l := g.expr(d - 1)
		if g.p(50) {
			l = g.constExpr(1)
		}
		return "(" + l + " " + g.pick([]string{"&&", "||", "??"}) + " " + g.expr(d-1) + ")"
	case 11:
		return "(" + g.expr(d-1) + " ? " + g.expr(d-1) + " : " + g.expr(d-1) + ")"
	case 12, 13:
		return "(" + g.expr(d-1) + ", " + g.expr(d-1) + ")"
	case 14, 15, 16:
		t := g.target(d)
		if g.strict && strings.HasPrefix(t, "arguments") {
			t = "a"
		}
		return "(" + t + " " + g.pick(gAssignOps) + " " + g.expr(d-1) + ")"
	case 17:
		return "(" + g.pattern(d-1, false) + " = " + g.pick([]string{"arr", "o", "[1,[2,3]]", "\"ab\"", g.expr(d - 1)}) + ")"
	case 18:
		return g.member(d)
	case 19, 20:
		switch g.n(7) {
		case 0:
			return g.id() + g.args(d)
		case 1:
			return g.member(d-1) + g.args(d)
		case 2:
			return g.primary(d-1) + "?." + g.args(d)
		case 3:
			return "(" + g.funcExpr(d-1) + ")" + g.args(d)
		case 4:
			if g.inFunc || g.p(50) {
				return "eval(" + g.pick([]string{"\"a\"", "\"var e1 = 1\"", "\"1+1\"", "a", "\"(\""}) + ")"
			}
			return "(0,eval)(\"1\")"
		case 5:
			return g.primary(d-1) + "?.f?." + g.args(d) + "?.x"
		default:
			return g.expr(d-1) + g.args(d)
		}
	case 21:
		if g.p(50) {
			return "new " + g.pick([]string{"Object", "Array", "f", "g", "o.f", "Date", "(class{})", "C1"}) + g.args(d)
		}
		return "new (" + g.expr(d-1) + ")" + g.args(d)
	case 22:
		k := g.n(4)
		var xs []string
		for i := 0; i < k; i++ {
			switch g.n(5) {
			case 0:
				xs = append(xs, "")
			case 1:
				xs = append(xs, "..."+g.expr(d-1))
			default:
				xs = append(xs, g.expr(d-1))
			}
		}
		return "[" + strings.Join(xs, ", ") + "]"
	case 23:
		return g.objectLit(d)
	case 24, 25:
		return "(" + g.funcExpr(d) + ")"
	case 26:
		return g.templateLit(d)
	case 27:
		if g.realFunc && !g.inClassInit {
			return g.pick([]string{"this", "this.x", "new.target"})
		}
		return "this"
	case 28:
		if g.inGen && !g.inArrow {
			return "(yield " + g.expr(d-1) + ")"
		}
		if g.inGen && !g.inArrow && g.p(30) {
			return "(yield* " + g.pick([]string{"arr", "[]", "g()"}) + ")"
		}
		return g.expr(d - 1)
	case 29:
		if g.inAsync {
			return "(await " + g.expr(d-1) + ")"
		}
		return g.expr(d - 1)
	case 30:
		if g.inMethod {
			return g.pick([]string{"super.x", "super[" + g.expr(d-1) + "]", "super.f" + g.args(d-1), "(super.x = " + g.expr(d-1) + ")"})
		}
		return g.member(d)
	case 31:
		if len(g.privs) > 0 && g.inMethod {
			pn := g.pick(g.privs)
			return g.pick([]string{"this." + pn, pn + " in " + g.primary(d-1), "this." + pn + "++", "this?." + pn, "this." + pn + g.args(d-1)})
		}
		return g.lit()
	case 32:
		if g.realFunc && !g.inClassInit {
			return g.pick([]string{"arguments", "arguments[0]", "arguments.length"})
		}
		return g.id()
	default:
		return "(" + g.expr(d-1) + ")"
	}
}

func (g *jsgen) block(d int) string {
	k := g.n(3)
	var b strings.Builder
	b.WriteString("{ ")
	if g.p(25) {
		b.WriteString(g.pick([]string{"let ", "const "}) + g.fresh("bl") + " = " + g.expr(d-1) + "; ")
	}
	for i := 0; i < k; i++ {
		b.WriteString(g.stmt(d-1) + " ")
	}
	b.WriteString("}")
	return b.String()
}

func (g *jsgen) jump() string {
	var opts []string
	if g.loops > 0 {
		opts = append(opts, "break;", "continue;")
	}
	if g.switches > 0 {
		opts = append(opts, "break;")
	}
	if len(g.labels) > 0 {
		opts = append(opts, "break "+g.pick(g.labels)+";")
	}
	if g.inFunc && !g.noReturn {
		opts = append(opts, "return;", "return "+g.expr(1)+";")
	}
	opts = append(opts, "throw "+g.expr(1)+";")
	return g.pick(opts)
}

// body: a statement usable where a single statement is required (if / else / label / loop bodies)
func (g *jsgen) body(d int) string {
	st := g.stmt(d)
	if g.p(30) && !strings.HasPrefix(st, "let ") && !strings.HasPrefix(st, "const ") && !strings.HasPrefix(st, "class ") &&
		!strings.HasPrefix(st, "function") && !strings.HasPrefix(st, "async function") && !strings.Contains(st, "\n") && strings.Count(st, ";") <= 1 &&
		!strings.HasPrefix(st, "if ") {
		return st
	}
	return "{ " + st + " }"
}

func (g *jsgen) stmt(d int) string {
	g.b--
	if d <= 0 || g.b <= 0 {
		return g.expr(1) + ";"
	}
	switch g.n(30) {
	case 0, 1, 2, 3, 4, 5:
		return g.expr(d) + ";"
	case 6:
		return "if (" + g.expr(d-1) + ") " + g.body(d-1) + func() string {
			if g.p(50) {
				return " else " + g.body(d-1)
			}
			return ""
		}()
	case 7:
		return "if (" + g.constExpr(1) + ") " + g.body(d-1) + " else " + g.body(d-1)
	case 8:
		v := g.fresh("i")
		g.loops++
		s := "for (" + g.pick([]string{"var ", "let "}) + v + " = 0; " + v + " < 2; " + v + "++) " + g.block(d)
		g.loops--
		return s
	case 9:
		g.loops++
		s := "for (" + g.pick([]string{"var k1", "let k2", "const k3", g.target(d - 1), "var [k4]", "let {length: k5}",
			g.pick([]string{"var ", "let ", "const "}) + g.pattern(d-1, true), g.pattern(d-1, false)}) + " " +
			g.pick([]string{"in", "of"}) + " " + g.pick([]string{"arr", "o", "\"ab\"", "[1,2]", "[[1],[2]]"}) + ") " + g.block(d)
		g.loops--
		return s
	case 10:
		g.loops++
		s := "while (__n++ < 40 && " + g.expr(d-1) + ") " + g.block(d)
		g.loops--
		return s
	case 11:
		g.loops++
		s := "do " + g.block(d) + " while (__n++ < 40 && " + g.expr(d-1) + ");"
		g.loops--
		return s
	case 12, 13, 14, 15:
		var b strings.Builder
		b.WriteString("try " + g.tryBlock(d))
		hasCatch := g.p(70)
		if hasCatch {
			switch g.n(4) {
			case 0:
				b.WriteString(" catch " + g.tryBlock(d))
			case 1:
				b.WriteString(" catch (" + g.pattern(1, true) + ") " + g.tryBlock(d))
			default:
				b.WriteString(" catch (" + g.pick([]string{"e", "a", "x"}) + ") " + g.tryBlock(d))
			}
		}
		if !hasCatch || g.p(50) {
			b.WriteString(" finally " + g.tryBlock(d))
		}
		return b.String()
	case 16:
		g.switches++
		var b strings.Builder
		b.WriteString("switch (" + g.expr(d-1) + ") { ")
		k := g.n(3)
		for i := 0; i < k; i++ {
			b.WriteString("case " + g.expr(1) + ": " + g.body(d-1) + " ")
			if g.p(50) {
				b.WriteString("break; ")
			}
		}
		if g.p(50) {
			b.WriteString("default: " + g.body(d-1) + " ")
		}
		b.WriteString("}")
		g.switches--
		return b.String()
	case 17:
		l := g.fresh("L")
		g.labels = append(g.labels, l)
		s := l + ": " + g.body(d-1)
		g.labels = g.labels[:len(g.labels)-1]
		return s
	case 18:
		return g.block(d)
	case 19:
		if g.p(60) {
			return g.jump()
		}
		return "if (" + g.expr(1) + ") { " + g.jump() + " }"
	case 20:
		if !g.strict {
			return "with (" + g.pick([]string{"o", "arr", "{x:1, a:2}", g.expr(d - 1)}) + ") " + g.block(d)
		}
		return g.expr(d) + ";"
	case 21:
		return g.pick([]string{"var ", "let ", "const "}) + g.pattern(d-1, true) + " = " + g.pick([]string{"arr", "o", "[]", "{}", "\"xy\""}) + ";"
	case 22:
		id := g.id()
		if g.lex[id] {
			return id + " = " + g.expr(d-1) + ";"
		}
		return "var " + id + " = " + g.expr(d-1) + ";"
	case 23:
		return "{ " + g.pick([]string{"let ", "const "}) + g.pick([]string{"a", "x", "f"}) + " = " + g.expr(d-1) + "; " + g.stmt(d-1) + " }"
	case 24:
		c := g.save()
		nm := g.fresh("fd")
		s := g.pick([]string{"function ", "function* ", "async function "}) + nm
		gen := strings.Contains(s, "*")
		as := strings.Contains(s, "async")
		s += g.params(d-1) + " " + g.funcBody(d-1, gen, as, false, false)
		g.restore(c)
		call := nm + g.args(d-1)
		if gen {
			return s + " for (var v of " + call + ") { if (__n++ > 40) break; }"
		}
		return s + " " + call + ";"
	case 25:
		return "class " + g.fresh("K") + " " + strings.TrimPrefix(g.classBodyOnly(d), "class ")
	case 26:
		return "debugger;"
	case 27:
		return ";"
	default:
		return "try { " + g.expr(d) + "; } catch (e) { " + g.expr(1) + "; }"
	}
}

func (g *jsgen) classBodyOnly(d int) string {
	s := g.classExpr(d)
	// strip an optional name
	rest := strings.TrimPrefix(s, "class ")
	if i := strings.Index(rest, "{"); i >= 0 {
		j := strings.Index(rest, "extends")
		if j >= 0 && j < i {
			return "class " + rest[j:]
		}
		return "class " + rest[i:]
	}
	return s
}

func (g *jsgen) tryBlock(d int) string {
	var b strings.Builder
	b.WriteString("{ ")
	k := g.n(3)
	for i := 0; i < k; i++ {
		b.WriteString(g.stmt(d-1) + " ")
	}
	if g.p(30) {
		b.WriteString(g.jump() + " ")
	}
	b.WriteString("}")
	return b.String()
}

func gQuote(s string) string {
	var b strings.Builder
	b.WriteByte('"')
	for _, r := range s {
		switch r {
		case '"':
			b.WriteString("\\\"")
		case '\\':
			b.WriteString("\\\\")
		case '\n':
			b.WriteString("\\n")
		case '\r':
			b.WriteString("\\r")
		case 0x2028:
			b.WriteString("\\u2028")
		case 0x2029:
			b.WriteString("\\u2029")
		default:
			b.WriteRune(r)
		}
	}
	b.WriteByte('"')
	return b.String()
}

// GenProgram returns a (mostly) valid terminating program.
func GenProgram(r *common.SplitMix64, o GenOpt) string {
	g := &jsgen{r: r, o: o, b: 12 + r.Intn(25), strict: o.Strict}
	if o.MaxDepth < 2 {
		o.MaxDepth = 2
	}
	g.lex = map[string]bool{}
	if g.p(35) {
		g.risk = 1 + g.n(2)
	}
	wrap := g.n(5)
	if o.Placement == 1 {
		g.inFunc = true
		g.realFunc = wrap != 1
		if wrap == 3 {
			g.strict = true // class bodies are strict code
			g.inMethod = true
		}
		if wrap == 2 {
			g.inMethod = true
		}
	}
	var body strings.Builder
	body.WriteString("var __n = 0; ")
	// prelude: the identifier pool, declared in varying ways
	for _, id := range []string{"a", "b", "c", "x", "y", "z", "é", "日本"} {
		switch g.n(5) {
		case 0:
			body.WriteString("var " + id + " = " + g.lit() + "; ")
		case 1:
			g.lex[id] = true
			body.WriteString("let " + id + " = " + g.lit() + "; ")
		case 2:
			g.lex[id] = true
			body.WriteString("const " + id + " = " + g.lit() + "; ")
		case 3:
			body.WriteString("var " + id + "; ")
		default: // left undeclared (global property created on assignment in sloppy mode)
		}
	}
	body.WriteString("var o = {x: 1, y: {z: 2}, f() { return this.x; }}; var arr = [1, 2, 3]; ")
	body.WriteString("function f(p, q) { return p; } var g = function*() { yield 1; }; class C1 { constructor() { this.x = 1; } } ")
	for g.b > 0 && body.Len() < o.MaxLen-400 {
		d := 2 + g.n(o.MaxDepth-1)
		st := g.stmt(d)
		if g.p(55) {
			st = "try { " + st + " } catch (e0) { }"
		}
		body.WriteString(st + "\n")
	}
	if g.p(50) {
		body.WriteString(g.expr(2) + ";")
	}
	src := body.String()
	pre := ""
	if o.Strict {
		pre = "\"use strict\";\n"
	}
	switch o.Placement {
	case 1:
		switch wrap {
		case 0:
			src = pre + "(function () {\n" + src + "\n}).call({});"
		case 1:
			src = pre + "(() => {\n" + src + "\n})();"
		case 2:
			src = pre + "({ m() {\n" + src + "\n} }).m();"
		case 3:
			src = pre + "new (class { constructor() {\n" + src + "\n} })();"
		default:
			src = pre + "(function named() {\n" + src + "\n})();"
		}
	case 2:
		if g.p(50) {
			src = pre + "eval(" + gQuote(src) + ");"
		} else if g.p(50) {
			src = pre + "(0, eval)(" + gQuote(src) + ");"
		} else {
			src = pre + "(function () { return eval(" + gQuote(src) + "); })();"
		}
	default:
		src = pre + src
	}
	if len(src) > o.MaxLen {
		src = src[:o.MaxLen]
	}
	return src
}

// GenDeep: one construct family nested up to o.MaxDepth.
func GenDeep(r *common.SplitMix64, o GenOpt) string {
	n := o.MaxDepth
	if n < 1 {
		n = 1
	}
	rep := func(s string, k int) string { return strings.Repeat(s, k) }
	switch r.Intn(16) {
	case 0:
		return "var a = " + rep("(", n) + "1" + rep(")", n) + ";"
	case 1:
		return "var a = " + rep("[", n) + rep("]", n) + ";"
	case 2:
		return "var a = " + rep("{x:", n) + "1" + rep("}", n) + ";"
	case 3:
		return "var a = " + rep("!-~+typeof void ", n/3+1) + "1;"
	case 4:
		return "var a = 1" + rep(" + 1", n) + rep(" && (0", n/2) + rep(")", n/2) + ";"
	case 5:
		return "var a = " + rep("1 ? 2 : ", n) + "3;"
	case 6:
		return "var o = {}; var a = o" + rep("?.x", n) + rep("?.[0]", n/4) + ";"
	case 7:
		return "var a = " + rep("(function f(){ return ", n/2+1) + "1" + rep(" })()", n/2+1) + ";"
	case 8:
		return "var a = " + rep("(() => ", n) + "1" + rep(")", n) + ";"
	case 9:
		return rep("{ if (1) ", n/2+1) + ";" + rep(" }", n/2+1)
	case 10:
		return rep("try { ", n) + "throw 1;" + rep(" } finally { }", n/2) + rep(" } catch (e) { }", n-n/2)
	case 11:
		return "var i = 0; " + rep("L: while (i++ < 1) { switch (1) { case 1: ", n/3+1) + ";" + rep(" } }", n/3+1)
	case 12:
		return "var a = " + rep("`${", n) + "1" + rep("}`", n) + ";"
	case 13:
		return "var " + rep("[", n) + "a" + rep("]", n) + " = " + rep("[", n) + "1" + rep("]", n) + ";"
	case 14:
		return "var a = " + rep("class { static m() { return ", n/3+1) + "1" + rep(" } }.m()", n/3+1) + ";"
	default:
		return "var a = (0" + rep(" && (0, 1", n) + rep(")", n) + ", 2);"
	}
}

var gTokPool = []string{"(", ")", "[", "]", "{", "}", ",", ";", ":", "?", ".", "?.", "...", "=>", "=", "+", "-", "*", "/", "&&", "||", "??", "&&=",
	"++", "--", "!", "function", "class", "extends", "super", "new", "delete", "typeof", "void", "yield", "await", "async", "static", "get", "set",
	"var", "let", "const", "if", "else", "for", "while", "do", "break", "continue", "return", "throw", "try", "catch", "finally", "switch", "case",
	"default", "with", "in", "of", "instanceof", "this", "null", "true", "0", "1n", "\"s\"", "`", "${", "#p", "a", "arguments", "eval", "new.target",
	"/", "/x/", "\\u0061", "\"\\u{10FFFF}\"", "`\\u{10FFFF}`", "\\u{110000}", "...é", "é", "/\\uD83D\\uDE0/u", "#é", "0x", "1e", "'", "\"", "*/", "/*", "//", "\n", "enum", "import", "export", "debugger", "label:"}

func gTokenize(src string) []string {
	var toks []string
	i := 0
	isId := func(c byte) bool {
		return c == '_' || c == '$' || c == '#' || (c >= 'a' && c <= 'z') || (c >= 'A' && c <= 'Z') || (c >= '0' && c <= '9') || c >= 0x80
	}
	for i < len(src) {
		c := src[i]
		switch {
		case c == ' ' || c == '\t' || c == '\n' || c == '\r':
			j := i
			for j < len(src) && (src[j] == ' ' || src[j] == '\t' || src[j] == '\n' || src[j] == '\r') {
				j++
			}
			toks = append(toks, src[i:j])
			i = j
		case isId(c):
			j := i
			for j < len(src) && isId(src[j]) {
				j++
			}
			toks = append(toks, src[i:j])
			i = j
		case c == '"' || c == '\'':
			j := i + 1
			for j < len(src) && src[j] != c {
				if src[j] == '\\' {
					j++
				}
				j++
			}
			if j < len(src) {
				j++
			}
			if j > len(src) {
				j = len(src)
			}
			toks = append(toks, src[i:j])
			i = j
		default:
			j := i + 1
			for _, op := range []string{">>>=", "...", "===", "!==", "**=", "<<=", ">>=", ">>>", "&&=", "||=", "??=", "=>", "==", "!=", "<=", ">=", "&&", "||", "??", "?.", "++", "--", "+=", "-=", "*=", "/=", "%=", "&=", "|=", "^=", "<<", ">>", "**", "${"} {
				if strings.HasPrefix(src[i:], op) {
					j = i + len(op)
					break
				}
			}
			toks = append(toks, src[i:j])
			i = j
		}
	}
	return toks
}

// MutateTokens applies 1..4 token-level mutations.
func MutateTokens(r *common.SplitMix64, src string) string {
	toks := gTokenize(src)
	if len(toks) == 0 {
		return gTokPool[r.Intn(len(gTokPool))]
	}
	k := 1 + r.Intn(4)
	for m := 0; m < k && len(toks) > 0; m++ {
		i := r.Intn(len(toks))
		switch r.Intn(8) {
		case 0:
			toks = append(toks[:i], toks[i+1:]...)
		case 1:
			toks = append(toks[:i+1], toks[i:]...)
		case 2:
			j := r.Intn(len(toks))
			toks[i], toks[j] = toks[j], toks[i]
		case 3:
			toks[i] = gTokPool[r.Intn(len(gTokPool))]
		case 4:
			t := gTokPool[r.Intn(len(gTokPool))]
			toks = append(toks[:i+1], toks[i:]...)
			toks[i] = " " + t + " "
		case 5:
			toks = toks[:i]
		case 6:
			// copy a span somewhere else
			j := r.Intn(len(toks))
			if i > j {
				i, j = j, i
			}
			if j-i > 30 {
				j = i + 30
			}
			span := append([]string{}, toks[i:j]...)
			at := r.Intn(len(toks))
			toks = append(toks[:at], append(span, toks[at:]...)...)
		default:
			toks[i] = []string{"(", ")", "[", "]", "{", "}"}[r.Intn(6)]
		}
	}
	return strings.Join(toks, "")
}

// RandomBytes: raw byte strings.
func RandomBytes(r *common.SplitMix64, maxLen int) string {
	n := r.Intn(maxLen + 1)
	var b []byte
	switch r.Intn(5) {
	case 0:
		for i := 0; i < n; i++ {
			b = append(b, byte(r.Next()))
		}
	case 1:
		const al = "abcxyz01 \n\t(){}[];,.:?=+-*/%&|^!~<>'\"`\\$#@_"
		for i := 0; i < n; i++ {
			b = append(b, al[r.Intn(len(al))])
		}
	case 2:
		pieces := []string{"\"\\u{10FFFF}\"", "`\\u{10FFFF}`", "[...é] = []", "var [...日本] = []", "([...é]) => 1", "/\\uD83D\\uDE0/u", "/[\\u{10FFFF}-\\u{110000}]/u", "\"\\ud800\"", "'\\u{110000}'", "\\u{ffffffffff}", "/[/", "/(?<n>a)\\k<n>/u", "`${", "/*", "\"abc", "'\n", "0b", "0o8", "1_000", "1e+", ".5.5", "\xff\xfe", "\xc0\x80",
			"\xed\xa0\x80", "\xef\xbb\xbf", "\x00", "\u2028", "\u00a0", "a\\u0062c", "\\u{61}", "#!", "<!--", "-->", "0n.", "9007199254740993n", "1" + strings.Repeat("0", 400), "0." + strings.Repeat("0", 400) + "1",
			"var \\u0076ar", "`\\u{`", "`\\xg`", "/\\", "/a/gg", "/a/\\u0067", "async\n()=>1", "let\n[a]=1", "yield", "await 1", "class{#a;#a}", "({a=1})", "for(let of of[])", "x=>{}\n/1/g"}
		for len(b) < n {
			b = append(b, pieces[r.Intn(len(pieces))]...)
			if r.Intn(3) == 0 {
				b = append(b, ' ')
			}
		}
	case 3:
		for len(b) < n {
			b = append(b, gTokPool[r.Intn(len(gTokPool))]...)
			b = append(b, ' ')
		}
	default:
		s := GenProgram(r, GenOpt{MaxDepth: 3, MaxLen: 600})
		b = []byte(s)
		for m := 0; m < 1+r.Intn(5) && len(b) > 0; m++ {
			b[r.Intn(len(b))] = byte(r.Next())
		}
	}
	if len(b) > maxLen {
		b = b[:maxLen]
	}
	return string(b)
}
