package main

import (
	"fmt"
	"regexp"
	"sort"
	"testing"

	"github.com/dop251/goja"
	"verifharness/common"
)

func TestStat(t *testing.T) {
	r := &common.SplitMix64{S: 12345}
	hist := map[string]int{}
	ex := map[string]string{}
	ok, n := 0, 3000
	re := regexp.MustCompile(`\d+`)
	for i := 0; i < n; i++ {
		o := GenOpt{Strict: r.Intn(3) == 0, Placement: r.Intn(2), MaxDepth: 3 + r.Intn(5), MaxLen: 3000 + r.Intn(6000)}
		src := GenProgram(r, o)
		_, err := goja.Compile("", src, false)
		if err == nil {
			ok++
			continue
		}
		m := err.Error()
		if k := regexp.MustCompile(` at \d+:\d+`).FindStringIndex(m); k != nil {
			m = m[:k[0]]
		}
		m = re.ReplaceAllString(m, "N")
		if len(m) > 90 {
			m = m[:90]
		}
		hist[m]++
		if _, has := ex[m]; !has {
			ex[m] = err.Error()
		}
	}
	fmt.Printf("valid %d/%d\n", ok, n)
	type kv struct {
		k string
		v int
	}
	var l []kv
	for k, v := range hist {
		l = append(l, kv{k, v})
	}
	sort.Slice(l, func(i, j int) bool { return l[i].v > l[j].v })
	for i, e := range l {
		if i > 25 {
			break
		}
		fmt.Println(e.v, e.k, " || ", ex[e.k])
	}
}
