// C12 harness: performs number<->string conversions with the real goja (runtime front-ends and the ftoa
// package directly) and prints one result token per operation line.  The results are judged by the proved
// checkers of the Lean driver (model_c12); this program makes no judgement itself.
//
//	tostr  <bits>            String(x)                       -> text
//	ftostr <bits> <mode> <p> ftoa.FToStr(x, mode, p)         -> text   (mode 0..4 = FToStrMode)
//	expu   <bits>            x.toExponential()               -> text
//	fixed  <bits> <fd>       x.toFixed(fd)                   -> text
//	exp    <bits> <fd>       x.toExponential(fd)             -> text
//	prec   <bits> <p>        x.toPrecision(p)                -> text
//	radix  <bits> <r>        x.toString(r)                   -> text
//	fbase  <bits> <r>        ftoa.FToBaseStr(x, r)           -> text
//	num    s:<string>        Number(string)                  -> bits
//	pfloat s:<string>        parseFloat(string)              -> bits
//	pint   <radix> s:<string> parseInt(string, radix)        -> bits
//	lit    s:<string>        RunString("(" + string + ")")   -> bits
//	rt     <bits>            Number(String(x))               -> bits
//
// <bits> = 16 hex digits of the IEEE-754 pattern; '~' in <string> stands for a space.
// Errors are printed as ERR:<message with '_' for spaces>.
package main

import (
	"bufio"
	"fmt"
	"math"
	"os"
	"os/exec"
	"strconv"
	"strings"
	"sync"
	"syscall"
	"time"
	"unicode/utf16"

	"github.com/dop251/goja"
	"github.com/dop251/goja/ftoa"

	"verifharness/common"
)

type env struct {
	vm                                                  *goja.Runtime
	fString, fFixed, fExp, fExpU, fPrec, fRadix, fNumber goja.Callable
	fParseFloat, fParseInt, fRT                         goja.Callable
}

func mustFn(vm *goja.Runtime, src string) goja.Callable {
	v, err := vm.RunString("(" + src + ")")
	if err != nil {
		panic(err)
	}
	f, ok := goja.AssertFunction(v)
	if !ok {
		panic("not a function: " + src)
	}
	return f
}

func newEnv() *env {
	vm := goja.New()
	return &env{
		vm:          vm,
		fString:     mustFn(vm, `function(x){return String(x)}`),
		fFixed:      mustFn(vm, `function(x,n){return x.toFixed(n)}`),
		fExp:        mustFn(vm, `function(x,n){return x.toExponential(n)}`),
		fExpU:       mustFn(vm, `function(x){return x.toExponential()}`),
		fPrec:       mustFn(vm, `function(x,n){return x.toPrecision(n)}`),
		fRadix:      mustFn(vm, `function(x,r){return x.toString(r)}`),
		fNumber:     mustFn(vm, `function(s){return Number(s)}`),
		fParseFloat: mustFn(vm, `function(s){return parseFloat(s)}`),
		fParseInt:   mustFn(vm, `function(s,r){return parseInt(s,r)}`),
		fRT:         mustFn(vm, `function(x){return Number(String(x))}`),
	}
}

func errTok(err error) string {
	s := common.OneLine(err.Error())
	s = strings.ReplaceAll(s, " ", "_")
	if len(s) > 120 {
		s = s[:120]
	}
	return "ERR:" + s
}

func bitsArg(s string) (float64, bool) {
	if len(s) != 16 {
		return 0, false
	}
	b, err := strconv.ParseUint(s, 16, 64)
	if err != nil {
		return 0, false
	}
	return math.Float64frombits(b), true
}

func bitsTok(v goja.Value) string {
	return fmt.Sprintf("%016x", math.Float64bits(v.ToFloat()))
}

func textTok(v goja.Value) string {
	s := v.String()
	if s == "" {
		return "<empty>"
	}
	return strings.ReplaceAll(s, " ", "_")
}

// strArg decodes "s:<text>": '~' is a space, \uXXXX a UTF-16 code unit (4 hex digits).  Pure ASCII text becomes a
// Go string (goja's ASCII / imported representation); anything else is built from its UTF-16 code units, so that
// lone surrogates reach the runtime unchanged.
func strArg(vm *goja.Runtime, s string) (goja.Value, string, bool) {
	if !strings.HasPrefix(s, "s:") {
		return nil, "", false
	}
	s = s[2:]
	var units []uint16
	ascii := true
	for i := 0; i < len(s); i++ {
		c := s[i]
		switch {
		case c == '~':
			units = append(units, ' ')
		case c == '\\' && i+5 < len(s) && s[i+1] == 'u':
			v, err := strconv.ParseUint(s[i+2:i+6], 16, 16)
			if err != nil {
				return nil, "", false
			}
			units = append(units, uint16(v))
			if v >= 0x80 {
				ascii = false
			}
			i += 5
		default:
			units = append(units, uint16(c))
		}
	}
	str := string(utf16.Decode(units))
	if ascii {
		return vm.ToValue(str), str, true
	}
	return goja.StringFromUTF16(units), str, true
}

func (e *env) callText(f goja.Callable, args ...goja.Value) string {
	v, err := f(goja.Undefined(), args...)
	if err != nil {
		return errTok(err)
	}
	return textTok(v)
}

func (e *env) callBits(f goja.Callable, args ...goja.Value) string {
	v, err := f(goja.Undefined(), args...)
	if err != nil {
		return errTok(err)
	}
	return bitsTok(v)
}

func (e *env) handle(line string) string {
	w := strings.Fields(line)
	if len(w) < 2 {
		return "ERR:args"
	}
	vm := e.vm
	switch w[0] {
	case "tostr", "expu", "rt":
		x, ok := bitsArg(w[1])
		if !ok {
			return "ERR:args"
		}
		switch w[0] {
		case "tostr":
			return e.callText(e.fString, vm.ToValue(x))
		case "expu":
			return e.callText(e.fExpU, vm.ToValue(x))
		default:
			return e.callBits(e.fRT, vm.ToValue(x))
		}
	case "fixed", "exp", "prec", "radix", "fbase":
		if len(w) < 3 {
			return "ERR:args"
		}
		x, ok := bitsArg(w[1])
		n, err := strconv.Atoi(w[2])
		if !ok || err != nil {
			return "ERR:args"
		}
		switch w[0] {
		case "fixed":
			return e.callText(e.fFixed, vm.ToValue(x), vm.ToValue(n))
		case "exp":
			return e.callText(e.fExp, vm.ToValue(x), vm.ToValue(n))
		case "prec":
			return e.callText(e.fPrec, vm.ToValue(x), vm.ToValue(n))
		case "radix":
			return e.callText(e.fRadix, vm.ToValue(x), vm.ToValue(n))
		default:
			return ftoa.FToBaseStr(x, n)
		}
	case "ftostr":
		if len(w) < 4 {
			return "ERR:args"
		}
		x, ok := bitsArg(w[1])
		mode, err1 := strconv.Atoi(w[2])
		p, err2 := strconv.Atoi(w[3])
		if !ok || err1 != nil || err2 != nil || mode < 0 || mode > 4 {
			return "ERR:args"
		}
		return string(ftoa.FToStr(x, ftoa.FToStrMode(mode), p, nil))
	case "num", "pfloat", "lit":
		sv, s, ok := strArg(vm, w[1])
		if !ok {
			return "ERR:args"
		}
		switch w[0] {
		case "num":
			return e.callBits(e.fNumber, sv)
		case "pfloat":
			return e.callBits(e.fParseFloat, sv)
		default:
			v, err := vm.RunString("(" + s + ")")
			if err != nil {
				return errTok(err)
			}
			return bitsTok(v)
		}
	case "pint":
		if len(w) < 3 {
			return "ERR:args"
		}
		r, err := strconv.Atoi(w[1])
		sv, _, ok := strArg(vm, w[2])
		if err != nil || !ok {
			return "ERR:args"
		}
		return e.callBits(e.fParseInt, sv, vm.ToValue(r))
	}
	return "ERR:unknown-op"
}

func cpuNow() float64 {
	var ru syscall.Rusage
	if err := syscall.Getrusage(syscall.RUSAGE_SELF, &ru); err != nil {
		return 0
	}
	return float64(ru.Utime.Sec+ru.Stime.Sec) + float64(ru.Utime.Usec+ru.Stime.Usec)/1e6
}

// worker: one result line per input line, flushed at once.  A watchdog inside the worker measures the CPU time
// (not wall time: a loaded machine must not produce false hangs) this process has burnt since the current
// conversion started; beyond the limit it prints TIMEOUT for that line and exits — an endless loop inside
// native Go code cannot be interrupted any other way.  The supervisor then continues with the next line in a
// fresh worker.
func worker(limit float64) {
	e := newEnv()
	in := bufio.NewScanner(os.Stdin)
	in.Buffer(make([]byte, 1<<20), 1<<26)
	out := bufio.NewWriter(os.Stdout)
	var mu sync.Mutex
	seq, startCPU := 0, cpuNow()
	go func() {
		for {
			time.Sleep(100 * time.Millisecond)
			mu.Lock()
			s0, c0 := seq, startCPU
			mu.Unlock()
			if cpuNow()-c0 <= limit {
				continue
			}
			mu.Lock()
			if seq == s0 {
				out.WriteString("TIMEOUT\n")
				out.Flush()
				os.Exit(3)
			}
			mu.Unlock()
		}
	}()
	n := 0
	for in.Scan() {
		line := in.Text()
		res := common.Safe(func() string { return e.handle(line) })
		if res == "" {
			res = "<empty>"
		}
		mu.Lock()
		seq++
		startCPU = cpuNow()
		out.WriteString(sanitize(res))
		out.WriteByte('\n')
		if n++; n%512 == 0 {
			out.Flush()
		}
		mu.Unlock()
	}
	mu.Lock()
	out.Flush()
	mu.Unlock()
}

// sanitize keeps the result a single space-free token: bytes outside the printable ASCII range (only produced
// by a broken conversion) are shown as '?'.
func sanitize(s string) string {
	b := []byte(s)
	for i, c := range b {
		if c < 0x21 || c > 0x7e {
			b[i] = '?'
		}
	}
	return string(b)
}

type child struct {
	cmd *exec.Cmd
	out chan string
}

func spawn(lines []string) *child {
	cmd := exec.Command(os.Args[0], "-worker")
	in, _ := cmd.StdinPipe()
	op, _ := cmd.StdoutPipe()
	cmd.Stderr = os.Stderr
	if err := cmd.Start(); err != nil {
		panic(err)
	}
	c := &child{cmd: cmd, out: make(chan string, 256)}
	go func() { // feeder (pipelined; a dead worker makes the writes fail, which ends the goroutine)
		w := bufio.NewWriter(in)
		for _, l := range lines {
			if _, err := w.WriteString(l + "\n"); err != nil {
				return
			}
		}
		w.Flush()
		in.Close()
	}()
	go func() {
		sc := bufio.NewScanner(op)
		sc.Buffer(make([]byte, 1<<20), 1<<26)
		for sc.Scan() {
			c.out <- sc.Text()
		}
		close(c.out)
	}()
	return c
}

func main() {
	limit := 1.5
	if ms, err := strconv.Atoi(os.Getenv("VERIF_C12_LIMIT_MS")); err == nil && ms > 0 {
		limit = float64(ms) / 1000
	}
	if len(os.Args) > 1 && os.Args[1] == "-worker" {
		worker(limit)
		return
	}
	var lines []string
	in := bufio.NewScanner(os.Stdin)
	in.Buffer(make([]byte, 1<<20), 1<<26)
	for in.Scan() {
		lines = append(lines, in.Text())
	}
	out := bufio.NewWriterSize(os.Stdout, 1<<16)
	defer out.Flush()
	idx := 0
	for idx < len(lines) {
		c := spawn(lines[idx:])
		last := ""
		for r := range c.out {
			if idx >= len(lines) {
				break
			}
			out.WriteString(r)
			out.WriteByte('\n')
			idx++
			last = r
		}
		c.cmd.Process.Kill()
		c.cmd.Wait()
		if idx < len(lines) && last != "TIMEOUT" {
			// the worker died without answering the current line
			out.WriteString("CRASH\n")
			idx++
		}
	}
}
