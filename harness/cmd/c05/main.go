// C05 harness: speaks the line protocol of lean/GojaModel/C05/Driver.lean against the real goja.
//
//	value token:  i<decimal int64> | f<16 hex>        (anything else a script returns: o:<String(v)>, E:<error>)
//
//	f2v <hex> | i2v <dec> | f2i <hex> | tonum <v> | conv <name> <v> | id <v1> <v2>
//	op <name>[@variant] <v1> <v2|-> [<rhex ignored>]    operator executed by the VM on the two Values
//	obs <v1> <v2>                                       16 observers of (in)distinguishability, as a bit string
//	js <source>                                         evaluate a script, print its completion value
//	gov <gotype> <text>                                 Runtime.ToValue of a Go numeric value
//	exp <v>                                             Go type and value Export() gives
package main

import (
	"fmt"
	"math"
	"strconv"
	"strings"

	"github.com/dop251/goja"
	"verifharness/common"
)

var rt = goja.New()

func showVal(v goja.Value) string {
	if v == nil {
		return "o:<nil>"
	}
	tag, i, bits := goja.VerifC05Repr(v)
	switch tag {
	case 'i':
		return "i" + strconv.FormatInt(i, 10)
	case 'f':
		return fmt.Sprintf("f%016x", bits)
	}
	return "o:" + common.OneLine(fmt.Sprintf("%T:%s", v.Export(), v.String()))
}

func parseVal(s string) goja.Value {
	if len(s) < 2 {
		panic("bad value token " + s)
	}
	switch s[0] {
	case 'i':
		n, err := strconv.ParseInt(s[1:], 10, 64)
		if err != nil {
			panic(err)
		}
		return goja.VerifC05RawInt(n)
	case 'f':
		b, err := strconv.ParseUint(s[1:], 16, 64)
		if err != nil {
			panic(err)
		}
		return goja.VerifC05RawFloat(b)
	}
	panic("bad value token " + s)
}

func hexBits(s string) uint64 {
	b, err := strconv.ParseUint(s, 16, 64)
	if err != nil {
		panic(err)
	}
	return b
}

var fnCache = map[string]goja.Callable{}

func fn(src string) goja.Callable {
	if f, ok := fnCache[src]; ok {
		return f
	}
	v, err := rt.RunString("(" + src + ")")
	if err != nil {
		panic(err)
	}
	f, ok := goja.AssertFunction(v)
	if !ok {
		panic("not a function: " + src)
	}
	fnCache[src] = f
	return f
}

// operator name[@variant] -> JS function source
var opSrc = map[string]string{
	"add": "function(a,b){return a+b}", "add@c": "function(a,b){a+=b;return a}",
	"sub": "function(a,b){return a-b}", "sub@c": "function(a,b){a-=b;return a}",
	"mul": "function(a,b){return a*b}", "mul@c": "function(a,b){a*=b;return a}",
	"div": "function(a,b){return a/b}", "div@c": "function(a,b){a/=b;return a}",
	"mod": "function(a,b){return a%b}", "mod@c": "function(a,b){a%=b;return a}",
	"and": "function(a,b){return a&b}", "and@c": "function(a,b){a&=b;return a}",
	"or": "function(a,b){return a|b}", "or@c": "function(a,b){a|=b;return a}",
	"xor": "function(a,b){return a^b}", "xor@c": "function(a,b){a^=b;return a}",
	"shl": "function(a,b){return a<<b}", "shl@c": "function(a,b){a<<=b;return a}",
	"sar": "function(a,b){return a>>b}", "sar@c": "function(a,b){a>>=b;return a}",
	"shr": "function(a,b){return a>>>b}", "shr@c": "function(a,b){a>>>=b;return a}",
	"neg": "function(a){return -a}", "bnot": "function(a){return ~a}",
	"inc": "function(a){a++;return a}", "inc@p": "function(a){return ++a}", "inc@o": "function(a){var o={x:a};o.x++;return o.x}",
	"inc@a": "function(a){var o=[a];++o[0];return o[0]}",
	"dec": "function(a){a--;return a}", "dec@p": "function(a){return --a}", "dec@o": "function(a){var o={x:a};o.x--;return o.x}",
	"dec@a": "function(a){var o=[a];--o[0];return o[0]}",
}

const obsSrc = `function(a,b){
 var r="";
 function t(x){ r += x ? "1":"0"; }
 t(Object.is(a,b)); t(Object.is(b,a)); t(a===b); t(b===a);
 var sw=false; switch(a){case b: sw=true}; t(sw);
 t(new Map([[a,1]]).get(b)===1); t(new Map([[b,1]]).get(a)===1);
 t(new Set([a]).has(b)); t(new Set([b]).has(a));
 t([a].includes(b)); t([b].includes(a));
 t([a].indexOf(b)===0); t([b].lastIndexOf(a)===0);
 var o={}; o[a]=1; t(o[b]===1);
 t(String(a)===String(b));
 t(a==b);
 return r;
}`

func bit(b bool) string {
	if b {
		return "1"
	}
	return "0"
}

func normKey(v goja.Value) goja.Value {
	if tag, _, bits := goja.VerifC05Repr(v); tag == 'f' && math.Float64frombits(bits) == 0 {
		return goja.VerifC05IntToValue(0)
	}
	return v
}

func errName(err error) string {
	if ex, ok := err.(*goja.Exception); ok {
		if o, ok := ex.Value().(*goja.Object); ok {
			if n := o.Get("name"); n != nil {
				return "E:" + n.String()
			}
		}
		return "E:throw"
	}
	return "E:" + common.OneLine(fmt.Sprintf("%T", err))
}

func goValue(typ, text string) goja.Value {
	pi := func(bits int) int64 {
		n, err := strconv.ParseInt(text, 10, bits)
		if err != nil {
			panic(err)
		}
		return n
	}
	pu := func(bits int) uint64 {
		n, err := strconv.ParseUint(text, 10, bits)
		if err != nil {
			panic(err)
		}
		return n
	}
	switch typ {
	case "int":
		return rt.ToValue(int(pi(64)))
	case "int8":
		return rt.ToValue(int8(pi(8)))
	case "int16":
		return rt.ToValue(int16(pi(16)))
	case "int32":
		return rt.ToValue(int32(pi(32)))
	case "int64":
		return rt.ToValue(pi(64))
	case "uint":
		return rt.ToValue(uint(pu(64)))
	case "uint8":
		return rt.ToValue(uint8(pu(8)))
	case "uint16":
		return rt.ToValue(uint16(pu(16)))
	case "uint32":
		return rt.ToValue(uint32(pu(32)))
	case "uint64":
		return rt.ToValue(pu(64))
	case "float64":
		return rt.ToValue(math.Float64frombits(hexBits(text)))
	case "float32":
		return rt.ToValue(math.Float32frombits(uint32(hexBits(text))))
	}
	panic("unknown go type " + typ)
}

func handle(line string) string {
	w := strings.Fields(line)
	if len(w) == 0 {
		return "bad"
	}
	switch w[0] {
	case "f2v":
		return showVal(goja.VerifC05FloatToValue(hexBits(w[1])))
	case "i2v":
		n, err := strconv.ParseInt(w[1], 10, 64)
		if err != nil {
			panic(err)
		}
		return showVal(goja.VerifC05IntToValue(n))
	case "f2i":
		if i, ok := goja.VerifC05FloatToInt(hexBits(w[1])); ok {
			return "ok " + strconv.FormatInt(i, 10)
		}
		return "no"
	case "tonum":
		return showVal(goja.VerifC05ToNumeric(parseVal(w[1])))
	case "conv":
		n, ok := goja.VerifC05Conv(rt, w[1], parseVal(w[2]))
		if !ok {
			return "err"
		}
		return strconv.FormatInt(n, 10)
	case "id":
		a, b := parseVal(w[1]), parseVal(w[2])
		return "m=" + bit(a.SameAs(b)) + bit(b.SameAs(a)) + bit(a.StrictEquals(b)) + bit(b.StrictEquals(a)) +
			bit(goja.VerifC05MapFinds(a, b)) + bit(goja.VerifC05MapFinds(b, a)) +
			bit(goja.VerifC05Hash(normKey(a)) == goja.VerifC05Hash(normKey(b)))
	case "op":
		src, ok := opSrc[w[1]]
		if !ok {
			return "bad"
		}
		args := []goja.Value{parseVal(w[2])}
		if w[3] != "-" {
			args = append(args, parseVal(w[3]))
		}
		v, err := fn(src)(goja.Undefined(), args...)
		if err != nil {
			return errName(err)
		}
		return showVal(v)
	case "obs":
		v, err := fn(obsSrc)(goja.Undefined(), parseVal(w[1]), parseVal(w[2]))
		if err != nil {
			return errName(err)
		}
		return v.String()
	case "js":
		src := strings.TrimPrefix(line, "js ")
		v, err := rt.RunString(src)
		if err != nil {
			return errName(err)
		}
		return showVal(v)
	case "gov":
		return showVal(goValue(w[1], w[2]))
	case "exp":
		switch x := parseVal(w[1]).Export().(type) {
		case int64:
			return "int64:" + strconv.FormatInt(x, 10)
		case float64:
			return fmt.Sprintf("float64:%016x", math.Float64bits(x))
		default:
			return fmt.Sprintf("other:%T", x)
		}
	}
	return "bad"
}

func main() { common.Loop(handle) }
