// C06 harness: drives the real goja string implementation.
//
// Stream A (Go-API register machine; same op lines as the Lean driver, see lean/GojaModel/C06/Driver.lean).
// Stream B (JavaScript expression trees in RPN):
//
//	E <rpn>                       -> "<tag> <hexunits>"
//	P <first> | <rpn1> | <rpn2>   -> "<tag1> <hex1> <tag2> <hex2> js=<bits> go=<bits> lt=<0|1> gt=<0|1> cmp=<sign> x1=<hex> x2=<hex>"
//	O <op> <first> | <rpn1> | <rpn2>   same as P after applying the opaque root op (toLowerCase/toUpperCase/normalize) to both
package main

import (
	"bufio"
	"encoding/hex"
	"fmt"
	"os"
	"runtime"
	"strconv"
	"strings"
	"time"
	"unicode/utf16"

	"github.com/dop251/goja"
	"verifharness/common"
)

func tagOf(v goja.Value) string {
	switch fmt.Sprintf("%T", v) {
	case "goja.asciiString":
		return "ascii"
	case "goja.unicodeString":
		return "uni"
	case "*goja.importedString":
		return "imp"
	}
	return "T:" + fmt.Sprintf("%T", v)
}

func hexUnits(s goja.String) string {
	var b strings.Builder
	n := s.Length()
	for i := 0; i < n; i++ {
		fmt.Fprintf(&b, "%04x", s.CharAt(i))
	}
	return b.String()
}

func nfOK(tag string, s goja.String) bool {
	n := s.Length()
	non := false
	for i := 0; i < n; i++ {
		if s.CharAt(i) >= 0x80 {
			non = true
			break
		}
	}
	switch tag {
	case "ascii":
		return !non
	case "uni":
		return non
	}
	return true
}

func hx(s string) string {
	if s == "-" {
		return ""
	}
	return s
}

func parseUnits(h string) ([]uint16, error) {
	h = hx(h)
	if len(h)%4 != 0 {
		return nil, fmt.Errorf("bad units hex")
	}
	u := make([]uint16, 0, len(h)/4)
	for i := 0; i < len(h); i += 4 {
		v, err := strconv.ParseUint(h[i:i+4], 16, 16)
		if err != nil {
			return nil, err
		}
		u = append(u, uint16(v))
	}
	return u, nil
}

func parseBytes(h string) (string, error) {
	b, err := hex.DecodeString(hx(h))
	return string(b), err
}

// ---------------------------------------------------------------- stream A

type machine struct {
	regs map[int]goja.String
	sbs  map[int]*goja.StringBuilder
	rt   *goja.Runtime
	tpl  map[int]goja.Callable
}

func newMachine() *machine {
	return &machine{regs: map[int]goja.String{}, sbs: map[int]*goja.StringBuilder{}, rt: goja.New(), tpl: map[int]goja.Callable{}}
}

func (m *machine) tplFn(n int) goja.Callable {
	if f, ok := m.tpl[n]; ok {
		return f
	}
	var ps, body []string
	for i := 0; i < n; i++ {
		ps = append(ps, fmt.Sprintf("a%d", i))
		body = append(body, fmt.Sprintf("${a%d}", i))
	}
	v, err := m.rt.RunString("(function(" + strings.Join(ps, ",") + "){return `" + strings.Join(body, "") + "`})")
	if err != nil {
		panic(err)
	}
	f, _ := goja.AssertFunction(v)
	m.tpl[n] = f
	return f
}

func atoi(s string) int {
	n, err := strconv.Atoi(s)
	if err != nil {
		panic("bad int " + s)
	}
	return n
}

func (m *machine) reg(s string) goja.String {
	v, ok := m.regs[atoi(s)]
	if !ok {
		panic("unset register " + s)
	}
	return v
}

func subRange(l, p, q int) (int, int) {
	st := p
	if st > l {
		st = l
	}
	en := q
	if en < st {
		en = st
	}
	if en > l {
		en = l
	}
	return st, en
}

func sgn(i int) string {
	if i < 0 {
		return "-1"
	}
	if i > 0 {
		return "1"
	}
	return "0"
}

// builtin calls a String built-in with register values (stream A `bi` ops).
func (m *machine) builtin(w []string) string {
	d, op, args := atoi(w[1]), w[2], w[3:]
	fn := func(path string) goja.Callable {
		v, err := m.rt.RunString(path)
		if err != nil {
			panic(err)
		}
		f, _ := goja.AssertFunction(v)
		return f
	}
	num := func(x string) goja.Value {
		if x == "u" {
			return goja.Undefined()
		}
		n, err := strconv.ParseInt(x, 10, 64)
		if err != nil {
			panic("bad int " + x)
		}
		return m.rt.ToValue(n)
	}
	finish := func(res goja.Value, err error) string {
		if err != nil {
			return "EXC " + common.OneLine(err.Error())
		}
		if goja.IsUndefined(res) {
			m.regs[d] = m.rt.ToValue("").(goja.String)
			return "undef"
		}
		v, ok := res.(goja.String)
		if !ok {
			return "NOTSTRING " + fmt.Sprintf("%T", res)
		}
		m.regs[d] = v
		return tagOf(v)
	}
	switch op {
	case "slice", "substring", "substr":
		return finish(fn("String.prototype." + op)(m.reg(args[0]), num(args[1]), num(args[2])))
	case "at", "charAt":
		return finish(fn("String.prototype." + op)(m.reg(args[0]), num(args[1])))
	case "repeat":
		return finish(fn("String.prototype.repeat")(m.reg(args[0]), num(args[1])))
	case "padStart", "padEnd":
		return finish(fn("String.prototype." + op)(m.reg(args[0]), num(args[2]), m.reg(args[1])))
	case "replace", "replaceAll":
		return finish(fn("String.prototype." + op)(m.reg(args[0]), m.reg(args[1]), m.reg(args[2])))
	case "trim", "trimStart", "trimEnd":
		return finish(fn("String.prototype." + op)(m.reg(args[0])))
	case "raw":
		n := atoi(args[0])
		vals := []goja.Value{m.rt.ToValue(int64(n))}
		for _, a := range args[1:] {
			vals = append(vals, m.reg(a))
		}
		return finish(fn("(function(n){var a=[].slice.call(arguments,1); return String.raw.apply(String,[{raw:a.slice(0,n)}].concat(a.slice(n)))})")(goja.Undefined(), vals...))
	case "splitjoinlim":
		return finish(fn("(function(s,p,j,l){return s.split(p,l).join(j)})")(goja.Undefined(), m.reg(args[0]), m.reg(args[1]), m.reg(args[2]), num(args[3])))
	case "splitpiecelim":
		return finish(fn("(function(s,p,k,l){return s.split(p,l)[k]})")(goja.Undefined(), m.reg(args[0]), m.reg(args[1]), num(args[2]), num(args[3])))
	case "splitjoin":
		return finish(fn("(function(s,p,j){return s.split(p).join(j)})")(goja.Undefined(), m.reg(args[0]), m.reg(args[1]), m.reg(args[2])))
	case "splitpiece":
		return finish(fn("(function(s,p,k){return s.split(p)[k]})")(goja.Undefined(), m.reg(args[0]), m.reg(args[1]), num(args[2])))
	case "concat":
		vals := make([]goja.Value, 0, len(args))
		for _, a := range args[1:] {
			vals = append(vals, m.reg(a))
		}
		return finish(fn("String.prototype.concat")(m.reg(args[0]), vals...))
	case "fcc":
		u, err := parseUnits(args[0])
		if err != nil {
			return "ERR"
		}
		vals := make([]goja.Value, len(u))
		for i, c := range u {
			vals[i] = m.rt.ToValue(int64(c))
		}
		return finish(fn("String.fromCharCode")(goja.Undefined(), vals...))
	case "fcp":
		u, err := parseUnits(args[0])
		if err != nil {
			return "ERR"
		}
		cps := codePoints(u)
		vals := make([]goja.Value, len(cps))
		for i, c := range cps {
			vals[i] = m.rt.ToValue(int64(c))
		}
		return finish(fn("String.fromCodePoint")(goja.Undefined(), vals...))
	}
	return "ERR"
}

func (m *machine) step(w []string) string {
	switch w[0] {
	case "bi":
		return m.builtin(w)
	case "reset":
		m.regs = map[int]goja.String{}
		m.sbs = map[int]*goja.StringBuilder{}
		return "ok"
	case "tv":
		s, err := parseBytes(w[2])
		if err != nil {
			return "ERR"
		}
		v := m.rt.ToValue(s).(goja.String)
		m.regs[atoi(w[1])] = v
		return tagOf(v)
	case "nsv":
		s, err := parseBytes(w[2])
		if err != nil {
			return "ERR"
		}
		v := goja.VerifC06NewStringValue(s)
		m.regs[atoi(w[1])] = v
		return tagOf(v)
	case "u16":
		u, err := parseUnits(w[2])
		if err != nil {
			return "ERR"
		}
		v := goja.StringFromUTF16(u)
		m.regs[atoi(w[1])] = v
		return tagOf(v)
	case "raw":
		v := goja.VerifC06KeyRoundTrip(m.reg(w[2]))
		m.regs[atoi(w[1])] = v
		return tagOf(v)
	case "cat":
		v := m.reg(w[2]).Concat(m.reg(w[3]))
		m.regs[atoi(w[1])] = v
		return tagOf(v)
	case "sub":
		a := m.reg(w[2])
		st, en := subRange(a.Length(), atoi(w[3]), atoi(w[4]))
		v := a.Substring(st, en)
		m.regs[atoi(w[1])] = v
		return tagOf(v)
	case "tpl":
		args := make([]goja.Value, 0, len(w)-2)
		for _, r := range w[2:] {
			args = append(args, m.reg(r))
		}
		res, err := m.tplFn(len(args))(goja.Undefined(), args...)
		if err != nil {
			return "EXC " + common.OneLine(err.Error())
		}
		v := res.(goja.String)
		m.regs[atoi(w[1])] = v
		return tagOf(v)
	case "dump":
		a := m.reg(w[1])
		t := tagOf(a)
		out := t + " " + hexUnits(a)
		if !nfOK(t, a) {
			out += " !NF"
		}
		return out
	case "len":
		return strconv.Itoa(m.reg(w[1]).Length())
	case "cmp":
		return sgn(m.reg(w[1]).CompareTo(m.reg(w[2])))
	case "seq":
		return strconv.FormatBool(m.reg(w[1]).StrictEquals(m.reg(w[2])))
	case "same":
		return strconv.FormatBool(m.reg(w[1]).SameAs(m.reg(w[2])))
	case "heq":
		return strconv.FormatBool(goja.VerifC06Hash(m.reg(w[1])) == goja.VerifC06Hash(m.reg(w[2])))
	case "sbnew":
		m.sbs[atoi(w[1])] = &goja.StringBuilder{}
		return "ok"
	case "sbws":
		m.sbs[atoi(w[1])].WriteString(m.reg(w[2]))
		return "ok"
	case "sbwsub":
		a := m.reg(w[2])
		st, en := subRange(a.Length(), atoi(w[3]), atoi(w[4]))
		m.sbs[atoi(w[1])].WriteSubstring(a, st, en)
		return "ok"
	case "sbwr":
		r, err := strconv.ParseUint(w[2], 16, 32)
		if err != nil {
			return "ERR"
		}
		m.sbs[atoi(w[1])].WriteRune(rune(r))
		return "ok"
	case "sbw8":
		s, err := parseBytes(w[2])
		if err != nil {
			return "ERR"
		}
		m.sbs[atoi(w[1])].WriteUTF8String(s)
		return "ok"
	case "sblu":
		m.sbs[atoi(w[1])].LikelyUnicode(atoi(w[2]))
		return "ok"
	case "sbstr":
		v := m.sbs[atoi(w[2])].String()
		m.regs[atoi(w[1])] = v
		return tagOf(v)
	}
	return "ERR"
}

// ---------------------------------------------------------------- stream B

const prelude = `
function rx(s){ return s.replace(/[\\^$.*+?()[\]{}|\/-]/g, "\\$&"); }
function battery(a, b, first) {
  var obs = [
   function(){ return a === b && b === a; },
   function(){ return Object.is(a,b) && Object.is(b,a); },
   function(){ return !(a<b) && !(a>b) && !(b<a) && !(b>a) && a<=b && a>=b; },
   function(){ var m=new Map([[a,1]]); var s=new Set([a]); return m.get(b)===1 && m.has(b) && s.has(b) && new Set([b,a]).size===1 && new Map([[b,2]]).get(a)===2; },
   function(){ var o={}; o[a]=1; var o2={[b]:2}; return o[b]===1 && o2[a]===2 && Object.keys(o)[0]===b && (b in o) && Object.prototype.hasOwnProperty.call(o2,a); },
   function(){ return a.length === b.length; },
   function(){ if (a.length!==b.length) return false; for (var i=0;i<a.length;i++) if (a.charCodeAt(i)!==b.charCodeAt(i) || a[i]!==b[i]) return false; return true; },
   function(){ return a == b && !(a != b) && !(a !== b); },
   function(){ switch(a){case b: return true} return false; },
   function(){ return [a].indexOf(b)===0 && [a].includes(b) && [b].lastIndexOf(a)===0; },
   function(){ return a.indexOf(b)===0 && b.indexOf(a)===0 && a.startsWith(b) && b.endsWith(a) && a.includes(b) && a.lastIndexOf(b)===0; },
   function(){ return JSON.stringify(a)===JSON.stringify(b); },
   function(){ return (a+"x")===(b+"x") && ("é"+a)===("é"+b) && a.slice(0)===b.slice(0) && a.concat(b)===b.concat(a); },
   function(){ var x=[], y=[]; for (var c of a) x.push(c.codePointAt(0)); for (var d of b) y.push(d.codePointAt(0)); return x.join()===y.join() && a.codePointAt(0)===b.codePointAt(0); },
   function(){ return "abcdefgh".charAt(a)==="abcdefgh".charAt(b) && [1,2,3,4].at(a)===[1,2,3,4].at(b) && "abcdefgh".slice(a)==="abcdefgh".slice(b); },
   function(){ return Object.is(+a,+b) && Object.is(parseInt(a),parseInt(b)) && (a|0)===(b|0) && Object.is(parseFloat(a),parseFloat(b)) && Object.is(a*1,b*1); }
  ];
  var r = new Array(obs.length);
  r[first % obs.length] = obs[first % obs.length]() ? "1" : "0";
  for (var i = 0; i < obs.length; i++) if (i !== first % obs.length) r[i] = obs[i]() ? "1" : "0";
  return r.join("");
}
function lt(a,b){ return a<b ? 1 : 0 }
function hx4(n){ return ("0000"+n.toString(16)).slice(-4); }
function hx6(n){ return ("000000"+n.toString(16)).slice(-6); }
// per-value observations compared with the SPEC (QuoteJSONString, code-point segmentation) by the orchestrator
function obsq(s){ var q = JSON.stringify(s), h = ""; for (var i = 0; i < q.length; i++) h += hx4(q.charCodeAt(i));
  if (JSON.stringify({[s]:0}) !== "{" + q + ":0}") return "MISMATCH:key-quote";
  if (JSON.stringify([s]) !== "[" + q + "]") return "MISMATCH:array-quote";
  return h; }
function obscp(s){
  var routes = {};
  var a = []; for (var c of s) a.push(c.codePointAt(0)); routes["for-of"] = a;
  routes["spread"] = [...s].map(function(x){ return x.codePointAt(0); });
  routes["Array.from"] = Array.from(s, function(x){ return x.codePointAt(0); });
  var it = s[Symbol.iterator](), d = [], r; while (!(r = it.next()).done) d.push(r.value.codePointAt(0)); routes["iterator"] = d;
  var e = []; for (var i = 0; i < s.length; ) { var cp = s.codePointAt(i); e.push(cp); i += cp > 0xFFFF ? 2 : 1; } routes["codePointAt"] = e;
  routes["regexp-u"] = (s.match(/[\s\S]/gu) || []).map(function(x){ return x.codePointAt(0); });
  routes["split-u"] = s === "" ? [] : s.split(/(?:)/u).map(function(x){ return x.codePointAt(0); });
  var ref = a.map(hx6).join("");
  for (var k in routes) { var h = routes[k].map(hx6).join(""); if (h !== ref) return "MISMATCH:" + k + ":" + h + "/for-of:" + ref; }
  return ref === "" ? "-" : ref;
}
`

const nJSObs = 16

type evalCtx struct {
	rt   *goja.Runtime
	nvar int
}

var shared *evalCtx

func getCtx() *evalCtx {
	if shared == nil {
		rt := goja.New()
		if _, err := rt.RunString(prelude); err != nil {
			panic(err)
		}
		shared = &evalCtx{rt: rt}
	}
	return shared
}

func jsLit(u []uint16, q byte) string {
	var b strings.Builder
	b.WriteByte(q)
	for _, c := range u {
		if c >= 0x20 && c < 0x7f && c != uint16(q) && c != '\\' && c != '$' && c != '`' {
			b.WriteByte(byte(c))
		} else {
			fmt.Fprintf(&b, "\\u%04x", c)
		}
	}
	b.WriteByte(q)
	return b.String()
}

func noLone(u []uint16) bool {
	for i := 0; i < len(u); i++ {
		c := u[i]
		if c >= 0xD800 && c <= 0xDBFF {
			if i+1 < len(u) && u[i+1] >= 0xDC00 && u[i+1] <= 0xDFFF {
				i++
				continue
			}
			return false
		}
		if c >= 0xDC00 && c <= 0xDFFF {
			return false
		}
	}
	return true
}

func (c *evalCtx) bind(v goja.Value) string {
	name := fmt.Sprintf("g%d", c.nvar)
	c.nvar++
	c.rt.Set(name, v)
	return name
}

// codePoints merges surrogate pairs; lone surrogates stay as they are.
func codePoints(u []uint16) []rune {
	var out []rune
	for i := 0; i < len(u); i++ {
		c := u[i]
		if c >= 0xD800 && c <= 0xDBFF && i+1 < len(u) && u[i+1] >= 0xDC00 && u[i+1] <= 0xDFFF {
			out = append(out, utf16.DecodeRune(rune(c), rune(u[i+1])))
			i++
		} else {
			out = append(out, rune(c))
		}
	}
	return out
}

func (c *evalCtx) leaf(kind, payload string) (string, error) {
	if strings.HasPrefix(kind, "B.") {
		s, err := parseBytes(payload)
		if err != nil {
			return "", err
		}
		switch kind {
		case "B.go":
			return c.bind(c.rt.ToValue(s)), nil
		case "B.nsv":
			return c.bind(goja.VerifC06NewStringValue(s)), nil
		case "B.w8":
			var sb goja.StringBuilder
			sb.WriteUTF8String(s)
			return c.bind(sb.String()), nil
		}
		return "", fmt.Errorf("unknown leaf %s", kind)
	}
	u, err := parseUnits(payload)
	if err != nil {
		return "", err
	}
	nums := func(vals []rune) string {
		p := make([]string, len(vals))
		for i, v := range vals {
			p[i] = fmt.Sprintf("0x%x", v)
		}
		return strings.Join(p, ",")
	}
	switch kind {
	case "U.lit":
		return jsLit(u, '"'), nil
	case "U.tmpl":
		return jsLit(u, '`'), nil
	case "U.fcc":
		r := make([]rune, len(u))
		for i, x := range u {
			r[i] = rune(x)
		}
		return "String.fromCharCode(" + nums(r) + ")", nil
	case "U.fcp":
		return "String.fromCodePoint(" + nums(codePoints(u)) + ")", nil
	case "U.u16":
		return c.bind(goja.StringFromUTF16(u)), nil
	case "U.sb":
		var sb goja.StringBuilder
		for _, r := range codePoints(u) {
			sb.WriteRune(r)
		}
		return c.bind(sb.String()), nil
	case "U.sbl":
		var sb goja.StringBuilder
		sb.LikelyUnicode(len(u))
		src := goja.StringFromUTF16(u)
		h := len(u) / 2
		sb.WriteSubstring(src, 0, h)
		sb.WriteSubstring(src, h, len(u))
		return c.bind(sb.String()), nil
	case "U.sbs":
		var sb goja.StringBuilder
		h := len(u) / 2
		sb.WriteString(goja.StringFromUTF16(u[:h]))
		sb.WriteString(goja.StringFromUTF16(u[h:]))
		return c.bind(sb.String()), nil
	case "U.jp":
		var b strings.Builder
		b.WriteString(`JSON.parse('"`)
		for _, x := range u {
			fmt.Fprintf(&b, "\\\\u%04x", x)
		}
		b.WriteString(`"')`)
		return b.String(), nil
	case "U.une":
		var b strings.Builder
		b.WriteString(`unescape("`)
		for _, x := range u {
			fmt.Fprintf(&b, "%%u%04X", x)
		}
		b.WriteString(`")`)
		return b.String(), nil
	case "U.tv":
		if !noLone(u) {
			return "", fmt.Errorf("U.tv with lone surrogate")
		}
		return c.bind(c.rt.ToValue(string(utf16.Decode(u)))), nil
	case "U.nsv":
		if !noLone(u) {
			return "", fmt.Errorf("U.nsv with lone surrogate")
		}
		return c.bind(goja.VerifC06NewStringValue(string(utf16.Decode(u)))), nil
	}
	return "", fmt.Errorf("unknown leaf %s", kind)
}

var idForms = map[string]string{
	"slice0": "%s.slice(0)", "plus": `(""+%s)`, "plusr": `(%s+"")`, "str": "String(%s)", "tpl1": "`${%s}`",
	"tostr": "%s.toString()", "obj": "Object(%s).valueOf()", "joinc": `%s.split("").join("")`, "arr": "[%s].join()",
	"spread": `[...%s].join("")`, "sub0": "%s.substring(0)", "concat0": `"".concat(%s)`, "rep1": "%s.repeat(1)",
	"pad0": "%s.padStart(0)", "key": "Object.keys({[%s]:1})[0]", "mapk": "[...new Map([[%s,1]]).keys()][0]",
	"substr0": "%s.substr(0)", "trimid": `("x"+%s+"x").slice(1,-1)`, "repl": `%s.replace("","")`,
	"sym": "Symbol(%s).description", "at": `Array.from(%s.split("")).join("")`,
}

func optArg(s string) string {
	if s == "u" {
		return ""
	}
	return "," + s
}

func (c *evalCtx) build(rpn string) (string, error) {
	var st []string
	pop := func() (string, error) {
		if len(st) == 0 {
			return "", fmt.Errorf("stack underflow")
		}
		x := st[len(st)-1]
		st = st[:len(st)-1]
		return x, nil
	}
	for _, tok := range strings.Fields(rpn) {
		p := strings.Split(tok, ":")
		hd := p[0]
		if strings.HasPrefix(hd, "U.") || strings.HasPrefix(hd, "B.") {
			if len(p) != 2 {
				return "", fmt.Errorf("bad leaf")
			}
			s, err := c.leaf(hd, p[1])
			if err != nil {
				return "", err
			}
			st = append(st, s)
			continue
		}
		var args []string
		need := map[string]int{"cat": 2, "ccat": 2, "padStart": 2, "padEnd": 2, "replace": 3, "replaceAll": 3, "rreplace": 3, "sj": 3, "rsj": 3}[hd]
		if hd == "tpl" {
			need = atoi(p[1])
		}
		if need == 0 {
			need = 1
		}
		for i := 0; i < need; i++ {
			x, err := pop()
			if err != nil {
				return "", err
			}
			args = append([]string{x}, args...)
		}
		var e string
		switch hd {
		case "id":
			f, ok := idForms[p[1]]
			if !ok {
				return "", fmt.Errorf("unknown id form %s", p[1])
			}
			e = fmt.Sprintf(f, args[0])
		case "cat":
			e = "(" + args[0] + "+" + args[1] + ")"
		case "ccat":
			e = args[0] + ".concat(" + args[1] + ")"
		case "tpl":
			var b strings.Builder
			b.WriteByte('`')
			for _, a := range args {
				b.WriteString("${" + a + "}")
			}
			b.WriteByte('`')
			e = b.String()
		case "slice", "substring", "substr":
			e = fmt.Sprintf("%s.%s(%s%s)", args[0], hd, p[1], optArg(p[2]))
		case "at":
			e = fmt.Sprintf(`(%s.at(%s)??"")`, args[0], p[1])
		case "charAt":
			e = fmt.Sprintf("%s.charAt(%s)", args[0], p[1])
		case "padStart", "padEnd":
			e = fmt.Sprintf("%s.%s(%s,%s)", args[0], hd, p[1], args[1])
		case "repeat":
			e = fmt.Sprintf("%s.repeat(%s)", args[0], p[1])
		case "trim", "trimStart", "trimEnd":
			e = fmt.Sprintf("%s.%s()", args[0], hd)
		case "replace", "replaceAll":
			e = fmt.Sprintf("%s.%s(%s,%s)", args[0], hd, args[1], args[2])
		case "rreplace":
			e = fmt.Sprintf(`%s.replace(new RegExp(rx(%s),"%s"),%s)`, args[0], args[1], p[1], args[2])
		case "sj":
			e = fmt.Sprintf("%s.split(%s).join(%s)", args[0], args[1], args[2])
		case "rsj":
			e = fmt.Sprintf("%s.split(new RegExp(rx(%s))).join(%s)", args[0], args[1], args[2])
		case "jrt":
			e = fmt.Sprintf("JSON.parse(JSON.stringify(%s))", args[0])
		case "jstr":
			e = fmt.Sprintf("JSON.stringify(%s)", args[0])
		default:
			return "", fmt.Errorf("unknown op %s", hd)
		}
		st = append(st, e)
	}
	if len(st) != 1 {
		return "", fmt.Errorf("bad rpn")
	}
	return st[0], nil
}

func (c *evalCtx) eval(rpn, wrap string) (goja.String, string) {
	src, err := c.build(rpn)
	if err != nil {
		return nil, "ERR " + err.Error()
	}
	if wrap != "" {
		src = fmt.Sprintf(wrap, "("+src+")")
	}
	v, err := c.rt.RunString("(" + src + ")")
	if err != nil {
		shared = nil
		return nil, "EXC " + common.OneLine(err.Error())
	}
	s, ok := v.(goja.String)
	if !ok {
		return nil, "NOTSTRING " + fmt.Sprintf("%T", v)
	}
	return s, ""
}

func b2s(b bool) string {
	if b {
		return "1"
	}
	return "0"
}

func goObs(a, b goja.String, first int) string {
	obs := []func() bool{
		func() bool { return a.StrictEquals(b) && b.StrictEquals(a) },
		func() bool { return a.SameAs(b) && b.SameAs(a) },
		func() bool { return a.Equals(b) && b.Equals(a) },
		func() bool { return a.CompareTo(b) == 0 && b.CompareTo(a) == 0 },
		func() bool { return goja.VerifC06Hash(a) == goja.VerifC06Hash(b) },
		func() bool { return goja.VerifC06Key(a) == goja.VerifC06Key(b) },
		func() bool { return a.Length() == b.Length() },
		func() bool { return a.ToNumber().SameAs(b.ToNumber()) },
		func() bool {
			fa, fb := a.ToFloat(), b.ToFloat()
			return a.ToInteger() == b.ToInteger() && (fa == fb || (fa != fa && fb != fb))
		},
		func() bool { return a.ToBoolean() == b.ToBoolean() },
		func() bool { return a.Export() == b.Export() && a.String() == b.String() && a.ExportType() == b.ExportType() },
	}
	r := make([]string, len(obs))
	f := first % len(obs)
	r[f] = b2s(obs[f]())
	for i := range obs {
		if i != f {
			r[i] = b2s(obs[i]())
		}
	}
	return strings.Join(r, "")
}

var opaque = map[string]string{
	"lower": "%s.toLowerCase()", "upper": "%s.toUpperCase()", "norm": "%s.normalize()", "normNFD": `%s.normalize("NFD")`,
	"normNFKC": `%s.normalize("NFKC")`, "normNFKD": `%s.normalize("NFKD")`, "llower": "%s.toLocaleLowerCase()", "lupper": "%s.toLocaleUpperCase()",
}

func pairLine(line string, wrap string, first int) string {
	parts := strings.Split(line, "|")
	if len(parts) != 3 {
		return "ERR parts"
	}
	if first%9 == 0 {
		shared = nil // every few pairs: a FRESH runtime, so that the observation is the first operation it ever performs
	}
	c := getCtx()
	c.nvar = 0
	a, e := c.eval(parts[1], wrap)
	if e != "" {
		return e
	}
	c = getCtx()
	b, e := c.eval(parts[2], wrap)
	if e != "" {
		return e
	}
	ta, tb := tagOf(a), tagOf(b)
	var js, gobits string
	doJS := func() {
		c.rt.Set("pa", a)
		c.rt.Set("pb", b)
		v, err := c.rt.RunString(fmt.Sprintf("battery(pa,pb,%d)", first%nJSObs))
		if err != nil {
			js = "EXC:" + common.OneLine(err.Error())
			shared = nil
		} else {
			js = v.String()
		}
	}
	if first >= 100 {
		gobits = goObs(a, b, first-100)
		doJS()
	} else {
		doJS()
		gobits = goObs(a, b, 0)
	}
	c = getCtx()
	c.rt.Set("pa", a)
	c.rt.Set("pb", b)
	ltv, _ := c.rt.RunString("lt(pa,pb)")
	gtv, _ := c.rt.RunString("lt(pb,pa)")
	xa := hex.EncodeToString([]byte(fmt.Sprint(a.Export())))
	xb := hex.EncodeToString([]byte(fmt.Sprint(b.Export())))
	nf := b2s(nfOK(ta, a)) + b2s(nfOK(tb, b))
	ob := func(fn string, v goja.String) string {
		c = getCtx()
		c.rt.Set("pv", v)
		r, err := c.rt.RunString(fn + "(pv)")
		if err != nil {
			shared = nil
			return "EXC:" + strings.ReplaceAll(common.OneLine(err.Error()), " ", "_")
		}
		if r.String() == "" {
			return "-"
		}
		return r.String()
	}
	return fmt.Sprintf("%s %s %s %s js=%s go=%s lt=%v gt=%v cmp=%s nf=%s x1=%s x2=%s q1=%s q2=%s cp1=%s cp2=%s", ta, "u"+hexUnits(a), tb, "u"+hexUnits(b), js, gobits, ltv, gtv, sgn(a.CompareTo(b)), nf, "x"+xa, "x"+xb,
		ob("obsq", a), ob("obsq", b), ob("obscp", a), ob("obscp", b))
}

// loop is common.Loop plus a per-case watchdog: a case that does not answer within the limit is answered
// "TIMEOUT" and the process exits (a goroutine stuck in native code cannot be stopped); the orchestrator
// restarts the harness on the remaining lines.
func loop(f func(line string) string) {
	limit := 15000 * time.Millisecond
	if v, err := strconv.Atoi(os.Getenv("C06_CASE_TIMEOUT_MS")); err == nil && v > 0 {
		limit = time.Duration(v) * time.Millisecond
	}
	in := bufio.NewScanner(os.Stdin)
	in.Buffer(make([]byte, 1<<20), 1<<26)
	out := bufio.NewWriterSize(os.Stdout, 1<<16)
	defer out.Flush()
	for in.Scan() {
		line := in.Text()
		ch := make(chan string, 1)
		go func() { ch <- common.Safe(func() string { return f(line) }) }()
		deadline := time.After(limit)
		tick := time.NewTicker(200 * time.Millisecond)
	wait:
		for {
			select {
			case res := <-ch:
				out.WriteString(res)
				out.WriteByte('\n')
				break wait
			case <-tick.C:
				// a runaway case may also allocate without bound: give up long before the machine suffers
				var ms runtime.MemStats
				runtime.ReadMemStats(&ms)
				if ms.HeapAlloc > 3<<30 {
					out.WriteString("TIMEOUT heap>3GiB\n")
					out.Flush()
					os.Exit(3)
				}
			case <-deadline:
				out.WriteString("TIMEOUT\n")
				out.Flush()
				os.Exit(3)
			}
		}
		tick.Stop()
	}
}

func main() {
	m := newMachine()
	loop(func(line string) string {
		w := strings.Fields(line)
		if len(w) == 0 {
			return "ERR"
		}
		switch w[0] {
		case "E":
			c := getCtx()
			c.nvar = 0
			s, e := c.eval(strings.TrimPrefix(line, "E "), "")
			if e != "" {
				return e
			}
			t := tagOf(s)
			out := t + " u=" + hexUnits(s)
			if !nfOK(t, s) {
				out += " !NF"
			}
			return out
		case "P":
			if len(w) < 2 {
				return "ERR"
			}
			return pairLine(line, "", atoi(w[1]))
		case "O":
			if len(w) < 3 {
				return "ERR"
			}
			f, ok := opaque[w[1]]
			if !ok {
				return "ERR opaque"
			}
			return pairLine(line, f, atoi(w[2]))
		}
		return m.step(w)
	})
}
