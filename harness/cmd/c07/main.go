// Harness for property C07 (arrays are spec arrays whatever the storage).
// Line protocol (same as lean/GojaModel/C07/Driver.lean):
//
//	seq <op>;<op>;...      run the op sequence on a fresh `[]` in a fresh runtime, print the observation
//	sortx <json>           run one sort case (see runSort)
//	meth <json>            run one metamorphic method case (see runMeth)
package main

import (
	"encoding/json"
	"fmt"
	"strconv"
	"strings"
	"time"

	"github.com/dop251/goja"
	"verifharness/common"
)

const prelude = `
var G=[null,function(){return 11},function(){return 12},function(){return 13}];
var SX=[null,function(v){},function(v){},function(v){}];
function tf(b){return b?"T":"F"}
function fid(f,T){if(f===undefined)return "u";for(var i=1;i<T.length;i++)if(T[i]===f)return ""+i;return "?"}
function vnum(v){return v===undefined?"0":""+v}
function val(n){return n===0?undefined:n}
function descStr(d){if(('value' in d)||('writable' in d))return "d"+vnum(d.value)+"."+tf(d.writable)+tf(d.enumerable)+tf(d.configurable);
 return "a"+fid(d.get,G)+"."+fid(d.set,SX)+"."+tf(d.enumerable)+tf(d.configurable)}
function isIdx(k){return typeof k==="string"&&String(k>>>0)===k&&(k>>>0)!==4294967295}
function keysStr(a){var ks=Reflect.ownKeys(a),out="";for(var i=0;i<ks.length;i++){var k=ks[i];if(!isIdx(k))continue;
 out+=(out===""?"":",")+k+":"+descStr(Object.getOwnPropertyDescriptor(a,k))}return out}
function otherStr(a){var ks=Reflect.ownKeys(a),out="";for(var i=0;i<ks.length;i++){var k=ks[i];if(isIdx(k)||k==="length")continue;out+=(out===""?"":",")+String(k)}return out}
var TS=0;Array.prototype.toString=function(){TS++;return "[array]"};
function obsStr(a,R){return "r="+R+"|len="+a.length+"|lw="+tf(Object.getOwnPropertyDescriptor(a,"length").writable)+"|ext="+tf(Object.isExtensible(a))+"|keys="+keysStr(a)+"|other="+otherStr(a)+"|ts="+TS}
function mkDesc(v,w,e,c,g,s){var d={};if(v!=="-")d.value=val(+v);if(w!=="-")d.writable=(w==="T");if(e!=="-")d.enumerable=(e==="T");if(c!=="-")d.configurable=(c==="T");
 if(g!=="-")d.get=(g==="u"?undefined:G[+g]);if(s!=="-")d.set=(s==="u"?undefined:SX[+s]);return d}
var a=[];var R="";var opn=0;
function key(i){opn++;return (opn%2)?i:String(i)}
`

func info(o *goja.Object) string {
	in := goja.VerifC07ArrayInfo(o)
	b := func(x bool) string {
		if x {
			return "T"
		}
		return "F"
	}
	oc := in.ObjCount
	if oc < 0 {
		oc = 0
	}
	// tag length n objCount pvc present props sorted maxIdxP1 nilItems   (+cap for statistics)
	return fmt.Sprintf("%s %d %d %d %d %d %d %s %d %d", in.Tag, in.Length, in.N, oc, in.PropValueCount, in.ActualPresent, in.ActualProps, b(in.Sorted), in.MaxIdxPlus1, in.NilItems)
}

func newVM() *goja.Runtime {
	vm := goja.New()
	t := time.AfterFunc(180*time.Second, func() { vm.Interrupt("timeout") })
	_ = t
	return vm
}

func opJS(op string) (string, error) {
	w := strings.Fields(op)
	if len(w) == 0 {
		return "", nil
	}
	switch w[0] {
	case "S":
		return fmt.Sprintf("R+=tf(Reflect.set(a,key(%s),val(%s)));", w[1], w[2]), nil
	case "L":
		return fmt.Sprintf("R+=tf(Reflect.set(a,'length',%s));", w[1]), nil
	case "D":
		return fmt.Sprintf("R+=tf(Reflect.defineProperty(a,key(%s),mkDesc('%s','%s','%s','%s','%s','%s')));", w[1], w[2], w[3], w[4], w[5], w[6], w[7]), nil
	case "DL":
		g := "-"
		if w[5] == "1" {
			g = "1"
		}
		vs := ""
		if w[1] != "-" {
			vs = "d.value=" + w[1] + ";"
		}
		return fmt.Sprintf("(function(){var d=mkDesc('-','%s','%s','%s','%s','-');%sR+=tf(Reflect.defineProperty(a,'length',d))})();", w[2], w[3], w[4], g, vs), nil
	case "X":
		return fmt.Sprintf("R+=tf(Reflect.deleteProperty(a,key(%s)));", w[1]), nil
	case "POP":
		return "R+=tf((function(){try{a.pop();return true}catch(e){return false}})());", nil
	case "F":
		return "Object.freeze(a);R+='T';", nil
	case "P":
		return "Object.preventExtensions(a);R+='T';", nil
	case "FILL":
		return fmt.Sprintf("for(var i=%s,n=%s+%s;i<n;i++)a[i]=val(%s);R+='T';", w[1], w[1], w[2], w[3]), nil
	case "DS":
		return "(function(){var L=a.length;a[70000]=1;delete a[70000];a.length=L})();", nil
	case "DD":
		return "(function(){var L=a.length;for(var i=100;i<1400;i++)a[i]=1;__mid();for(var i=100;i<1400;i++)delete a[i];a.length=L})();", nil
	case "PROTO":
		// PROTO idx kind   on Array.prototype
		switch w[2] {
		case "dw":
			return fmt.Sprintf("Array.prototype[%s]=900+%s;", w[1], w[1]), nil
		case "dr":
			return fmt.Sprintf("Object.defineProperty(Array.prototype,%s,{value:900+%s,writable:false,enumerable:true,configurable:true});", w[1], w[1]), nil
		case "as":
			return fmt.Sprintf("Object.defineProperty(Array.prototype,%s,{get:function(){return 800+%s},set:function(v){},enumerable:true,configurable:true});", w[1], w[1]), nil
		case "ag":
			return fmt.Sprintf("Object.defineProperty(Array.prototype,%s,{get:function(){return 800+%s},enumerable:true,configurable:true});", w[1], w[1]), nil
		}
	}
	return "", fmt.Errorf("bad op %q", op)
}

func runSeq(body string) string {
	vm := newVM()
	if _, err := vm.RunString(prelude); err != nil {
		return "ERR prelude " + common.OneLine(err.Error())
	}
	tags := ""
	tagOf := func() string {
		o := vm.Get("a").ToObject(vm)
		return goja.VerifC07ArrayInfo(o).Tag
	}
	vm.Set("__mid", func() {
		if tagOf() == "dense" {
			tags += "D"
		} else {
			tags += "S"
		}
	})
	invBad := ""
	for _, op := range strings.Split(body, ";") {
		if len(strings.Fields(op)) == 0 {
			continue
		}
		js, err := opJS(op)
		if err != nil {
			return "BADOP"
		}
		if _, err := vm.RunString(js); err != nil {
			return "ERR " + common.OneLine(op) + " -> " + common.OneLine(err.Error())
		}
		if strings.HasPrefix(strings.TrimSpace(op), "PROTO") {
			continue
		}
		if tagOf() == "dense" {
			tags += "d"
		} else {
			tags += "s"
		}
		_ = invBad
	}
	o := vm.Get("a").ToObject(vm)
	v, err := vm.RunString("obsStr(a,R)")
	if err != nil {
		return "ERR obs " + common.OneLine(err.Error())
	}
	in := goja.VerifC07ArrayInfo(o)
	std, stdp := goja.VerifC07StdFastPath(o)
	// Go export (fast path when the guard holds) against the generic element-by-element read
	exp := "skip"
	if in.Length <= 200000 {
		exp = "ok"
		ex, _ := o.Export().([]interface{})
		if uint32(len(ex)) != in.Length {
			exp = fmt.Sprintf("BADLEN(%d)", len(ex))
		} else {
			for i := range ex {
				g := o.Get(strconv.Itoa(i))
				var want interface{}
				if g != nil && !goja.IsUndefined(g) {
					want = g.Export()
				}
				if fmt.Sprint(ex[i]) != fmt.Sprint(want) {
					exp = fmt.Sprintf("BAD(i=%d,export=%v,generic=%v)", i, ex[i], want)
					break
				}
			}
		}
	}
	return fmt.Sprintf("%s|tag=%s|tags=%s|info=%s|cap=%d|std=%v/%v|exp=%s", v.String(), in.Tag, tags, info(o), in.Cap, std, stdp, exp)
}

// ---------------------------------------------------------------- sort

const sortLib = `
function mkVal(s){return (s==="u")?undefined:{k:s[0],t:s[1]}}
function installProto(a,where,items){ // indexed properties on the prototype chain of the receiver
 var P;
 if(where==="array")P=Array.prototype;else if(where==="object")P=Object.prototype;
 else{P=Object.create(Object.getPrototypeOf(a));Object.setPrototypeOf(a,P)}
 for(var i=0;i<items.length;i++)P[items[i][0]]=mkVal(items[i][1]);return a}
function mkElems(spec){ // spec: array of "n"(hole) | "u" | [key,tag]
 var out=[];out.length=spec.length;for(var i=0;i<spec.length;i++){var s=spec[i];if(s==="n")continue;out[i]=(s==="u")?undefined:{k:s[0],t:s[1]}}return out}
function elemStr(a){var o=[];for(var i=0;i<a.length;i++){if(!Object.prototype.hasOwnProperty.call(a,i))o.push("n");else if(a[i]===undefined)o.push("u");else o.push(a[i].k+"."+a[i].t)}return o.join(",")}
var calls=0;
var CMP={
 asc:function(x,y){calls++;return x.k-y.k},
 "desc-negate":function(x,y){calls++;return -(x.k-y.k)},
 negzero:function(x,y){calls++;return -0},
 nan:function(x,y){calls++;return NaN},
 poszero:function(x,y){calls++;return 0},
 random:function(x,y){calls++;return [(-1),1,0,NaN,-0,2.5,-7][(rs=(rs*1103515245+12345)&0x7fffffff)%7]},
 str:function(x,y){calls++;return String(x.k-y.k)},
 undef:undefined
};
var rs=1;
`

type sortCase struct {
	Recv   string        `json:"recv"`   // dense | sparse | arraylike | goslice | frozenlen
	Method string        `json:"method"` // sort | toSorted
	Cmp    string        `json:"cmp"`
	Elems  []interface{} `json:"elems"`
	Mutate string        `json:"mutate"` // "", "shrink", "grow", "sparse", "throw"
	PWhere string        `json:"pwhere"` // "", "array", "object", "custom": where inherited indexed properties live
	PItems []interface{} `json:"pitems"` // [[idx, elem], ...]
	Seed   int           `json:"seed"`
}

func runSort(js string) string {
	var c sortCase
	if err := json.Unmarshal([]byte(js), &c); err != nil {
		return "BADOP " + err.Error()
	}
	vm := newVM()
	if _, err := vm.RunString(sortLib); err != nil {
		return "ERR lib " + err.Error()
	}
	eb, _ := json.Marshal(c.Elems)
	setup := fmt.Sprintf("rs=%d;var spec=%s;var a=mkElems(spec);", c.Seed+1, string(eb))
	switch c.Recv {
	case "sparse":
		setup += "a[70000]=1;delete a[70000];a.length=spec.length;"
	case "arraylike":
		setup += "var b={length:a.length};for(var i=0;i<a.length;i++)if(i in a)b[i]=a[i];a=b;"
	}
	if c.PWhere != "" && c.Recv != "goslice" {
		pb, _ := json.Marshal(c.PItems)
		setup += fmt.Sprintf("a=installProto(a,%q,%s);", c.PWhere, string(pb))
	}
	if _, err := vm.RunString(setup); err != nil {
		return "ERR setup " + common.OneLine(err.Error())
	}
	if c.Recv == "goslice" {
		// a Go []interface{} holding the same JS objects (holes are not representable: caller sends none)
		arr := vm.Get("a").ToObject(vm)
		n := int(arr.Get("length").ToInteger())
		sl := make([]interface{}, n)
		for i := 0; i < n; i++ {
			sl[i] = arr.Get(strconv.Itoa(i))
		}
		vm.Set("a", sl)
	}
	cmp := "CMP['" + c.Cmp + "']"
	if c.Mutate != "" {
		var m string
		switch c.Mutate {
		case "shrink":
			m = "if(calls==2){a.length=0}"
		case "grow":
			m = "if(calls==2){a[a.length+5]=undefined}"
		case "sparse":
			m = "if(calls==2){var L0=a.length;a[90000]=1;delete a[90000];a.length=L0}"
		case "throw":
			m = "if(calls==3){throw new RangeError('cmp')}"
		}
		cmp = fmt.Sprintf("(function(x,y){var r=CMP['%s'](x,y);%s;return r})", c.Cmp, m)
	}
	call := fmt.Sprintf("var res, err='';try{res=Array.prototype.%s.call(a,%s)}catch(e){err=e.name}; [err, res===a, (res&&typeof res==='object')?elemStr(res):'', elemStr(a), calls].join('|')", c.Method, cmp)
	v, err := vm.RunString(call)
	if err != nil {
		return "ERR call " + common.OneLine(err.Error())
	}
	tag := "-"
	if o, ok := vm.Get("a").(*goja.Object); ok {
		tag = goja.VerifC07ArrayInfo(o).Tag
	}
	return v.String() + "|" + tag
}

// ---------------------------------------------------------------- methods (metamorphic)

const methLib = `
function ser(v,self,depth){depth=depth||0;
 if(v===self)return "THIS";
 if(v===undefined)return "u";if(v===null)return "null";
 if(typeof v==="number")return (Object.is(v,-0)?"-0":String(v));
 if(typeof v==="string")return JSON.stringify(v);if(typeof v==="boolean")return String(v);
 if(typeof v==="function")return "fn";
 if(typeof v==="object"){ if(depth>3)return "deep";
  if(Array.isArray(v)||typeof v.length==="number"){var o=[];var n=v.length;if(n>5000)return "long("+n+")";for(var i=0;i<n;i++)o.push((i in v)?(Object.prototype.hasOwnProperty.call(v,i)?"":"^")+ser(v[i],self,depth+1):"_");return "["+o.join(",")+"]#"+n}
  if(typeof v.next==="function"){var o=[];for(var i=0;i<50;i++){var r=v.next();if(r.done)break;o.push(ser(r.value,self,depth+1))}return "it("+o.join(",")+")"}
  if(v instanceof TAG)return "T"+v.id;
  return "obj"}
 return typeof v}
function TAG(id){this.id=id}
TAG.prototype.toString=function(){return "t"+this.id};
function state(o){var ks=Reflect.ownKeys(o).filter(function(k){return typeof k==="string"&&String(k>>>0)===k&&(k>>>0)!==4294967295});
 return "len="+o.length+";"+ks.map(function(k){var d=Object.getOwnPropertyDescriptor(o,k);return k+"="+(('value' in d)?ser(d.value,o,1):"acc")+(d.writable===false?"!w":"")+(d.configurable?"":"!c")+(d.enumerable?"":"!e")}).join(",")}
function setLen(o,n){if(Array.isArray(o)){o.length=n;return}var ks=Object.keys(o);for(var i=0;i<ks.length;i++){var k=ks[i];if(String(k>>>0)===k&&(k>>>0)>=n)delete o[k]}o.length=n}
function put(o,i,v){o[i]=v;if(!Array.isArray(o)&&o.length<=i)o.length=i+1}
function dp(o,i,v){Object.defineProperty(o,i,{value:v,writable:true,enumerable:true,configurable:true})} // CreateDataProperty: never consults the prototype chain
function build(kind,spec){ // spec elems: "_" hole | number | "u" | ["t",id] | ["acc",v] | ["nc",v]
 var a=(kind.indexOf("arraylike")===0)?{}:[];
 if(kind==="sparse"||kind==="sparse-frozen"||kind==="sparse-nonext"){a[70000]=1;delete a[70000];a.length=0}
 for(var i=0;i<spec.length;i++){var s=spec[i];if(s==="_")continue;
  if(s==="u")dp(a,i,undefined);else if(typeof s==="number")dp(a,i,s);
  else if(s[0]==="t")dp(a,i,new TAG(s[1]));
  else if(s[0]==="acc")(function(v){Object.defineProperty(a,i,{get:function(){return v},set:function(x){},enumerable:true,configurable:true})})(s[1]);
  else if(s[0]==="nc")Object.defineProperty(a,i,{value:s[1],writable:true,enumerable:true,configurable:false});}
 if(Array.isArray(a)){ if(a.length<spec.length) a.length=spec.length } else { a.length=spec.length; Object.setPrototypeOf(a,Array.prototype); a[Symbol.isConcatSpreadable]=true }
 if(kind==="frozen"||kind==="arraylike-frozen"||kind==="sparse-frozen")Object.freeze(a);
 if(kind==="nonext"||kind==="arraylike-nonext"||kind==="sparse-nonext")Object.preventExtensions(a);
 return a}
var __recv,__out;
function runCase(kind,spec,meth,argsSrc){
 var r=build(kind,spec);var out,err="";
 var log=[];
 var args=eval("(function(self,log){return ["+argsSrc+"]})")(r,log);
 try{out=Array.prototype[meth].apply(r,args)}catch(e){err=e.name}
 __recv=r;__out=out;
 return "res="+(err?("!"+err):ser(out,r))+"|log="+log.join(",")+"|state="+state(r)}
`

type methCase struct {
	Kind  string        `json:"kind"` // dense | sparse | frozen | arraylike | goslice
	Spec  []interface{} `json:"spec"`
	Proto []interface{} `json:"proto"` // [[idx, value], ...] set on Array.prototype before
	Meth  string        `json:"meth"`
	Args  string        `json:"args"` // JS source of the argument list; may use self, log
}

func runMeth(js string) string {
	var c methCase
	if err := json.Unmarshal([]byte(js), &c); err != nil {
		return "BADOP " + err.Error()
	}
	invInfo := ""
	one := func(kind string) string {
		vm := newVM()
		if _, err := vm.RunString(methLib); err != nil {
			return "ERR lib " + err.Error()
		}
		for _, p := range c.Proto {
			pp := p.([]interface{})
			if acc, ok := pp[1].([]interface{}); ok && len(acc) == 2 {
				if acc[0] == "ro" { // a read-only inherited data property: ["ro", v]
					vm.RunString(fmt.Sprintf("Object.defineProperty(Array.prototype,%v,{value:%v,writable:false,enumerable:true,configurable:true});", pp[0], acc[1]))
					continue
				}
				// an indexed ACCESSOR on the prototype chain: ["acc", v]
				vm.RunString(fmt.Sprintf("Object.defineProperty(Array.prototype,%v,{get:function(){return %v},set:function(x){},enumerable:true,configurable:true});", pp[0], acc[1]))
			} else {
				vm.RunString(fmt.Sprintf("Array.prototype[%v]=%v;", pp[0], pp[1]))
			}
		}
		sb, _ := json.Marshal(c.Spec)
		ab, _ := json.Marshal(c.Args)
		if kind == "goslice" {
			// build a dense array first, then copy its elements into a Go slice wrapper
			src := fmt.Sprintf("var __tmp=build('dense',%s);", string(sb))
			if _, err := vm.RunString(src); err != nil {
				return "ERR build " + common.OneLine(err.Error())
			}
			arr := vm.Get("__tmp").ToObject(vm)
			n := int(arr.Get("length").ToInteger())
			sl := make([]interface{}, n)
			for i := 0; i < n; i++ {
				sl[i] = arr.Get(strconv.Itoa(i))
			}
			vm.Set("__gs", sl)
			src = fmt.Sprintf("(function(){var r=__gs;var out,err='';var log=[];var args=eval('(function(self,log){return ['+%s+']})')(r,log);try{out=Array.prototype[%q].apply(r,args)}catch(e){err=e.name}return 'res='+(err?('!'+err):ser(out,r))+'|log='+log.join(',')+'|state='+state(r)})()", string(ab), c.Meth)
			v, err := vm.RunString(src)
			if err != nil {
				return "ERR run " + common.OneLine(err.Error())
			}
			return v.String()
		}
		v, err := vm.RunString(fmt.Sprintf("runCase(%q,%s,%q,%s)", kind, string(sb), c.Meth, string(ab)))
		if err != nil {
			return "ERR run " + common.OneLine(err.Error())
		}
		if kind == c.Kind {
			// white-box bookkeeping of the receiver and of an Array result after the call
			for _, name := range []string{"__recv", "__out"} {
				if o, ok := vm.Get(name).(*goja.Object); ok {
					if in := goja.VerifC07ArrayInfo(o); in.Tag == "dense" || in.Tag == "sparse" {
						invInfo += name + "=" + info(o) + ";"
					}
				}
			}
		}
		o := vm.Get("a")
		_ = o
		return v.String()
	}
	subj := one(c.Kind)
	refKind := "arraylike-ref"
	if c.Kind == "frozen" {
		refKind = "arraylike-frozen"
	}
	if c.Kind == "nonext" {
		refKind = "arraylike-nonext"
	}
	ref := one(refKind)
	twin := "-"
	switch c.Kind {
	case "dense":
		twin = one("sparse")
	case "frozen":
		twin = one("sparse-frozen")
	case "nonext":
		twin = one("sparse-nonext")
	}
	return subj + " @@ " + ref + " @@ " + twin + " @@ INV:" + invInfo
}


// ---------------------------------------------------------------- Go []interface{} wrapper with spare capacity

type gsCase struct {
	Cap  int             `json:"cap"`  // capacity of the backing array; the spare part holds sentinel values
	Init []interface{}   `json:"init"` // initial contents (len <= cap)
	Ptr  bool            `json:"ptr"`  // wrap *[]interface{} (Go side sees growth) or []interface{}
	Ops  [][]interface{} `json:"ops"`  // ["set",i,v] ["len",n] ["push",v] ["pop"] ["gotrunc",n] (Go-side reslice, ptr only)
}

const gsLib = `
function canon(v){if(v===undefined||v===null)return "-";return (typeof v)+":"+String(v)}
function obs(o,sent){var out=[],n=o.length;for(var i=0;i<n;i++)out.push(canon(o[i]));
 var f=[];for(var j=0;j<sent.length;j++){f.push(Array.prototype.indexOf.call(o,sent[j]));f.push(Array.prototype.includes.call(o,sent[j])?1:0);f.push(Array.prototype.lastIndexOf.call(o,sent[j]))}
 return n+"["+out.join(",")+"]"+f.join("")+"|"+Array.prototype.join.call(o,"/")}
`

func jsLit(v interface{}) string {
	b, _ := json.Marshal(v)
	return string(b)
}

func goCanon(sl []interface{}) string {
	parts := make([]string, len(sl))
	for i, x := range sl {
		switch y := x.(type) {
		case nil:
			parts[i] = "-"
		case string:
			parts[i] = "string:" + y
		case int64:
			parts[i] = "number:" + strconv.FormatInt(y, 10)
		case float64:
			parts[i] = "number:" + strconv.FormatFloat(y, 'f', -1, 64)
		default:
			parts[i] = fmt.Sprintf("%T:%v", x, x)
		}
	}
	return fmt.Sprintf("%d[%s]", len(sl), strings.Join(parts, ","))
}

// runGS: the same script operations on a Go slice wrapper (whose backing array has stale non-nil
// values in its spare capacity) and on a real Array twin; prints both observation traces and the
// final Go-side value.  New slots must be empty (null from script, nil in Go), never stale.
func runGS(js string) string {
	var c gsCase
	if err := json.Unmarshal([]byte(js), &c); err != nil {
		return "BADOP " + err.Error()
	}
	if len(c.Init) > c.Cap {
		return "BADOP init longer than cap"
	}
	vm := newVM()
	if _, err := vm.RunString(gsLib); err != nil {
		return "ERR lib " + err.Error()
	}
	backing := make([]interface{}, c.Cap)
	sent := make([]string, c.Cap)
	for i := range backing {
		sent[i] = "SENTINEL" + strconv.Itoa(i)
		backing[i] = sent[i]
	}
	for i, v := range c.Init {
		if f, ok := v.(float64); ok {
			v = int64(f)
		}
		backing[i] = v
	}
	sl := backing[:len(c.Init)]
	if c.Ptr {
		vm.Set("s", &sl)
	} else {
		vm.Set("s", sl)
	}
	vm.Set("SENT", sent)
	if _, err := vm.RunString("var t=" + jsLit(c.Init) + ";var sent=[];for(var i=0;i<SENT.length;i++)sent.push(SENT[i]);"); err != nil {
		return "ERR init " + common.OneLine(err.Error())
	}
	var ts, tt []string
	observe := func() string {
		a, err := vm.RunString("obs(s,sent)")
		if err != nil {
			return "ERR obs " + common.OneLine(err.Error())
		}
		b, err := vm.RunString("obs(t,sent)")
		if err != nil {
			return "ERR obs " + common.OneLine(err.Error())
		}
		ts = append(ts, a.String())
		tt = append(tt, b.String())
		return ""
	}
	if e := observe(); e != "" {
		return e
	}
	for _, op := range c.Ops {
		kind, _ := op[0].(string)
		var src string
		switch kind {
		case "set":
			src = fmt.Sprintf("s[%v]=%s;t[%v]=%s;", op[1], jsLit(op[2]), op[1], jsLit(op[2]))
		case "len":
			src = fmt.Sprintf("s.length=%v;t.length=%v;", op[1], op[1])
		case "push":
			src = fmt.Sprintf("Array.prototype.push.call(s,%s);t.push(%s);", jsLit(op[1]), jsLit(op[1]))
		case "pop":
			src = "Array.prototype.pop.call(s);t.pop();"
		case "gotrunc":
			n := int(op[1].(float64))
			if c.Ptr && n <= len(sl) {
				sl = sl[:n] // Go-side truncation: the dropped values stay in the spare capacity
				src = fmt.Sprintf("t.length=%d;", n)
			}
		default:
			return "BADOP " + kind
		}
		if src != "" {
			if _, err := vm.RunString(src); err != nil {
				return "ERR op " + kind + " " + common.OneLine(err.Error())
			}
		}
		if e := observe(); e != "" {
			return e
		}
	}
	// the Go value afterwards
	var goFinal string
	if c.Ptr {
		goFinal = goCanon(sl)
	} else if ex, ok := vm.Get("s").Export().([]interface{}); ok {
		goFinal = goCanon(ex)
	} else {
		goFinal = fmt.Sprintf("?%T", vm.Get("s").Export())
	}
	return strings.Join(ts, ";") + " @@ " + strings.Join(tt, ";") + " @@ " + goFinal
}

func main() {
	common.Loop(func(line string) string {
		switch {
		case strings.HasPrefix(line, "seq "):
			return runSeq(line[4:])
		case strings.HasPrefix(line, "sortx "):
			return runSort(line[6:])
		case strings.HasPrefix(line, "meth "):
			return runMeth(line[5:])
		case strings.HasPrefix(line, "gs "):
			return runGS(line[3:])
		case strings.HasPrefix(line, "js "):
			vm := newVM()
			v, err := vm.RunString(line[3:])
			if err != nil {
				return "ERR " + common.OneLine(err.Error())
			}
			return common.OneLine(v.String())
		}
		return "BADOP"
	})
}
