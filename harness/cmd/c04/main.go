// Harness for property C04: runs the real goja on the same line protocol as lean/GojaModel/C04/Driver.lean.
//
//	T …    one cell of baseObject._defineOwnProperty through the hook VerifC04DefineOwn
//	N / mk / def / set / get / del / has / hasown / pe / sp / frz / seal   op sequences on real objects,
//	       issued through syntax (S sloppy, T strict), Object.* (O), Reflect.* (R) or the Go API (G)
package main

import (
	"bufio"
	"fmt"
	"os"
	"strconv"
	"strings"

	"github.com/dop251/goja"
	"verifharness/common"
)

const prelude = `
var OBJ=[], SYM=[Symbol('y0'),Symbol('y1'),Symbol('y2'),Symbol.iterator,Symbol.hasInstance,Symbol.toStringTag,Symbol.toPrimitive,Symbol.unscopables,Symbol.species,Symbol.match,Symbol.matchAll,Symbol.replace,Symbol.search,Symbol.split,Symbol.asyncIterator,Symbol.isConcatSpreadable], LOG=[];
function tf(b){ return b?"t":"f"; }
function idOf(x){ var i=OBJ.indexOf(x); return i>=0?("o"+i):"p"; }
var FN=[0,1,2,3].map(function(i){ return function(v){ "use strict"; if(arguments.length===0){ LOG.push("g"+i+"@"+idOf(this)); return 300+i; } LOG.push("s"+i+"@"+idOf(this)+"="+tok(v)); }});
function tok(v){ if(v===undefined) return "u"; if(typeof v==="number"){ if(v>=100&&v<200) return "n"+(v-100); if(v>=300&&v<400) return "r"+(v-300);} if(typeof v==="function"){var i=FN.indexOf(v); if(i>=0) return "f"+i;} if(typeof v==="object"&&v!==null){var j=OBJ.indexOf(v); if(j>=0) return "o"+j;} return "x"; }
function ktok(k){ if(typeof k==="symbol"){ var i=SYM.indexOf(k); if(i<0){SYM.push(k); i=SYM.length-1;} return "y"+i;} var n=Number(k); if(String(n>>>0)===k && (n>>>0)!==4294967295) return "i"+k; return "s"+k.replace(/[^A-Za-z0-9_$]/g,"_"); }
function ptok(p){ if(p===null) return "null"; if(p===Object.prototype) return "O"; if(p===Function.prototype) return "F"; var i=OBJ.indexOf(p); return i>=0?"o"+i:"?"; }
function dump(i){ var o=OBJ[i]; var keys=Reflect.ownKeys(o); var ps=[];
  for(var j=0;j<keys.length;j++){ var d=Reflect.getOwnPropertyDescriptor(o,keys[j]); if(d===undefined) continue; var t;
    if('value' in d || 'writable' in d) t="D/"+tok(d.value)+"/"+tf(d.writable)+"/"+tf(d.enumerable)+"/"+tf(d.configurable);
    else t="A/"+(d.get===undefined?"u":tok(d.get))+"/"+(d.set===undefined?"u":tok(d.set))+"/"+tf(d.enumerable)+"/"+tf(d.configurable);
    ps.push(ktok(keys[j])+":"+t); }
  var fi=[]; for(var k in o) fi.push(ktok(k));
  return "O"+i+" proto="+ptok(Object.getPrototypeOf(o))+" ext="+tf(Object.isExtensible(o))+" fz="+tf(Object.isFrozen(o))+" sl="+tf(Object.isSealed(o))+" keys=["+keys.map(ktok).join(",")+"] props=["+ps.join(",")+"] forin=["+fi.join(",")+"]"; }
function dumpAll(){ var r=[]; for(var i=0;i<OBJ.length;i++) r.push(dump(i)); return r.join(" | "); }
function flushLog(){ var s=LOG.length?(" "+LOG.join(" ")):""; LOG.length=0; return s; }
function TE(f){ try{ return f(); }catch(e){ if(e instanceof TypeError) return "throw"; return "err:"+String(e).replace(/\s+/g,"_"); } }
var KIND=[], WRAP={gomap:1,goslice:1,goslicecap:1,gostruct:1,dyn:1,dynarr:1,arr:1,sparr:1};
function invKeys(){ var out=[]; for(var i=0;i<OBJ.length;i++){ if(!WRAP[KIND[i]]) continue; var o=OBJ[i], keys=Reflect.ownKeys(o), cand=['length','0','1','7','a','A','B','constructor'];
  for(var j=0;j<cand.length;j++){ var c=cand[j]; if(keys.indexOf(c)>=0) continue; var d; try{ d=Reflect.getOwnPropertyDescriptor(o,c); }catch(e){ continue; } if(d===undefined) continue;
    if(d.configurable===false) out.push(" @INV ownKeys-omits-nonconfigurable o"+i+" "+ktok(c)); else if(!Object.isExtensible(o)) out.push(" @INV ownKeys-omits-key-of-nonextensible o"+i+" "+ktok(c)); } }
  return out.join(""); }
function preConf(o,k){ try{ var d=Reflect.getOwnPropertyDescriptor(o,k); return d===undefined?"n":(d.configurable?"c":"N"); }catch(e){ return "e"; } }
`

type dynObj struct{ m map[string]goja.Value }

func (d *dynObj) Get(key string) goja.Value { return d.m[key] }
func (d *dynObj) Set(key string, val goja.Value) bool {
	if val == nil {
		val = goja.Undefined()
	}
	d.m[key] = val
	return true
}
func (d *dynObj) Has(key string) bool { _, ok := d.m[key]; return ok }
func (d *dynObj) Delete(key string) bool {
	delete(d.m, key)
	return true
}
func (d *dynObj) Keys() []string {
	ks := make([]string, 0, len(d.m))
	for k := range d.m {
		ks = append(ks, k)
	}
	// deterministic
	for i := 1; i < len(ks); i++ {
		for j := i; j > 0 && ks[j] < ks[j-1]; j-- {
			ks[j], ks[j-1] = ks[j-1], ks[j]
		}
	}
	return ks
}

type dynArr struct{ a []goja.Value }

func (d *dynArr) Len() int { return len(d.a) }
func (d *dynArr) Get(idx int) goja.Value {
	if idx < 0 || idx >= len(d.a) {
		return nil
	}
	return d.a[idx]
}
func (d *dynArr) Set(idx int, val goja.Value) bool {
	if idx < 0 || idx > 1<<16 {
		return false
	}
	if val == nil {
		val = goja.Undefined()
	}
	for len(d.a) <= idx {
		d.a = append(d.a, goja.Undefined())
	}
	d.a[idx] = val
	return true
}
func (d *dynArr) SetLen(n int) bool {
	if n < 0 || n > 1<<16 {
		return false
	}
	for len(d.a) < n {
		d.a = append(d.a, goja.Undefined())
	}
	d.a = d.a[:n]
	return true
}

type goStruct struct {
	A int
	B string
}

type state struct {
	r     *goja.Runtime
	objs  []*goja.Object
	vals  []goja.Value   // table pools
	fns   []*goja.Object // table pools
	tr    *goja.Runtime
	kinds []string // kind of each object of the case
	inv   string   // operation-level essential-invariant annotations of the current op (wrapper kinds)
}

func (s *state) js(src string) string {
	v, err := s.r.RunString(src)
	if err != nil {
		return "err:" + common.OneLine(err.Error())
	}
	return v.String()
}

func valExpr(t string) string {
	switch {
	case t == "u":
		return "undefined"
	case strings.HasPrefix(t, "n"):
		n, _ := strconv.Atoi(t[1:])
		return strconv.Itoa(100 + n)
	case strings.HasPrefix(t, "r"):
		n, _ := strconv.Atoi(t[1:])
		return strconv.Itoa(300 + n)
	case strings.HasPrefix(t, "l"):
		n, _ := strconv.Atoi(t[1:])
		return strconv.Itoa(n) // a small number (array lengths)
	case strings.HasPrefix(t, "f"):
		return "FN[" + t[1:] + "]"
	case strings.HasPrefix(t, "o"):
		return "OBJ[" + t[1:] + "]"
	}
	return "undefined"
}

func keyExpr(t string) string {
	switch t[0] {
	case 'i':
		return t[1:]
	case 'I':
		return `"` + t[1:] + `"`
	case 'y':
		return "SYM[" + t[1:] + "]"
	}
	return `"` + t[1:] + `"`
}

func protoExpr(t string) string {
	switch {
	case t == "null":
		return "null"
	case t == "O":
		return "Object.prototype"
	case t == "F":
		return "Function.prototype"
	case strings.HasPrefix(t, "o"):
		return "OBJ[" + t[1:] + "]"
	}
	return "null"
}

func recvExpr(o, t string) string {
	if t == "=" {
		return "OBJ[" + o[1:] + "]"
	}
	if t == "p" {
		return "5"
	}
	return "OBJ[" + t[1:] + "]"
}

func (s *state) goVal(t string) goja.Value {
	switch {
	case t == "u":
		return goja.Undefined()
	case strings.HasPrefix(t, "n"):
		n, _ := strconv.Atoi(t[1:])
		return s.r.ToValue(100 + n)
	case strings.HasPrefix(t, "l"):
		n, _ := strconv.Atoi(t[1:])
		return s.r.ToValue(n)
	case strings.HasPrefix(t, "f"):
		n, _ := strconv.Atoi(t[1:])
		return s.r.Get("FN").ToObject(s.r).Get(strconv.Itoa(n))
	}
	return goja.Undefined()
}

func (s *state) sym(t string) *goja.Symbol {
	v := s.r.Get("SYM").ToObject(s.r).Get(t[1:])
	sy, _ := v.(*goja.Symbol)
	return sy
}

func flag(t string) goja.Flag {
	switch t {
	case "t":
		return goja.FLAG_TRUE
	case "f":
		return goja.FLAG_FALSE
	}
	return goja.FLAG_NOT_SET
}

func okErr(err error) string {
	if err == nil {
		return "ok"
	}
	if ex, ok := err.(*goja.Exception); ok {
		if o, ok := ex.Value().(*goja.Object); ok {
			if n := o.Get("name"); n != nil && n.String() == "TypeError" {
				return "throw"
			}
		}
	}
	return "err:" + common.OneLine(err.Error())
}

func (s *state) tok(v goja.Value) string {
	if v == nil {
		return "u"
	}
	f, _ := goja.AssertFunction(s.r.Get("tok"))
	r, err := f(goja.Undefined(), v)
	if err != nil {
		return "err"
	}
	return r.String()
}

// white-box: the invariants of the lazily sorted name list that the Lean model proves necessary (Rel.asc/aIdx/bStr/nodup)
func (s *state) checkOrder() string {
	for i, o := range s.objs {
		po := goja.VerifC04PropOrder(o)
		if !po.Ok {
			continue
		}
		bad := ""
		if po.IdxPropCount > po.LastSortedPropLen || po.LastSortedPropLen > len(po.Names) {
			bad = "counters"
		}
		seen := map[string]bool{}
		var last uint32
		for j, n := range po.Names {
			if seen[n] {
				bad = "dup:" + n
			}
			seen[n] = true
			idx, isIdx := goja.VerifC04IsArrayIndexName(n)
			if j < po.IdxPropCount {
				if !isIdx || (j > 0 && idx <= last) {
					bad = "idx-segment"
				}
				last = idx
			} else if j < po.LastSortedPropLen && isIdx {
				bad = "str-segment"
			}
		}
		plainStore := false
		switch po.Impl {
		case "*goja.baseObject", "*goja.funcObject", "*goja.arrowFuncObject", "*goja.boundFuncObject", "*goja.classFuncObject":
			plainStore = true
		}
		if plainStore && (!po.AllInValues || po.NumValues != len(po.Names)) {
			bad = "names-vs-values"
		}
		if bad != "" {
			return fmt.Sprintf(" @PO-BAD o%d %s %v last=%d idx=%d", i, bad, po.Names, po.LastSortedPropLen, po.IdxPropCount)
		}
	}
	return ""
}

func (s *state) newCase() {
	s.r = goja.New()
	s.objs = nil
	s.kinds = nil
	if _, err := s.r.RunString(prelude); err != nil {
		panic(err)
	}
}

func (s *state) mk(id int, kind, proto string) string {
	var v goja.Value
	var err error
	switch kind {
	case "plain":
		v, err = s.r.RunString("({})")
	case "nullproto":
		v, err = s.r.RunString("Object.create(null)")
	case "arrow":
		v, err = s.r.RunString("(()=>1)")
	case "bound":
		v, err = s.r.RunString("(function(){}).bind(null)")
	case "class":
		v, err = s.r.RunString("(class C{})")
	case "func":
		v, err = s.r.RunString("(function(a,b){})")
	case "args":
		v, err = s.r.RunString("(function(a,b){return arguments})(101,102)")
	case "sargs":
		v, err = s.r.RunString("(function(a,b){'use strict';return arguments})(101,102)")
	case "strobj":
		v, err = s.r.RunString("new String('ab')")
	case "u8":
		v, err = s.r.RunString("new Uint8Array(2)")
	case "arr":
		v, err = s.r.RunString("[101,102,103]")
	case "sparr":
		v, err = s.r.RunString("(function(){var a=[101]; a[5000]=102; return a})()")
	case "fproto":
		v, err = s.r.RunString("Function.prototype")
	case "aproto":
		v, err = s.r.RunString("Array.prototype")
	case "sproto":
		v, err = s.r.RunString("String.prototype")
	case "dproto":
		v, err = s.r.RunString("Date.prototype")
	case "taproto":
		v, err = s.r.RunString("Object.getPrototypeOf(Uint8Array.prototype)")
	case "mapproto":
		v, err = s.r.RunString("Map.prototype")
	case "setproto":
		v, err = s.r.RunString("Set.prototype")
	case "promproto":
		v, err = s.r.RunString("Promise.prototype")
	case "symproto":
		v, err = s.r.RunString("Symbol.prototype")
	case "regproto":
		v, err = s.r.RunString("RegExp.prototype")
	case "json":
		v, err = s.r.RunString("JSON")
	case "math":
		v, err = s.r.RunString("Math")
	case "global":
		v, err = s.r.RunString("globalThis")
	case "gomap":
		v = s.r.ToValue(map[string]interface{}{"a": 101})
	case "goslice":
		v = s.r.ToValue([]interface{}{101, 102})
	case "goslicecap":
		// the same wrapper over a slice with spare capacity (growth within cap is a different path in the wrapper)
		sl := make([]interface{}, 2, 8)
		sl[0], sl[1] = 101, 102
		v = s.r.ToValue(sl)
	case "gostruct":
		v = s.r.ToValue(&goStruct{A: 101, B: "x"})
	case "dynarr":
		v = s.r.NewDynamicArray(&dynArr{a: []goja.Value{s.r.ToValue(101), s.r.ToValue(102)}})
	case "dyn":
		v = s.r.NewDynamicObject(&dynObj{m: map[string]goja.Value{"a": s.r.ToValue(101)}})
	default:
		return "err:kind"
	}
	if err != nil {
		return "err:" + common.OneLine(err.Error())
	}
	o := v.ToObject(s.r)
	arr := s.r.Get("OBJ").ToObject(s.r)
	arr.Set(strconv.Itoa(id), o)
	for len(s.objs) <= id {
		s.objs = append(s.objs, nil)
	}
	s.objs[id] = o
	for len(s.kinds) <= id {
		s.kinds = append(s.kinds, "")
	}
	s.kinds[id] = kind
	s.js("KIND[" + strconv.Itoa(id) + "]=" + strconv.Quote(kind))
	if proto == "null" || strings.HasPrefix(proto, "o") {
		s.js("TE(function(){Object.setPrototypeOf(OBJ[" + strconv.Itoa(id) + "]," + protoExpr(proto) + ");return 'ok'})")
	}
	return "mk"
}

func tableCell(s *state, w []string) string {
	if s.tr == nil {
		s.tr = goja.New()
		for i := 0; i < 4; i++ {
			s.vals = append(s.vals, s.tr.ToValue(fmt.Sprintf("v%d", i)))
			f, _ := s.tr.RunString("(function(){})")
			s.fns = append(s.fns, f.ToObject(s.tr))
		}
	}
	n := make([]int, len(w))
	for i, t := range w {
		n[i], _ = strconv.Atoi(t)
	}
	if len(n) != 15 {
		return "bad-line"
	}
	n = append([]int{0}, n...)
	fl := func(i int) goja.Flag {
		switch i {
		case 1:
			return goja.FLAG_TRUE
		case 2:
			return goja.FLAG_FALSE
		}
		return goja.FLAG_NOT_SET
	}
	ex := goja.VerifC04Prop{Kind: n[1], Value: n[2], Writable: n[3] == 1, Enumerable: n[4] == 1, Configurable: n[5] == 1, Accessor: n[6] == 1, Getter: n[7], Setter: n[8]}
	d := goja.VerifC04Desc{Value: n[9], Writable: fl(n[10]), Enumerable: fl(n[11]), Configurable: fl(n[12]), Getter: n[13], Setter: n[14]}
	res, ok := goja.VerifC04DefineOwn(s.tr, s.vals, s.fns, ex, d, n[15] == 1)
	if !ok {
		return "R"
	}
	b := func(x bool) string {
		if x {
			return "1"
		}
		return "0"
	}
	if res.Kind == 1 {
		return fmt.Sprintf("P 1 %d", res.Value)
	}
	return fmt.Sprintf("P 2 %d %s %s %s %s %d %d", res.Value, b(res.Writable), b(res.Enumerable), b(res.Configurable), b(res.Accessor), res.Getter, res.Setter)
}

var wrapperKind = map[string]bool{"gomap": true, "goslice": true, "goslicecap": true, "gostruct": true, "dyn": true, "dynarr": true, "arr": true, "sparr": true}

func (s *state) del(via, o, k string, obj func(string) *goja.Object, O func(string) string, goName func(string) string) string {
	switch via {
	case "G":
		if k[0] == 'y' {
			return okErr(obj(o).DeleteSymbol(s.sym(k)))
		}
		return okErr(obj(o).Delete(goName(k)))
	case "R":
		return s.js("TE(function(){return tf(Reflect.deleteProperty(" + O(o) + "," + keyExpr(k) + "))})")
	case "T":
		return s.js("TE(function(){'use strict';return tf(delete " + O(o) + "[" + keyExpr(k) + "])})")
	default:
		return s.js("TE(function(){return tf(delete " + O(o) + "[" + keyExpr(k) + "])})")
	}
}

func (s *state) op(w []string) string {
	obj := func(t string) *goja.Object {
		i, _ := strconv.Atoi(t[1:])
		return s.objs[i]
	}
	O := func(t string) string { return "OBJ[" + t[1:] + "]" }
	goName := func(k string) string { return k[1:] }
	switch w[0] {
	case "def":
		via, o, k := w[1], w[2], w[3]
		dv, dw, de, dc, dg, ds := w[4], w[5], w[6], w[7], w[8], w[9]
		if via == "G" {
			var err error
			isAcc := dg != "-" || ds != "-"
			var g, st goja.Value
			if dg != "-" {
				g = s.goVal(dg)
			}
			if ds != "-" {
				st = s.goVal(ds)
			}
			var val goja.Value
			if dv != "-" {
				val = s.goVal(dv)
			}
			if k[0] == 'y' {
				if isAcc {
					err = obj(o).DefineAccessorPropertySymbol(s.sym(k), g, st, flag(dc), flag(de))
				} else {
					err = obj(o).DefineDataPropertySymbol(s.sym(k), val, flag(dw), flag(dc), flag(de))
				}
			} else {
				if isAcc {
					err = obj(o).DefineAccessorProperty(goName(k), g, st, flag(dc), flag(de))
				} else {
					err = obj(o).DefineDataProperty(goName(k), val, flag(dw), flag(dc), flag(de))
				}
			}
			return okErr(err)
		}
		var fs []string
		if dv != "-" {
			fs = append(fs, "value:"+valExpr(dv))
		}
		bl := func(n, t string) {
			if t == "t" {
				fs = append(fs, n+":true")
			} else if t == "f" {
				fs = append(fs, n+":false")
			}
		}
		bl("writable", dw)
		bl("enumerable", de)
		bl("configurable", dc)
		if dg != "-" {
			fs = append(fs, "get:"+valExpr(dg))
		}
		if ds != "-" {
			fs = append(fs, "set:"+valExpr(ds))
		}
		desc := "{" + strings.Join(fs, ",") + "}"
		if via == "R" {
			return s.js("TE(function(){return tf(Reflect.defineProperty(" + O(o) + "," + keyExpr(k) + "," + desc + "))})")
		}
		return s.js("TE(function(){Object.defineProperty(" + O(o) + "," + keyExpr(k) + "," + desc + ");return 'ok'})")
	case "set":
		via, o, k, v, r := w[1], w[2], w[3], w[4], w[5]
		switch via {
		case "G":
			var err error
			if k[0] == 'y' {
				err = obj(o).SetSymbol(s.sym(k), s.goVal(v))
			} else {
				err = obj(o).Set(goName(k), s.goVal(v))
			}
			return okErr(err) + s.js("flushLog()")
		case "R":
			return s.js("TE(function(){return tf(Reflect.set(" + O(o) + "," + keyExpr(k) + "," + valExpr(v) + "," + recvExpr(o, r) + "))})+flushLog()")
		case "T":
			return s.js("TE(function(){'use strict';" + O(o) + "[" + keyExpr(k) + "]=" + valExpr(v) + ";return 'ok'})+flushLog()")
		default:
			return s.js("TE(function(){" + O(o) + "[" + keyExpr(k) + "]=" + valExpr(v) + ";return '-'})+flushLog()")
		}
	case "get":
		via, o, k, r := w[1], w[2], w[3], w[4]
		switch via {
		case "G":
			var v goja.Value
			if k[0] == 'y' {
				v = obj(o).GetSymbol(s.sym(k))
			} else {
				v = obj(o).Get(goName(k))
			}
			return s.tok(v) + s.js("flushLog()")
		case "R":
			return s.js("TE(function(){return tok(Reflect.get(" + O(o) + "," + keyExpr(k) + "," + recvExpr(o, r) + "))})+flushLog()")
		default:
			return s.js("TE(function(){return tok(" + O(o) + "[" + keyExpr(k) + "])})+flushLog()")
		}
	case "del":
		via, o, k := w[1], w[2], w[3]
		if oi, _ := strconv.Atoi(o[1:]); oi < len(s.kinds) && wrapperKind[s.kinds[oi]] {
			// ECMA-262 6.1.7.3 [[Delete]]: "If P was previously observed as a non-configurable own data or accessor property
			// of the target, [[Delete]] must return false" (wrapper kinds only: they have no Lean model judging the answer)
			pre := s.js("preConf(" + O(o) + "," + keyExpr(k) + ")")
			res := s.del(via, o, k, obj, O, goName)
			if pre == "N" && (res == "t" || res == "ok") {
				s.inv += " @INV delete-true-on-nonconfigurable " + o + " " + k
			}
			return res
		}
		return s.del(via, o, k, obj, O, goName)
	case "has":
		via, o, k := w[1], w[2], w[3]
		if via == "R" {
			return s.js("TE(function(){return tf(Reflect.has(" + O(o) + "," + keyExpr(k) + "))})")
		}
		return s.js("TE(function(){return tf(" + keyExpr(k) + " in " + O(o) + ")})")
	case "hasown":
		o, k := w[2], w[3]
		return s.js("TE(function(){return tf(Object.prototype.hasOwnProperty.call(" + O(o) + "," + keyExpr(k) + "))})")
	case "pe":
		via, o := w[1], w[2]
		if via == "R" {
			return s.js("TE(function(){return tf(Reflect.preventExtensions(" + O(o) + "))})")
		}
		return s.js("TE(function(){Object.preventExtensions(" + O(o) + ");return 'ok'})")
	case "sp":
		via, o, p := w[1], w[2], w[3]
		switch via {
		case "G":
			var po *goja.Object
			if p != "null" {
				v, _ := s.r.RunString(protoExpr(p))
				po = v.ToObject(s.r)
			}
			return okErr(obj(o).SetPrototype(po))
		case "R":
			return s.js("TE(function(){return tf(Reflect.setPrototypeOf(" + O(o) + "," + protoExpr(p) + "))})")
		default:
			return s.js("TE(function(){Object.setPrototypeOf(" + O(o) + "," + protoExpr(p) + ");return 'ok'})")
		}
	case "frz":
		return s.js("TE(function(){Object.freeze(" + O(w[1]) + ");return 'ok'})")
	case "seal":
		return s.js("TE(function(){Object.seal(" + O(w[1]) + ");return 'ok'})")
	}
	return "bad-line"
}

// loop is common.Loop with a flush after every line: a fatal Go error (stack overflow) must not take the
// answers of the preceding lines with it, or the failing case cannot be located.
func loop(f func(line string) string) {
	in := bufio.NewScanner(os.Stdin)
	in.Buffer(make([]byte, 1<<20), 1<<26)
	out := bufio.NewWriterSize(os.Stdout, 1<<16)
	defer out.Flush()
	for in.Scan() {
		line := in.Text()
		res := common.Safe(func() string { return f(line) })
		out.WriteString(res)
		out.WriteByte('\n')
		out.Flush()
	}
}

func main() {
	s := &state{}
	loop(func(line string) string {
		w := strings.Fields(line)
		if len(w) == 0 {
			return "bad-line"
		}
		switch w[0] {
		case "T":
			return tableCell(s, w[1:])
		case "N":
			s.newCase()
			return "new"
		case "mk":
			id, _ := strconv.Atoi(w[1])
			return s.mk(id, w[2], w[3])
		}
		dump := w[len(w)-1] == "D"
		cyc := -1
		var cycProto *goja.Object
		if w[0] == "sp" && w[3] != "null" && w[3] != "O" && w[3] != "F" {
			ti, _ := strconv.Atoi(w[2][1:])
			pi, _ := strconv.Atoi(w[3][1:])
			if ti < len(s.objs) && pi < len(s.objs) {
				p := s.objs[pi]
				for n := 0; p != nil && n < 64; n++ {
					if p == s.objs[ti] {
						cyc, cycProto = ti, s.objs[pi]
						break
					}
					p = p.Prototype()
				}
			}
		}
		res := ""
		if cyc >= 0 && w[1] != "G" {
			// issue a would-be-cyclic request through the Go API only from inside the harness: the JS entry points
			// (Object/Reflect.setPrototypeOf) are the same internal method, and their result handling may itself walk the chain
			err := s.objs[cyc].SetPrototype(cycProto)
			if w[1] == "R" {
				if err == nil {
					res = "t"
				} else {
					res = "f"
				}
			} else {
				res = okErr(err)
			}
		} else {
			res = common.Safe(func() (r string) {
				// the Go API documents that Get/GetSymbol panic with an *Exception when JS code throws: that is a throw, not a crash
				defer func() {
					if x := recover(); x != nil {
						if ex, ok := x.(*goja.Exception); ok {
							r = okErr(ex)
							return
						}
						if o, ok := x.(*goja.Object); ok {
							// internal throw that reached the Go API caller as the raw error object
							if n := o.Get("name"); n != nil && n.String() == "TypeError" {
								r = "throw"
								return
							}
						}
						panic(x)
					}
				}()
				return s.op(w)
			})
		}
		if cyc >= 0 {
			// the operation was about to close a prototype cycle: if the implementation accepted it, report and cut it
			// at once (any later lookup of a missing key, for-in or instanceof on the chain would never return)
			if s.objs[cyc].Prototype() == cycProto && cycProto != nil {
				s.objs[cyc].SetPrototype(nil)
				res += fmt.Sprintf(" @CYCLE o%d", cyc)
			}
		}
		if w[0] != "set" && w[0] != "get" {
			// accessor calls are part of the compared answer for [[Get]]/[[Set]] only (error-message formatting of a
			// failed operation on a function may read a user-defined `name` getter: observed, not judged here)
			s.js("LOG.length=0")
		}
		po := s.checkOrder()
		inv := s.inv
		s.inv = ""
		if dump {
			res += " # " + s.js("dumpAll()")
			inv += s.js("invKeys()")
		}
		return res + po + inv
	})
}
