// Harness for property C17: runs typed-array / DataView / ArrayBuffer operations of the real goja on
// buffers that Go supplies from inside canary-guarded slabs and prints, after every operation, the
// canonical result and the full contents of every buffer (same line protocol as the Lean driver
// lean/GojaModel/C17/Driver.lean, which documents the op syntax).
//
// Independent of the model the harness itself checks after every step:
//   - the canaries on both sides of every Go-supplied data region are intact          (CANARY!<b>)
//   - the former storage of a detached buffer has not changed since the moment of Detach (POSTDETACH!<b>)
//   - ArrayBuffer.Bytes() and the []byte exported from a Uint8Array alias the slab       (ALIAS!<b>)
// and a Go panic escaping from goja is printed as "PANIC …" by common.Loop.
package main

import (
	"bytes"
	"encoding/hex"
	"fmt"
	"math"
	"math/big"
	"os"
	"strconv"
	"strings"
	"unsafe"

	"github.com/dop251/goja"

	"verifharness/common"
)

const guard = 32

type hbuf struct {
	slab     []byte // nil for buffers allocated by goja itself
	mem      []byte // the data region (Go's own slice header; never obtained through goja again)
	ab       goja.ArrayBuffer
	obj      goja.Value
	snapshot []byte // contents at the moment of Detach
	detached bool
}

type state struct {
	rt    *goja.Runtime
	bufs  []*hbuf
	views []*goja.Object
	dvs   []*goja.Object
}

var st *state

var kindCtor = map[string]string{
	"u8": "Uint8Array", "u8c": "Uint8ClampedArray", "i8": "Int8Array", "u16": "Uint16Array", "i16": "Int16Array",
	"u32": "Uint32Array", "i32": "Int32Array", "f32": "Float32Array", "f64": "Float64Array",
	"bi64": "BigInt64Array", "bu64": "BigUint64Array",
}
var kindDV = map[string]string{
	"u8": "Uint8", "i8": "Int8", "u16": "Uint16", "i16": "Int16", "u32": "Uint32", "i32": "Int32",
	"f32": "Float32", "f64": "Float64", "bi64": "BigInt64", "bu64": "BigUint64",
}

func canary(i int) byte { return byte(0xA5 ^ (i * 7)) }

func newSlab(data []byte) *hbuf {
	n := len(data)
	slab := make([]byte, guard+n+guard)
	for i := 0; i < guard; i++ {
		slab[i] = canary(i)
		slab[guard+n+i] = canary(i + 101)
	}
	copy(slab[guard:], data)
	return &hbuf{slab: slab, mem: slab[guard : guard+n]}
}

func (b *hbuf) canaryOK() bool {
	if b.slab == nil {
		return true
	}
	n := len(b.mem)
	for i := 0; i < guard; i++ {
		if b.slab[i] != canary(i) || b.slab[guard+n+i] != canary(i+101) {
			return false
		}
	}
	return true
}

func (s *state) detach(i int) {
	if i < 0 || i >= len(s.bufs) {
		return
	}
	b := s.bufs[i]
	if b.detached {
		return
	}
	b.snapshot = append([]byte(nil), b.mem...)
	b.detached = true
	b.ab.Detach()
}

func (s *state) view(i int) *goja.Object {
	if i < 0 || i >= len(s.views) {
		panic("BAD-OP")
	}
	return s.views[i]
}

func (s *state) dv(i int) *goja.Object {
	if i < 0 || i >= len(s.dvs) {
		panic("BAD-OP")
	}
	return s.dvs[i]
}

func (s *state) buf(i int) *hbuf {
	if i < 0 || i >= len(s.bufs) {
		panic("BAD-OP")
	}
	return s.bufs[i]
}

// splitAt: like splitBang but also reports whether the separator was '@' (detach in the callback body)
func splitAt(tok string) (string, []int, bool) {
	if h, d, ok := strings.Cut(tok, "@"); ok {
		return h, parseDets(d), true
	}
	h, d := splitBang(tok)
	return h, d, false
}

func splitBang(tok string) (string, []int) {
	h, d, ok := strings.Cut(tok, "!")
	if !ok {
		return tok, nil
	}
	return h, parseDets(d)
}

func parseDets(d string) []int {
	var out []int
	for _, x := range strings.Split(d, ",") {
		if n, err := strconv.Atoi(x); err == nil {
			out = append(out, n)
		}
	}
	return out
}

// advObj: an object whose valueOf (and toString) detaches `dets` and returns prim.
func (s *state) advObj(prim goja.Value, dets []int) goja.Value {
	if len(dets) == 0 {
		return prim
	}
	o := s.rt.NewObject()
	f := s.rt.ToValue(func(goja.FunctionCall) goja.Value {
		for _, d := range dets {
			s.detach(d)
		}
		return prim
	})
	o.Set("valueOf", f)
	o.Set("toString", f)
	return o
}

func (s *state) iarg(tok string) goja.Value {
	if tok == "_" {
		return goja.Undefined()
	}
	h, dets := splitBang(tok)
	var prim goja.Value
	switch h {
	case "inf":
		prim = s.rt.ToValue(math.Inf(1))
	case "-inf":
		prim = s.rt.ToValue(math.Inf(-1))
	case "nan":
		prim = s.rt.ToValue(math.NaN())
	default:
		n, err := strconv.ParseInt(h, 10, 64)
		if err != nil {
			panic("bad int arg " + tok)
		}
		prim = s.rt.ToValue(float64(n)) // exact for |n| ≤ 2^53; the generator stays inside that range
	}
	return s.advObj(prim, dets)
}

func (s *state) varg(tok string) goja.Value {
	h, dets := splitBang(tok)
	var prim goja.Value
	switch {
	case strings.HasPrefix(h, "x"):
		bits, err := strconv.ParseUint(h[1:], 16, 64)
		if err != nil {
			panic("bad value arg " + tok)
		}
		prim = s.rt.ToValue(math.Float64frombits(bits))
	case strings.HasPrefix(h, "b"):
		n, ok := new(big.Int).SetString(h[1:], 10)
		if !ok {
			panic("bad bigint arg " + tok)
		}
		prim = s.rt.ToValue(n)
	default:
		panic("bad value arg " + tok)
	}
	return s.advObj(prim, dets)
}

func trimUndef(args []goja.Value) []goja.Value {
	for len(args) > 0 && goja.IsUndefined(args[len(args)-1]) {
		args = args[:len(args)-1]
	}
	return args
}

func (s *state) errName(err error) string {
	if ex, ok := err.(*goja.Exception); ok {
		if o, ok := ex.Value().(*goja.Object); ok {
			if n := o.Get("name"); n != nil {
				switch n.String() {
				case "TypeError":
					return "E:Type"
				case "RangeError":
					return "E:Range"
				case "SyntaxError":
					return "E:Syntax"
				}
				return "E:Other:" + common.OneLine(n.String()+": "+ex.Error())
			}
		}
		return "E:Other:" + common.OneLine(ex.Error())
	}
	return "E:Go:" + common.OneLine(err.Error())
}

func (s *state) call(obj *goja.Object, name string, args ...goja.Value) (goja.Value, error) {
	fn, ok := goja.AssertFunction(obj.Get(name))
	if !ok {
		return nil, fmt.Errorf("no method %s", name)
	}
	return fn(obj, args...)
}

func showNum(v goja.Value) string {
	if v == nil || goja.IsUndefined(v) {
		return "undef"
	}
	if bi, ok := v.Export().(*big.Int); ok {
		return "v:b" + bi.String()
	}
	f := v.ToFloat()
	if math.IsNaN(f) {
		return "v:nan"
	}
	return fmt.Sprintf("v:x%016x", math.Float64bits(f))
}

func (s *state) showView(o *goja.Object, lenProp string) string {
	// byteOffset / length as goja stores them; read before any later detach
	return fmt.Sprintf("view %d %d", o.Get("byteOffset").ToInteger(), o.Get(lenProp).ToInteger())
}

// species: install an own `constructor` whose @@species detaches and returns an existing view
func (s *state) withSpecies(recv *goja.Object, tok string, f func()) {
	if tok == "_" {
		f()
		return
	}
	h, dets := splitBang(tok)
	vi, _ := strconv.Atoi(h)
	target := s.view(vi)
	ctor := s.rt.NewObject()
	ctor.SetSymbol(goja.SymSpecies, s.rt.ToValue(func(goja.ConstructorCall) *goja.Object {
		for _, d := range dets {
			s.detach(d)
		}
		return target
	}))
	recv.Set("constructor", ctor)
	defer recv.Delete("constructor")
	f()
}

func numLess(a, b goja.Value) bool {
	if x, ok := a.Export().(*big.Int); ok {
		if y, ok := b.Export().(*big.Int); ok {
			return x.Cmp(y) < 0
		}
		return false
	}
	x, y := a.ToFloat(), b.ToFloat()
	xn, yn := math.IsNaN(x), math.IsNaN(y)
	if yn {
		return !xn
	} else if xn {
		return false
	}
	if x == 0 && y == 0 {
		return math.Signbit(x) && !math.Signbit(y)
	}
	return x < y
}

func (s *state) trackResultView(o *goja.Object) {
	// a view created by goja itself (slice with the default constructor): track its buffer too
	abv := o.Get("buffer")
	ab, ok := abv.Export().(goja.ArrayBuffer)
	if !ok {
		panic("result has no ArrayBuffer")
	}
	for _, b := range s.bufs {
		if b.obj == abv || (b.obj != nil && b.obj.SameAs(abv)) {
			s.views = append(s.views, o)
			return
		}
	}
	s.bufs = append(s.bufs, &hbuf{mem: ab.Bytes(), ab: ab, obj: abv})
	s.views = append(s.views, o)
}

func (s *state) op(ws []string) string {
	rt := s.rt
	atoi := func(x string) int {
		n, err := strconv.Atoi(x)
		if err != nil {
			panic("bad id " + x)
		}
		return n
	}
	switch ws[0] {
	case "B":
		var data []byte
		if ws[1] != "-" {
			var err error
			data, err = hex.DecodeString(ws[1])
			if err != nil {
				panic(err)
			}
		}
		b := newSlab(data)
		b.ab = rt.NewArrayBuffer(b.mem)
		b.obj = rt.ToValue(b.ab)
		s.bufs = append(s.bufs, b)
		return "ok"
	case "X":
		s.detach(atoi(ws[1]))
		return "ok"
	case "V":
		b := s.buf(atoi(ws[2]))
		args := trimUndef([]goja.Value{b.obj, s.iarg(ws[3]), s.iarg(ws[4])})
		var o *goja.Object
		var err error
		if len(ws) > 5 && strings.Contains(ws[5], "s") {
			o, err = rt.New(s.subclass(kindCtor[ws[1]]), args...)
		} else if len(ws) > 5 {
			o, err = s.constructWithNewTarget(rt.Get(kindCtor[ws[1]]), args, parseDets(strings.TrimPrefix(ws[5], "^")))
		} else {
			o, err = rt.New(rt.Get(kindCtor[ws[1]]), args...)
		}
		if err != nil {
			return s.errName(err)
		}
		res := s.showView(o, "length")
		s.views = append(s.views, o)
		return res
	case "D":
		b := s.buf(atoi(ws[1]))
		args := trimUndef([]goja.Value{b.obj, s.iarg(ws[2]), s.iarg(ws[3])})
		var o *goja.Object
		var err error
		if len(ws) > 4 {
			o, err = s.constructWithNewTarget(rt.Get("DataView"), args, parseDets(strings.TrimPrefix(ws[4], "^")))
		} else {
			o, err = rt.New(rt.Get("DataView"), args...)
		}
		if err != nil {
			return s.errName(err)
		}
		res := s.showView(o, "byteLength")
		s.dvs = append(s.dvs, o)
		return res
	case "g":
		v := s.view(atoi(ws[1]))
		return showNum(v.Get(ws[2]))
	case "p":
		v := s.view(atoi(ws[1]))
		if err := v.Set(ws[2], s.varg(ws[3])); err != nil {
			return s.errName(err)
		}
		return "ok"
	case "f":
		v := s.view(atoi(ws[1]))
		args := trimUndef([]goja.Value{s.varg(ws[2]), s.iarg(ws[3]), s.iarg(ws[4])})
		if _, err := s.call(v, "fill", args...); err != nil {
			return s.errName(err)
		}
		return "ok"
	case "c":
		v := s.view(atoi(ws[1]))
		args := trimUndef([]goja.Value{s.iarg(ws[2]), s.iarg(ws[3]), s.iarg(ws[4])})
		if _, err := s.call(v, "copyWithin", args...); err != nil {
			return s.errName(err)
		}
		return "ok"
	case "s":
		v := s.view(atoi(ws[1]))
		src := s.view(atoi(ws[2]))
		args := trimUndef([]goja.Value{src, s.iarg(ws[3])})
		if _, err := s.call(v, "set", args...); err != nil {
			return s.errName(err)
		}
		return "ok"
	case "a":
		v := s.view(atoi(ws[1]))
		vals := make([]interface{}, 0, len(ws)-3)
		for _, t := range ws[3:] {
			vals = append(vals, s.varg(t))
		}
		args := trimUndef([]goja.Value{rt.NewArray(vals...), s.iarg(ws[2])})
		if _, err := s.call(v, "set", args...); err != nil {
			return s.errName(err)
		}
		return "ok"
	case "l", "u":
		v := s.view(atoi(ws[1]))
		name := "slice"
		if ws[0] == "u" {
			name = "subarray"
		}
		args := trimUndef([]goja.Value{s.iarg(ws[2]), s.iarg(ws[3])})
		var res goja.Value
		var err error
		s.withSpecies(v, ws[4], func() { res, err = s.call(v, name, args...) })
		if err != nil {
			return s.errName(err)
		}
		o := res.(*goja.Object)
		// a detached result cannot report byteOffset/length (getters return 0): use the white-box view of
		// the model instead — the generator never detaches the result buffer inside subarray's species ctor
		out := s.showView(o, "length")
		s.trackResultView(o)
		return out
	case "o":
		v := s.view(atoi(ws[1]))
		var args []goja.Value
		if ws[2] != "_" {
			_, dets := splitBang(ws[2])
			first := true
			args = append(args, rt.ToValue(func(c goja.FunctionCall) goja.Value {
				if first {
					first = false
					for _, d := range dets {
						s.detach(d)
					}
				}
				a, b := c.Argument(0), c.Argument(1)
				switch {
				case numLess(b, a):
					return rt.ToValue(-1)
				case numLess(a, b):
					return rt.ToValue(1)
				}
				return rt.ToValue(0)
			}))
		}
		if _, err := s.call(v, "sort", args...); err != nil {
			return s.errName(err)
		}
		return "ok"
	case "r":
		v := s.view(atoi(ws[1]))
		if _, err := s.call(v, "reverse"); err != nil {
			return s.errName(err)
		}
		return "ok"
	case "G":
		d := s.dv(atoi(ws[1]))
		args := []goja.Value{s.iarg(ws[3]), rt.ToValue(ws[4] == "1")}
		res, err := s.call(d, "get"+kindDV[ws[2]], args...)
		if err != nil {
			return s.errName(err)
		}
		return showNum(res)
	case "S":
		d := s.dv(atoi(ws[1]))
		args := []goja.Value{s.iarg(ws[3]), s.varg(ws[4]), rt.ToValue(ws[5] == "1")}
		if _, err := s.call(d, "set"+kindDV[ws[2]], args...); err != nil {
			return s.errName(err)
		}
		return "ok"
	case "m":
		return s.other(ws)
	case "R", "T", "w", "t", "M":
		return s.freshOp(ws)
	case "O":
		return s.ofFrom(ws)
	case "h":
		v := s.view(atoi(ws[1]))
		fn, ok := goja.AssertFunction(rt.Get("Uint8Array").(*goja.Object).Get("prototype").(*goja.Object).Get("toHex"))
		if !ok {
			panic("no toHex")
		}
		res, err := fn(v)
		if err != nil {
			return s.errName(err)
		}
		if res.String() == "" {
			return "hex:-"
		}
		return "hex:" + res.String()
	case "H":
		v := s.view(atoi(ws[1]))
		str := ws[2]
		if str == "-" {
			str = ""
		}
		fn, ok := goja.AssertFunction(rt.Get("Uint8Array").(*goja.Object).Get("prototype").(*goja.Object).Get("setFromHex"))
		if !ok {
			panic("no setFromHex")
		}
		res, err := fn(v, rt.ToValue(str))
		if err != nil {
			return s.errName(err)
		}
		ro := res.(*goja.Object)
		return fmt.Sprintf("rw %d %d", ro.Get("read").ToInteger(), ro.Get("written").ToInteger())
	case "x":
		str := ws[1]
		if str == "-" {
			str = ""
		}
		u8 := rt.Get("Uint8Array").(*goja.Object)
		fn, ok := goja.AssertFunction(u8.Get("fromHex"))
		if !ok {
			panic("no fromHex")
		}
		res, err := fn(u8, rt.ToValue(str))
		if err != nil {
			return s.errName(err)
		}
		o := res.(*goja.Object)
		out := s.showView(o, "length")
		s.trackResultView(o)
		return out
	case "Q":
		v := s.view(atoi(ws[2]))
		args := trimUndef([]goja.Value{s.varg(ws[3]), s.iarg(ws[4])})
		res, err := s.call(v, ws[1], args...)
		if err != nil {
			return s.errName(err)
		}
		if ws[1] == "includes" {
			return fmt.Sprint(res.ToBoolean())
		}
		return showNum(res)
	case "k":
		v := s.view(atoi(ws[1]))
		res, err := s.call(v, "at", s.iarg(ws[2]))
		if err != nil {
			return s.errName(err)
		}
		return showNum(res)
	case "e":
		return s.visit(ws)
	case "J":
		return s.join(ws)
	case "A":
		b := s.buf(atoi(ws[1]))
		bobj := b.obj.(*goja.Object)
		args := trimUndef([]goja.Value{s.iarg(ws[2]), s.iarg(ws[3])})
		if len(ws) > 4 && ws[4] != "_" {
			h, dets := splitBang(ws[4])
			target := s.buf(atoi(h))
			ctor := rt.NewObject()
			ctor.SetSymbol(goja.SymSpecies, rt.ToValue(func(goja.ConstructorCall) *goja.Object {
				for _, d := range dets {
					s.detach(d)
				}
				return target.obj.(*goja.Object)
			}))
			bobj.Set("constructor", ctor)
			defer bobj.Delete("constructor")
		}
		res, err := s.call(bobj, "slice", args...)
		if err != nil {
			return s.errName(err)
		}
		ab, ok := res.Export().(goja.ArrayBuffer)
		if !ok {
			panic("slice did not return an ArrayBuffer")
		}
		out := fmt.Sprintf("view 0 %d", len(ab.Bytes()))
		for _, hb := range s.bufs {
			if hb.obj != nil && hb.obj.SameAs(res) {
				return out // an existing buffer returned by the species constructor
			}
		}
		s.bufs = append(s.bufs, &hbuf{mem: ab.Bytes(), ab: ab, obj: res})
		return out
	}
	panic("unknown op " + ws[0])
}

// constructWithNewTarget: Reflect.construct(ctor, args, NT) where NT.prototype is a getter that detaches `dets`
// and then answers ctor.prototype (getPrototypeFromCtor callback point)
func (s *state) constructWithNewTarget(ctor goja.Value, args []goja.Value, dets []int) (*goja.Object, error) {
	rt := s.rt
	mk, err := rt.RunString(`(function(getter){ var f = (function(){}).bind(null); Object.defineProperty(f, "prototype", {get: getter}); return f })`)
	if err != nil {
		panic(err)
	}
	mkf, _ := goja.AssertFunction(mk)
	getter := rt.ToValue(func(goja.FunctionCall) goja.Value {
		for _, d := range dets {
			s.detach(d)
		}
		return ctor.(*goja.Object).Get("prototype")
	})
	nt, err := mkf(goja.Undefined(), getter)
	if err != nil {
		panic(err)
	}
	anyArgs := make([]interface{}, len(args))
	for i, a := range args {
		anyArgs[i] = a
	}
	rc, _ := goja.AssertFunction(rt.Get("Reflect").(*goja.Object).Get("construct"))
	res, err := rc(goja.Undefined(), ctor, rt.NewArray(anyArgs...), nt)
	if err != nil {
		return nil, err
	}
	return res.(*goja.Object), nil
}

// cbValue: what a callback returns for a value token: `x…@b` detaches now and returns the primitive,
// `x…!b` returns an object whose valueOf detaches, no token (index beyond the list) → undefined
func (s *state) cbValue(toks []string, k int) goja.Value {
	if k >= len(toks) {
		return goja.Undefined()
	}
	h, dets, inBody := splitAt(toks[k])
	if inBody {
		for _, d := range dets {
			s.detach(d)
		}
		return s.varg(h)
	}
	return s.varg(toks[k])
}

// freshOp: methods whose result is a typed array that is compared with the model (toReversed, toSorted, with, filter, map)
func (s *state) freshOp(ws []string) string {
	rt := s.rt
	vi, _ := strconv.Atoi(ws[1])
	v := s.view(vi)
	var res goja.Value
	var err error
	switch ws[0] {
	case "R":
		res, err = s.call(v, "toReversed")
	case "T":
		var args []goja.Value
		if ws[2] != "_" {
			_, dets := splitBang(ws[2])
			first := true
			args = append(args, rt.ToValue(func(c goja.FunctionCall) goja.Value {
				if first {
					first = false
					for _, d := range dets {
						s.detach(d)
					}
				}
				a, b := c.Argument(0), c.Argument(1)
				switch {
				case numLess(b, a):
					return rt.ToValue(-1)
				case numLess(a, b):
					return rt.ToValue(1)
				}
				return rt.ToValue(0)
			}))
		}
		res, err = s.call(v, "toSorted", args...)
	case "w":
		res, err = s.call(v, "with", s.iarg(ws[2]), s.varg(ws[3]))
	case "t":
		bits := ws[2]
		detAt, dets := -1, []int(nil)
		if ws[3] != "_" {
			h, d := splitBang(ws[3])
			detAt, _ = strconv.Atoi(h)
			dets = d
		}
		k := 0
		cb := rt.ToValue(func(goja.FunctionCall) goja.Value {
			keep := k < len(bits) && bits[k] == '1'
			if k == detAt {
				for _, d := range dets {
					s.detach(d)
				}
			}
			k++
			return rt.ToValue(keep)
		})
		sp := "_"
		if len(ws) > 4 {
			sp = ws[4]
		}
		s.withSpecies(v, sp, func() { res, err = s.call(v, "filter", cb) })
	case "M":
		k := 0
		cb := rt.ToValue(func(goja.FunctionCall) goja.Value {
			val := s.cbValue(ws[3:], k)
			k++
			return val
		})
		s.withSpecies(v, ws[2], func() { res, err = s.call(v, "map", cb) })
	}
	if err != nil {
		return s.errName(err)
	}
	o := res.(*goja.Object)
	out := s.showView(o, "length")
	s.trackResultView(o)
	return out
}

// ofFrom: %TypedArray%.of / .from applied to a built-in constructor or to a user constructor that detaches and
// returns an existing typed array
func (s *state) ofFrom(ws []string) string {
	rt := s.rt
	mode, ctok := ws[1], ws[2]
	var this goja.Value
	if name, ok := kindCtor[ctok]; ok {
		this = rt.Get(name)
	} else {
		h, dets := splitBang(ctok)
		vi, _ := strconv.Atoi(h)
		target := s.view(vi)
		this = rt.ToValue(func(goja.ConstructorCall) *goja.Object {
			for _, d := range dets {
				s.detach(d)
			}
			return target
		})
	}
	vals := make([]interface{}, 0, len(ws)-3)
	gvals := make([]goja.Value, 0, len(ws)-3)
	for _, t := range ws[3:] {
		v := s.varg(t)
		vals = append(vals, v)
		gvals = append(gvals, v)
	}
	ta := rt.Get("Uint8Array").(*goja.Object).Get("__proto__") // %TypedArray%
	if ta == nil || goja.IsUndefined(ta) {
		ta = rt.Get("Object").(*goja.Object).Get("getPrototypeOf")
	}
	tao := rt.Get("Object").(*goja.Object)
	gp, _ := goja.AssertFunction(tao.Get("getPrototypeOf"))
	tav, _ := gp(goja.Undefined(), rt.Get("Uint8Array"))
	taObj := tav.(*goja.Object)
	var res goja.Value
	var err error
	switch mode {
	case "of":
		fn, _ := goja.AssertFunction(taObj.Get("of"))
		res, err = fn(this, gvals...)
	case "from":
		fn, _ := goja.AssertFunction(taObj.Get("from"))
		res, err = fn(this, rt.NewArray(vals...))
	case "fromMap":
		fn, _ := goja.AssertFunction(taObj.Get("from"))
		id := rt.ToValue(func(c goja.FunctionCall) goja.Value { return c.Argument(0) })
		res, err = fn(this, rt.NewArray(vals...), id)
	default:
		panic("unknown mode " + mode)
	}
	if err != nil {
		return s.errName(err)
	}
	o := res.(*goja.Object)
	out := s.showView(o, "length")
	s.trackResultView(o)
	return out
}

func showItems(items []string) string {
	all := true
	for _, it := range items {
		if it != "undef" {
			all = false
		}
	}
	if all {
		return "vals-empty"
	}
	return "vals " + strings.Join(items, ",")
}

func item(v goja.Value) string {
	return strings.TrimPrefix(showNum(v), "v:")
}

// visit: the values a callback-taking method hands to its callback (or an iterator yields), in order
func (s *state) visit(ws []string) string {
	rt := s.rt
	name := ws[1]
	vi, _ := strconv.Atoi(ws[2])
	v := s.view(vi)
	detAt, dets := -1, []int(nil)
	if ws[3] != "_" {
		h, d := splitBang(ws[3])
		detAt, _ = strconv.Atoi(h)
		dets = d
	}
	var items []string
	k := 0
	step := func(val goja.Value) {
		items = append(items, item(val))
		if k == detAt {
			for _, d := range dets {
				s.detach(d)
			}
		}
		k++
	}
	switch name {
	case "values", "entries":
		it, err := s.call(v, name)
		if err != nil {
			return s.errName(err)
		}
		ito := it.(*goja.Object)
		for i := 0; i < 100; i++ {
			r, err := s.call(ito, "next")
			if err != nil {
				return s.errName(err)
			}
			ro := r.(*goja.Object)
			if ro.Get("done").ToBoolean() {
				break
			}
			val := ro.Get("value")
			if name == "entries" {
				val = val.(*goja.Object).Get("1")
			}
			step(val)
		}
		return showItems(items)
	}
	var ret goja.Value = goja.Undefined()
	argIdx := 0
	switch name {
	case "every":
		ret = rt.ToValue(true)
	case "some", "find", "findIndex", "findLast", "findLastIndex":
		ret = rt.ToValue(false)
	case "reduce", "reduceRight":
		argIdx = 1
		ret = rt.ToValue(0)
	case "forEach":
	default:
		panic("unknown visiting method " + name)
	}
	cb := rt.ToValue(func(c goja.FunctionCall) goja.Value {
		step(c.Argument(argIdx))
		return ret
	})
	args := []goja.Value{cb}
	if argIdx == 1 {
		args = append(args, rt.ToValue(0))
	}
	if _, err := s.call(v, name, args...); err != nil {
		return s.errName(err)
	}
	return showItems(items)
}

// join: the element values parsed back from join / toString / toLocaleString
func (s *state) join(ws []string) string {
	rt := s.rt
	name := ws[1]
	vi, _ := strconv.Atoi(ws[2])
	v := s.view(vi)
	var dets []int
	if ws[3] != "_" {
		dets = parseDets(ws[3])
	}
	var res goja.Value
	var err error
	if name == "join" {
		sep := goja.Value(rt.ToValue(","))
		if len(dets) > 0 {
			sep = s.advObj(rt.ToValue(","), dets)
		}
		res, err = s.call(v, "join", sep)
	} else {
		res, err = s.call(v, name)
	}
	if err != nil {
		return s.errName(err)
	}
	isBig := false
	if tag := v.GetSymbol(goja.SymToStringTag); tag != nil && strings.HasPrefix(tag.String(), "Big") {
		isBig = true // %TypedArray%.prototype[@@toStringTag] names the element type also for user subclasses
	}
	var items []string
	for _, piece := range strings.Split(res.String(), ",") {
		switch {
		case piece == "":
			items = append(items, "undef")
		case isBig:
			items = append(items, "b"+piece)
		case piece == "NaN":
			items = append(items, "nan")
		default:
			p := strings.Replace(piece, "Infinity", "Inf", 1)
			f, perr := strconv.ParseFloat(p, 64)
			if perr != nil {
				return "E:Other:unparsable join piece " + piece
			}
			items = append(items, fmt.Sprintf("x%016x", math.Float64bits(f)))
		}
	}
	return showItems(items)
}

// other: any prototype method that does not write to its receiver; results are not compared (the model
// only applies the detaches), exceptions are expected and ignored, panics and memory damage are not.
func (s *state) other(ws []string) string {
	rt := s.rt
	name := ws[1]
	vi, _ := strconv.Atoi(ws[2])
	v := s.view(vi)
	var dets []int
	if ws[3] != "_" {
		dets = parseDets(ws[3])
	}
	first := true
	cb := rt.ToValue(func(c goja.FunctionCall) goja.Value {
		if first {
			first = false
			for _, d := range dets {
				s.detach(d)
			}
		}
		return goja.Undefined()
	})
	adv := func(p interface{}) goja.Value { return s.advObj(rt.ToValue(p), dets) }
	var args []goja.Value
	switch name {
	case "every", "some", "find", "findIndex", "findLast", "findLastIndex", "forEach", "map", "filter", "toSorted":
		args = []goja.Value{cb}
	case "reduce", "reduceRight":
		args = []goja.Value{cb, rt.ToValue(0)}
	case "indexOf", "lastIndexOf", "includes":
		args = []goja.Value{rt.ToValue(1), adv(0)}
	case "at":
		args = []goja.Value{adv(0)}
	case "join":
		args = []goja.Value{adv(",")}
	case "with":
		args = []goja.Value{adv(0), adv(1)}
	case "toReversed", "keys", "values", "entries":
		for _, d := range dets {
			s.detach(d)
		}
	case "toString", "toLocaleString":
	case "iterate":
		// for (x of v.values()) with a detach after the first element
		it, err := s.call(v, "values")
		if err != nil {
			return "ok"
		}
		ito := it.(*goja.Object)
		for i := 0; i < 70; i++ {
			r, err := s.call(ito, "next")
			if err != nil {
				break
			}
			if i == 0 {
				for _, d := range dets {
					s.detach(d)
				}
			}
			if r.(*goja.Object).Get("done").ToBoolean() {
				break
			}
		}
		return "ok"
	case "export":
		// Go-side sharing: Export of a Uint8Array must alias the slab (checked in dump via ALIAS)
		return s.exportCheck(v)
	default:
		panic("unknown method " + name)
	}
	s.call(v, name, args...)
	return "ok"
}

// exportCheck: the Go value exported from a typed array must alias the view's byte range of the slab
func (s *state) exportCheck(v *goja.Object) string {
	abv := v.Get("buffer")
	ex := v.Export()
	for i, b := range s.bufs {
		if b.obj != nil && b.obj.SameAs(abv) && !b.ab.Detached() {
			off := int(v.Get("byteOffset").ToInteger())
			n := int(v.Get("byteLength").ToInteger())
			if n == 0 {
				return "ok"
			}
			var p unsafe.Pointer
			var bl int
			switch e := ex.(type) {
			case []byte:
				p, bl = unsafe.Pointer(unsafe.SliceData(e)), len(e)
			case []int8:
				p, bl = unsafe.Pointer(unsafe.SliceData(e)), len(e)
			case []uint16:
				p, bl = unsafe.Pointer(unsafe.SliceData(e)), len(e)*2
			case []int16:
				p, bl = unsafe.Pointer(unsafe.SliceData(e)), len(e)*2
			case []uint32:
				p, bl = unsafe.Pointer(unsafe.SliceData(e)), len(e)*4
			case []int32:
				p, bl = unsafe.Pointer(unsafe.SliceData(e)), len(e)*4
			case []float32:
				p, bl = unsafe.Pointer(unsafe.SliceData(e)), len(e)*4
			case []float64:
				p, bl = unsafe.Pointer(unsafe.SliceData(e)), len(e)*8
			case []int64:
				p, bl = unsafe.Pointer(unsafe.SliceData(e)), len(e)*8
			case []uint64:
				p, bl = unsafe.Pointer(unsafe.SliceData(e)), len(e)*8
			default:
				return "ok"
			}
			if bl != n || p != unsafe.Pointer(unsafe.SliceData(b.mem[off:])) {
				return fmt.Sprintf("ok ALIAS-VIEW!%d", i)
			}
		}
	}
	return "ok"
}

func (s *state) dump() string {
	var sb strings.Builder
	var flags []string
	for i, b := range s.bufs {
		if i > 0 {
			sb.WriteByte(' ')
		}
		if !b.canaryOK() {
			flags = append(flags, fmt.Sprintf("CANARY!%d", i))
		}
		if b.ab.Detached() {
			sb.WriteString("D")
			if b.snapshot != nil && !bytes.Equal(b.snapshot, b.mem) {
				flags = append(flags, fmt.Sprintf("POSTDETACH!%d", i))
				b.snapshot = append([]byte(nil), b.mem...) // report once per write
			}
			continue
		}
		cur := b.ab.Bytes()
		if len(cur) != len(b.mem) || (len(cur) > 0 && unsafe.SliceData(cur) != unsafe.SliceData(b.mem)) {
			flags = append(flags, fmt.Sprintf("ALIAS!%d", i))
		}
		if len(b.mem) == 0 {
			sb.WriteString("-")
		} else {
			sb.WriteString(hex.EncodeToString(b.mem))
		}
	}
	if h := s.rt.Get("__protoHits"); h != nil && h.ToInteger() != 0 {
		flags = append(flags, fmt.Sprintf("PROTOHIT!%d", h.ToInteger()))
		s.rt.Set("__protoHits", 0)
	}
	out := sb.String()
	if len(flags) > 0 {
		out += " " + strings.Join(flags, " ")
	}
	return out
}

// newState: a fresh runtime whose %TypedArray%.prototype carries accessor properties for the integer keys -1..70:
// an integer-indexed exotic object never consults its prototype for a canonical numeric key, in range or not, so
// these accessors must never run (PROTOHIT otherwise).
func newState() *state {
	s := &state{rt: goja.New()}
	_, err := s.rt.RunString(`(function(){
		var TA = Object.getPrototypeOf(Uint8Array.prototype);
		globalThis.__protoHits = 0;
		for (var i = -1; i <= 70; i++) {
			Object.defineProperty(TA, String(i), {get: function(){ __protoHits++; return 77 }, set: function(v){ __protoHits++ }, configurable: true});
		}
	})()`)
	if err != nil {
		panic(err)
	}
	return s
}

// subclass: `class extends <K>Array {}` — views created through it take the non-default-constructor paths of
// slice / filter / map / subarray (species = the subclass)
func (s *state) subclass(name string) goja.Value {
	v, err := s.rt.RunString("(class extends " + name + " {})")
	if err != nil {
		panic(err)
	}
	return v
}

func handle(line string) string {
	ws := strings.Fields(line)
	if len(ws) == 0 {
		return "PARSE-ERROR"
	}
	if ws[0] == "N" {
		st = newState()
		return "ok |"
	}
	if st == nil {
		st = newState()
	}
	res := common.Safe(func() string { return st.op(ws) })
	if res == "PANIC BAD-OP" {
		res = "BAD-OP"
	}
	return res + " | " + st.dump()
}

func main() {
	// typed arrays use the platform byte order; the model assumes little-endian
	x := uint16(1)
	if *(*byte)(unsafe.Pointer(&x)) != 1 {
		fmt.Fprintln(os.Stderr, "c17 harness: big-endian platform not supported by the model")
		os.Exit(3)
	}
	common.Loop(handle)
}
