// Harness for property C14 — errors cross the Go/JS boundary in both directions with identity preserved.
//
// One case per stdin line:   <entry> <payload> <frame>,<frame>,...     (frames outermost first; "-" = empty chain)
// One canonical answer line: host=<outcome> is=<bits> as=<name> top=<site> rej=[...] log=[...]
//
// The chain is built inside-out from real goja API objects, one fresh Runtime per case:
//   entry    RS  r.RunProgram("__entry()")        CA  AssertFunction(callee)(undefined)      EX  ExportTo(callee,&func()(Value,error))
//   frames   J0 JC JR JF JCF JRF   JS function with none / catch(swallow) / catch(rethrow) / finally / both
//            FC   native func(FunctionCall) Value            -> Callable, panic(err)
//            RFE  reflect-wrapped func() (Value, error)      -> Callable, return err
//            RFN  reflect-wrapped func() Value               -> Callable, panic(err)
//            CT   native func(ConstructorCall) *Object (JS shim does `new N()`) -> Callable, panic(err)
//            XFE  reflect func() (Value,error) whose body calls an ExportTo'd func() (Value, error)   (wrapJSFunc, error result)
//            XFN  reflect func() Value whose body calls an ExportTo'd func() Value                    (wrapJSFunc panics)
//            PX   Go ProxyTrapConfig.Get trap (JS shim reads p.x)  -> Callable, panic(err)
//            GT   native FunctionCall that does obj.Get("x") on an accessor whose getter is the callee (no recover)
//            FO   native FunctionCall that drives r.ForOf over an iterator whose next() calls the callee
//            DY   DynamicObject.Get method (JS shim reads d.x)     -> Callable, panic(err)
//            RP   native FunctionCall that runs a nested r.RunProgram("__c<i>()"), panic(err)
//            PR   JS shim: Promise.resolve().then(callee)   (the rest of the chain runs as a promise job)
//   payload  see mkThrower.
package main

import (
	"errors"
	"fmt"
	"runtime"
	"strconv"
	"strings"

	"github.com/dop251/goja"
	"verifharness/common"
)

// ---------------------------------------------------------------- registered Go errors

type CustomErr struct{ N int }

func (c *CustomErr) Error() string { return "custom" + strconv.Itoa(c.N) }

// IsErr has a custom Is method: errors.Is(x, target) is true for its target although target is not on its chain.
type IsErr struct{ target error }

func (e *IsErr) Error() string        { return "iserr" }
func (e *IsErr) Is(t error) bool      { return t == e.target }

// AsErr has a custom As method: errors.As(x, &*CustomErr) succeeds and yields the *CustomErr it holds.
type AsErr struct{ give *CustomErr }

func (e *AsErr) Error() string { return "aserr" }
func (e *AsErr) As(t interface{}) bool {
	if p, ok := t.(**CustomErr); ok {
		*p = e.give
		return true
	}
	return false
}

type goErrs struct {
	E1, W3, J4, WI6, JI7, E9, WS12, X14, WX15, A16, JJ17, JD18 error
	C2                             *CustomErr
	I5                             *goja.InterruptedError
	S8                             *goja.StackOverflowError
	names                          []string
	all                            []error
	excName                        func(*goja.Exception) string
}

func newGoErrs() *goErrs {
	g := &goErrs{}
	g.E1 = errors.New("E1")
	g.C2 = &CustomErr{2}
	g.W3 = fmt.Errorf("w3: %w", error(g.C2))
	g.J4 = errors.Join(g.E1, g.C2)
	g.I5 = &goja.InterruptedError{}
	g.WI6 = fmt.Errorf("w6: %w", error(g.I5))
	g.JI7 = errors.Join(g.I5, g.E1)
	g.S8 = &goja.StackOverflowError{}
	g.E9 = errors.New("E9")
	g.WS12 = fmt.Errorf("w12: %w", error(g.S8))
	g.X14 = &IsErr{target: g.E1}
	g.WX15 = fmt.Errorf("w15: %w", g.X14)
	g.A16 = &AsErr{give: g.C2}
	g.JJ17 = errors.Join(g.E1, errors.Join(g.C2, g.WI6)) // an uncatchable error two joins deep
	g.JD18 = errors.Join(g.W3, g.W3)                      // the same identity reachable twice
	g.names = []string{"E1", "C2", "W3", "J4", "I5", "WI6", "JI7", "S8", "E9", "WS12", "X14", "WX15", "A16", "JJ17", "JD18"}
	g.all = []error{g.E1, g.C2, g.W3, g.J4, g.I5, g.WI6, g.JI7, g.S8, g.E9, g.WS12, g.X14, g.WX15, g.A16, g.JJ17, g.JD18}
	return g
}

func (g *goErrs) byName(n string) error {
	for i, s := range g.names {
		if s == n {
			return g.all[i]
		}
	}
	return nil
}

func (g *goErrs) name(e error) string {
	if ex, ok := e.(*goja.Exception); ok {
		if g.excName != nil {
			return "x(" + g.excName(ex) + ")"
		}
		return "x(?)"
	}
	for i, x := range g.all {
		if sameErr(x, e) {
			return g.names[i]
		}
	}
	switch v := e.(type) {
	case *goja.InterruptedError:
		if ie, ok := v.Value().(error); ok {
			return "intr(" + g.name(ie) + ")"
		}
		return "intr(" + common.OneLine(fmt.Sprint(v.Value())) + ")"
	case *goja.StackOverflowError:
		return "so"
	case runtime.Error:
		return "rt"
	}
	if strings.HasPrefix(e.Error(), "rfw: ") { // made in flight by an RFW frame
		if in := errors.Unwrap(e); in != nil {
			return "w(" + g.name(in) + ")"
		}
	}
	return "?goerr:" + fmt.Sprintf("%T", e)
}

func sameErr(a, b error) (eq bool) {
	defer func() {
		if recover() != nil {
			eq = false
		}
	}()
	return a == b
}

// ---------------------------------------------------------------- JS sources (positions matter: one construct per line)

const srcJS = `(function(next, log, idx, kind, boom) {
  if (kind === "J0") return function j0() {
    next();
  };
  if (kind === "JC") return function jc() {
    try { next(); } catch (e) { log(idx, "c", e); }
  };
  if (kind === "JR") return function jr() {
    try { next(); } catch (e) { log(idx, "c", e);
      throw e;
    }
  };
  if (kind === "JF") return function jf() {
    try { next(); } finally { log(idx, "f"); }
  };
  if (kind === "JCF") return function jcf() {
    try { next(); } catch (e) { log(idx, "c", e); } finally { log(idx, "f"); }
  };
  if (kind === "JRF") return function jrf() {
    try { next(); } catch (e) { log(idx, "c", e);
      throw e;
    } finally { log(idx, "f"); }
  };
  if (kind === "JI") return function ji() {
    var it = {};
    it[Symbol.iterator] = function() {
      var n = 0;
      return {next: function() { return n++ ? {done: true} : {value: 1, done: false}; },
              return: function() { log(idx, "r"); return {}; }};
    };
    for (var x of it) { next(); }
  };
  if (kind === "JG") return function jg() {
    var g = (function*() { yield 1; next(); })();
    g.next(); g.next();
  };
  if (kind === "JGF") return function jgf() {
    var g = (function*() { yield 1; try { next(); } finally { log(idx, "f"); } })();
    g.next(); g.next();
  };
  if (kind === "JIT") return function jit() {
    var it = {};
    it[Symbol.iterator] = function() {
      var n = 0;
      return {next: function() { return n++ ? {done: true} : {value: 1, done: false}; },
              return: function() { log(idx, "r"); throw new Error("ret"); }};
    };
    for (var x of it) { next(); }
  };
  if (kind === "JIU") return function jiu() {
    var it = {};
    it[Symbol.iterator] = function() {
      var n = 0;
      return {next: function() { return n++ ? {done: true} : {value: 1, done: false}; },
              return: function() { log(idx, "r"); boom(); }};
    };
    for (var x of it) { next(); }
  };
  if (kind === "JGT") return function jgt() {
    var g = (function*() { try { yield 1; } finally { log(idx, "f"); } })();
    g.next();
    try { next(); } catch (e) { log(idx, "c", e);
      g.throw(e);
    }
  };
  if (kind === "JY") return function jy() {
    var inner = function*() { yield 1; next(); };
    var g = (function*() { yield* inner(); })();
    g.next(); g.next();
  };
  if (kind === "JYF") return function jyf() {
    var inner = function*() { yield 1; next(); };
    var g = (function*() { try { yield* inner(); } finally { log(idx, "f"); } })();
    g.next(); g.next();
  };
  if (kind === "JA") return async function ja() {
    next();
  };
  if (kind === "JAW") return async function jaw() {
    await null;
    next();
  };
})`

const srcShims = `({
  ctor: function(N) { return function shimNew() { new N(); }; },
  prop: function(p) { return function shimGet() { p.x; }; },
  getter: function(callee) { return Object.defineProperty({}, "x", {get: callee}); },
  iterable: function(callee) { var o = {}; o[Symbol.iterator] = function() { return {next: function() { callee(); return {done: true}; }}; }; return o; },
  promise: function(callee) { return function shimThen() { Promise.resolve().then(function job() { callee(); }); }; },
  iterableThrowingReturn: function(log, idx) { var o = {}; o[Symbol.iterator] = function() { var n = 0;
      return {next: function() { return n++ ? {done: true} : {value: 1, done: false}; },
              return: function() { log(idx, "r"); throw new Error("ret"); }}; }; return o; },
  ctorOf: function(callee) { return function C() { callee(); }; },
  tramp: function(callee) { return function trampoline() { callee(); }; },
  vals: function(G1, G3, G4, G6, E1v, intr) {
    class MyErr extends Error {}
    return {P1: "boom", P2: 42, P3: undefined, P4: null, O1: {tag: 1},
      R1: new Error("r1"), R2: new TypeError("r2"), R3: new MyErr("r3"),
      G1: G1, G3: G3, G4: G4, G6: G6, V1: {value: E1v}, V2: {value: 42},
      U1: {toString: function() { throw new Error("inner"); }}, U2: Object.create(null),
      U3: {toString: function() { intr(); for (;;) {} }},
      P5: Symbol("s"), P6: 10n, O2: function thrownFn() {}, O3: new Proxy({}, {}), O4: [1, 2]};
  }
})`

// throwers: one line each so that line 1 / the column of the throwing token is the expected site
const srcThrow = `(function(v) { return function thrower() { throw v; }; })`
const srcSentT = `(function() { return function thrower() { return +Symbol(); }; })`
const srcSentR = `(function() { return function thrower() { x; let x; }; })`
const srcSentG = `(function() { return function thrower() { return BigInt(1.5); }; })`
const srcSentS = `(function() { return function thrower() { return BigInt("zz"); }; })`
const srcIntr = `(function(intr) { return function thrower() { intr(); for (;;) {} }; })`
const srcSO = `(function() { return function thrower() { thrower(); }; })`

var (
	prgJS    = map[int]*goja.Program{} // "f<idx>.js": the file name of a position identifies the frame
	prgShims = goja.MustCompile("shims.js", srcShims, false)
	prgEntry = goja.MustCompile("entry.js", "__entry()", false)
	prgThrow = goja.MustCompile("thrower.js", srcThrow, false)
	prgSentT = goja.MustCompile("thrower.js", srcSentT, false)
	prgSentR = goja.MustCompile("thrower.js", srcSentR, false)
	prgSentG = goja.MustCompile("thrower.js", srcSentG, false)
	prgSentS = goja.MustCompile("thrower.js", srcSentS, false)
	prgIntr  = goja.MustCompile("thrower.js", srcIntr, false)
	prgSO    = goja.MustCompile("thrower.js", srcSO, false)
	prgRP    = map[int]*goja.Program{}
)

// rethrow sites of srcJS: line of "throw e;" per kind
var rethrowLine = map[string]int{}
var rethrowCol int
var creationLine int
var genYieldLine int // line of the `yield` at which the generator of a JGT frame is suspended

func init() {
	lines := strings.Split(srcJS, "\n")
	cur := ""
	for i, l := range lines {
		if k := strings.Index(l, "kind === \""); k >= 0 {
			rest := l[k+len("kind === \""):]
			cur = rest[:strings.Index(rest, "\"")]
		}
		if cur == "JGT" && strings.Contains(l, "yield 1;") {
			genYieldLine = i + 1
		}
		if strings.Contains(l, "throw e;") {
			rethrowLine[cur] = i + 1
			rethrowCol = strings.Index(l, "throw e;") + 1
		}
	}
	for i := 0; i < 16; i++ {
		prgRP[i] = goja.MustCompile("rp.js", "__c"+strconv.Itoa(i)+"()", false)
		prgJS[i] = goja.MustCompile("f"+strconv.Itoa(i)+".js", srcJS, false)
	}
	for i, l := range strings.Split(srcShims, "\n") {
		if strings.Contains(l, "R1: new Error") {
			creationLine = i + 1
		}
	}
}

// ---------------------------------------------------------------- one case

type caseT struct {
	r      *goja.Runtime
	g      *goErrs
	shims  *goja.Object
	jsFacs map[int]goja.Callable
	vals   map[string]goja.Value
	valsOk bool
	order  []string
	log    []string
	rej    []string
	kinds  []string
	// expected throw site of the thrower (file thrower.js)
	throwCol, throwColHi int
}

func (c *caseT) must(v goja.Value, err error) goja.Value {
	if err != nil {
		panic("harness setup: " + err.Error())
	}
	return v
}

func (c *caseT) jsFacFor(idx int) goja.Callable {
	if f, ok := c.jsFacs[idx]; ok {
		return f
	}
	if c.jsFacs == nil {
		c.jsFacs = map[int]goja.Callable{}
	}
	f, _ := goja.AssertFunction(c.must(c.r.RunProgram(prgJS[idx])))
	c.jsFacs[idx] = f
	return f
}

func (c *caseT) shim(name string, args ...goja.Value) goja.Value {
	f, ok := goja.AssertFunction(c.shims.Get(name))
	if !ok {
		panic("harness: no shim " + name)
	}
	return c.must(f(goja.Undefined(), args...))
}

var valOrder = []string{"P1", "P2", "P3", "P4", "O1", "R1", "R2", "R3", "G1", "G3", "G4", "G6", "V1", "V2", "U1", "U2", "U3", "P5", "P6", "O2", "O3", "O4"}

func (c *caseT) ensureVals() {
	if c.valsOk {
		return
	}
	c.valsOk = true
	r, g := c.r, c.g
	o := c.shim("vals", r.NewGoError(g.E1), r.NewGoError(g.W3), r.NewGoError(g.J4), r.NewGoError(g.WI6), r.ToValue(g.E1),
		r.ToValue(func(call goja.FunctionCall) goja.Value { r.Interrupt(g.E9); return goja.Undefined() })).(*goja.Object)
	c.vals = map[string]goja.Value{}
	for _, n := range valOrder {
		c.vals[n] = o.Get(n)
	}
}

// canonical name of a JS value: registered name by identity, else a structural description
func (c *caseT) valName(v goja.Value) string {
	if v == nil {
		return "nil"
	}
	c.ensureVals()
	for _, n := range valOrder {
		w := c.vals[n]
		if _, isObj := w.(*goja.Object); isObj {
			if v == w {
				return n
			}
		} else if _, vIsObj := v.(*goja.Object); !vIsObj && w.SameAs(v) && w.ExportType() == v.ExportType() {
			return n
		}
	}
	if o, ok := v.(*goja.Object); ok {
		var res string
		ex := c.r.Try(func() {
			ctor := ""
			if co, ok := o.Get("constructor").(*goja.Object); ok {
				ctor = co.Get("name").String()
			}
			if ctor == "GoError" {
				if e, ok := o.Get("value").Export().(error); ok {
					res = "ge(" + c.g.name(e) + ")"
					return
				}
			}
			res = "new:" + ctor
		})
		if ex != nil {
			return "?obj"
		}
		return res
	}
	return "?prim:" + common.OneLine(v.String())
}

func (c *caseT) callNext(callee goja.Value) {
	fn, ok := goja.AssertFunction(callee)
	if !ok {
		panic("harness: callee not callable")
	}
	if _, err := fn(goja.Undefined()); err != nil {
		panic(err)
	}
}

type dynObj struct{ get func() }

func (d *dynObj) Get(key string) goja.Value      { d.get(); return goja.Undefined() }
func (d *dynObj) Set(string, goja.Value) bool    { return false }
func (d *dynObj) Has(string) bool                { return true }
func (d *dynObj) Delete(string) bool             { return false }
func (d *dynObj) Keys() []string                 { return nil }

func (c *caseT) mkFrame(kind string, idx int, callee goja.Value) goja.Value {
	r := c.r
	switch kind {
	case "J0", "JC", "JR", "JF", "JCF", "JRF", "JI", "JG", "JGF", "JA", "JAW", "JIT", "JY", "JYF", "JIU", "JGT":
		boom := r.ToValue(func(call goja.FunctionCall) goja.Value { panic(c.g.S8) })
		return c.must(c.jsFacFor(idx)(goja.Undefined(), callee, r.ToValue(c.logFn), r.ToValue(idx), r.ToValue(kind), boom))
	case "FC":
		return r.ToValue(func(call goja.FunctionCall) goja.Value { c.callNext(callee); return goja.Undefined() })
	case "FCS": // swallow whatever error the callee failed with
		fn, _ := goja.AssertFunction(callee)
		return r.ToValue(func(call goja.FunctionCall) goja.Value {
			_, _ = fn(goja.Undefined())
			return goja.Undefined()
		})
	case "FCV": // re-raise the VALUE of a caught exception
		fn, _ := goja.AssertFunction(callee)
		return r.ToValue(func(call goja.FunctionCall) goja.Value {
			if _, err := fn(goja.Undefined()); err != nil {
				if ex, ok := err.(*goja.Exception); ok {
					panic(ex.Value())
				}
				panic(err)
			}
			return goja.Undefined()
		})
	case "RFW": // return a Go error that wraps whatever the callee failed with
		fn, _ := goja.AssertFunction(callee)
		return r.ToValue(func() (goja.Value, error) {
			v, err := fn(goja.Undefined())
			if err != nil {
				return nil, fmt.Errorf("rfw: %w", err)
			}
			return v, nil
		})
	case "RFE":
		fn, _ := goja.AssertFunction(callee)
		return r.ToValue(func() (goja.Value, error) { return fn(goja.Undefined()) })
	case "RFN":
		return r.ToValue(func() goja.Value { c.callNext(callee); return goja.Undefined() })
	case "CT":
		n := r.ToValue(func(call goja.ConstructorCall) *goja.Object { c.callNext(callee); return nil })
		return c.shim("ctor", n)
	case "XFE":
		// the parameter makes the func type differ from every native frame's Go type, so that ExportTo always
		// goes through wrapJSFunc instead of handing back the wrapped Go func itself
		var f func(int8) (goja.Value, error)
		if err := r.ExportTo(callee, &f); err != nil {
			panic("harness: ExportTo: " + err.Error())
		}
		return r.ToValue(func() (goja.Value, error) { return f(0) })
	case "XFN":
		var f func(int8) goja.Value
		if err := r.ExportTo(callee, &f); err != nil {
			panic("harness: ExportTo: " + err.Error())
		}
		return r.ToValue(func() goja.Value { return f(0) })
	case "PX":
		p := r.NewProxy(r.NewObject(), &goja.ProxyTrapConfig{
			Get: func(target *goja.Object, property string, receiver goja.Value) goja.Value {
				c.callNext(callee)
				return goja.Undefined()
			}})
		return c.shim("prop", r.ToValue(p))
	case "GT":
		obj := c.shim("getter", callee).(*goja.Object)
		return r.ToValue(func(call goja.FunctionCall) goja.Value { obj.Get("x"); return goja.Undefined() })
	case "TG": // Runtime.Try around Object.Get on an accessor whose getter is the callee; re-raise the exception
		obj := c.shim("getter", callee).(*goja.Object)
		return r.ToValue(func(call goja.FunctionCall) goja.Value {
			if ex := r.Try(func() { obj.Get("x") }); ex != nil {
				panic(ex)
			}
			return goja.Undefined()
		})
	case "FO":
		it := c.shim("iterable", callee)
		return r.ToValue(func(call goja.FunctionCall) goja.Value {
			r.ForOf(it, func(goja.Value) bool { return true })
			return goja.Undefined()
		})
	case "FOT": // Runtime.ForOf, the step callback calls the callee; the iterator's return() throws
		it := c.shim("iterableThrowingReturn", r.ToValue(c.logFn), r.ToValue(idx))
		return r.ToValue(func(call goja.FunctionCall) goja.Value {
			r.ForOf(it, func(goja.Value) bool { c.callNext(callee); return true })
			return goja.Undefined()
		})
	case "DY":
		d := r.NewDynamicObject(&dynObj{get: func() { c.callNext(callee) }})
		return c.shim("prop", d)
	case "RP":
		r.Set("__c"+strconv.Itoa(idx), callee)
		p := prgRP[idx]
		return r.ToValue(func(call goja.FunctionCall) goja.Value {
			if _, err := r.RunProgram(p); err != nil {
				panic(err)
			}
			return goja.Undefined()
		})
	case "PR":
		return c.shim("promise", callee)
	}
	panic("harness: unknown frame kind " + kind)
}

func (c *caseT) logFn(call goja.FunctionCall) goja.Value {
	idx := call.Argument(0).ToInteger()
	k := call.Argument(1).String()
	s := strconv.FormatInt(idx, 10) + k
	if k == "c" {
		s += "=" + c.valName(call.Argument(2))
	}
	c.log = append(c.log, s)
	return goja.Undefined()
}

func (c *caseT) runFactory(p *goja.Program, args ...goja.Value) goja.Value {
	f, _ := goja.AssertFunction(c.must(c.r.RunProgram(p)))
	return c.must(f(goja.Undefined(), args...))
}

func (c *caseT) mkThrower(payload string) goja.Value {
	r, g := c.r, c.g
	kind, arg := payload, ""
	if i := strings.IndexByte(payload, ':'); i >= 0 {
		kind, arg = payload[:i], payload[i+1:]
	}
	colOf := func(src, tok string) int {
		c.throwColHi = strings.Index(src, tok) + len(tok)
		return strings.Index(src, tok) + 1
	}
	switch kind {
	case "jt": // JS `throw v`
		c.ensureVals()
		v, ok := c.vals[arg]
		if !ok {
			panic("harness: unknown value " + arg)
		}
		c.throwCol = colOf(srcThrow, "throw v")
		return c.runFactory(prgThrow, v)
	case "js": // VM-raised sentinel panics (typeError / referenceError / rangeError / syntaxError string types)
		switch arg {
		case "T":
			c.throwCol = colOf(srcSentT, "+Symbol()")
			return c.runFactory(prgSentT)
		case "R":
			c.throwCol = colOf(srcSentR, "x; let")
			return c.runFactory(prgSentR)
		case "G":
			c.throwCol = colOf(srcSentG, "BigInt(1.5)")
			return c.runFactory(prgSentG)
		case "S":
			c.throwCol = colOf(srcSentS, "BigInt(\"zz\")")
			return c.runFactory(prgSentS)
		}
	case "ji": // real interrupt, iface = E9
		intr := r.ToValue(func(call goja.FunctionCall) goja.Value { r.Interrupt(g.E9); return goja.Undefined() })
		return c.runFactory(prgIntr, intr)
	case "jo": // real stack overflow
		r.SetMaxCallStackSize(150)
		return c.runFactory(prgSO)
	case "np": // native panic(Value)
		c.ensureVals()
		v, ok := c.vals[arg]
		if !ok {
			panic("harness: unknown value " + arg)
		}
		return r.ToValue(func(call goja.FunctionCall) goja.Value { panic(v) })
	case "npn": // native panic(r.NewTypeError(...)) created in flight
		return r.ToValue(func(call goja.FunctionCall) goja.Value { panic(r.NewTypeError("nt")) })
	case "nr": // reflect-wrapped func returns a Go error
		var e error
		if arg != "N0" {
			if e = g.byName(arg); e == nil {
				panic("harness: unknown error " + arg)
			}
		}
		return r.ToValue(func() (goja.Value, error) { return goja.Undefined(), e })
	case "nq": // native panic(error)
		e := g.byName(arg)
		if e == nil {
			panic("harness: unknown error " + arg)
		}
		return r.ToValue(func(call goja.FunctionCall) goja.Value { panic(e) })
	case "no": // native panic(arbitrary Go value)
		return r.ToValue(func(call goja.FunctionCall) goja.Value { panic(42) })
	case "nx": // runtime.Error
		return r.ToValue(func(call goja.FunctionCall) goja.Value {
			var a []int
			i := len(c.log) + 5
			_ = a[i]
			return goja.Undefined()
		})
	}
	panic("harness: unknown payload " + payload)
}

func (c *caseT) pvName(x interface{}) string {
	switch v := x.(type) {
	case *goja.Exception:
		return "exc(" + c.valName(v.Value()) + ")"
	case goja.Value:
		return "val(" + c.valName(v) + ")"
	case error:
		return "goerr(" + c.g.name(v) + ")"
	case string:
		if strings.HasPrefix(v, "harness") {
			return "HARNESS:" + common.OneLine(v)
		}
		return "other(" + common.OneLine(v) + ")"
	}
	return "other(" + common.OneLine(fmt.Sprint(x)) + ")"
}

// siteName abstracts Stack()[0].Position() to: T (the thrower's throwing statement, exact line and column range),
// R<kind> (the `throw e` statement of a rethrowing JS frame, exact line and column) or o (anything else:
// native frame, empty stack, creation site of an Error object, a shim).
func (c *caseT) siteName(ex *goja.Exception) string {
	st := ex.Stack()
	if len(st) == 0 {
		return "o"
	}
	p := st[0].Position()
	if p.Filename == "thrower.js" && p.Line == 1 && p.Column >= c.throwCol && p.Column <= c.throwColHi {
		return "T"
	}
	if len(p.Filename) > 4 && p.Filename[0] == 'f' && strings.HasSuffix(p.Filename, ".js") && p.Filename != "frames.js" {
		idx := p.Filename[1 : len(p.Filename)-3]
		for _, l := range rethrowLine {
			if l == p.Line && p.Column == rethrowCol {
				return "R" + idx
			}
		}
		if p.Line == genYieldLine {
			return "Y" + idx
		}
		return fmt.Sprintf("?%s:%d:%d", p.Filename, p.Line, p.Column)
	}
	if p.Filename == "thrower.js" {
		return fmt.Sprintf("?%s:%d:%d", p.Filename, p.Line, p.Column)
	}
	if p.Filename == "shims.js" && p.Line == creationLine {
		return "C"
	}
	return "o"
}

func runCase(line string) string {
	w := strings.Fields(line)
	if len(w) != 3 {
		return "BADLINE"
	}
	entry, payload := w[0], w[1]
	var kinds []string
	if w[2] != "-" {
		kinds = strings.Split(w[2], ",")
	}
	c := &caseT{r: goja.New(), g: newGoErrs(), kinds: kinds}
	c.g.excName = func(ex *goja.Exception) string { return c.valName(ex.Value()) }
	r := c.r
	c.shims = c.must(r.RunProgram(prgShims)).(*goja.Object)
	r.SetPromiseRejectionTracker(func(p *goja.Promise, op goja.PromiseRejectionOperation) {
		if op == goja.PromiseRejectionReject {
			c.rej = append(c.rej, c.valName(p.Result()))
		}
	})
	callee := c.mkThrower(payload)
	for i := len(kinds) - 1; i >= 0; i-- {
		callee = c.mkFrame(kinds[i], i, callee)
	}

	// With a job frame in the chain, a Callable / exported entry goes through a JS trampoline: a native function
	// called directly from the host runs with an empty call stack, and then the job queue drains inside the first
	// nested Callable instead of at the entry (where jobs drain is C10's subject; the model drains at the entry).
	// The same holds for a native frame that swallows errors: with an empty call stack the nested Callable's
	// leaveAbrupt() clears the interrupt flag, which the model (no call-stack depth) does not describe.
	if entry != "RS" {
		for _, k := range kinds {
			if k == "PR" || k == "JAW" || k == "FCS" {
				callee = c.shim("tramp", callee)
				break
			}
		}
	}

	var err error
	var pan interface{}
	panicked := false
	func() {
		defer func() {
			if x := recover(); x != nil {
				pan, panicked = x, true
			}
		}()
		switch entry {
		case "RS":
			r.Set("__entry", callee)
			_, err = r.RunProgram(prgEntry)
		case "CA":
			fn, _ := goja.AssertFunction(callee)
			_, err = fn(goja.Undefined())
		case "TR": // Runtime.Try around Object.Get on an accessor whose getter is the head of the chain
			obj := c.shim("getter", callee).(*goja.Object)
			if ex := r.Try(func() { obj.Get("x") }); ex != nil {
				err = ex
			}
		case "CO": // AssertConstructor: the same runWrapped boundary as Callable, entered through `new`
			ctor, ok := goja.AssertConstructor(c.shim("ctorOf", callee))
			if !ok {
				panic("harness: not a constructor")
			}
			_, err = ctor(nil)
		case "EX":
			var f func(int16) (goja.Value, error)
			if e := r.ExportTo(callee, &f); e != nil {
				panic("harness: ExportTo entry: " + e.Error())
			}
			_, err = f(0)
		default:
			panic("harness: unknown entry " + entry)
		}
	}()
	r.ClearInterrupt()

	host, is, as, top, es, xc := "ok", "-", "-", "-", "-", "-"
	switch {
	case panicked:
		host = "panic(" + c.pvName(pan) + ")"
	case err != nil:
		if ex, ok := err.(*goja.Exception); ok {
			host = "exc(" + c.valName(ex.Value()) + ")"
			top = c.siteName(ex)
		} else {
			host = "err(" + c.g.name(err) + ")"
		}
		var b strings.Builder
		for _, t := range c.g.all {
			if errors.Is(err, t) {
				b.WriteByte('1')
			} else {
				b.WriteByte('0')
			}
		}
		is = b.String()
		var ce *CustomErr
		if errors.As(err, &ce) {
			as = c.g.name(ce)
		}
		// does the error's own Error() method return?
		es = func() (res string) {
			defer func() {
				if recover() != nil {
					res = "panic"
				}
			}()
			_ = err.Error()
			return "ok"
		}()
		// values of all *Exceptions on the errors.Unwrap chain
		var xs []string
		for e := err; e != nil; e = errors.Unwrap(e) {
			if ex, ok := e.(*goja.Exception); ok {
				xs = append(xs, c.valName(ex.Value()))
			}
		}
		xc = "[" + strings.Join(xs, ",") + "]"
	}
	return "host=" + host + " is=" + is + " as=" + as + " top=" + top + " es=" + es + " xc=" + xc +
		" rej=[" + strings.Join(c.rej, ",") + "] log=[" + strings.Join(c.log, ";") + "]"
}

func main() {
	common.Loop(runCase)
}
