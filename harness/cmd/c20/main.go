// Harness for property C20: RegExp results independent of engine and fast path; UTF-16 exact indices.
//
// Line protocol (one op per line, one answer line per op; strings are hex, 4 digits per UTF-16 unit,
// "-" = empty):
//
//	posmap  <units> <start>                 buildPosMap over the lenient decoder + posMapReverseLookup
//	utf8map <units> <q,q,...>               buildUTF8PosMap + positionMap.get for each query
//	flags   <units>                         compileRegexp("a", flags) and `new RegExp("a", flags)`
//	adv     <units> <pos> <0|1>             advanceStringIndex
//	syn     <pattern> <flags>               `new RegExp(pattern, flags)`: ok / SyntaxError / other
//	rx      <id> <pattern> <flags> <subject> <starts> <limit> <template> [<modes>]
//	        engine chosen, raw find table (start 0..len), raw findAll, and the structural dump of
//	        exec/test/match/matchAll/search/replace/split in every mode (fast path and the generic
//	        protocol path reached by de-optimising RegExp.prototype / the instance in several ways).
package main

import (
	_ "embed"
	"fmt"
	"strconv"
	"strings"

	"github.com/dop251/goja"

	"verifharness/common"
)

//go:embed dump.js
var dumpSrc string

type mode struct {
	name  string
	setup string // run once in the mode's runtime
	prep  string // JS function expression applied to each fresh RegExp instance ("" = none)
	rt    *goja.Runtime
	dump  goja.Callable
	prepV goja.Value
}

var modes = []*mode{
	{name: "fast"},
	{name: "gexec", setup: `(function(){ var oe = RegExp.prototype.exec; RegExp.prototype.exec = function(s){ return oe.call(this, s); }; })()`},
	{name: "gflag", setup: `(function(){ var d = Object.getOwnPropertyDescriptor(RegExp.prototype, "global"); var og = d.get;
		Object.defineProperty(RegExp.prototype, "global", {configurable: true, get: function(){ return og.call(this); }}); })()`},
	{name: "gsym", setup: `(function(){ var P = RegExp.prototype; var ss = [Symbol.match, Symbol.matchAll, Symbol.replace, Symbol.search, Symbol.split];
		ss.forEach(function(sym){ var f = P[sym]; Object.defineProperty(P, sym, {configurable: true, writable: true, value: function(a, b){ return f.call(this, a, b); }}); });
		P.sticky; Object.defineProperty(P, "sticky", Object.getOwnPropertyDescriptor(P, "sticky")); })()`},
	{name: "ginst", prep: `(function(re){ re.exec = function(s){ return RegExp.prototype.exec.call(this, s); }; })`},
	{name: "gisym", prep: `(function(re){ re[Symbol.match] = RegExp.prototype[Symbol.match]; re[Symbol.replace] = RegExp.prototype[Symbol.replace];
		re[Symbol.search] = RegExp.prototype[Symbol.search]; re[Symbol.split] = RegExp.prototype[Symbol.split]; re[Symbol.matchAll] = RegExp.prototype[Symbol.matchAll]; })`},
}

func initModes() {
	for _, m := range modes {
		rt := goja.New()
		if m.setup != "" {
			if _, err := rt.RunString(m.setup); err != nil {
				panic(err)
			}
		}
		v, err := rt.RunString(dumpSrc)
		if err != nil {
			panic(err)
		}
		f, ok := goja.AssertFunction(v)
		if !ok {
			panic("dump.js did not evaluate to a function")
		}
		m.rt, m.dump = rt, f
		m.prepV = goja.Undefined()
		if m.prep != "" {
			pv, err := rt.RunString(m.prep)
			if err != nil {
				panic(err)
			}
			m.prepV = pv
		}
	}
}

func units(h string) []uint16 {
	if h == "-" || h == "" {
		return nil
	}
	if len(h)%4 != 0 {
		panic("bad hex length")
	}
	out := make([]uint16, 0, len(h)/4)
	for i := 0; i < len(h); i += 4 {
		v, err := strconv.ParseUint(h[i:i+4], 16, 16)
		if err != nil {
			panic(err)
		}
		out = append(out, uint16(v))
	}
	return out
}

func ascii(h string) string {
	var b strings.Builder
	for _, u := range units(h) {
		b.WriteRune(rune(u))
	}
	return b.String()
}

func ints(xs []int) string {
	p := make([]string, len(xs))
	for i, x := range xs {
		p[i] = strconv.Itoa(x)
	}
	return strings.Join(p, ",")
}

func parseInts(s string) []int {
	if s == "-" || s == "" {
		return nil
	}
	var out []int
	for _, p := range strings.Split(s, ",") {
		v, err := strconv.Atoi(p)
		if err != nil {
			panic(err)
		}
		out = append(out, v)
	}
	return out
}

func b2s(b bool) string {
	if b {
		return "1"
	}
	return "0"
}

func errName(rt *goja.Runtime, err error) string {
	if ex, ok := err.(*goja.Exception); ok {
		if o, ok := ex.Value().(*goja.Object); ok {
			if n := o.Get("name"); n != nil {
				return n.String()
			}
		}
		return "throw"
	}
	return "goerr:" + common.OneLine(err.Error())
}

// newRegExp constructs `new RegExp(pattern, flags)` in rt from raw code units.
func newRegExp(rt *goja.Runtime, pat []uint16, flags string) (goja.Value, error) {
	ctor := rt.Get("RegExp").(*goja.Object)
	o, err := rt.New(ctor, goja.VerifC20String(pat), rt.ToValue(flags))
	if err != nil {
		return nil, err
	}
	return o, nil
}

func opPosmap(f []string) string {
	us := units(f[1])
	start, _ := strconv.Atoi(f[2])
	pm, runes, ms, sp := goja.VerifC20BuildPosMap(us, start)
	rs := make([]string, len(runes))
	for i, r := range runes {
		rs[i] = strconv.FormatInt(int64(r), 16)
	}
	rm, rsplit := goja.VerifC20PosMapReverseLookup(pm, start)
	return fmt.Sprintf("posmap pm=%s runes=%s ms=%d sp=%s rl=%d,%s", ints(pm), strings.Join(rs, ","), ms, b2s(sp), rm, b2s(rsplit))
}

func opUtf8map(f []string) string {
	us := units(f[1])
	src, dst, str, ok := goja.VerifC20BuildUTF8PosMap(us)
	if !ok {
		return "utf8map ok=0"
	}
	var gets []string
	for _, q := range parseInts(f[2]) {
		r, found := goja.VerifC20PosMapGet(src, dst, q)
		if found {
			gets = append(gets, strconv.Itoa(r))
		} else {
			gets = append(gets, "x")
		}
	}
	return fmt.Sprintf("utf8map ok=1 src=%s dst=%s len=%d get=%s", ints(src), ints(dst), len(str), strings.Join(gets, ","))
}

func opFlags(f []string) string {
	fl := ascii(f[1])
	ok, bits := goja.VerifC20ParseFlags(fl)
	var b strings.Builder
	for _, x := range bits {
		b.WriteString(b2s(x))
	}
	// the same through the JS constructor
	rt := modes[0].rt
	js := ""
	re, err := newRegExp(rt, []uint16{'a'}, fl)
	if err != nil {
		js = errName(rt, err)
	} else {
		js = "ok:" + re.(*goja.Object).Get("flags").String()
	}
	if !ok {
		return "flags ok=0 js=" + js
	}
	return "flags ok=1 bits=" + b.String() + " js=" + js
}

func opAdv(f []string) string {
	pos, _ := strconv.Atoi(f[2])
	return "adv " + strconv.Itoa(goja.VerifC20AdvanceStringIndex(units(f[1]), pos, f[3] == "1"))
}

func opSyn(f []string) string {
	rt := modes[0].rt
	re, err := newRegExp(rt, units(f[1]), ascii(f[2]))
	if err != nil {
		return "syn " + errName(rt, err)
	}
	return "syn ok eng=" + goja.VerifC20EngineOf(re)
}

func opRx(f []string) string {
	id := f[1]
	pat := units(f[2])
	flags := ascii(f[3])
	subj := units(f[4])
	starts := parseInts(f[5])
	limit, _ := strconv.Atoi(f[6])
	tmpl := units(f[7])
	want := map[string]bool{"fast": true}
	if len(f) > 8 {
		for _, m := range strings.Split(f[8], ",") {
			want[m] = true
		}
	} else {
		for _, m := range modes {
			want[m.name] = true
		}
	}

	var out []string
	rt0 := modes[0].rt
	re0, err := newRegExp(rt0, pat, flags)
	if err != nil {
		return "rx " + id + "\teng=ERR:" + errName(rt0, err)
	}
	out = append(out, "rx "+id, "eng="+goja.VerifC20EngineOf(re0))

	// raw find tables on their own RegExp objects: as goja uses the engines (tbl), backtracking engine alone (tbl2),
	// linear-time engine alone (tblr; "-" when the pattern has no linear-time twin, "na" where not applicable)
	sv := goja.VerifC20String(subj)
	fmtRow := func(idx []int, groups []string) string {
		if len(idx) == 0 {
			return "x"
		}
		nm := "!"
		if groups != nil {
			nm = strings.Join(groups, ",")
		}
		return strings.ReplaceAll(ints(idx), ",", ".") + ":" + nm
	}
	rows := make([]string, 0, len(subj)+1)
	rows2 := make([]string, 0, len(subj)+1)
	rowsr := make([]string, 0, len(subj)+1)
	hasRE2 := goja.VerifC20HasRE2(re0)
	for st := 0; st <= len(subj); st++ {
		idx, groups, _ := goja.VerifC20Find(re0, sv, st)
		rows = append(rows, fmtRow(idx, groups))
		idx2, groups2, _ := goja.VerifC20Find2(re0, sv, st)
		rows2 = append(rows2, fmtRow(idx2, groups2))
		if hasRE2 {
			idxr, groupsr, ok := goja.VerifC20FindRE2(re0, sv, st)
			if ok {
				rowsr = append(rowsr, fmtRow(idxr, groupsr))
			} else {
				rowsr = append(rowsr, "na")
			}
		}
	}
	out = append(out, "tbl="+strings.Join(rows, "|"), "tbl2="+strings.Join(rows2, "|"))
	if hasRE2 {
		out = append(out, "tblr="+strings.Join(rowsr, "|"))
	} else {
		out = append(out, "tblr=-")
	}
	sticky := strings.Contains(flags, "y")
	global := strings.Contains(flags, "g")
	fmtAll := func(start, limit int, st bool) string {
		re1, _ := newRegExp(rt0, pat, flags)
		all, _ := goja.VerifC20FindAll(re1, sv, start, limit, st)
		ar := make([]string, len(all))
		for i, a := range all {
			ar[i] = strings.ReplaceAll(ints(a), ",", ".")
		}
		if len(ar) == 0 {
			return "-"
		}
		return strings.Join(ar, "|")
	}
	// the raw findAll results the fast paths post-process: Symbol.match (global), Symbol.split, Symbol.replace per start
	out = append(out, "allm="+fmtAll(0, -1, sticky), "alls="+fmtAll(0, -1, false))
	var ar []string
	for _, k := range starts {
		idx, find := 0, 1
		if global {
			find = -1
		} else if sticky {
			idx = k
		}
		if idx > len(subj) {
			ar = append(ar, fmt.Sprintf("%d:beyond", k))
			continue
		}
		ar = append(ar, fmt.Sprintf("%d:%s", k, fmtAll(idx, find, sticky)))
	}
	out = append(out, "allr="+strings.Join(ar, ";"))
	out = append(out, "eng2="+goja.VerifC20EngineOf(re0))

	std := ""
	for _, m := range modes {
		if !want[m.name] {
			continue
		}
		rt := m.rt
		// one compilation per mode; every operation of the dump gets its own RegExp object cloned from it
		// (`new RegExp(master)`: same compiled pattern, fresh lastIndex / own properties)
		master, err := newRegExp(rt, pat, flags)
		if err != nil {
			panic(err)
		}
		ctor := rt.Get("RegExp").(*goja.Object)
		mk := func(goja.FunctionCall) goja.Value {
			re, err := rt.New(ctor, master)
			if err != nil {
				panic(err)
			}
			return re
		}
		// which path will the instance take?
		probe, _ := newRegExp(rt, pat, flags)
		if m.prep != "" {
			if pf, ok := goja.AssertFunction(m.prepV); ok {
				pf(goja.Undefined(), probe)
			}
		}
		std += b2s(goja.VerifC20Standard(rt, probe))
		res := common.Safe(func() string {
			v, err := m.dump(goja.Undefined(), rt.ToValue(mk), goja.VerifC20String(subj), rt.ToValue(starts),
				rt.ToValue(limit), goja.VerifC20String(tmpl), m.prepV)
			if err != nil {
				return "DUMPERR:" + common.OneLine(err.Error())
			}
			return v.String()
		})
		out = append(out, "D:"+m.name+"="+res)
	}
	out = append(out, "std="+std)
	return strings.Join(out, "\t")
}

func main() {
	initModes()
	common.Loop(func(line string) string {
		f := strings.Fields(line)
		if len(f) == 0 {
			return "empty"
		}
		switch f[0] {
		case "posmap":
			return opPosmap(f)
		case "utf8map":
			return opUtf8map(f)
		case "flags":
			return opFlags(f)
		case "adv":
			return opAdv(f)
		case "syn":
			return opSyn(f)
		case "rx":
			return opRx(f)
		}
		return "unknown-op"
	})
}
