// Structural dump of every observable RegExp operation (property C20).  Format mirrored by the Lean driver.
// strings: 4 hex digits per UTF-16 code unit, empty string "-", undefined "u", null "n".
(function () {
  var HEX = "0123456789abcdef";
  function hx(s) {
    if (s === undefined) return "u";
    if (s === null) return "n";
    s = String(s);
    if (s.length === 0) return "-";
    var o = "";
    for (var i = 0; i < s.length; i++) {
      var c = s.charCodeAt(i);
      o += HEX[(c >> 12) & 15] + HEX[(c >> 8) & 15] + HEX[(c >> 4) & 15] + HEX[c & 15];
    }
    return o;
  }
  function grp(g) {
    if (g === undefined) return "{u}";
    var ks = Object.keys(g), o = [];
    for (var i = 0; i < ks.length; i++) o.push(ks[i] + "=" + hx(g[ks[i]]));
    return "{" + o.join(",") + "}";
  }
  function mr(m) {            // match record
    if (m === null) return "n";
    var c = [];
    for (var i = 0; i < m.length; i++) c.push(hx(m[i]));
    return m.index + "[" + c.join(",") + "]" + grp(m.groups);
  }
  function li(re) { return "@" + String(re.lastIndex); }
  function guard(f) {
    try { return f(); } catch (e) { return "!" + (e && e.name ? e.name : "throw"); }
  }
  // prep(re): per-instance de-optimisation hook of the mode (identity in most modes)
  return function dump(mk, s, starts, limit, tmpl, prep) {
    var out = [];
    function fresh() { var re = mk(); if (prep) prep(re); return re; }
    for (var si = 0; si < starts.length; si++) {
      (function (k) {
        out.push("E" + k + "=" + guard(function () {
          var re = fresh(), st = [];
          re.lastIndex = k;
          for (var n = 0; n < 3; n++) {
            var m = re.exec(s);
            st.push(mr(m) + li(re));
            if (m === null) break;
          }
          return st.join(">");
        }));
        out.push("T" + k + "=" + guard(function () {
          var re = fresh(), st = [];
          re.lastIndex = k;
          for (var n = 0; n < 2; n++) st.push((re.test(s) ? "1" : "0") + li(re));
          return st.join(">");
        }));
        out.push("M" + k + "=" + guard(function () {
          var re = fresh();
          re.lastIndex = k;
          var m = s.match(re);
          if (m === null) return "n" + li(re);
          if (re.global) { var c = []; for (var i = 0; i < m.length; i++) c.push(hx(m[i])); return "g[" + c.join(",") + "]" + li(re); }
          return mr(m) + li(re);
        }));
        out.push("A" + k + "=" + guard(function () {
          var re = fresh(), st = [];
          re.lastIndex = k;
          var it = re[Symbol.matchAll](s);
          for (var n = 0; n < 40; n++) {
            var x = it.next();
            if (x.done) break;
            st.push(mr(x.value));
          }
          return st.join(">") + li(re);
        }));
        out.push("S" + k + "=" + guard(function () {
          var re = fresh();
          re.lastIndex = k;
          return String(s.search(re)) + li(re);
        }));
        out.push("F" + k + "=" + guard(function () {
          var re = fresh(), calls = [];
          re.lastIndex = k;
          var r = s.replace(re, function () {
            var a = arguments, n = a.length, g;
            if (typeof a[n - 1] === "object") { g = a[n - 1]; n--; }
            var pos = a[n - 2], c = [];
            for (var i = 0; i < n - 2; i++) c.push(hx(a[i]));
            calls.push(pos + "[" + c.join(",") + "]" + grp(g));
            return "<" + pos + ">";
          });
          return hx(r) + "|" + calls.join(">") + li(re);
        }));
        out.push("R" + k + "=" + guard(function () {
          var re = fresh();
          re.lastIndex = k;
          return hx(s.replace(re, tmpl)) + li(re);
        }));
      })(starts[si]);
    }
    function spl(lim) {
      return guard(function () {
        var re = fresh();
        var a = lim === undefined ? s.split(re) : s.split(re, lim), c = [];
        for (var i = 0; i < a.length; i++) c.push(hx(a[i]));
        return "[" + c.join(",") + "]" + li(re);
      });
    }
    out.push("P=" + spl(undefined));
    out.push("PL" + limit + "=" + spl(limit));
    return out.join(";");
  };
})()
