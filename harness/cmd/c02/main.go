// Command c02: Go side of the C02 correspondence (compiled code vs MiniJS reference interpreter).
//
// stdin : one JSON object per line {"id","src","strict","timeout_ms"}
// stdout: one JSON object per line {"id","out","full","dump","ins":{stack,stash,dynamic,other,total}}
//
// "out" is the canonical outcome in exactly the format of Lean's `Res.show` / `render`
// (lean/GojaModel/C02/Model.lean); "full" additionally carries native error messages and is used to
// compare two goja runs (variant vs original) with each other; "dump" is a hash of the opcode
// skeleton of the compiled program (white-box hook VerifC02DumpProgram) and "ins" classifies its
// instructions, to show that two variants were really compiled differently.
package main

import (
	"crypto/sha1"
	"encoding/hex"
	"encoding/json"
	"fmt"
	"math"
	"strconv"
	"strings"
	"time"

	"github.com/dop251/goja"
	"verifharness/common"
)

type req struct {
	ID        string `json:"id"`
	Src       string `json:"src"`
	Strict    bool   `json:"strict"`
	TimeoutMs int    `json:"timeout_ms"`
}

type insCount struct {
	Stack   int `json:"stack"`
	Stash   int `json:"stash"`
	Dynamic int `json:"dynamic"`
	Other   int `json:"other"`
	Total   int `json:"total"`
}

type resp struct {
	ID   string   `json:"id"`
	Out  string   `json:"out"`
	Full string   `json:"full"`
	Dump string   `json:"dump"`
	Ins  insCount `json:"ins"`
}

type renderer struct {
	rt      *goja.Runtime
	gopd    goja.Callable
	isArray goja.Callable
}

const maxSafe = 9007199254740991

func (r *renderer) render(v goja.Value, d int, full bool) string {
	if v == nil || goja.IsUndefined(v) {
		return "undefined"
	}
	if goja.IsNull(v) {
		return "null"
	}
	if obj, ok := v.(*goja.Object); ok {
		// never Export() an object: that would read (and thereby invoke) its accessor properties
		return r.renderObject(obj, d, full)
	}
	switch x := v.Export().(type) {
	case bool:
		if x {
			return "true"
		}
		return "false"
	case int64:
		return strconv.FormatInt(x, 10)
	case float64:
		if x == math.Trunc(x) && math.Abs(x) <= maxSafe {
			return strconv.FormatInt(int64(x), 10)
		}
		return "<num:" + v.String() + ">"
	case string:
		return "\"" + x + "\""
	}
	return "<" + v.ExportType().String() + ">"
}

func (r *renderer) renderObject(obj *goja.Object, d int, full bool) string {
	if _, ok := goja.AssertFunction(obj); ok {
		return "<function>"
	}
	if obj.ClassName() == "Error" {
		name := "Error"
		if n := obj.Get("name"); n != nil {
			name = n.String()
		}
		if full {
			msg := ""
			if m := obj.Get("message"); m != nil {
				msg = m.String()
			}
			return "<" + name + ": " + msg + ">"
		}
		return "<" + name + ">"
	}
	isArr := false
	if res, err := r.isArray(goja.Undefined(), obj); err == nil {
		isArr = res.ToBoolean()
	}
	if isArr {
		if d == 0 {
			return "<array>"
		}
		n := int(obj.Get("length").ToInteger())
		parts := make([]string, 0, n)
		for i := 0; i < n && i < 10000; i++ {
			parts = append(parts, r.renderProp(obj, strconv.Itoa(i), d-1, full, false))
		}
		return "[" + strings.Join(parts, ",") + "]"
	}
	if d == 0 {
		return "<object>"
	}
	keys := obj.Keys()
	parts := make([]string, 0, len(keys))
	for _, k := range keys {
		parts = append(parts, k+":"+r.renderProp(obj, k, d-1, full, true))
	}
	return "{" + strings.Join(parts, ",") + "}"
}

// renderProp renders an own property through its descriptor, so that getters are never invoked.
func (r *renderer) renderProp(obj *goja.Object, k string, d int, full bool, showAcc bool) string {
	desc, err := r.gopd(goja.Undefined(), obj, r.rt.ToValue(k))
	if err != nil || desc == nil || goja.IsUndefined(desc) {
		return "undefined"
	}
	dobj := desc.ToObject(r.rt)
	g, s := dobj.Get("get"), dobj.Get("set")
	if (g != nil && !goja.IsUndefined(g)) || (s != nil && !goja.IsUndefined(s)) {
		return "<accessor>"
	}
	return r.render(dobj.Get("value"), d, full)
}

func classify(dump string) insCount {
	var c insCount
	for _, line := range strings.Split(dump, "\n") {
		name := strings.TrimLeft(line, ">.")
		if name == "" {
			continue
		}
		c.Total++
		switch {
		case strings.Contains(name, "Dynamic") || strings.Contains(name, "Global") ||
			strings.HasPrefix(name, "resolveVar") || name == "bindVars" || name == "deleteVar" ||
			strings.HasPrefix(name, "callEval") || strings.HasPrefix(name, "_callEval") ||
			name == "_enterWith" || name == "_leaveWith" ||
			name == "_getValue" || name == "_putValue" || name == "_putValueP" || name == "_initValueP" || name == "_popRef":
			c.Dynamic++
		case strings.Contains(name, "Stash") || strings.HasPrefix(name, "loadMixed") ||
			strings.HasPrefix(name, "resolveMixed") || name == "enterFunc" || name == "enterFunc1" ||
			name == "enterBlock" || name == "enterCatchBlock" || name == "leaveBlock":
			c.Stash++
		case strings.Contains(name, "Stack") || name == "enterFuncStashless":
			c.Stack++
		default:
			c.Other++
		}
	}
	return c
}

func runCase(q req) (res resp) {
	res.ID = q.ID
	defer func() {
		if r := recover(); r != nil {
			res.Out = "PANIC " + common.OneLine(fmt.Sprint(r))
			res.Full = res.Out
		}
	}()
	rt := goja.New()
	rd := &renderer{rt: rt}
	var ok bool
	rd.gopd, ok = goja.AssertFunction(rt.Get("Object").ToObject(rt).Get("getOwnPropertyDescriptor"))
	if !ok {
		panic("no Object.getOwnPropertyDescriptor")
	}
	rd.isArray, ok = goja.AssertFunction(rt.Get("Array").ToObject(rt).Get("isArray"))
	if !ok {
		panic("no Array.isArray")
	}
	var log, logFull []string
	rt.Set("log", func(call goja.FunctionCall) goja.Value {
		a := call.Argument(0)
		log = append(log, rd.render(a, 2, false))
		logFull = append(logFull, rd.render(a, 2, true))
		return goja.Undefined()
	})
	prg, err := goja.Compile("p.js", q.Src, q.Strict)
	if err != nil {
		res.Out = "SYNTAXERROR " + common.OneLine(err.Error())
		res.Full = res.Out
		return
	}
	dump := goja.VerifC02DumpProgram(prg)
	h := sha1.Sum([]byte(dump))
	res.Dump = hex.EncodeToString(h[:])[:12]
	res.Ins = classify(dump)
	to := q.TimeoutMs
	if to <= 0 {
		to = 2000
	}
	timer := time.AfterFunc(time.Duration(to)*time.Millisecond, func() { rt.Interrupt("timeout") })
	v, err := rt.RunProgram(prg)
	timer.Stop()
	tail := " | " + strings.Join(log, ",")
	tailFull := " | " + strings.Join(logFull, ",")
	if err == nil {
		res.Out = "N " + rd.render(v, 2, false) + tail
		res.Full = "N " + rd.render(v, 2, true) + tailFull
		return
	}
	switch e := err.(type) {
	case *goja.Exception:
		res.Out = "T " + rd.render(e.Value(), 2, false) + tail
		res.Full = "T " + rd.render(e.Value(), 2, true) + tailFull
	case *goja.InterruptedError:
		res.Out = "timeout"
		res.Full = "timeout"
	default:
		res.Out = "ERROR " + fmt.Sprintf("%T", err) + " " + common.OneLine(err.Error())
		res.Full = res.Out
	}
	return
}

func main() {
	common.Loop(func(line string) string {
		var q req
		if err := json.Unmarshal([]byte(line), &q); err != nil {
			return `{"id":"?","out":"BADINPUT","full":"BADINPUT","dump":"","ins":{}}`
		}
		b, _ := json.Marshal(runCase(q))
		return string(b)
	})
}
