// C19 harness prelude: spec-level oracle for JSON.stringify (ECMA-262 §25.5.2) written against the language's
// reflective primitives only (no use of the native JSON object), plus structural dump helpers.
// Everything the oracle needs is captured here, before any test code runs.
var __c19 = (function () {
  "use strict";
  var A_isArray = Array.isArray, O_keys = Object.keys, R_apply = Reflect.apply, R_ownKeys = Reflect.ownKeys,
      R_gopd = Reflect.getOwnPropertyDescriptor, R_getProto = Reflect.getPrototypeOf, R_defProp = Reflect.defineProperty,
      NumValueOf = "number", StrValueOf = "string", BoolValueOf = "boolean", BigValueOf = "bigint", SymValueOf = "symbol",
      BoolValue = Boolean.prototype.valueOf, BigValue = BigInt.prototype.valueOf, StrValue = String.prototype.valueOf,
      S = String, M_min = Math.min, M_trunc = Math.trunc, TE = TypeError, ObjProto = Object.prototype, ArrProto = Array.prototype,
      nativeStringify = JSON.stringify, nativeParse = JSON.parse, SyntaxErr = SyntaxError, RangeErr = RangeError;
  var charCodeAt = String.prototype.charCodeAt, substring = String.prototype.substring;
  // append as an own data property (CreateDataProperty): a test may have put accessors on Array.prototype
  function push(a, x) { R_defProp(a, a.length, { value: x, writable: true, enumerable: true, configurable: true }); }
  function cc(s, i) { return R_apply(charCodeAt, s, [i]); }
  // internal-slot test ([[NumberData]] etc.) supplied by the Go side (ClassName / ExportType: no script-visible side effects;
  // calling Number.prototype.valueOf on a non-number would format the receiver into goja's error message, which is observable)
  var slotOf = __slot;
  function has(kind, v) { return slotOf(v) === kind; }
  function isObj(v) { return (typeof v === "object" && v !== null) || typeof v === "function"; }
  var HEX = "0123456789abcdef";
  function hex4(c) { return HEX[(c >> 12) & 15] + HEX[(c >> 8) & 15] + HEX[(c >> 4) & 15] + HEX[c & 15]; }
  function hexOf(s) { var r = ""; for (var i = 0; i < s.length; i++) r += hex4(cc(s, i)); return r; }

  function quote(s) {                                  // QuoteJSONString
    var p = '"';
    for (var i = 0; i < s.length; i++) {
      var c = cc(s, i);
      if (c >= 0xD800 && c <= 0xDBFF && i + 1 < s.length) {
        var d = cc(s, i + 1);
        if (d >= 0xDC00 && d <= 0xDFFF) { p += s[i] + s[i + 1]; i++; continue; }
      }
      if (c === 8) p += "\\b"; else if (c === 9) p += "\\t"; else if (c === 10) p += "\\n";
      else if (c === 12) p += "\\f"; else if (c === 13) p += "\\r"; else if (c === 34) p += '\\"';
      else if (c === 92) p += "\\\\";
      else if (c < 32 || (c >= 0xD800 && c <= 0xDFFF)) p += "\\u" + hex4(c);
      else p += s[i];
    }
    return p + '"';
  }
  function fixLone(s) {
    var r = "";
    for (var i = 0; i < s.length; i++) {
      var c = cc(s, i);
      if (c >= 0xD800 && c <= 0xDBFF && i + 1 < s.length && cc(s, i + 1) >= 0xDC00 && cc(s, i + 1) <= 0xDFFF) { r += s[i] + s[i + 1]; i++; }
      else if (c >= 0xD800 && c <= 0xDFFF) r += "\ufffd";
      else r += s[i];
    }
    return r;
  }
  function toIntegerOrInfinity(n) { if (n !== n) return 0; if (n === Infinity || n === -Infinity) return n; var t = M_trunc(n); return t === 0 ? 0 : t; }
  function lengthOf(o) { var n = toIntegerOrInfinity(+o.length); if (n <= 0) return 0; return M_min(n, 9007199254740991); }

  // Q = set of emulated deviations (all false = the specification):
  //   leak : indent not restored after an empty array / an object without serialisable members (when a gap is in use)
  //   inf  : a Number `space` >= 2^63 (incl. +Infinity) yields no gap
  //   sym  : a Symbol wrapper object is unwrapped (and so serialises as undefined)
  //   rlone: lone surrogates in the entries of a replacer allow-list are replaced by U+FFFD
  function stringify(value, replacer, space, Q) {
    Q = Q || {};
    var stack = [], indent = "", gap = "", PropertyList, ReplacerFunction;
    if (isObj(replacer)) {
      if (typeof replacer === "function") ReplacerFunction = replacer;
      else if (A_isArray(replacer)) {
        PropertyList = [];
        var len = lengthOf(replacer);
        for (var k = 0; k < len; k++) {
          var v = replacer[S(k)], item = undefined;
          if (typeof v === "string") item = v;
          else if (typeof v === "number") item = S(v);
          else if (typeof v === "object" && v !== null) { if (has(NumValueOf, v) || has(StrValueOf, v)) item = S(v); }
          if (item !== undefined && Q.rlone) item = fixLone(item);
          if (item !== undefined) {
            var dup = false;
            for (var q = 0; q < PropertyList.length; q++) if (PropertyList[q] === item) dup = true;
            if (!dup) push(PropertyList, item);
          }
        }
      }
    }
    if (typeof space === "object" && space !== null) {
      if (has(NumValueOf, space)) space = +space; else if (has(StrValueOf, space)) space = S(space);
    }
    if (typeof space === "number") {
      var sv = M_min(10, toIntegerOrInfinity(space));
      if (Q.inf && space >= 9223372036854775808) sv = 0;
      gap = ""; for (var g = 0; g < sv; g++) gap += " ";
    } else if (typeof space === "string") {
      gap = space.length <= 10 ? space : R_apply(substring, space, [0, 10]);
    }
    function prop(key, holder) {                       // SerializeJSONProperty
      var value = holder[key];
      if (isObj(value) || typeof value === "bigint") {
        var toJSON = value.toJSON;
        if (typeof toJSON === "function") value = R_apply(toJSON, value, [key]);
      }
      if (ReplacerFunction !== undefined) value = R_apply(ReplacerFunction, holder, [key, value]);
      if (typeof value === "object" && value !== null) {
        if (has(NumValueOf, value)) value = +value;
        else if (has(StrValueOf, value)) value = S(value);
        else if (has(BoolValueOf, value)) value = R_apply(BoolValue, value, []);
        else if (has(BigValueOf, value)) value = R_apply(BigValue, value, []);
        else if (Q.sym && has(SymValueOf, value)) return undefined;
      }
      if (value === null) return "null";
      if (value === true) return "true";
      if (value === false) return "false";
      if (typeof value === "string") return quote(value);
      if (typeof value === "number") return (value === value && value !== Infinity && value !== -Infinity) ? S(value) : "null";
      if (typeof value === "bigint") throw new TE("Do not know how to serialize a BigInt");
      if (typeof value === "object") return A_isArray(value) ? arr(value) : obj(value);
      return undefined;
    }
    function enter(value) {
      for (var i = 0; i < stack.length; i++) if (stack[i] === value) throw new TE("Converting circular structure to JSON");
      push(stack, value);
    }
    function obj(value) {                              // SerializeJSONObject
      enter(value);
      var stepback = indent; indent = indent + gap;
      var ind = indent;
      var K = PropertyList !== undefined ? PropertyList : O_keys(value);
      var partial = [];
      for (var i = 0; i < K.length; i++) {
        var P = K[i], strP = prop(P, value);
        if (strP !== undefined) push(partial, quote(P) + (gap !== "" ? ": " : ":") + strP);
      }
      var fin;
      if (partial.length === 0) fin = "{}";
      else if (gap === "") fin = "{" + join(partial, ",") + "}";
      else fin = "{\n" + ind + join(partial, ",\n" + ind) + "\n" + stepback + "}";
      stack.length = stack.length - 1;
      if (!(Q.leak && partial.length === 0)) indent = stepback;
      return fin;
    }
    function arr(value) {                              // SerializeJSONArray
      enter(value);
      var stepback = indent; indent = indent + gap;
      var ind = indent;
      var partial = [], len = lengthOf(value);
      for (var i = 0; i < len; i++) {
        var s = prop(S(i), value);
        push(partial, s === undefined ? "null" : s);
      }
      var fin;
      if (partial.length === 0) fin = "[]";
      else if (gap === "") fin = "[" + join(partial, ",") + "]";
      else fin = "[\n" + ind + join(partial, ",\n" + ind) + "\n" + stepback + "]";
      stack.length = stack.length - 1;
      if (!(Q.leak && partial.length === 0)) indent = stepback;
      return fin;
    }
    function join(a, sep) { var r = ""; for (var i = 0; i < a.length; i++) { if (i) r += sep; r += a[i]; } return r; }
    var wrapper = {};
    R_defProp(wrapper, "", { value: value, writable: true, enumerable: true, configurable: true });
    return prop("", wrapper);
  }

  // ---- JSON.parse with reviver: InternalizeJSONProperty (ECMA-262 §25.5.1.1), on top of the native parse of the text
  var R_delete = Reflect.deleteProperty;
  function parseR(text, reviver) {
    var unfiltered = nativeParse(text);
    if (typeof reviver !== "function") return unfiltered;        // IsCallable(reviver) is false: nothing else happens
    var root = {};
    R_defProp(root, "", { value: unfiltered, writable: true, enumerable: true, configurable: true });
    function walk(holder, name) {
      var val = holder[name];
      if (isObj(val)) {
        var i, ne;
        if (A_isArray(val)) {
          var len = lengthOf(val);
          for (i = 0; i < len; i++) {
            var prop = S(i);
            ne = walk(val, prop);
            if (ne === undefined) R_delete(val, prop);
            else R_defProp(val, prop, { value: ne, writable: true, enumerable: true, configurable: true });
          }
        } else {
          var keys = O_keys(val);
          for (i = 0; i < keys.length; i++) {
            var P = keys[i];
            ne = walk(val, P);
            if (ne === undefined) R_delete(val, P);
            else R_defProp(val, P, { value: ne, writable: true, enumerable: true, configurable: true });
          }
        }
      }
      return R_apply(reviver, holder, [name, val]);
    }
    return walk(root, "");
  }
  // generic structural dump of an arbitrary result (holes, non-data properties, functions …), depth-limited
  function gdump(v, depth) {
    if (depth > 12) return "…";
    var t = typeof v;
    if (v === null) return "null";
    if (t === "undefined") return "undef";
    if (t === "number") return "n" + __bits(v);
    if (t === "string") return "s" + hexOf(v);
    if (t === "boolean") return v ? "t" : "f";
    if (t === "bigint") return "big" + S(v);
    if (t === "symbol") return "sym";
    var isA = A_isArray(v), keys = R_ownKeys(v), r = (t === "function" ? "F" : isA ? "A" : "O") + "{";
    for (var i = 0; i < keys.length; i++) {
      var k = keys[i];
      if (typeof k !== "string") { r += "@sym,"; continue; }
      var d = R_gopd(v, k);
      if (d === undefined) { r += hexOf(k) + ":ghost,"; continue; }
      r += hexOf(k) + (d.enumerable ? "" : "~") + (d.configurable ? "" : "!") + (("value" in d) ? (d.writable ? ":" : "=") + gdump(d.value, depth + 1) : ":accessor") + ",";
    }
    return r + "}";
  }
  // dump of a reviver-walk result in the model's format: h = array hole
  function hdump(v) {
    if (v === null) return "z";
    if (v === true) return "t";
    if (v === false) return "f";
    if (typeof v === "number") return "n" + __bits(v);
    if (typeof v === "string") return "s" + hexOf(v);
    if (typeof v !== "object") return "?" + typeof v;
    var r, i;
    if (A_isArray(v)) {
      r = "[";
      for (i = 0; i < v.length; i++) { if (i) r += ","; r += (S(i) in v) ? hdump(v[i]) : "h"; }
      return r + "]";
    }
    var keys = R_ownKeys(v);
    r = "{";
    for (i = 0; i < keys.length; i++) { if (i) r += ","; r += hexOf(keys[i]) + ":" + hdump(v[keys[i]]); }
    return r + "}";
  }
  function reviveCase(text, D, Z) {
    var calls = [];
    var r;
    try {
      r = nativeParse(text, function (k, v) {
        push(calls, hexOf(k));
        for (var i = 0; i < D.length; i++) if (D[i] === k) return undefined;
        for (var j = 0; j < Z.length; j++) if (Z[j] === k) return null;
        return v;
      });
    } catch (e) { return errName(e) === "SyntaxError" ? "err" : "throw:" + errName(e); }
    var c = ""; for (var q = 0; q < calls.length; q++) { if (q) c += "."; c += calls[q]; }
    return (r === undefined ? "undef" : "ok " + hdump(r)) + " C " + c;
  }
  // hook catalogue of the Lean driver (catHooks): toJSON on prototypes and a replacer function, logging like the model
  function installTJ(mode) {
    var a = mode.indexOf("a") >= 0 || mode.indexOf("b") >= 0, o = mode.indexOf("o") >= 0 || mode.indexOf("b") >= 0;
    if (a) R_defProp(ArrProto, "toJSON", { value: function (k) { push(LOG, "t:" + hexOf(k)); return k; }, writable: true, enumerable: false, configurable: true });
    if (o) R_defProp(ObjProto, "toJSON", { value: function (k) { push(LOG, "t:" + hexOf(k)); return A_isArray(this) ? this : [k]; }, writable: true, enumerable: false, configurable: true });
  }
  function fp(h) {
    var ks = O_keys(h), r = A_isArray(h) ? "A" : "O";
    for (var i = 0; i < ks.length; i++) { if (i) r += "/"; r += hexOf(ks[i]); }
    return r;
  }
  function inList(l, k) { for (var i = 0; i < l.length; i++) if (l[i] === k) return true; return false; }
  function makeRepl(D, Z, W) {
    return function (k, v) {
      push(LOG, "r:" + hexOf(k) + "@" + fp(this));
      if (inList(D, k)) return undefined;
      if (inList(Z, k)) return null;
      if (inList(W, k)) return v === undefined ? undefined : [v];
      return v;
    };
  }
  function hookCase(value, mode, D, Z, W, space) {
    installTJ(mode);
    var rp = mode.indexOf("r") >= 0 ? makeRepl(D, Z, W) : undefined, r;
    try { r = nativeStringify(value, rp, space); } catch (e) { return "throw:" + errName(e); }
    var c = ""; for (var q = 0; q < LOG.length; q++) { if (q) c += "."; c += LOG[q]; }
    return (r === undefined ? "undef" : "ok " + hexOf(r)) + " C " + c;
  }
  // reviver that edits its holder (Lean: ReviverMut.lean, driver op RM)
  function reviveMutCase(text, T, X, S, C, D) {
    var calls = [], r;
    try {
      r = nativeParse(text, function (k, v) {
        push(calls, hexOf(k) + ":" + (v === undefined ? "u" : typeof v));
        if (inList(T, k)) {
          for (var i = 0; i < X.length; i++) delete this[X[i]];
          if (S.length > 0 && C !== undefined) this[S[0]] = nativeParse(C);
        }
        if (inList(D, k)) return undefined;
        return v;
      });
    } catch (e) { return errName(e) === "SyntaxError" ? "err" : "throw:" + errName(e); }
    var c = ""; for (var q = 0; q < calls.length; q++) { if (q) c += "."; c += calls[q]; }
    return (r === undefined ? "undef" : "ok " + hdump(r)) + " C " + c;
  }
  function resv(f) {
    var r;
    try { r = f(); } catch (e) { return "throw:" + errName(e); }
    try { return "ok:" + gdump(r, 0); } catch (e2) { return "dumpthrow:" + errName(e2); }
  }

  function plainDesc(d) { return d !== undefined && ("value" in d) && d.writable === true && d.enumerable === true && d.configurable === true; }
  function dump(v, bits) {                             // structural dump of a JSON.parse result
    if (v === null) return "z";
    if (v === true) return "t";
    if (v === false) return "f";
    if (typeof v === "number") return "n" + bits(v);
    if (typeof v === "string") return "s" + hexOf(v);
    if (typeof v !== "object") return "?" + typeof v;
    var keys = R_ownKeys(v), r, i;
    if (A_isArray(v)) {
      if (R_getProto(v) !== ArrProto) return "?arrayproto";
      var n = v.length;
      if (keys.length !== n + 1 || keys[n] !== "length") return "?arraykeys";
      r = "[";
      for (i = 0; i < n; i++) {
        if (keys[i] !== S(i) || !plainDesc(R_gopd(v, keys[i]))) return "?arrayelem";
        if (i) r += ",";
        r += dump(v[i], bits);
      }
      return r + "]";
    }
    if (R_getProto(v) !== ObjProto) return "?objproto";
    r = "{";
    for (i = 0; i < keys.length; i++) {
      if (typeof keys[i] !== "string") return "?symkey";
      var d = R_gopd(v, keys[i]);
      if (!plainDesc(d)) return "?desc";
      if (i) r += ",";
      r += hexOf(keys[i]) + ":" + dump(d.value, bits);
    }
    return r + "}";
  }
  function errName(e) {
    if (e instanceof SyntaxErr) return "SyntaxError";
    if (e instanceof TE) return "TypeError";
    if (e instanceof RangeErr) return "RangeError";
    try { return "other:" + hexOf(S(e)); } catch (x) { return "other"; }
  }
  function res(f) {                                    // canonical result of a stringify-like call
    var r;
    try { r = f(); } catch (e) { return "throw:" + errName(e); }
    if (r === undefined) return "undef";
    if (typeof r !== "string") return "?" + typeof r;
    return "ok:" + hexOf(r);
  }
  function asciiize(sp) {                              // same UTF-16 length, ASCII only (used to attribute a mismatch to a non-ASCII gap)
    var s = sp, boxed = false;
    if (typeof sp === "object" && sp !== null && has(StrValueOf, sp)) { s = R_apply(StrValue, sp, []); }
    if (typeof s !== "string") return sp;
    var r = ""; for (var i = 0; i < s.length; i++) r += cc(s, i) < 128 ? s[i] : "x";
    return r;
  }
  function gapClass(sp) {                              // 0 = not a string / ASCII, 1 = non-ASCII, 2 = contains a lone surrogate
    var s = sp;
    if (typeof sp === "object" && sp !== null && has(StrValueOf, sp)) s = R_apply(StrValue, sp, []);
    if (typeof s !== "string") return 0;
    var cls = 0;
    for (var i = 0; i < s.length && i < 10; i++) {
      var c = cc(s, i);
      if (c >= 128 && cls < 1) cls = 1;
      if (c >= 0xD800 && c <= 0xDBFF) { var d = i + 1 < s.length ? cc(s, i + 1) : 0; if (d >= 0xDC00 && d <= 0xDFFF && i + 1 < 10) { i++; continue; } cls = 2; }
      else if (c >= 0xDC00 && c <= 0xDFFF) cls = 2;
    }
    return cls;
  }
  return {
    parseR: parseR, resv: resv, reviveCase: reviveCase, hookCase: hookCase, reviveMutCase: reviveMutCase,
    stringify: stringify, native: nativeStringify, parse: nativeParse, dump: dump, errName: errName, res: res,
    hexOf: hexOf, asciiize: asciiize, gapClass: gapClass,
    defProp: function (o, k, v) { R_defProp(o, k, { value: v, writable: true, enumerable: true, configurable: true }); }
  };
})();
