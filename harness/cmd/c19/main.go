// C19 harness: JSON.parse / JSON.stringify / Object.MarshalJSON of the real goja, one op per line.
//
//	P <hex>            JSON.parse(text) -> "ok <dump>" | "err" (SyntaxError) | "throw:<name>" (anything else)
//	S <gap> <tok>*     plain data value (tokens as in the Lean driver) stringified with indent
//	                   -> "N=<r> O=<r> MJ=<same|DIFF…|na> [X=<explanation>]"
//	                      N = native JSON.stringify, O = spec oracle (prelude.js), r = ok:<hex> | undef | throw:<name>
//	SL <gap> <n> <item>*n <tok>*   the same with a replacer allow-list (items: s<hex> strings, n<hex> numbers)
//	J|JF <hex js source>  exotic case (JF = fresh runtimes: the case touches prototypes): the source defines mk() returning [value, replacer, space] and may push to LOG;
//	                   native and oracle run in separate fresh runtimes, results and LOG compared
//	                   -> same fields; result r = <res>|<hex of LOG.join(",")>
//	V|VF <hex js source>  reviver case: mk() returns [text, reviver]; JSON.parse vs the InternalizeJSONProperty oracle,
//	                   structural dump of the result (holes, descriptors) + LOG
//	SR <gap> <mode> D <k>* Z <k>* W <k>* V <tok>*   stringify with the Lean driver's hook catalogue (toJSON on prototypes, replacer function)
//	RM <hex text> T <k>* X <k>* S <k>? C <hex const> D <k>*   reviver that edits its holder (Lean ReviverMut)
//	RV <hex text> D <s-key>* Z <s-key>*   pure reviver of the Lean model (undefined for D keys, null for Z keys)
//	Q <hex>            JSON.stringify(string) -> "ok <hex>"
//
// X (only when N != O): which known deviation(s) reproduce N exactly when emulated in the oracle
// ("leak", "inf", "sym", "rlone", joined by "+"), prefixed by "gapna:" / "gaplone:" when in addition the gap string had to be
// replaced by an ASCII string of the same length for the two sides to agree; "none" if nothing explains it.
package main

import (
	_ "embed"
	"fmt"
	"math"
	"math/big"
	"reflect"
	goruntime "runtime"
	"strconv"
	"strings"

	"github.com/dop251/goja"
	"verifharness/common"
)

//go:embed prelude.js
var preludeSrc string

var prelude *goja.Program

var (
	bigIntType = reflect.TypeOf((*big.Int)(nil))
	symbolType = reflect.TypeOf("") // (*Symbol).ExportType() is string; String wrappers are caught by ClassName before
)

type rt struct {
	vm  *goja.Runtime
	c19 *goja.Object
}

func (r *rt) fn(name string) goja.Callable {
	f, ok := goja.AssertFunction(r.c19.Get(name))
	if !ok {
		panic("prelude function missing: " + name)
	}
	return f
}

func newRT() *rt {
	vm := goja.New()
	vm.Set("__bits", func(call goja.FunctionCall) goja.Value {
		return vm.ToValue(fmt.Sprintf("%016x", math.Float64bits(call.Argument(0).ToFloat())))
	})
	vm.Set("__slot", func(call goja.FunctionCall) goja.Value {
		o, ok := call.Argument(0).(*goja.Object)
		if !ok {
			return vm.ToValue("")
		}
		switch o.ClassName() {
		case "Number":
			return vm.ToValue("number")
		case "String":
			return vm.ToValue("string")
		case "Boolean":
			return vm.ToValue("boolean")
		}
		switch o.ExportType() {
		case bigIntType:
			return vm.ToValue("bigint")
		case symbolType:
			return vm.ToValue("symbol")
		}
		return vm.ToValue("")
	})
	if _, err := vm.RunProgram(prelude); err != nil {
		panic(err)
	}
	vm.Set("LOG", vm.NewArray())
	return &rt{vm: vm, c19: vm.Get("__c19").ToObject(vm)}
}

func unhex(h string) ([]uint16, bool) {
	if len(h)%4 != 0 {
		return nil, false
	}
	out := make([]uint16, 0, len(h)/4)
	for i := 0; i < len(h); i += 4 {
		v, err := strconv.ParseUint(h[i:i+4], 16, 16)
		if err != nil {
			return nil, false
		}
		out = append(out, uint16(v))
	}
	return out, true
}

func hexOfString(s goja.String) string {
	var b strings.Builder
	for i := 0; i < s.Length(); i++ {
		fmt.Fprintf(&b, "%04x", s.CharAt(i))
	}
	return b.String()
}

func jsString(r *rt, units []uint16) goja.Value {
	return r.vm.ToValue(goja.StringFromUTF16(units))
}

func (r *rt) errName(err error) string {
	if ex, ok := err.(*goja.Exception); ok {
		v, e2 := r.fn("errName")(goja.Undefined(), ex.Value())
		if e2 == nil {
			return v.String()
		}
	}
	return "goerr:" + common.OneLine(err.Error())
}

// ---------------------------------------------------------------- P

var parseRT *rt

func doParse(h string) string {
	units, ok := unhex(h)
	if !ok {
		return "bad"
	}
	if parseRT == nil {
		parseRT = newRT()
	}
	r := parseRT
	v, err := r.fn("parse")(goja.Undefined(), jsString(r, units))
	if err != nil {
		n := r.errName(err)
		if n == "SyntaxError" {
			return "err"
		}
		return "throw:" + n
	}
	d, err := r.fn("dump")(goja.Undefined(), v, r.vm.Get("__bits"))
	if err != nil {
		return "dumperr:" + common.OneLine(err.Error())
	}
	return "ok " + d.String()
}

// ---------------------------------------------------------------- value tokens

func (r *rt) readVal(toks []string) (goja.Value, []string, bool) {
	if len(toks) == 0 {
		return nil, nil, false
	}
	t, rest := toks[0], toks[1:]
	switch t[0] {
	case 'I':
		return r.vm.ToValue(math.Inf(1)), rest, true
	case 'g':
		gv, err := r.vm.RunString("12345678901234567890n")
		if err != nil {
			return nil, nil, false
		}
		return gv, rest, true
	case 'X':
		// boxed primitives: Xn<hex> new Number, Xi new Number(-Infinity), Xs<hex> new String, Xt/Xf new Boolean,
		// Xg Object(BigInt), Xy Object(Symbol())
		if len(t) < 2 {
			return nil, nil, false
		}
		var src string
		switch t[1] {
		case 'i':
			src = "new Number(-Infinity)"
		case 't':
			src = "new Boolean(true)"
		case 'f':
			src = "new Boolean(false)"
		case 'g':
			src = "Object(7n)"
		case 'y':
			src = "Object(Symbol(\"w\"))"
		case 'n', 's':
			inner, rest2, ok := r.readVal([]string{t[1:]})
			if !ok || len(rest2) != 0 {
				return nil, nil, false
			}
			r.vm.Set("__boxarg", inner)
			if t[1] == 'n' {
				src = "new Number(__boxarg)"
			} else {
				src = "new String(__boxarg)"
			}
		default:
			return nil, nil, false
		}
		bv, err := r.vm.RunString(src)
		if err != nil {
			return nil, nil, false
		}
		return bv, rest, true
	case 'u':
		return goja.Undefined(), rest, true
	case 'F':
		fv, err := r.vm.RunString("(function(){})")
		if err != nil {
			return nil, nil, false
		}
		return fv, rest, true
	case 'z':
		return goja.Null(), rest, true
	case 't':
		return r.vm.ToValue(true), rest, true
	case 'f':
		return r.vm.ToValue(false), rest, true
	case 'n':
		u, ok := unhex(t[1:])
		if !ok {
			return nil, nil, false
		}
		b := make([]byte, len(u))
		for i, c := range u {
			b[i] = byte(c)
		}
		f, err := strconv.ParseFloat(string(b), 64)
		if err != nil {
			return nil, nil, false
		}
		return r.vm.ToValue(f), rest, true
	case 's':
		u, ok := unhex(t[1:])
		if !ok {
			return nil, nil, false
		}
		return jsString(r, u), rest, true
	case 'a':
		n, err := strconv.Atoi(t[1:])
		if err != nil {
			return nil, nil, false
		}
		items := make([]interface{}, 0, n)
		for i := 0; i < n; i++ {
			v, r2, ok := r.readVal(rest)
			if !ok {
				return nil, nil, false
			}
			items = append(items, v)
			rest = r2
		}
		return r.vm.NewArray(items...), rest, true
	case 'o':
		n, err := strconv.Atoi(t[1:])
		if err != nil {
			return nil, nil, false
		}
		o := r.vm.NewObject()
		def := r.fn("defProp")
		for i := 0; i < n; i++ {
			if len(rest) == 0 || rest[0][0] != 's' {
				return nil, nil, false
			}
			ku, ok := unhex(rest[0][1:])
			if !ok {
				return nil, nil, false
			}
			v, r2, ok := r.readVal(rest[1:])
			if !ok {
				return nil, nil, false
			}
			if _, err := def(goja.Undefined(), o, jsString(r, ku), v); err != nil {
				return nil, nil, false
			}
			rest = r2
		}
		return o, rest, true
	}
	return nil, nil, false
}

// ---------------------------------------------------------------- stringify cases

// a case builds [value, replacer, space] inside a fresh runtime
type mkFn func(r *rt) (val, repl, space goja.Value, ok bool)

func (r *rt) logHex() string {
	v, err := r.vm.RunString(`__c19.hexOf(LOG.join(","))`)
	if err != nil {
		return "logerr"
	}
	return v.String()
}

// run one side. side: "native" | "oracle"; quirks only for the oracle; repair = ASCII-ize a string gap
func runSide(mk mkFn, side string, quirks []string, repair bool, withLog bool) string {
	r := getRT(side)
	val, repl, space, ok := mk(r)
	if !ok {
		return "mkerr"
	}
	if repair {
		s2, err := r.fn("asciiize")(goja.Undefined(), space)
		if err != nil {
			return "mkerr"
		}
		space = s2
	}
	var callee goja.Value
	args := []goja.Value{val, repl, space}
	if side == "native" {
		callee = r.c19.Get("native")
	} else {
		callee = r.c19.Get("stringify")
		q := r.vm.NewObject()
		for _, k := range quirks {
			q.Set(k, true)
		}
		args = append(args, q)
	}
	r.vm.Set("__callee", callee)
	r.vm.Set("__args", r.vm.NewArray(args[0], args[1], args[2]))
	if len(args) == 4 {
		r.vm.Set("__q", args[3])
	} else {
		r.vm.Set("__q", goja.Undefined())
	}
	v, err := r.vm.RunString(`__c19.res(function(){ return __callee(__args[0], __args[1], __args[2], __q); })`)
	if err != nil {
		return "reserr:" + common.OneLine(err.Error())
	}
	out := v.String()
	if withLog {
		out += "|" + r.logHex()
	}
	return out
}

func marshalSide(mk mkFn, withLog bool) string {
	r := getRT("marshal")
	val, _, _, ok := mk(r)
	if !ok {
		return "mkerr"
	}
	o, isObj := val.(*goja.Object)
	if !isObj {
		return "na"
	}
	b, err := o.MarshalJSON()
	var out string
	if err != nil {
		out = "throw:" + r.errName(err)
	} else {
		// bytes -> UTF-16 units (must be valid UTF-8: lone surrogates are escaped by quote)
		s := r.vm.ToValue(string(b))
		if gs, ok := s.(goja.String); ok {
			out = "ok:" + hexOfString(gs)
		} else {
			out = "ok:?"
		}
	}
	if withLog {
		out += "|" + r.logHex()
	}
	return out
}

func plainSide(mk mkFn, withLog bool) string {
	return runSide2("plain", func(r *rt) (goja.Value, goja.Value, goja.Value, bool) {
		v, _, _, ok := mk(r)
		return v, goja.Undefined(), goja.Undefined(), ok
	}, "native", nil, false, withLog)
}

// pooled runtimes: cases that do not touch shared state (prototypes, globals other than LOG) reuse one runtime per
// role, so that native and oracle still never see each other's side effects; everything else gets fresh runtimes.
var (
	pooling bool
	pool    = map[string]*rt{}
)

func getRT(role string) *rt {
	if !pooling {
		return newRT()
	}
	r := pool[role]
	if r == nil {
		r = newRT()
		pool[role] = r
	}
	r.vm.RunString("LOG.length = 0")
	return r
}

func runSide2(role string, mk mkFn, side string, quirks []string, repair bool, withLog bool) string {
	if !pooling {
		return runSide(mk, side, quirks, repair, withLog)
	}
	// temporarily redirect the role
	saved := pool[side]
	pool[side] = pool[role]
	out := runSide(mk, side, quirks, repair, withLog)
	pool[role] = pool[side]
	pool[side] = saved
	return out
}

var quirkNames = []string{"leak", "inf", "sym", "rlone"}

// all subsets, smallest first
var quirkSets = func() [][]string {
	var out [][]string
	for size := 0; size <= len(quirkNames); size++ {
		for m := 0; m < 1<<len(quirkNames); m++ {
			var qs []string
			for i, n := range quirkNames {
				if m&(1<<i) != 0 {
					qs = append(qs, n)
				}
			}
			if len(qs) == size {
				out = append(out, qs)
			}
		}
	}
	return out
}()

func gapClass(mk mkFn) int {
	r := newRT()
	_, _, space, ok := mk(r)
	if !ok {
		return 0
	}
	v, err := r.fn("gapClass")(goja.Undefined(), space)
	if err != nil {
		return 0
	}
	return int(v.ToInteger())
}

func explain(mk mkFn, n string, withLog bool) string {
	defer func(p bool) { pooling = p }(pooling)
	pooling = false
	for _, qs := range quirkSets[1:] {
		if runSide(mk, "oracle", qs, false, withLog) == n {
			return strings.Join(qs, "+")
		}
	}
	if gc := gapClass(mk); gc > 0 {
		pre := "gapna"
		if gc == 2 {
			pre = "gaplone"
		}
		n2 := runSide(mk, "native", nil, true, withLog)
		for _, qs := range quirkSets {
			if runSide(mk, "oracle", qs, true, withLog) == n2 {
				if len(qs) == 0 {
					return pre
				}
				return pre + ":" + strings.Join(qs, "+")
			}
		}
	}
	return "none"
}

func doCase(mk mkFn, withLog bool, doMJ bool) string {
	n := runSide(mk, "native", nil, false, withLog)
	o := runSide(mk, "oracle", nil, false, withLog)
	mj := "na"
	m := "na"
	if doMJ {
		m = marshalSide(mk, withLog)
	}
	if !strings.HasPrefix(m, "na") {
		p := plainSide(mk, withLog)
		// MarshalJSON writes "null" where JSON.stringify returns undefined (value.go:949)
		if strings.HasPrefix(p, "undef") {
			p = "ok:006e0075006c006c" + p[len("undef"):]
		}
		if m == p {
			mj = "same"
		} else {
			mj = "DIFF(" + m + "/" + p + ")"
		}
	}
	out := "N=" + n + " O=" + o + " MJ=" + mj
	if n != o {
		out += " X=" + explain(mk, n, withLog)
	}
	return out
}

func doS(ws []string, withList bool) string {
	pooling = true
	defer func() { pooling = false }()
	if len(ws) < 2 {
		return "bad"
	}
	gapTok, toks := ws[0], ws[1:]
	var listToks []string
	if withList {
		n, err := strconv.Atoi(toks[0])
		if err != nil || n < 0 || len(toks) < 1+n {
			return "bad"
		}
		listToks = toks[1 : 1+n]
		toks = toks[1+n:]
	}
	mk := func(r *rt) (goja.Value, goja.Value, goja.Value, bool) {
		v, rest, ok := r.readVal(toks)
		if !ok || len(rest) != 0 {
			return nil, nil, nil, false
		}
		var repl goja.Value = goja.Undefined()
		if withList {
			items := make([]interface{}, 0, len(listToks))
			for _, t := range listToks {
				iv, rest2, ok := r.readVal([]string{t}) // s<hex> string item, n<hex> number item
				if !ok || len(rest2) != 0 {
					return nil, nil, nil, false
				}
				items = append(items, iv)
			}
			repl = r.vm.NewArray(items...)
		}
		var space goja.Value
		switch gapTok[0] {
		case 'n':
			k, err := strconv.ParseInt(gapTok[1:], 10, 64)
			if err != nil {
				return nil, nil, nil, false
			}
			space = r.vm.ToValue(k)
		case 's':
			u, ok := unhex(gapTok[1:])
			if !ok {
				return nil, nil, nil, false
			}
			space = jsString(r, u)
		default:
			return nil, nil, nil, false
		}
		return v, repl, space, true
	}
	return doCase(mk, false, true)
}

func doJ(h string, fresh bool, forceMJ bool) string {
	pooling = !fresh
	defer func() { pooling = false }()
	units, ok := unhex(h)
	if !ok {
		return "bad"
	}
	mk := func(r *rt) (goja.Value, goja.Value, goja.Value, bool) {
		r.vm.Set("__src", jsString(r, units))
		// indirect eval keeps lone surrogates in the source intact
		if _, err := r.vm.RunString(`(0,eval)(__src)`); err != nil {
			return nil, nil, nil, false
		}
		v, err := r.vm.RunString(`mk()`)
		if err != nil {
			return nil, nil, nil, false
		}
		o, isObj := v.(*goja.Object)
		if !isObj {
			return nil, nil, nil, false
		}
		return o.Get("0"), o.Get("1"), o.Get("2"), true
	}
	// Object.MarshalJSON vs plain JSON.stringify(value): two more fresh runtimes; done on every second case
	sum := 0
	for _, u := range units {
		sum += int(u)
	}
	return doCase(mk, true, forceMJ || sum%2 == 0)
}

// JSON.parse(text, reviver): mk() returns [text, reviver]; native vs InternalizeJSONProperty oracle, result dump + LOG
func doV(h string, fresh bool) string {
	pooling = !fresh
	defer func() { pooling = false }()
	units, ok := unhex(h)
	if !ok {
		return "bad"
	}
	side := func(role, fname string) string {
		r := getRT(role)
		r.vm.Set("__src", jsString(r, units))
		if _, err := r.vm.RunString(`(0,eval)(__src)`); err != nil {
			return "mkerr"
		}
		r.vm.Set("__callee", r.c19.Get(fname))
		v, err := r.vm.RunString(`(function(){ var a; try { a = mk(); } catch (e) { return "mkerr"; } return __c19.resv(function(){ return __callee(a[0], a[1]); }); })()`)
		if err != nil {
			return "reserr:" + common.OneLine(err.Error())
		}
		return v.String() + "|" + r.logHex()
	}
	return "N=" + side("native", "parse") + " O=" + side("oracle", "parseR") + " MJ=na"
}

// A <L>: JSON.stringify({a:1}, allowList) with allowList = ["a"] and allowList.length = L.  Reports how much memory the
// process obtained from the OS during the call.  An allocation proportional to L means that L = 2^32-1 (a legal array
// length) asks for 64 GiB at once, which the Go runtime answers with "fatal error: out of memory" — the host dies.
func doA(arg string) string {
	L, err := strconv.ParseInt(arg, 10, 64)
	if err != nil || L < 0 || L > 1<<26 {
		return "bad"
	}
	r := newRT()
	if _, err := r.vm.RunString(fmt.Sprintf(`var __al = ["a"]; __al.length = %d; var __ov = {a:1};`, L)); err != nil {
		return "mkerr"
	}
	goruntime.GC()
	var m0, m1 goruntime.MemStats
	goruntime.ReadMemStats(&m0)
	v, err := r.vm.RunString(`__c19.native(__ov, __al)`)
	goruntime.ReadMemStats(&m1)
	res := "throw"
	if err == nil {
		res = v.String()
	}
	return fmt.Sprintf("sysdelta=%d perslot=%d res=%s", m1.Sys-m0.Sys, (m1.Sys-m0.Sys)/uint64(L+1), res)
}

// RV <hex text> D <s-key>* Z <s-key>*: JSON.parse with the pure reviver of the Lean model (same answer format as the driver)
func doRV(ws []string) string {
	if len(ws) < 2 || ws[1] != "D" {
		return "bad"
	}
	units, ok := unhex(ws[0])
	if !ok {
		return "bad"
	}
	if parseRT == nil {
		parseRT = newRT()
	}
	r := parseRT
	var D, Z []interface{}
	cur := &D
	for _, t := range ws[2:] {
		if t == "Z" {
			cur = &Z
			continue
		}
		if len(t) == 0 || t[0] != 's' {
			return "bad"
		}
		u, ok := unhex(t[1:])
		if !ok {
			return "bad"
		}
		*cur = append(*cur, jsString(r, u))
	}
	v, err := r.fn("reviveCase")(goja.Undefined(), jsString(r, units), r.vm.NewArray(D...), r.vm.NewArray(Z...))
	if err != nil {
		return "reserr:" + common.OneLine(err.Error())
	}
	return v.String()
}

// SR <gap> <mode> D <s-key>* Z <s-key>* W <s-key>* V <tok>*: stringify with the hook catalogue of the Lean driver
// (toJSON on Array.prototype / Object.prototype, replacer function); fresh runtime (prototypes are touched)
func doSR(ws []string) string {
	if len(ws) < 3 || ws[2] != "D" {
		return "bad"
	}
	gapTok, mode := ws[0], ws[1]
	r := newRT()
	var D, Z, W []interface{}
	cur := &D
	i := 3
	for ; i < len(ws); i++ {
		t := ws[i]
		if t == "Z" {
			cur = &Z
			continue
		}
		if t == "W" {
			cur = &W
			continue
		}
		if t == "V" {
			i++
			break
		}
		if len(t) == 0 || t[0] != 's' {
			return "bad"
		}
		u, ok := unhex(t[1:])
		if !ok {
			return "bad"
		}
		*cur = append(*cur, jsString(r, u))
	}
	v, rest, ok := r.readVal(ws[i:])
	if !ok || len(rest) != 0 {
		return "bad"
	}
	var space goja.Value
	switch gapTok[0] {
	case 'n':
		k, err := strconv.ParseInt(gapTok[1:], 10, 64)
		if err != nil {
			return "bad"
		}
		space = r.vm.ToValue(k)
	case 's':
		u, ok := unhex(gapTok[1:])
		if !ok {
			return "bad"
		}
		space = jsString(r, u)
	default:
		return "bad"
	}
	out, err := r.fn("hookCase")(goja.Undefined(), v, r.vm.ToValue(mode), r.vm.NewArray(D...), r.vm.NewArray(Z...), r.vm.NewArray(W...), space)
	if err != nil {
		return "reserr:" + common.OneLine(err.Error())
	}
	return out.String()
}

// RM <hex text> T <k>* X <k>* S <k>? C <hex const> D <k>*: reviver that edits its holder (same catalogue as the Lean driver)
func doRM(ws []string) string {
	if len(ws) < 2 || ws[1] != "T" {
		return "bad"
	}
	units, ok := unhex(ws[0])
	if !ok {
		return "bad"
	}
	if parseRT == nil {
		parseRT = newRT()
	}
	r := parseRT
	lists := map[string]*[]interface{}{"T": {}, "X": {}, "S": {}, "D": {}}
	var cval goja.Value = goja.Undefined()
	cur := "T"
	for _, t := range ws[2:] {
		if t == "X" || t == "S" || t == "C" || t == "D" {
			cur = t
			continue
		}
		if cur == "C" {
			u, ok := unhex(t)
			if !ok {
				return "bad"
			}
			cval = jsString(r, u)
			continue
		}
		if len(t) == 0 || t[0] != 's' {
			return "bad"
		}
		u, ok := unhex(t[1:])
		if !ok {
			return "bad"
		}
		*lists[cur] = append(*lists[cur], jsString(r, u))
	}
	v, err := r.fn("reviveMutCase")(goja.Undefined(), jsString(r, units), r.vm.NewArray(*lists["T"]...), r.vm.NewArray(*lists["X"]...),
		r.vm.NewArray(*lists["S"]...), cval, r.vm.NewArray(*lists["D"]...))
	if err != nil {
		return "reserr:" + common.OneLine(err.Error())
	}
	return v.String()
}

// SC <gap> <tok>*: value with object identities (F<id> function, A<id>:<n>, O<id>:<n>, R<id> = the object introduced as <id>:
// a shared reference if it is finished, a cycle if it is still being built); native vs oracle vs MarshalJSON like S
func (r *rt) readIdVal(toks []string, ids map[string]goja.Value) (goja.Value, []string, bool) {
	if len(toks) == 0 {
		return nil, nil, false
	}
	t, rest := toks[0], toks[1:]
	switch t[0] {
	case 'F':
		fv, err := r.vm.RunString("(function(){})")
		if err != nil {
			return nil, nil, false
		}
		ids[t[1:]] = fv
		return fv, rest, true
	case 'R':
		v, ok := ids[t[1:]]
		return v, rest, ok
	case 'A', 'O':
		parts := strings.SplitN(t[1:], ":", 2)
		if len(parts) != 2 {
			return nil, nil, false
		}
		n, err := strconv.Atoi(parts[1])
		if err != nil {
			return nil, nil, false
		}
		def := r.fn("defProp")
		var o *goja.Object
		if t[0] == 'A' {
			o = r.vm.NewArray()
		} else {
			o = r.vm.NewObject()
		}
		ids[parts[0]] = o
		for i := 0; i < n; i++ {
			var key goja.Value
			if t[0] == 'A' {
				key = r.vm.ToValue(strconv.Itoa(i))
			} else {
				if len(rest) == 0 || rest[0][0] != 's' {
					return nil, nil, false
				}
				ku, ok := unhex(rest[0][1:])
				if !ok {
					return nil, nil, false
				}
				key = jsString(r, ku)
				rest = rest[1:]
			}
			v, r2, ok := r.readIdVal(rest, ids)
			if !ok {
				return nil, nil, false
			}
			if _, err := def(goja.Undefined(), o, key, v); err != nil {
				return nil, nil, false
			}
			rest = r2
		}
		return o, rest, true
	}
	// leaves
	v, r2, ok := r.readVal([]string{t})
	if !ok || len(r2) != 0 {
		return nil, nil, false
	}
	return v, rest, true
}

func doSC(ws []string) string {
	pooling = true
	defer func() { pooling = false }()
	if len(ws) < 2 {
		return "bad"
	}
	gapTok, toks := ws[0], ws[1:]
	mk := func(r *rt) (goja.Value, goja.Value, goja.Value, bool) {
		v, rest, ok := r.readIdVal(toks, map[string]goja.Value{})
		if !ok || len(rest) != 0 || gapTok[0] != 'n' {
			return nil, nil, nil, false
		}
		k, err := strconv.ParseInt(gapTok[1:], 10, 64)
		if err != nil {
			return nil, nil, nil, false
		}
		return v, goja.Undefined(), r.vm.ToValue(k), true
	}
	return doCase(mk, false, true)
}

func doQ(h string) string {
	units, ok := unhex(h)
	if !ok {
		return "bad"
	}
	if parseRT == nil {
		parseRT = newRT()
	}
	r := parseRT
	v, err := r.fn("native")(goja.Undefined(), jsString(r, units))
	if err != nil {
		return "throw:" + r.errName(err)
	}
	if s, ok := v.(goja.String); ok {
		return "ok " + hexOfString(s)
	}
	return "?notstring"
}

func main() {
	var err error
	prelude, err = goja.Compile("prelude.js", preludeSrc, false)
	if err != nil {
		panic(err)
	}
	common.Loop(func(line string) string {
		ws := strings.Fields(line)
		if len(ws) == 0 {
			return "bad"
		}
		switch ws[0] {
		case "P":
			if len(ws) == 1 {
				return doParse("")
			}
			return doParse(ws[1])
		case "S":
			return doS(ws[1:], false)
		case "RM":
			return doRM(ws[1:])
		case "SR":
			return doSR(ws[1:])
		case "RV":
			return doRV(ws[1:])
		case "SL":
			return doS(ws[1:], true)
		case "SC":
			return doSC(ws[1:])
		case "SB":
			// plain data with boxed primitives / BigInt / non-finite numbers (tokens I g X…): same comparison as S
			return doS(ws[1:], false)
		case "SM":
			// plain data with undefined / function leaves (tokens u, F): same comparison as S
			return doS(ws[1:], false)
		case "J":
			if len(ws) != 2 {
				return "bad"
			}
			return doJ(ws[1], false, false)
		case "JM", "JFM":
			// M = always compare Object.MarshalJSON with JSON.stringify(value) as well
			if len(ws) != 2 {
				return "bad"
			}
			return doJ(ws[1], ws[0] == "JFM", true)
		case "V", "VF":
			if len(ws) != 2 {
				return "bad"
			}
			return doV(ws[1], ws[0] == "VF")
		case "A":
			if len(ws) != 2 {
				return "bad"
			}
			return doA(ws[1])
		case "JF":
			if len(ws) != 2 {
				return "bad"
			}
			return doJ(ws[1], true, false)
		case "Q":
			if len(ws) == 1 {
				return doQ("")
			}
			return doQ(ws[1])
		}
		return "bad"
	})
}
