// C13 harness: Go<->JS bridge round trips and wrapper aliasing, same line protocol as lean/GojaModel/C13/Driver.lean
// (W/N/F/S lines), plus harness-only lines with in-harness oracles: G (float32), T (random reflect types),
// P (no-panic op sequences on wrappers), E (ExportTo of script arrays).
package main

import (
	"fmt"
	"math"
	"math/big"
	"reflect"
	"runtime/debug"
	"sort"
	"strconv"
	"strings"
	"time"

	"github.com/dop251/goja"
	"verifharness/common"
)

type S struct{ Field int }

func recoverStr(f func()) (msg string) {
	defer func() {
		if r := recover(); r != nil {
			if ex, ok := r.(*goja.Exception); ok {
				msg = "JSEX " + common.OneLine(ex.Error())
				return
			}
			msg = "PANIC " + common.OneLine(fmt.Sprint(r))
		}
	}()
	f()
	return ""
}

// ---------------------------------------------------------------- W: wrap-cache histories

type wctx struct {
	vm      *goja.Runtime
	isStruct bool // V lines: the container is a struct with fields F0..Fk-1 of type S (objectGoReflect.valueCache)
	fixed   bool
	ptr     reflect.Value // *[]S or *[N]S
	aobj    goja.Value
	handles []*goja.Object
}

func (c *wctx) seq() reflect.Value { return c.ptr.Elem() }

func (c *wctx) n() int {
	if c.isStruct {
		return c.seq().NumField()
	}
	return c.seq().Len()
}

func (c *wctx) elem(i int) reflect.Value {
	if c.isStruct {
		return c.seq().Field(i)
	}
	return c.seq().Index(i)
}

func (c *wctx) acc(i string) string {
	if c.isStruct {
		return "a.F" + i
	}
	return "a[" + i + "]"
}

func (c *wctx) run(src string) (goja.Value, string) {
	var v goja.Value
	msg := recoverStr(func() {
		var err error
		v, err = c.vm.RunString(src)
		_ = err // JS exceptions are part of normal behaviour
	})
	return v, msg
}

func (c *wctx) observe(v goja.Value) string {
	o, ok := v.(*goja.Object)
	if !ok || o == nil {
		return "g=- "
	}
	for k, h := range c.handles {
		if h == o {
			return fmt.Sprintf("g=%d ", k)
		}
	}
	c.handles = append(c.handles, o)
	return fmt.Sprintf("g=%d ", len(c.handles)-1)
}

func (c *wctx) dump(pre string) string {
	n := c.n()
	sl := make([]string, n)
	for i := 0; i < n; i++ {
		sl[i] = strconv.FormatInt(c.elem(i).Field(0).Int(), 10)
	}
	hs := make([]string, len(c.handles))
	for k, h := range c.handles {
		hs[k] = h.Get("Field").String()
	}
	cache := goja.VerifC13Cache(c.aobj)
	if c.isStruct {
		fc := goja.VerifC13FieldCache(c.aobj)
		cache = make([]*goja.Object, n)
		for i := 0; i < n; i++ {
			cache[i] = fc[fmt.Sprintf("F%d", i)]
		}
	}
	cs := make([]string, n)
	for i := 0; i < n; i++ {
		cs[i] = "-"
		if i < len(cache) && cache[i] != nil {
			cs[i] = "?"
			for k, h := range c.handles {
				if h == cache[i] {
					cs[i] = strconv.Itoa(k)
				}
			}
		}
	}
	return fmt.Sprintf("%slen=%d s=[%s] h=[%s] c=[%s]", pre, n, strings.Join(sl, ","), strings.Join(hs, ","), strings.Join(cs, ","))
}

func atoi(s string) int { n, _ := strconv.Atoi(s); return n }

func (c *wctx) op(tok string) (pre string, panicMsg string) {
	p := strings.Split(tok, ":")
	switch p[0] {
	case "get":
		v, m := c.run(c.acc(p[1]))
		if m != "" {
			return "", m
		}
		return c.observe(v), ""
	case "set":
		_, m := c.run(fmt.Sprintf("%s = {Field: %s}", c.acc(p[1]), p[2]))
		return "", m
	case "bad":
		_, m := c.run(fmt.Sprintf("%s = 'zz'", c.acc(p[1])))
		return "", m
	case "del":
		_, m := c.run(fmt.Sprintf("delete a[%s]", p[1]))
		return "", m
	case "len":
		_, m := c.run(fmt.Sprintf("a.length = %s", p[1]))
		return "", m
	case "swap":
		m := recoverStr(func() { goja.VerifC13Swap(c.aobj, atoi(p[1]), atoi(p[2])) })
		return "", m
	case "ww":
		w := atoi(p[1])
		if w < len(c.handles) {
			m := recoverStr(func() { _ = c.handles[w].Set("Field", atoi(p[2])) })
			return "", m
		}
		return "", ""
	case "gw":
		i := atoi(p[1])
		if i < c.n() {
			c.elem(i).Field(0).SetInt(int64(atoi(p[2])))
		}
		return "", ""
	case "ga":
		if !c.fixed && !c.isStruct {
			sp := c.ptr.Interface().(*[]S)
			if len(*sp) < cap(*sp) {
				*sp = append(*sp, S{atoi(p[1])})
			}
		}
		return "", ""
	case "gr":
		if !c.fixed && !c.isStruct {
			sp := c.ptr.Interface().(*[]S)
			nc := atoi(p[1])
			if len(*sp) <= nc {
				n := make([]S, len(*sp), nc)
				copy(n, *sp)
				*sp = n
			}
		}
		return "", ""
	case "ra":
		srcs := []string{"JSON.stringify(a)", "[...a].length", "for (var k in a) { a[k]; }"}
		if c.isStruct {
			srcs = []string{"JSON.stringify(a)", "({...a})", "for (var k in a) { a[k]; }"}
		}
		_, m := c.run(srcs[atoi(p[1])%len(srcs)])
		return "", m
	case "nop":
		srcs := []string{"Object.keys(a).length", "a.length", "0 in a"}
		_, m := c.run(srcs[atoi(p[1])%len(srcs)])
		return "", m
	case "sort":
		_, m := c.run("a.sort(function(x, y) { return x.Field - y.Field })")
		return "", m
	case "def":
		_, m := c.run(fmt.Sprintf("Object.defineProperty(a, '%s', {value: {Field: %s}})", p[1], p[2]))
		return "", m
	case "reverse":
		if c.isStruct {
			return "", ""
		}
		_, m := c.run("a.reverse()")
		return "", m
	case "shift":
		if c.isStruct {
			return "", ""
		}
		v, m := c.run("a.shift()")
		if m != "" {
			return "", m
		}
		return c.observe(v), ""
	case "unshift":
		if c.isStruct {
			return "", ""
		}
		_, m := c.run(fmt.Sprintf("a.unshift({Field: %s})", p[1]))
		return "", m
	case "splice":
		if c.fixed || c.isStruct {
			return "", ""
		}
		items := ""
		for i := 0; i < atoi(p[3]); i++ {
			items += fmt.Sprintf(", {Field: %d}", 900+i)
		}
		_, m := c.run(fmt.Sprintf("a.splice(%s, %s%s)", p[1], p[2], items))
		return "", m
	case "push":
		_, m := c.run(fmt.Sprintf("a.push({Field: %s})", p[1]))
		return "", m
	case "pop":
		v, m := c.run("a.pop()")
		if m != "" {
			return "", m
		}
		return c.observe(v), ""
	}
	return "BADOP ", ""
}

func runW(f []string, isStruct bool) string {
	if len(f) < 4 || f[3] != "|" {
		return "BADLINE"
	}
	c := &wctx{vm: goja.New(), fixed: f[0] == "1", isStruct: isStruct}
	var vals, spare []int
	live := f[2]
	if k := strings.IndexByte(live, '/'); k >= 0 {
		for _, s := range strings.Split(live[k+1:], ",") {
			spare = append(spare, atoi(s)) // stale items in the spare capacity (a slice built as buf[:n])
		}
		live = live[:k]
	}
	if live != "-" && live != "" {
		for _, s := range strings.Split(live, ",") {
			vals = append(vals, atoi(s))
		}
	}
	n := len(vals)
	if isStruct {
		fs := make([]reflect.StructField, n)
		for i := range fs {
			fs[i] = reflect.StructField{Name: fmt.Sprintf("F%d", i), Type: reflect.TypeOf(S{})}
		}
		c.ptr = reflect.New(reflect.StructOf(fs))
		for i, v := range vals {
			c.ptr.Elem().Field(i).Field(0).SetInt(int64(v))
		}
	} else if c.fixed {
		c.ptr = reflect.New(reflect.ArrayOf(n, reflect.TypeOf(S{})))
		for i, v := range vals {
			c.ptr.Elem().Index(i).Field(0).SetInt(int64(v))
		}
	} else {
		cp := atoi(f[1])
		if cp < n+len(spare) {
			cp = n + len(spare)
		}
		sl := make([]S, n, cp)
		for i, v := range vals {
			sl[i].Field = v
		}
		for i, v := range spare {
			sl[:cp][n+i].Field = v
		}
		c.ptr = reflect.ValueOf(&sl)
	}
	c.aobj = c.vm.ToValue(c.ptr.Interface())
	c.vm.Set("a", c.aobj)
	var outs []string
	dead := false
	for _, tok := range f[4:] {
		if dead {
			outs = append(outs, "PANIC")
			continue
		}
		pre, pm := c.op(tok)
		if strings.HasPrefix(pm, "PANIC") {
			dead = true
			outs = append(outs, "PANIC")
			continue
		}
		outs = append(outs, c.dump(pre))
	}
	return strings.Join(outs, " ; ")
}

// ---------------------------------------------------------------- N / F / G: numeric kinds

func classify(f float64) string {
	switch {
	case math.IsNaN(f):
		return "nan"
	case math.IsInf(f, 1):
		return "pinf"
	case math.IsInf(f, -1):
		return "ninf"
	case f == 0 && math.Signbit(f):
		return "negzero"
	case f == math.Trunc(f):
		bi, _ := new(big.Float).SetFloat64(f).Int(nil)
		return "intval " + bi.String()
	}
	return fmt.Sprintf("frac %016x", math.Float64bits(f))
}

func showExport(e interface{}) string {
	switch x := e.(type) {
	case int64:
		return "i64 " + strconv.FormatInt(x, 10)
	case float64:
		return "f64 " + classify(x)
	}
	return fmt.Sprintf("other %T", e)
}

func runN(f []string) string {
	if len(f) != 2 {
		return "BADLINE"
	}
	bi, ok := new(big.Int).SetString(f[1], 10)
	if !ok {
		return "BADLINE"
	}
	vm := goja.New()
	var g interface{}
	var back func(v goja.Value) string
	mk := func(ptr interface{}) func(goja.Value) string {
		return func(v goja.Value) string {
			if err := vm.ExportTo(v, ptr); err != nil {
				return "err"
			}
			rv := reflect.ValueOf(ptr).Elem()
			if rv.CanInt() {
				return strconv.FormatInt(rv.Int(), 10)
			}
			return strconv.FormatUint(rv.Uint(), 10)
		}
	}
	switch f[0] {
	case "int":
		g = int(bi.Int64()); back = mk(new(int))
	case "int8":
		g = int8(bi.Int64()); back = mk(new(int8))
	case "int16":
		g = int16(bi.Int64()); back = mk(new(int16))
	case "int32":
		g = int32(bi.Int64()); back = mk(new(int32))
	case "int64":
		g = bi.Int64(); back = mk(new(int64))
	case "uint":
		g = uint(bi.Uint64()); back = mk(new(uint))
	case "uint8":
		g = uint8(bi.Uint64()); back = mk(new(uint8))
	case "uint16":
		g = uint16(bi.Uint64()); back = mk(new(uint16))
	case "uint32":
		g = uint32(bi.Uint64()); back = mk(new(uint32))
	case "uint64":
		g = bi.Uint64(); back = mk(new(uint64))
	default:
		return "BADKIND"
	}
	v := vm.ToValue(g)
	return showExport(v.Export()) + " to=" + back(v)
}

func parseFlt(f []string) (float64, bool) {
	switch f[0] {
	case "intval":
		bi, ok := new(big.Int).SetString(f[1], 10)
		if !ok {
			return 0, false
		}
		x, _ := new(big.Float).SetInt(bi).Float64()
		return x, true
	case "negzero":
		return math.Copysign(0, -1), true
	case "nan":
		return math.NaN(), true
	case "pinf":
		return math.Inf(1), true
	case "ninf":
		return math.Inf(-1), true
	case "frac":
		b, err := strconv.ParseUint(f[1], 16, 64)
		return math.Float64frombits(b), err == nil
	}
	return 0, false
}

func runF(f []string, is32 bool) string {
	x, ok := parseFlt(f)
	if !ok {
		return "BADLINE"
	}
	vm := goja.New()
	if is32 {
		x32 := float32(x)
		if float64(x32) != x && !math.IsNaN(x) {
			return "BADLINE not a float32"
		}
		v := vm.ToValue(x32)
		var b float32
		if err := vm.ExportTo(v, &b); err != nil {
			return "err"
		}
		return showExport(v.Export()) + " to=" + classify(float64(b))
	}
	v := vm.ToValue(x)
	var b float64
	if err := vm.ExportTo(v, &b); err != nil {
		return "err"
	}
	return showExport(v.Export()) + " to=" + classify(b)
}

// ---------------------------------------------------------------- S: shapes

type MyInt int
type MyStr string
type MM map[string]int

func (MM) Hello() string { return "hi" }

type Inner struct{ A int }
type embedded struct{ Hidden int }
type Zoo struct {
	Inner
	embedded
	Name   string `json:"name"`
	secret int
	P      *Inner
	L      []Inner
}

func (z *Zoo) PtrMethod() int { return z.secret }
func (z Zoo) ValMethod() string { return z.Name }

func wrapPtr(v reflect.Value, depth int, nilPtr bool) interface{} {
	// v: addressable or not; returns a value with `depth` pointer levels; if nilPtr the innermost pointer is nil
	if depth == 0 {
		return v.Interface()
	}
	var cur reflect.Value
	if nilPtr {
		cur = reflect.Zero(reflect.PointerTo(v.Type()))
	} else {
		p := reflect.New(v.Type())
		p.Elem().Set(v)
		cur = p
	}
	for i := 1; i < depth; i++ {
		p := reflect.New(cur.Type())
		p.Elem().Set(cur)
		cur = p
	}
	return cur.Interface()
}

var wrapNames = map[string]string{
	"*goja.objectGoMapSimple":    "goMapSimple",
	"*goja.objectGoSlice":        "goSlice",
	"*goja.objectGoMapReflect":   "goMapReflect",
	"*goja.objectGoArrayReflect": "goArrayReflect",
	"*goja.objectGoSliceReflect": "goSliceReflect",
	"*goja.wrappedFuncObject":    "wrappedFunc",
	"*goja.objectGoReflect":      "goReflect",
	"*goja.nativeFuncObject":     "nativeFunc",
	"goja.valueNull":             "null",
	"goja.valueInt":              "number",
	"goja.valueFloat":            "number",
	"goja.valueBool":             "bool",
	"goja.asciiString":           "string",
	"*goja.importedString":       "string",
	"goja.unicodeString":         "string",
	"*goja.valueBigInt":          "bigint",
}

func isNum(k reflect.Kind) bool { return k >= reflect.Int && k <= reflect.Float64 && k != reflect.Uintptr }

func relOf(g, e interface{}) string {
	if g == nil {
		if e == nil {
			return "identical"
		}
		return "other"
	}
	if e == nil {
		return "untypedNil"
	}
	tg, te := reflect.TypeOf(g), reflect.TypeOf(e)
	vg, ve := reflect.ValueOf(g), reflect.ValueOf(e)
	if tg != te {
		if isNum(tg.Kind()) && isNum(te.Kind()) && tg.PkgPath() == "" {
			var a, b float64
			if vg.CanInt() {
				a = float64(vg.Int())
			} else if vg.CanUint() {
				a = float64(vg.Uint())
			} else {
				a = vg.Float()
			}
			if ve.CanInt() {
				b = float64(ve.Int())
			} else {
				b = ve.Float()
			}
			if a == b {
				return "widened"
			}
		}
		st := tg
		for st.Kind() == reflect.Ptr {
			st = st.Elem()
		}
		if st == te && te.Kind() == reflect.Func && tg.Kind() == reflect.Ptr {
			return "ptrStripped"
		}
		return fmt.Sprintf("typeChanged:%v->%v", tg, te)
	}
	switch tg.Kind() {
	case reflect.Ptr, reflect.Map, reflect.Chan, reflect.Func, reflect.UnsafePointer:
		if vg.Pointer() == ve.Pointer() {
			return "identical"
		}
		return "refChanged"
	case reflect.Slice:
		if vg.IsNil() != ve.IsNil() {
			return "nilnessChanged"
		}
		if vg.Pointer() == ve.Pointer() && vg.Len() == ve.Len() && vg.Cap() == ve.Cap() {
			return "identical"
		}
		return "refChanged"
	}
	if tg.PkgPath() == "" && (tg.Kind() == reflect.String || tg.Kind() == reflect.Bool || isNum(tg.Kind())) {
		if g == e {
			return "identical"
		}
		return "valueChanged"
	}
	if reflect.DeepEqual(g, e) {
		return "valueCopy"
	}
	return "valueChanged"
}

func runS(f []string) string {
	variant := 0
	var toks []string
	for _, t := range f {
		if strings.HasPrefix(t, "v=") {
			variant = atoi(t[2:])
		} else {
			toks = append(toks, t)
		}
	}
	vm := goja.New()
	b := func(s string) bool { return s == "1" }
	var g interface{}
	special := ""
	switch toks[0] {
	case "nilIface":
		g = nil
	case "objectPtr":
		special = "js"
		if b(toks[1]) {
			g = (*goja.Object)(nil)
		} else {
			g = vm.NewObject()
		}
	case "jsValue":
		special = "js"
		g = []goja.Value{vm.ToValue(1), goja.Undefined(), vm.ToValue("s"), vm.ToValue(2.5)}[variant%4]
	case "str":
		g = []string{"", "abc", "héllo wörld", strings.Repeat("long ascii ", 5), "日本語のテキストは十六バイトより長い"}[variant%5]
	case "bool":
		g = variant%2 == 0
	case "nativeFunc":
		special = "native"
		if variant%2 == 0 {
			g = func(goja.FunctionCall) goja.Value { return nil }
		} else {
			g = func(goja.FunctionCall, *goja.Runtime) goja.Value { return nil }
		}
	case "nativeCtor":
		special = "native"
		if variant%2 == 0 {
			g = func(goja.ConstructorCall) *goja.Object { return nil }
		} else {
			g = func(goja.ConstructorCall, *goja.Runtime) *goja.Object { return nil }
		}
	case "intKind":
		x := int64(variant%100 + 1)
		g = map[string]interface{}{"int": int(x), "int8": int8(x), "int16": int16(x), "int32": int32(x), "int64": x,
			"uint": uint(x), "uint8": uint8(x), "uint16": uint16(x), "uint32": uint32(x), "uint64": uint64(x)}[toks[1]]
	case "float32":
		g = float32(variant) + 0.5
	case "float64":
		g = float64(variant) + 0.25
	case "bigInt":
		special = "big"
		if b(toks[1]) {
			g = (*big.Int)(nil)
		} else {
			g = big.NewInt(int64(variant) * 1000003)
		}
	case "mapStrIface":
		if b(toks[1]) {
			g = map[string]interface{}(nil)
		} else {
			g = map[string]interface{}{"a": 1, "b": "x"}
		}
	case "sliceIface":
		if variant%3 == 0 {
			g = []interface{}(nil)
		} else {
			g = []interface{}{1, "x", nil}
		}
	case "ptrSliceIface":
		if b(toks[1]) {
			g = (*[]interface{})(nil)
		} else {
			g = &[]interface{}{1, 2}
		}
	case "rMap":
		d, np, keyOk, hasM := atoi(toks[1]), b(toks[2]), b(toks[3]), b(toks[4])
		var base interface{}
		switch {
		case hasM:
			base = MM{"a": 1}
		case keyOk:
			base = []interface{}{map[string]int{"a": 1}, map[int]string{1: "x"}, map[float64]bool{1.5: true}, map[uint8]S{1: {2}},
				map[string]int(nil), map[MyStr]int{"k": 1}, map[float32]int{2.5: 1}, map[int64][]int{3: {1}}}[variant%8]
		default:
			base = []interface{}{map[bool]int{true: 1}, map[[2]int]int{{1, 2}: 3}, map[S]int{{1}: 1}, map[interface{}]int{1: 1}}[variant%4]
		}
		g = wrapPtr(reflect.ValueOf(base), d, np)
	case "rArray":
		base := []interface{}{[3]int{1, 2, 3}, [2]S{{1}, {2}}, [0]int{}, [2]string{"a", "b"}}[variant%4]
		g = wrapPtr(reflect.ValueOf(base), atoi(toks[1]), b(toks[2]))
	case "rSlice":
		base := []interface{}{[]int{1, 2, 3}, []S{{1}, {2}}, []string(nil), []*S{{1}, nil}, [][]int{{1}, nil}, []byte("ab")}[variant%6]
		g = wrapPtr(reflect.ValueOf(base), atoi(toks[1]), b(toks[2]))
	case "rFunc":
		base := []interface{}{func(x int) int { return x + 1 }, func(a ...string) (int, error) { return len(a), nil },
			(func(int) int)(nil), func() {}, strings.ToUpper}[variant%5]
		g = wrapPtr(reflect.ValueOf(base), atoi(toks[1]), b(toks[2]))
	case "rOther":
		d := atoi(toks[1])
		bases := []interface{}{S{3}, MyInt(5), time.Unix(1700000000, 0), Zoo{Name: "z", P: &Inner{1}, L: []Inner{{2}}}, MyStr("ms"),
			struct{ X, Y int }{1, 2}, Inner{9}, struct{}{}}
		if d > 0 {
			bases = append(bases, make(chan int), fmt.Errorf("e"))
		}
		g = wrapPtr(reflect.ValueOf(bases[variant%len(bases)]), d, b(toks[2]))
	default:
		return "BADSHAPE"
	}
	var v goja.Value
	if m := recoverStr(func() { v = vm.ToValue(g) }); m != "" {
		return m
	}
	st := goja.VerifC13SelfType(v)
	wrap, ok := wrapNames[st]
	if !ok {
		wrap = st
	}
	if o, isObj := v.(*goja.Object); isObj && wrap == "goSlice" && o.ExportType().Kind() == reflect.Ptr {
		wrap = "goSlicePtr"
	}
	var e interface{}
	if m := recoverStr(func() { e = v.Export() }); m != "" {
		return m
	}
	var rel string
	switch special {
	case "js":
		if wrap == "null" {
			rel = "untypedNil"
			if e != nil {
				rel = "other"
			}
		} else {
			wrap = "passthrough"
			rel = "jsExport"
			if v != g.(goja.Value) {
				rel = "notPassedThrough"
			}
		}
	case "native":
		rel = "other"
		if reflect.TypeOf(e) != nil && reflect.TypeOf(e).Kind() == reflect.Func {
			rel = "nativeWrapped"
		}
		if strings.HasPrefix(toks[0], "nativeCtor") && wrap == "nativeFunc" {
			wrap = "nativeCtor"
		}
	case "big":
		rel = "other"
		if eb, ok := e.(*big.Int); ok && eb != nil && eb != g.(*big.Int) {
			want := new(big.Int)
			if g.(*big.Int) != nil {
				want.Set(g.(*big.Int))
			}
			if eb.Cmp(want) == 0 {
				rel = "bigCopy"
			}
		}
	default:
		rel = relOf(g, e)
	}
	return wrap + " " + rel + " to=" + relToOwn(vm, v, g, special)
}

// relToOwn: ExportTo(v, &x) with x of g's own type, relative to g.
func relToOwn(vm *goja.Runtime, v goja.Value, g interface{}, special string) string {
	if special == "js" {
		if _, isObj := g.(*goja.Object); !isObj {
			return "notGoData"
		}
	}
	var dst reflect.Value
	if g == nil {
		dst = reflect.ValueOf(new(interface{}))
	} else {
		dst = reflect.New(reflect.TypeOf(g))
	}
	var err error
	if m := recoverStr(func() { err = vm.ExportTo(v, dst.Interface()) }); m != "" {
		return m
	}
	if err != nil {
		return "err:" + common.OneLine(err.Error())
	}
	got := dst.Elem().Interface()
	if g != nil {
		st := reflect.TypeOf(g)
		for st.Kind() == reflect.Ptr {
			st = st.Elem()
		}
		if st.Kind() == reflect.Func {
			return "func"
		}
	}
	if special == "big" {
		if g.(*big.Int) == nil {
			if b, ok := got.(*big.Int); ok && b != nil && b.Sign() == 0 {
				return "bigNilZero"
			}
			return "other"
		}
	}
	if special == "js" {
		if got == g {
			return "deepEqual"
		}
		if o, ok := g.(*goja.Object); ok && o == nil && got.(*goja.Object) == nil {
			return "deepEqual"
		}
		return "notEqual"
	}
	if reflect.DeepEqual(got, g) {
		return "deepEqual"
	}
	rg, rv := reflect.ValueOf(g), reflect.ValueOf(got)
	if rg.Kind() == reflect.Ptr && !rg.IsNil() && rv.IsNil() {
		x := rg
		for x.Kind() == reflect.Ptr && !x.IsNil() {
			x = x.Elem()
		}
		if x.Kind() == reflect.Ptr {
			return "nilChainCollapsed"
		}
	}
	return fmt.Sprintf("notEqual:%#v", got)
}

// ---------------------------------------------------------------- T: random reflect-built types

type tgen struct{ r *common.SplitMix64 }

var leafTypes = []reflect.Type{
	reflect.TypeOf(int(0)), reflect.TypeOf(int8(0)), reflect.TypeOf(int16(0)), reflect.TypeOf(int32(0)), reflect.TypeOf(int64(0)),
	reflect.TypeOf(uint(0)), reflect.TypeOf(uint8(0)), reflect.TypeOf(uint16(0)), reflect.TypeOf(uint32(0)), reflect.TypeOf(uint64(0)),
	reflect.TypeOf(float32(0)), reflect.TypeOf(float64(0)), reflect.TypeOf(""), reflect.TypeOf(false),
	reflect.TypeOf((*interface{})(nil)).Elem(), reflect.TypeOf((*big.Int)(nil)), reflect.TypeOf(time.Time{}),
	reflect.TypeOf(Zoo{}), reflect.TypeOf(Inner{}), reflect.TypeOf(MyInt(0)),
}

func (t *tgen) typ(depth int) reflect.Type {
	if depth <= 0 || t.r.Intn(4) == 0 {
		return leafTypes[t.r.Intn(len(leafTypes))]
	}
	switch t.r.Intn(7) {
	case 0:
		n := 1 + t.r.Intn(4)
		fs := make([]reflect.StructField, n)
		for i := range fs {
			fs[i] = reflect.StructField{Name: fmt.Sprintf("F%d", i), Type: t.typ(depth - 1),
				Tag: reflect.StructTag(fmt.Sprintf(`json:"f%d_j,omitempty"`, i))}
		}
		return reflect.StructOf(fs)
	case 1:
		return reflect.PointerTo(t.typ(depth - 1))
	case 2:
		keys := []reflect.Type{reflect.TypeOf(""), reflect.TypeOf(int(0)), reflect.TypeOf(float64(0)), reflect.TypeOf(uint8(0))}
		return reflect.MapOf(keys[t.r.Intn(len(keys))], t.typ(depth-1))
	case 3:
		return reflect.SliceOf(t.typ(depth - 1))
	case 4:
		return reflect.ArrayOf(t.r.Intn(3), t.typ(depth-1))
	case 5:
		in := []reflect.Type{}
		for i := t.r.Intn(3); i > 0; i-- {
			in = append(in, leafTypes[t.r.Intn(14)])
		}
		variadic := t.r.Intn(3) == 0
		if variadic {
			in = append(in, reflect.SliceOf(leafTypes[t.r.Intn(14)]))
		}
		out := []reflect.Type{}
		switch t.r.Intn(3) {
		case 1:
			out = append(out, leafTypes[t.r.Intn(14)])
		case 2:
			out = append(out, leafTypes[t.r.Intn(14)], reflect.TypeOf((*error)(nil)).Elem())
		}
		return reflect.FuncOf(in, out, variadic)
	}
	return leafTypes[t.r.Intn(len(leafTypes))]
}

func (t *tgen) fill(v reflect.Value, depth int) {
	switch v.Kind() {
	case reflect.Int, reflect.Int8, reflect.Int16, reflect.Int32, reflect.Int64:
		v.SetInt(int64(t.r.Intn(200)) - 100)
	case reflect.Uint, reflect.Uint8, reflect.Uint16, reflect.Uint32, reflect.Uint64:
		v.SetUint(uint64(t.r.Intn(200)))
	case reflect.Float32, reflect.Float64:
		v.SetFloat(float64(t.r.Intn(1000))/8 - 50)
	case reflect.String:
		v.SetString([]string{"", "a", "héllo", "a somewhat longer string value"}[t.r.Intn(4)])
	case reflect.Bool:
		v.SetBool(t.r.Intn(2) == 0)
	case reflect.Interface:
		if v.NumMethod() == 0 {
			switch t.r.Intn(5) {
			case 0:
				v.Set(reflect.ValueOf(int64(t.r.Intn(50))))
			case 1:
				v.Set(reflect.ValueOf("s"))
			case 2:
				v.Set(reflect.ValueOf(&S{t.r.Intn(9)}))
			case 3:
				v.Set(reflect.ValueOf(map[string]interface{}{"k": int64(1)}))
			}
		}
	case reflect.Ptr:
		if depth > 0 && t.r.Intn(5) != 0 {
			if v.Type() == reflect.TypeOf((*big.Int)(nil)) {
				v.Set(reflect.ValueOf(big.NewInt(int64(t.r.Intn(1000)))))
				return
			}
			p := reflect.New(v.Type().Elem())
			t.fill(p.Elem(), depth-1)
			v.Set(p)
		}
	case reflect.Struct:
		if v.Type() == reflect.TypeOf(time.Time{}) {
			v.Set(reflect.ValueOf(time.Unix(int64(t.r.Intn(1e9)), 0).UTC()))
			return
		}
		for i := 0; i < v.NumField(); i++ {
			if v.Field(i).CanSet() {
				t.fill(v.Field(i), depth-1)
			}
		}
	case reflect.Map:
		if t.r.Intn(6) != 0 {
			m := reflect.MakeMap(v.Type())
			for i := t.r.Intn(3); i > 0 && depth > 0; i-- {
				k := reflect.New(v.Type().Key()).Elem()
				t.fill(k, 0)
				e := reflect.New(v.Type().Elem()).Elem()
				t.fill(e, depth-1)
				m.SetMapIndex(k, e)
			}
			v.Set(m)
		}
	case reflect.Slice:
		if t.r.Intn(6) != 0 {
			n := t.r.Intn(4)
			s := reflect.MakeSlice(v.Type(), n, n+t.r.Intn(2))
			for i := 0; i < n && depth > 0; i++ {
				t.fill(s.Index(i), depth-1)
			}
			v.Set(s)
		}
	case reflect.Array:
		for i := 0; i < v.Len() && depth > 0; i++ {
			t.fill(v.Index(i), depth-1)
		}
	case reflect.Func:
		if t.r.Intn(4) != 0 {
			ft := v.Type()
			v.Set(reflect.MakeFunc(ft, func(args []reflect.Value) []reflect.Value {
				out := make([]reflect.Value, ft.NumOut())
				for i := range out {
					out[i] = reflect.Zero(ft.Out(i))
				}
				return out
			}))
		}
	}
}

func hasFuncOrNaN(v reflect.Value, depth int) bool {
	if depth > 12 {
		return false
	}
	switch v.Kind() {
	case reflect.Func:
		return !v.IsNil()
	case reflect.Ptr, reflect.Interface:
		if v.IsNil() {
			return false
		}
		return hasFuncOrNaN(v.Elem(), depth+1)
	case reflect.Struct:
		for i := 0; i < v.NumField(); i++ {
			if hasFuncOrNaN(v.Field(i), depth+1) {
				return true
			}
		}
	case reflect.Map:
		for _, k := range v.MapKeys() {
			if hasFuncOrNaN(v.MapIndex(k), depth+1) {
				return true
			}
		}
	case reflect.Slice, reflect.Array:
		for i := 0; i < v.Len(); i++ {
			if hasFuncOrNaN(v.Index(i), depth+1) {
				return true
			}
		}
	}
	return false
}

func expectedKeys(t reflect.Type, mapper int) []string {
	// independent re-statement of the documented mapping for reflect.StructOf types (no embedded / unexported fields)
	var ks []string
	for i := 0; i < t.NumField(); i++ {
		f := t.Field(i)
		switch mapper {
		case 0:
			ks = append(ks, f.Name)
		case 1:
			tag := f.Tag.Get("json")
			if j := strings.IndexByte(tag, ','); j >= 0 {
				tag = tag[:j]
			}
			ks = append(ks, tag)
		case 2:
			ks = append(ks, strings.ToLower(f.Name[:1])+f.Name[1:])
		}
	}
	return ks
}

func runT(f []string) string {
	seed, _ := strconv.ParseUint(f[0], 10, 64)
	mapper := atoi(f[1])
	g := &tgen{r: &common.SplitMix64{S: seed}}
	depth := 1 + g.r.Intn(4)
	typ := g.typ(depth)
	val := reflect.New(typ).Elem()
	g.fill(val, depth)
	vm := goja.New()
	switch mapper {
	case 1:
		vm.SetFieldNameMapper(goja.TagFieldNameMapper("json", true))
	case 2:
		vm.SetFieldNameMapper(goja.UncapFieldNameMapper())
	}
	in := val.Interface()
	passPtr := g.r.Intn(2) == 0
	if passPtr {
		in = val.Addr().Interface()
	}
	tag := fmt.Sprintf("kind=%v depth=%d ptr=%v", typ.Kind(), depth, passPtr)
	var v goja.Value
	if m := recoverStr(func() { v = vm.ToValue(in) }); m != "" {
		return "FAIL toValue " + m + " type=" + typ.String()
	}
	var e interface{}
	if m := recoverStr(func() { e = v.Export() }); m != "" {
		return "FAIL export " + m + " type=" + typ.String()
	}
	rel := relOf(in, e)
	okRel := map[string]bool{"identical": true, "valueCopy": true, "widened": true}
	if in == nil || (reflect.ValueOf(in).Kind() == reflect.Interface) {
		okRel["untypedNil"] = true
	}
	rv := reflect.ValueOf(in)
	if in != nil && hasFuncOrNaN(rv, 0) {
		okRel["valueChanged"] = true // reflect.DeepEqual is false for non-nil funcs and NaN
	}
	if in != nil {
		switch rv.Kind() {
		case reflect.Ptr:
			// typed nil pointers (at any depth) and nil map[string]interface{} come back as untyped nil: documented "Nil is converted to null"
			x := rv
			for x.Kind() == reflect.Ptr && !x.IsNil() {
				x = x.Elem()
			}
			if x.Kind() == reflect.Ptr && x.IsNil() {
				okRel["untypedNil"] = true
			}
			if x.Kind() == reflect.Func {
				okRel["ptrStripped"] = true
			}
			if _, isBig := in.(*big.Int); isBig {
				okRel["refChanged"] = true
			}
		case reflect.Float32, reflect.Float64:
			okRel["typeChanged:float64->int64"] = true
			okRel["typeChanged:float32->int64"] = true
		}
		if m, ok := in.(map[string]interface{}); ok && m == nil {
			okRel["untypedNil"] = true
		}
		if s, ok := in.(*[]interface{}); ok && s == nil {
			okRel["untypedNil"] = true
		}
	} else {
		okRel["identical"] = true
	}
	if !okRel[rel] {
		// integral floats come back as int64: value must be equal
		return fmt.Sprintf("FAIL rel=%s type=%s", rel, typ.String())
	}
	// ExportTo into the value's own type: deep-equal (funcs are compared by nil-ness only: DeepEqual of non-nil funcs is false)
	if in != nil && !hasFuncOrNaN(rv, 0) {
		dst := reflect.New(rv.Type())
		var err error
		if m := recoverStr(func() { err = vm.ExportTo(v, dst.Interface()) }); m != "" {
			return "FAIL exportTo " + m + " type=" + typ.String()
		}
		if err != nil {
			return "FAIL exportTo err=" + common.OneLine(err.Error()) + " type=" + typ.String()
		}
		if !reflect.DeepEqual(dst.Elem().Interface(), in) {
			if b, isBig := in.(*big.Int); isBig && b == nil {
				// documented: a nil *big.Int becomes 0n
			} else if rel != "untypedNil" {
				return fmt.Sprintf("FAIL exportTo not deep-equal type=%s got=%#v want=%#v", typ.String(), dst.Elem().Interface(), in)
			}
		}
	}
	// field name mapping of a run-time struct type, and write-through for a pointer-passed struct
	if typ.Kind() == reflect.Struct && typ.PkgPath() == "" && typ.Name() == "" {
		if o, ok := v.(*goja.Object); ok {
			var keys []string
			if m := recoverStr(func() { keys = o.Keys() }); m != "" {
				return "FAIL keys " + m
			}
			want := expectedKeys(typ, mapper)
			if fmt.Sprint(keys) != fmt.Sprint(want) {
				return fmt.Sprintf("FAIL keys=%v want=%v type=%s", keys, want, typ.String())
			}
			for i, k := range want {
				if typ.Field(i).Type.Kind() == reflect.Int && passPtr {
					if m := recoverStr(func() { _ = o.Set(k, 4242) }); m != "" && strings.HasPrefix(m, "PANIC") {
						return "FAIL set " + m
					}
					if val.Field(i).Int() != 4242 {
						return fmt.Sprintf("FAIL write-through field %s type=%s", k, typ.String())
					}
					val.Field(i).SetInt(17)
					if o.Get(k).ToInteger() != 17 {
						return fmt.Sprintf("FAIL read-through field %s type=%s", k, typ.String())
					}
				}
			}
			tag += " struct"
		}
	}
	// generic script walk must not panic the host
	vm.Set("g", v)
	if m := recoverStr(func() {
		_, _ = vm.RunString(`(function w(x, d) { if (d > 5 || x === null || typeof x !== 'object') return; for (var k in x) { w(x[k], d + 1) } ; JSON.stringify(x); })(g, 0)`)
	}); strings.HasPrefix(m, "PANIC") {
		return "FAIL walk " + m + " type=" + typ.String()
	}
	return "ok " + tag + " rel=" + rel
}

// ---------------------------------------------------------------- P: no-panic op sequences on wrappers

func runP(f []string) string {
	// P <target> <op> <op> ...
	vm := goja.New()
	sl := []S{{3}, {1}, {2}, {0}}
	ints := []int{3, 2, 1, 0, 5, 4}
	ifs := []interface{}{3, 2, 1, 0, 5, 4}
	arr := [3]S{{1}, {2}, {3}}
	msi := map[string]int{"0": 1, "1": 2}
	var nilm map[string]int
	var nilm2 map[int]S
	mis := map[int]S{0: {1}, 1: {2}}
	zoo := Zoo{Name: "z", P: &Inner{1}, L: []Inner{{2}, {3}}}
	nested := [][]S{{{1}, {2}}, {{3}}}
	var goAppend, goShrink func()
	switch f[0] {
	case "sliceS":
		vm.Set("a", &sl)
		goAppend = func() { sl = append(sl, S{9}, S{8}, S{7}, S{6}, S{5}) }
		goShrink = func() { if len(sl) > 0 { sl = sl[:len(sl)-1] } }
	case "sliceInt":
		vm.Set("a", &ints)
		goAppend = func() { ints = append(ints, 9, 8, 7, 6, 5, 4, 3) }
		goShrink = func() { if len(ints) > 0 { ints = ints[:len(ints)-1] } }
	case "sliceIface":
		vm.Set("a", &ifs)
		goAppend = func() { ifs = append(ifs, 9, "x", nil) }
		goShrink = func() { if len(ifs) > 0 { ifs = ifs[:len(ifs)-1] } }
	case "sliceIfaceVal":
		vm.Set("a", ifs)
	case "sliceSVal":
		vm.Set("a", sl)
	case "arrS":
		vm.Set("a", &arr)
	case "arrSVal":
		vm.Set("a", arr)
	case "mapStrInt":
		vm.Set("a", msi)
	case "nilMap":
		vm.Set("a", nilm)
	case "ptrNilMap":
		vm.Set("a", &nilm2)
	case "mapIntS":
		vm.Set("a", mis)
	case "zoo":
		vm.Set("a", &zoo)
	case "zooL":
		vm.Set("a", &zoo.L)
		goAppend = func() { zoo.L = append(zoo.L, Inner{7}, Inner{8}, Inner{9}) }
	case "timeVal":
		vm.Set("a", time.Unix(1700000000, 0).UTC())
	case "bytes":
		bs := []byte("hello")
		vm.Set("a", &bs)
	case "chanVal":
		vm.Set("a", make(chan int, 1))
	case "mapStrSlice":
		vm.Set("a", map[string][]S{"0": {{1}, {2}}, "k": nil})
	case "mixed":
		vm.Set("a", &struct {
			I  interface{}
			E  error
			F  func(int) int
			B  *big.Int
			T  time.Time
			PP **S
			A2 [2][2]int
			MF map[float64]string
			MM MM
			St fmt.Stringer
			Ch chan int
			L  []interface{}
		}{I: map[string]interface{}{"x": []interface{}{1}}, F: func(x int) int { return x }, B: big.NewInt(5), MF: map[float64]string{1.5: "x"}, MM: MM{"a": 1}, L: []interface{}{S{1}, &S{2}, nil}})
	case "ptrptr":
		s1 := &S{1}
		vm.Set("a", &s1)
	case "embNil":
		vm.Set("a", &struct {
			*Inner
			Name string
			P    *Zoo
		}{Name: "n"})
	case "mapSimple":
		vm.Set("a", map[string]interface{}{"0": 1, "k": "v", "Name": nil})
	case "zooVal":
		vm.Set("a", zoo)
	case "nilFunc":
		vm.Set("a", &struct {
			F func(int) int
			G func()
			M map[string]func()
		}{M: map[string]func(){"k": nil}})
	case "nested":
		vm.Set("a", &nested)
		goAppend = func() { nested = append(nested, []S{{5}}, nil, nil) }
	default:
		return "BADTARGET"
	}
	for k, tok := range f[1:] {
		p := strings.Split(tok, ":")
		arg := func(i int) string {
			if i < len(p) {
				return p[i]
			}
			return "0"
		}
		var src string
		switch p[0] {
		case "get":
			src = "var t" + arg(1) + " = a[" + arg(1) + "]; t" + arg(1)
		case "deep":
			src = "var ks = Object.keys(a); for (var q = 0; q < ks.length; q++) { var v = a[ks[q]]; try { a[ks[q]] = v } catch (e) {} try { a[ks[q]] = " + []string{"1", "'s'", "null", "{}", "[1,2]", "undefined", "function(){}", "true"}[atoi(arg(1))%8] + " } catch (e) {} try { JSON.stringify(v); String(v); v + 1; Object.keys(v || {}) } catch (e) {} try { delete a[ks[q]] } catch (e) {} }"
		case "tostr":
			src = "try { String(a); a + ''; a.toString(); a.valueOf(); JSON.stringify(a); a.String && a.String() } catch (e) {}"
		case "fld":
			src = "a.A; a.Name; a.Inner; a.A = 1; a.Inner = {A: 2}; a.A; 'A' in a; Object.getOwnPropertyDescriptor(a, 'A')"
		case "getf":
			src = "var q = a[" + arg(1) + "]; if (q && typeof q === 'object') { q.Field; q.A; q[0]; }"
		case "set":
			src = "a[" + arg(1) + "] = " + []string{"{Field: 5}", "7", "'s'", "null", "[1]", "a[0]", "undefined", "{A: 1}"}[atoi(arg(2))%8]
		case "setf":
			src = "var q = a[" + arg(1) + "]; if (q && typeof q === 'object') { q.Field = 11; q.A = 12; q[0] = 13; }"
		case "del":
			src = "delete a[" + arg(1) + "]"
		case "def":
			src = "Object.defineProperty(a, '" + arg(1) + "', {value: " + []string{"{Field: 1}", "3", "'x'"}[atoi(arg(2))%3] + "})"
		case "push":
			src = "a.push(" + []string{"{Field: 1}", "3", "'x'", "null"}[atoi(arg(1))%4] + ")"
		case "pop":
			src = "a.pop()"
		case "shift":
			src = "a.shift()"
		case "unshift":
			src = "a.unshift(1)"
		case "splice":
			src = "a.splice(" + arg(1) + ", " + arg(2) + ", {Field: 9})"
		case "sort":
			src = "a.sort()"
		case "sortcmp":
			src = "a.sort(function(x, y) { return (x && x.Field || x) - (y && y.Field || y) })"
		case "sortshrink":
			src = "a.sort(function(x, y) { a.length = " + arg(1) + "; return -1 })"
		case "sortgrow":
			src = "a.sort(function(x, y) { a.push(1); return -1 })"
		case "reverse":
			src = "a.reverse()"
		case "fill":
			src = "a.fill(0)"
		case "copyWithin":
			src = "a.copyWithin(0, 1)"
		case "len":
			src = "a.length = " + arg(1)
		case "forin":
			src = "for (var k in a) { a[k] }"
		case "json":
			src = "JSON.stringify(a)"
		case "spread":
			src = "[...a]; ({...a})"
		case "keys":
			src = "Object.keys(a); Object.getOwnPropertyNames(a); Object.entries(a)"
		case "freeze":
			src = "Object.freeze(a)"
		case "pe":
			src = "Object.preventExtensions(a)"
		case "proto":
			src = "Object.setPrototypeOf(a, null)"
		case "sym":
			src = "a[Symbol.iterator]; a[Symbol('x')] = 1"
		case "neg":
			src = "a[-1] = 1; a[-1]; delete a[-1]; a['x'] = 1; a['x']; a[1.5] = 2; a[100] = 1"
		case "defnov":
			src = "var ks = ['0', 'k', 'Name', 'A', 'zz', '" + arg(1) + "']; for (var q = 0; q < ks.length; q++) { try { Object.defineProperty(a, ks[q], {}) } catch (e) {} ; try { Object.defineProperty(a, ks[q], {enumerable: true}) } catch (e) {} }"
		case "seal":
			src = "try { Object.seal(a) } catch (e) {} ; try { Object.isFrozen(a); Object.isSealed(a) } catch (e) {}"
		case "call":
			src = "if (typeof a.F === 'function') a.F(1); if (typeof a.G === 'function') a.G(); if (a.M && typeof a.M.k === 'function') a.M.k(); if (typeof a[0] === 'function') a[0]()"
		case "goappend":
			if goAppend != nil {
				goAppend()
			}
			continue
		case "goshrink":
			if goShrink != nil {
				goShrink()
			}
			continue
		default:
			return "BADOP " + tok
		}
		m := recoverStr(func() { _, _ = vm.RunString(src) })
		if strings.HasPrefix(m, "PANIC") {
			return fmt.Sprintf("PANIC at=%d op=%s msg=%s", k, tok, strings.TrimPrefix(m, "PANIC "))
		}
	}
	return "ok"
}

// ---------------------------------------------------------------- E: ExportTo of script-built arrays / graphs

func canon(v reflect.Value, seen map[uintptr]int, depth int) string {
	if depth > 20 {
		return "…"
	}
	for v.Kind() == reflect.Interface {
		if v.IsNil() {
			return "nil"
		}
		v = v.Elem()
	}
	switch v.Kind() {
	case reflect.Map:
		if v.IsNil() {
			return "nilmap"
		}
		p := v.Pointer()
		if id, ok := seen[p]; ok {
			return fmt.Sprintf("#%d", id)
		}
		id := len(seen)
		seen[p] = id
		keys := v.MapKeys()
		sort.Slice(keys, func(i, j int) bool { return fmt.Sprint(keys[i]) < fmt.Sprint(keys[j]) })
		parts := make([]string, len(keys))
		for i, k := range keys {
			parts[i] = fmt.Sprint(k) + ":" + canon(v.MapIndex(k), seen, depth+1)
		}
		return fmt.Sprintf("#%d{%s}", id, strings.Join(parts, ","))
	case reflect.Slice:
		if v.Len() == 0 {
			return "[]"
		}
		p := v.Pointer()
		if id, ok := seen[p]; ok {
			return fmt.Sprintf("#%d", id)
		}
		id := len(seen)
		seen[p] = id
		parts := make([]string, v.Len())
		for i := range parts {
			parts[i] = canon(v.Index(i), seen, depth+1)
		}
		return fmt.Sprintf("#%d[%s]", id, strings.Join(parts, ","))
	}
	if v.Kind() == reflect.Array && v.Len() == 2 {
		return "<" + canon(v.Index(0), seen, depth+1) + "," + canon(v.Index(1), seen, depth+1) + ">"
	}
	return fmt.Sprint(v.Interface())
}

func runE(rest string) string {
	// E <js expression>  -> canonical form of Export() with sharing made explicit; and ExportTo []interface{} / []int must not panic
	vm := goja.New()
	v, err := vm.RunString(rest)
	if err != nil {
		return "JSERR " + common.OneLine(err.Error())
	}
	var e interface{}
	if m := recoverStr(func() { e = v.Export() }); m != "" {
		return m
	}
	out := canon(reflect.ValueOf(&e).Elem(), map[uintptr]int{}, 0)
	for _, dst := range []interface{}{new([]interface{}), new([]int), new(map[string]interface{}), new([]map[string]interface{})} {
		if m := recoverStr(func() { _ = vm.ExportTo(v, dst) }); strings.HasPrefix(m, "PANIC") {
			return m + " exportTo=" + reflect.TypeOf(dst).Elem().String()
		}
	}
	return out
}

// ---------------------------------------------------------------- Y: one ExportTo into targets mixing interface{} and typed fields

type YMap map[string]*YNode
type YNode struct { // untyped first: Any -> typed -> Any2
	Any   interface{}
	Next  *YNode
	M     YMap
	L     []*YNode
	Any2  interface{}
	Kids  []interface{}
	Next2 *YNode
	V     int
}
type ZMap map[string]*ZNode
type ZNode struct { // typed first: Next -> Any -> typed again
	Next  *ZNode
	Any   interface{}
	L     []*ZNode
	M     ZMap
	Any2  interface{}
	Next2 *ZNode
	Kids  []interface{}
	V     int
}

type ynode struct {
	kind   byte              // 'n' struct-like object, 'm' map-like object, 'l' array
	fields map[string]string // key -> "r<id>" or integer text
	keys   []string
	elems  []string
}

type ywalk struct {
	nodes []ynode
	ident map[string]string // "<jsId> <Go type>" -> identity
	seen  map[string]bool
	err   string
}

func identOf(v reflect.Value) string {
	switch v.Kind() {
	case reflect.Map, reflect.Ptr:
		return fmt.Sprintf("%x", v.Pointer())
	case reflect.Slice:
		if v.Len() == 0 {
			return ""
		}
		return fmt.Sprintf("%x/%d", v.Pointer(), v.Len())
	}
	return ""
}

func refID(s string) (int, bool) {
	if strings.HasPrefix(s, "r") {
		return atoi(s[1:]), true
	}
	return 0, false
}

// visit records the identity of the Go value that stands for script object js at a destination of v's type;
// returns false if the pair was already walked.
func (w *ywalk) visit(js int, v reflect.Value) bool {
	id := identOf(v)
	if id == "" {
		return true
	}
	key := fmt.Sprintf("%d %s", js, v.Type())
	if old, ok := w.ident[key]; ok && old != id && w.err == "" {
		w.err = fmt.Sprintf("SPLIT js=%d class=%s", js, strings.ReplaceAll(v.Type().String(), " ", ""))
	}
	if _, ok := w.ident[key]; !ok {
		w.ident[key] = id
	}
	sk := key + " " + id
	if w.seen[sk] {
		return false
	}
	w.seen[sk] = true
	return true
}

func (w *ywalk) walk(js int, v reflect.Value) {
	if w.err != "" || js >= len(w.nodes) {
		return
	}
	for v.Kind() == reflect.Interface {
		if v.IsNil() {
			w.err = fmt.Sprintf("NILVALUE js=%d", js)
			return
		}
		v = v.Elem()
	}
	n := w.nodes[js]
	switch v.Kind() {
	case reflect.Ptr:
		if v.IsNil() {
			w.err = fmt.Sprintf("NILPTR js=%d", js)
			return
		}
		if !w.visit(js, v) {
			return
		}
		s := v.Elem()
		for _, k := range n.keys {
			f := s.FieldByName(k)
			if !f.IsValid() {
				continue
			}
			if c, ok := refID(n.fields[k]); ok {
				w.walk(c, f)
			} else if f.Kind() == reflect.Int && f.Int() != int64(atoi(n.fields[k])) {
				w.err = fmt.Sprintf("VALUE js=%d field=%s", js, k)
			}
		}
	case reflect.Map:
		if !w.visit(js, v) {
			return
		}
		for _, k := range n.keys {
			e := v.MapIndex(reflect.ValueOf(k))
			if !e.IsValid() {
				w.err = fmt.Sprintf("MISSINGKEY js=%d key=%s", js, k)
				return
			}
			if c, ok := refID(n.fields[k]); ok {
				w.walk(c, e)
			}
		}
	case reflect.Slice:
		if !w.visit(js, v) {
			return
		}
		if v.Len() != len(n.elems) {
			w.err = fmt.Sprintf("LEN js=%d", js)
			return
		}
		for i, e := range n.elems {
			if c, ok := refID(e); ok {
				w.walk(c, v.Index(i))
			}
		}
	}
}

// canonY prints the exported Go graph in parallel with the script graph: depth-first, struct fields in declaration
// order (only those the script object has), map entries sorted by key, identities numbered by first visit.
func (w *ywalk) canonY(js int, v reflect.Value, num map[string]int) string {
	for v.Kind() == reflect.Interface {
		if v.IsNil() {
			return "nil"
		}
		v = v.Elem()
	}
	if js >= len(w.nodes) {
		return "?"
	}
	n := w.nodes[js]
	id := identOf(v)
	key := id + " " + v.Type().String()
	if id != "" {
		if k, ok := num[key]; ok {
			return fmt.Sprintf("#%d", k)
		}
	}
	child := func(spec string, cv reflect.Value) string {
		if c, ok := refID(spec); ok {
			return w.canonY(c, cv, num)
		}
		for cv.Kind() == reflect.Interface && !cv.IsNil() {
			cv = cv.Elem()
		}
		return fmt.Sprint(cv.Interface())
	}
	switch v.Kind() {
	case reflect.Ptr:
		if v.IsNil() {
			return "nilptr"
		}
		k := len(num)
		num[key] = k
		s := v.Elem()
		var parts []string
		for i := 0; i < s.NumField(); i++ {
			name := s.Type().Field(i).Name
			if spec, ok := n.fields[name]; ok {
				parts = append(parts, name+":"+child(spec, s.Field(i)))
			}
		}
		return fmt.Sprintf("#%d*{%s}", k, strings.Join(parts, ","))
	case reflect.Map:
		k := len(num)
		num[key] = k
		keys := append([]string{}, n.keys...)
		sort.Strings(keys)
		var parts []string
		for _, name := range keys {
			parts = append(parts, name+":"+child(n.fields[name], v.MapIndex(reflect.ValueOf(name))))
		}
		return fmt.Sprintf("#%d{%s}", k, strings.Join(parts, ","))
	case reflect.Slice:
		if v.Len() == 0 {
			return "[]"
		}
		k := len(num)
		num[key] = k
		var parts []string
		for i, e := range n.elems {
			if i < v.Len() {
				parts = append(parts, child(e, v.Index(i)))
			}
		}
		return fmt.Sprintf("#%d[%s]", k, strings.Join(parts, ","))
	}
	return fmt.Sprint(v.Interface())
}

func runY(f []string) string {
	if len(f) < 2 {
		return "BADLINE"
	}
	w := &ywalk{ident: map[string]string{}, seen: map[string]bool{}}
	var b strings.Builder
	b.WriteString("var n = [];\n")
	for i, tok := range f[1:] {
		p := strings.SplitN(tok, ":", 2)
		nd := ynode{kind: p[0][0], fields: map[string]string{}}
		if nd.kind == 'l' {
			fmt.Fprintf(&b, "n[%d] = [];\n", i)
			if len(p) == 2 && p[1] != "" {
				nd.elems = strings.Split(p[1], ",")
			}
		} else {
			fmt.Fprintf(&b, "n[%d] = {};\n", i)
			if len(p) == 2 && p[1] != "" {
				for _, kv := range strings.Split(p[1], ",") {
					q := strings.SplitN(kv, "=", 2)
					nd.fields[q[0]] = q[1]
					nd.keys = append(nd.keys, q[0])
				}
			}
		}
		w.nodes = append(w.nodes, nd)
	}
	val := func(s string) string {
		if c, ok := refID(s); ok {
			return fmt.Sprintf("n[%d]", c)
		}
		return s
	}
	for i, nd := range w.nodes {
		for _, k := range nd.keys {
			fmt.Fprintf(&b, "n[%d].%s = %s;\n", i, k, val(nd.fields[k]))
		}
		for j, e := range nd.elems {
			fmt.Fprintf(&b, "n[%d][%d] = %s;\n", i, j, val(e))
		}
	}
	b.WriteString("n[0]")
	vm := goja.New()
	v, err := vm.RunString(b.String())
	if err != nil {
		return "JSERR " + common.OneLine(err.Error())
	}
	var root reflect.Value
	if f[0] == "Z" {
		root = reflect.ValueOf(new(*ZNode))
	} else {
		root = reflect.ValueOf(new(*YNode))
	}
	var eerr error
	if m := recoverStr(func() { eerr = vm.ExportTo(v, root.Interface()) }); m != "" {
		return m
	}
	if eerr != nil {
		return "EXPORTERR " + common.OneLine(eerr.Error())
	}
	w.walk(0, root.Elem())
	if w.err != "" {
		return w.err
	}
	classes := map[string]bool{}
	multi := 0
	perJs := map[string]int{}
	for k := range w.ident {
		q := strings.SplitN(k, " ", 2)
		classes[q[1]] = true
		perJs[q[0]]++
	}
	for _, c := range perJs {
		if c > 1 {
			multi++
		}
	}
	_ = classes
	_ = multi
	// the canonical structure (compared with the Lean model of the typed traversal); identity splits were reported above
	return w.canonY(0, root.Elem(), map[string]int{})
}

// ---------------------------------------------------------------- B: composite and string parameters of a Go func
// `B <Y|Z> <ra> <rb> <sarg> <nodes…>`: the script graph of a Y line; f(n[ra], n[rb], sarg) with a Go func
// func(a, b *YNode, s string).  Printed: the two received graphs (each numbered on its own), whether the two pointers
// are the same Go value, and the string.

func runB(f []string) string {
	if len(f) < 5 {
		return "BADLINE"
	}
	ra, rb, sarg := atoi(f[1]), atoi(f[2]), f[3]
	w := &ywalk{ident: map[string]string{}, seen: map[string]bool{}}
	var b strings.Builder
	b.WriteString("var n = [];\n")
	for i, tok := range f[4:] {
		p := strings.SplitN(tok, ":", 2)
		nd := ynode{kind: p[0][0], fields: map[string]string{}}
		if nd.kind == 'l' {
			fmt.Fprintf(&b, "n[%d] = [];\n", i)
			if len(p) == 2 && p[1] != "" {
				nd.elems = strings.Split(p[1], ",")
			}
		} else {
			fmt.Fprintf(&b, "n[%d] = {};\n", i)
			if len(p) == 2 && p[1] != "" {
				for _, kv := range strings.Split(p[1], ",") {
					q := strings.SplitN(kv, "=", 2)
					nd.fields[q[0]] = q[1]
					nd.keys = append(nd.keys, q[0])
				}
			}
		}
		w.nodes = append(w.nodes, nd)
	}
	if ra >= len(w.nodes) || rb >= len(w.nodes) {
		return "BADLINE"
	}
	val := func(s string) string {
		if c, ok := refID(s); ok {
			return fmt.Sprintf("n[%d]", c)
		}
		return s
	}
	for i, nd := range w.nodes {
		for _, k := range nd.keys {
			fmt.Fprintf(&b, "n[%d].%s = %s;\n", i, k, val(nd.fields[k]))
		}
		for j, e := range nd.elems {
			fmt.Fprintf(&b, "n[%d][%d] = %s;\n", i, j, val(e))
		}
	}
	var js string
	switch {
	case sarg == "t":
		js = "true"
	case sarg == "F":
		js = "false"
	case sarg == "u":
		js = "undefined"
	case sarg == "n":
		js = "null"
	case strings.HasPrefix(sarg, "i"):
		js = "(" + sarg[1:] + ")"
	default:
		return "BADLINE"
	}
	fmt.Fprintf(&b, "f(n[%d], n[%d], %s)", ra, rb, js)
	vm := goja.New()
	out := ""
	if f[0] == "Z" {
		vm.Set("f", func(a, c *ZNode, s string) {
			out = w.canonY(ra, reflect.ValueOf(a), map[string]int{}) + " | " + w.canonY(rb, reflect.ValueOf(c), map[string]int{}) +
				fmt.Sprintf(" | same=%v | str=%s", a == c, s)
		})
	} else {
		vm.Set("f", func(a, c *YNode, s string) {
			out = w.canonY(ra, reflect.ValueOf(a), map[string]int{}) + " | " + w.canonY(rb, reflect.ValueOf(c), map[string]int{}) +
				fmt.Sprintf(" | same=%v | str=%s", a == c, s)
		})
	}
	var err error
	if m := recoverStr(func() { _, err = vm.RunString(b.String()) }); m != "" {
		return m
	}
	if err != nil {
		return "JSERR " + common.OneLine(err.Error())
	}
	return out
}

// ---------------------------------------------------------------- K: nested wrappers (element wrapper -> field wrapper) on *[]KOuter

type KInner struct{ X int }
type KOuter struct {
	In KInner
	Y  int
}

func runK(f []string) string {
	if len(f) < 3 || f[2] != "|" {
		return "BADLINE"
	}
	var vals []int
	if f[1] != "-" {
		for _, s := range strings.Split(f[1], ",") {
			vals = append(vals, atoi(s))
		}
	}
	cp := atoi(f[0])
	if cp < len(vals) {
		cp = len(vals)
	}
	sl := make([]KOuter, len(vals), cp)
	for i, v := range vals {
		sl[i] = KOuter{KInner{v}, 100 + i}
	}
	vm := goja.New()
	vm.Set("b", &sl)
	var eh, nh []*goja.Object
	find := func(list *[]*goja.Object, o *goja.Object) int {
		for i, h := range *list {
			if h == o {
				return i
			}
		}
		*list = append(*list, o)
		return len(*list) - 1
	}
	var outs []string
	dead := false
	for _, tok := range f[3:] {
		if dead {
			outs = append(outs, "PANIC")
			continue
		}
		p := strings.Split(tok, ":")
		pre := ""
		msg := recoverStr(func() {
			switch p[0] {
			case "get":
				v, _ := vm.RunString("b[" + p[1] + "]")
				if o, ok := v.(*goja.Object); ok {
					pre = fmt.Sprintf("g=%d ", find(&eh, o))
				} else {
					pre = "g=- "
				}
			case "in":
				if h := atoi(p[1]); h < len(eh) {
					if o, ok := eh[h].Get("In").(*goja.Object); ok {
						pre = fmt.Sprintf("n=%d ", find(&nh, o))
					}
				}
			case "set":
				_, _ = vm.RunString("b[" + p[1] + "] = {In: {X: " + p[2] + "}, Y: 0}")
			case "cp":
				_, _ = vm.RunString("if (" + p[2] + " < b.length) b[" + p[1] + "] = b[" + p[2] + "]")
			case "wx":
				if k := atoi(p[1]); k < len(nh) {
					_ = nh[k].Set("X", atoi(p[2]))
				}
			case "wpx":
				if h := atoi(p[1]); h < len(eh) {
					vm.Set("H", eh[h])
					_, _ = vm.RunString("H.In.X = " + p[2])
				}
			case "gw":
				if i := atoi(p[1]); i < len(sl) {
					sl[i].In.X = atoi(p[2])
				}
			case "len":
				_, _ = vm.RunString("b.length = " + p[1])
			case "sort":
				_, _ = vm.RunString("b.sort(function(x, y) { return x.In.X - y.In.X })")
			default:
				pre = "BADOP "
			}
		})
		if strings.HasPrefix(msg, "PANIC") {
			dead = true
			outs = append(outs, "PANIC")
			continue
		}
		xs := make([]string, len(sl))
		for i, e := range sl {
			xs[i] = fmt.Sprintf("%d/%d", e.In.X, e.Y)
		}
		hs := make([]string, len(eh))
		for i, h := range eh {
			vm.Set("H", h)
			v, _ := vm.RunString("H.In.X + '/' + H.Y")
			hs[i] = fmt.Sprint(v)
		}
		ns := make([]string, len(nh))
		for i, h := range nh {
			ns[i] = h.Get("X").String()
		}
		outs = append(outs, fmt.Sprintf("%slen=%d s=[%s] h=[%s] n=[%s]", pre, len(sl), strings.Join(xs, ","), strings.Join(hs, ","), strings.Join(ns, ",")))
	}
	return strings.Join(outs, " ; ")
}

// ---------------------------------------------------------------- I: plain []interface{} / *[]interface{} wrapper (objectGoSlice)

func runI(f []string) string {
	if len(f) < 4 || f[3] != "|" {
		return "BADLINE"
	}
	byPtr := f[0] == "p"
	var buf []interface{}
	if f[2] != "." {
		for _, c := range strings.Split(f[2], ",") {
			if c == "-" || c == "n" {
				buf = append(buf, nil)
			} else {
				buf = append(buf, int64(atoi(c)))
			}
		}
	}
	n0 := atoi(f[1])
	if n0 > len(buf) {
		n0 = len(buf)
	}
	sl := buf[:n0:len(buf)]
	vm := goja.New()
	var aval goja.Value
	if byPtr {
		aval = vm.ToValue(&sl)
	} else {
		aval = vm.ToValue(sl)
	}
	vm.Set("a", aval)
	goView := func() []interface{} {
		if byPtr {
			return sl
		}
		return aval.Export().([]interface{})
	}
	cell := func(x interface{}) string {
		if x == nil {
			return "-"
		}
		return fmt.Sprint(x)
	}
	val := func(x string) string {
		if x == "n" || x == "-" {
			return "null"
		}
		return x
	}
	var outs []string
	dead := false
	for _, tok := range f[4:] {
		if dead {
			outs = append(outs, "PANIC")
			continue
		}
		p := strings.Split(tok, ":")
		pre := ""
		got := func(v goja.Value) string {
			switch {
			case v == nil || goja.IsUndefined(v):
				return "g=undefined "
			case goja.IsNull(v):
				return "g=null "
			}
			return "g=" + v.String() + " "
		}
		msg := recoverStr(func() {
			switch p[0] {
			case "get":
				v, _ := vm.RunString("a[" + p[1] + "]")
				pre = got(v)
			case "set":
				_, _ = vm.RunString("a[" + p[1] + "] = " + val(p[2]))
			case "len":
				_, _ = vm.RunString("a.length = " + p[1])
			case "del":
				_, _ = vm.RunString("delete a[" + p[1] + "]")
			case "push":
				_, _ = vm.RunString("a.push(" + val(p[1]) + ")")
			case "pop":
				v, _ := vm.RunString("a.pop()")
				pre = got(v)
			case "gt":
				if n := atoi(p[1]); byPtr && n <= len(sl) {
					sl = sl[:n]
				}
			case "gs":
				if n := atoi(p[1]); byPtr && len(sl) < n && n <= cap(sl) {
					sl = sl[:n]
				}
			case "ga":
				if byPtr && len(sl) < cap(sl) {
					sl = append(sl, int64(atoi(p[1])))
				}
			case "gr":
				if c := atoi(p[1]); byPtr && len(sl) <= c {
					n := make([]interface{}, len(sl), c)
					copy(n, sl)
					sl = n
				}
			case "gw":
				if i := atoi(p[1]); byPtr && i < len(sl) {
					if p[2] == "n" {
						sl[i] = nil
					} else {
						sl[i] = int64(atoi(p[2]))
					}
				}
			default:
				pre = "BADOP "
			}
		})
		if strings.HasPrefix(msg, "PANIC") {
			dead = true
			outs = append(outs, "PANIC")
			continue
		}
		gv := goView()
		cs := make([]string, len(gv))
		for i, x := range gv {
			cs[i] = cell(x)
		}
		line := fmt.Sprintf("%slen=%d s=[%s]", pre, len(gv), strings.Join(cs, ","))
		// the script view must be the same list
		jv, _ := vm.RunString("var q = []; for (var i = 0; i < a.length; i++) q.push(a[i] === null ? '-' : String(a[i])); q.join(',')")
		if jv == nil || jv.String() != strings.Join(cs, ",") {
			line += " JSVIEW=[" + fmt.Sprint(jv) + "]"
		}
		outs = append(outs, line)
	}
	return strings.Join(outs, " ; ")
}

var errType = reflect.TypeOf((*error)(nil)).Elem()

func intsOf(vs []reflect.Value) []string {
	out := []string{}
	for _, v := range vs {
		out = append(out, strconv.FormatInt(v.Int(), 10))
	}
	return out
}

// C nargs variadic l nout lastIsErr errNonNil
func runC(f []string) string {
	if len(f) != 6 {
		return "BADLINE"
	}
	nargs, variadic, l, nout, lastIsErr, errNonNil := atoi(f[0]), f[1] == "1", atoi(f[2]), atoi(f[3]), f[4] == "1", f[5] == "1"
	if variadic && nargs == 0 {
		return "BADLINE"
	}
	intT := reflect.TypeOf(int(0))
	in := make([]reflect.Type, nargs)
	for i := range in {
		in[i] = intT
	}
	if variadic {
		in[nargs-1] = reflect.SliceOf(intT)
	}
	out := make([]reflect.Type, nout)
	for i := range out {
		out[i] = intT
	}
	if lastIsErr && nout > 0 {
		out[nout-1] = errType
	}
	var fixed, tail []string
	fn := reflect.MakeFunc(reflect.FuncOf(in, out, variadic), func(args []reflect.Value) []reflect.Value {
		fixed, tail = []string{}, []string{}
		if variadic {
			fixed = intsOf(args[:nargs-1])
			last := args[nargs-1]
			for i := 0; i < last.Len(); i++ {
				tail = append(tail, strconv.FormatInt(last.Index(i).Int(), 10))
			}
		} else {
			fixed = intsOf(args)
		}
		res := make([]reflect.Value, nout)
		for i := range res {
			res[i] = reflect.ValueOf(70 + i)
		}
		if lastIsErr && nout > 0 {
			if errNonNil {
				res[nout-1] = reflect.ValueOf(fmt.Errorf("boom")).Convert(errType)
			} else {
				res[nout-1] = reflect.Zero(errType)
			}
		}
		return res
	})
	vm := goja.New()
	vm.Set("f", fn.Interface())
	args := make([]string, l)
	for i := range args {
		args[i] = strconv.Itoa(10 + i)
	}
	var v goja.Value
	var err error
	if m := recoverStr(func() { v, err = vm.RunString("f(" + strings.Join(args, ",") + ")") }); m != "" {
		return m
	}
	res := ""
	switch {
	case err != nil:
		res = "throw"
	case goja.IsUndefined(v):
		res = "undefined"
	default:
		if o, ok := v.(*goja.Object); ok && o.ClassName() == "Array" {
			var xs []string
			n := int(o.Get("length").ToInteger())
			for i := 0; i < n; i++ {
				xs = append(xs, o.Get(strconv.Itoa(i)).String())
			}
			res = "array " + strings.Join(xs, ",")
		} else {
			res = "value " + v.String()
		}
	}
	return "fixed=[" + strings.Join(fixed, ",") + "] tail=[" + strings.Join(tail, ",") + "] -> " + res
}

// D <source> <dest>: typed export dispatch — which container a script object of each implementation class exports into
var dSources = map[string]string{
	"arr":         "[1,2,3]",
	"arrHole":     "[1,,3]",
	"arrEmpty":    "[]",
	"arr2":        "[4,5]",
	"arrIter":     "var a = [1,2,3]; a[Symbol.iterator] = function*() { yield 7; yield 8 }; a",
	"arrIterGone": "var a = [1,2]; a[Symbol.iterator] = undefined; a",
	"set":         "new Set([3,1,2])",
	"setEmpty":    "new Set()",
	"map":         "new Map([[1,10],[2,20]])",
	"u8":          "new Uint8Array([1,2,3])",
	"i16":         "new Int16Array([5,6])",
	"dv":          "new DataView(new ArrayBuffer(4))",
	"ab":          "new ArrayBuffer(2)",
	"alike":       "({length: 2, 0: 7, 1: 8})",
	"alikeHole":   "({length: 3, 0: 7})",
	"fn":          "(function f(a, b) {})",
	"plain":       "({a: 1})",
	"gen":         "(function*() { yield 1; yield 2 })()",
	"iterObj":     "var o = {length: 5}; o[Symbol.iterator] = function*() { yield 4 }; o",
	"proxyArr":    "new Proxy([1,2], {})",
}

func dShow(v reflect.Value) string {
	for v.Kind() == reflect.Interface {
		if v.IsNil() {
			return "nil"
		}
		v = v.Elem()
	}
	if v.Kind() == reflect.Slice && v.Len() == 2 {
		return "<" + dShow(v.Index(0)) + "," + dShow(v.Index(1)) + ">"
	}
	return fmt.Sprint(v.Interface())
}

func dDestType(name string) reflect.Type {
	switch name {
	case "sl":
		return reflect.TypeOf([]interface{}(nil))
	case "by":
		return reflect.TypeOf([]byte(nil))
	case "st":
		return reflect.TypeOf([]int(nil))
	case "a2":
		return reflect.TypeOf([2]interface{}{})
	case "a3":
		return reflect.TypeOf([3]interface{}{})
	case "ms":
		return reflect.TypeOf(map[string]interface{}(nil))
	case "mi":
		return reflect.TypeOf(map[interface{}]interface{}(nil))
	}
	return nil
}

// DS <source> <dest>: [x, x] into []dest — one Go value or two?
func runDS(f []string) string {
	if len(f) != 2 {
		return "BADLINE"
	}
	src, ok := dSources[f[0]]
	dt := dDestType(f[1])
	if !ok || dt == nil {
		return "BADLINE"
	}
	vm := goja.New()
	vm.Set("SRC", src)
	v, err := vm.RunString("var x = eval(SRC); [x, x]")
	if err != nil {
		return "JSERR " + common.OneLine(err.Error())
	}
	dst := reflect.New(reflect.SliceOf(dt))
	var eerr error
	if m := recoverStr(func() { eerr = vm.ExportTo(v, dst.Interface()) }); m != "" {
		return m
	}
	if eerr != nil {
		return "err"
	}
	out := dst.Elem()
	if out.Len() != 2 {
		return "other"
	}
	a, b := out.Index(0), out.Index(1)
	switch a.Kind() {
	case reflect.Array:
		return "value"
	case reflect.Map:
		if a.Pointer() == b.Pointer() {
			return "shared"
		}
		return "split"
	case reflect.Slice:
		if a.Len() == 0 && b.Len() == 0 {
			return "empty"
		}
		if a.Pointer() == b.Pointer() && a.Len() == b.Len() {
			return "shared"
		}
		return "split"
	}
	return "other"
}

func runD(f []string) string {
	if len(f) != 2 {
		return "BADLINE"
	}
	src, ok := dSources[f[0]]
	if !ok {
		return "BADLINE"
	}
	vm := goja.New()
	v, err := vm.RunString(src)
	if err != nil {
		return "JSERR " + common.OneLine(err.Error())
	}
	var dst reflect.Value
	switch f[1] {
	case "sl":
		dst = reflect.ValueOf(new([]interface{}))
	case "by":
		dst = reflect.ValueOf(new([]byte))
	case "st":
		dst = reflect.ValueOf(new([]int))
	case "a2":
		dst = reflect.ValueOf(new([2]interface{}))
	case "a3":
		dst = reflect.ValueOf(new([3]interface{}))
	case "ms":
		dst = reflect.ValueOf(new(map[string]interface{}))
	case "mi":
		dst = reflect.ValueOf(new(map[interface{}]interface{}))
	default:
		return "BADLINE"
	}
	var eerr error
	if m := recoverStr(func() { eerr = vm.ExportTo(v, dst.Interface()) }); m != "" {
		return m
	}
	if eerr != nil {
		msg := eerr.Error()
		switch {
		case strings.Contains(msg, "an Array into an array, lengths mismatch"):
			return "err:lenArray"
		case strings.Contains(msg, "an iterable into an array, lengths mismatch"):
			return "err:lenIterable"
		case strings.Contains(msg, "array-like object into an array, lengths mismatch"):
			return "err:lenArrayLike"
		case strings.Contains(msg, "a Set into an array, lengths mismatch"):
			return "err:lenSet"
		case strings.Contains(msg, "not an array or iterable"):
			return "err:notArrayOrIterable"
		}
		return "err:other " + common.OneLine(msg)
	}
	r := dst.Elem()
	switch r.Kind() {
	case reflect.Map:
		var parts []string
		for _, k := range r.MapKeys() {
			parts = append(parts, dShow(k)+":"+dShow(r.MapIndex(k)))
		}
		sort.Strings(parts)
		return "map{" + strings.Join(parts, ",") + "}"
	case reflect.Slice, reflect.Array:
		if r.Type() == reflect.TypeOf([]byte(nil)) {
			if _, isBytes := v.Export().([]byte); isBytes || f[0] == "i16" || f[0] == "dv" || f[0] == "ab" || f[0] == "u8" {
				return fmt.Sprintf("bytes:%d", r.Len())
			}
		}
		parts := make([]string, r.Len())
		for i := range parts {
			parts[i] = dShow(r.Index(i))
		}
		return "seq[" + strings.Join(parts, ",") + "]"
	}
	return "other"
}

// A <variadic> <kind,kind,...> | <arg> ...   argument conversion through wrapReflectFunc
func runA(f []string) string {
	if len(f) < 3 || f[2] != "|" {
		return "BADLINE"
	}
	variadic := f[0] == "1"
	kt := map[string]reflect.Type{"int": reflect.TypeOf(int(0)), "int8": reflect.TypeOf(int8(0)), "int16": reflect.TypeOf(int16(0)),
		"int32": reflect.TypeOf(int32(0)), "int64": reflect.TypeOf(int64(0)), "uint": reflect.TypeOf(uint(0)), "uint8": reflect.TypeOf(uint8(0)),
		"uint16": reflect.TypeOf(uint16(0)), "uint32": reflect.TypeOf(uint32(0)), "uint64": reflect.TypeOf(uint64(0)),
		"bool": reflect.TypeOf(false), "float64": reflect.TypeOf(float64(0))}
	var in []reflect.Type
	for _, k := range strings.Split(f[1], ",") {
		t, ok := kt[k]
		if !ok {
			return "BADKIND"
		}
		in = append(in, t)
	}
	nargs := len(in)
	if variadic {
		if nargs == 0 {
			return "BADLINE"
		}
		in[nargs-1] = reflect.SliceOf(in[nargs-1])
	}
	show := func(v reflect.Value) string {
		switch {
		case v.Kind() == reflect.Bool:
			return strconv.FormatBool(v.Bool())
		case v.Kind() == reflect.Float64:
			return classify(v.Float())
		case v.CanInt():
			return strconv.FormatInt(v.Int(), 10)
		}
		return strconv.FormatUint(v.Uint(), 10)
	}
	var fixed, tail []string
	called := false
	fn := reflect.MakeFunc(reflect.FuncOf(in, nil, variadic), func(args []reflect.Value) []reflect.Value {
		called = true
		fixed, tail = []string{}, []string{}
		n := len(args)
		if variadic {
			n--
			last := args[n]
			for i := 0; i < last.Len(); i++ {
				tail = append(tail, show(last.Index(i)))
			}
		}
		for _, a := range args[:n] {
			fixed = append(fixed, show(a))
		}
		return nil
	})
	vm := goja.New()
	vm.Set("f", fn.Interface())
	var names []string
	for i, a := range f[3:] {
		name := fmt.Sprintf("x%d", i)
		names = append(names, name)
		switch {
		case a == "t":
			vm.Set(name, true)
		case a == "F":
			vm.Set(name, false)
		case a == "u":
			vm.Set(name, goja.Undefined())
		case a == "n":
			vm.Set(name, goja.Null())
		case a == "fn":
			vm.Set(name, math.NaN())
		case a == "fp":
			vm.Set(name, math.Inf(1))
		case a == "fm":
			vm.Set(name, math.Inf(-1))
		case a == "fz":
			vm.Set(name, math.Copysign(0, -1))
		case strings.HasPrefix(a, "i"):
			n, _ := strconv.ParseInt(a[1:], 10, 64)
			vm.Set(name, n)
		case strings.HasPrefix(a, "f"):
			b, _ := strconv.ParseUint(a[1:], 16, 64)
			vm.Set(name, math.Float64frombits(b))
		}
	}
	var err error
	if m := recoverStr(func() { _, err = vm.RunString("f(" + strings.Join(names, ",") + ")") }); m != "" {
		return m
	}
	if err != nil || !called {
		return "THROW " + common.OneLine(fmt.Sprint(err))
	}
	return "fixed=[" + strings.Join(fixed, ",") + "] tail=[" + strings.Join(tail, ",") + "]"
}

// J nfixed variadic tail nout lastIsErr threw
func runJ(f []string) string {
	if len(f) != 6 {
		return "BADLINE"
	}
	nfixed, variadic, tail, nout, lastIsErr, threw := atoi(f[0]), f[1] == "1", atoi(f[2]), atoi(f[3]), f[4] == "1", f[5] == "1"
	intT := reflect.TypeOf(int(0))
	in := make([]reflect.Type, nfixed)
	for i := range in {
		in[i] = intT
	}
	if variadic {
		in = append(in, reflect.SliceOf(intT))
	}
	out := make([]reflect.Type, nout)
	for i := range out {
		out[i] = intT
	}
	if lastIsErr && nout > 0 {
		out[nout-1] = errType
	}
	ft := reflect.FuncOf(in, out, variadic)
	vm := goja.New()
	src := "var seen = null; (function() { seen = Array.prototype.slice.call(arguments); return 7 })"
	if threw {
		src = "var seen = null; (function() { seen = Array.prototype.slice.call(arguments); throw new Error('x') })"
	}
	jsf, err := vm.RunString(src)
	if err != nil {
		return "JSERR"
	}
	dst := reflect.New(ft)
	if err := vm.ExportTo(jsf, dst.Interface()); err != nil {
		return "err:" + common.OneLine(err.Error())
	}
	args := make([]reflect.Value, 0, nfixed+1)
	for i := 0; i < nfixed; i++ {
		args = append(args, reflect.ValueOf(10+i))
	}
	var res []reflect.Value
	m := recoverStr(func() {
		if variadic {
			for k := 0; k < tail; k++ {
				args = append(args, reflect.ValueOf(100+k))
			}
		}
		res = dst.Elem().Call(args)
	})
	seen := []string{}
	if s := vm.Get("seen"); s != nil && !goja.IsNull(s) {
		o := s.ToObject(vm)
		n := int(o.Get("length").ToInteger())
		for i := 0; i < n; i++ {
			seen = append(seen, o.Get(strconv.Itoa(i)).String())
		}
	}
	outc := ""
	if m != "" {
		outc = "gopanic"
	} else {
		first := "zero"
		if nout > 0 && !(lastIsErr && nout == 1) && res[0].Int() == 7 {
			first = "js"
		}
		e := "nil"
		if lastIsErr && nout > 0 && !res[nout-1].IsNil() {
			e = "set"
		}
		outc = "first=" + first + " err=" + e
	}
	return "args=[" + strings.Join(seen, ",") + "] -> " + outc
}

// M <s|i> k=v,k=v | ops : histories on a wrapped map[string]S / map[int]S (no element cache: every read is a fresh copy)
func runM(f []string) string {
	if len(f) < 3 || f[2] != "|" {
		return "BADLINE"
	}
	strKeys := f[0] == "s"
	ms := map[string]S{}
	mi := map[int]S{}
	if f[1] != "-" {
		for _, e := range strings.Split(f[1], ",") {
			kv := strings.SplitN(e, "=", 2)
			ms["k"+kv[0]] = S{atoi(kv[1])}
			mi[atoi(kv[0])] = S{atoi(kv[1])}
		}
	}
	vm := goja.New()
	if strKeys {
		vm.Set("a", ms)
	} else {
		vm.Set("a", mi)
	}
	acc := func(k string) string {
		if strKeys {
			return "a.k" + k
		}
		return "a[" + k + "]"
	}
	var handles []*goja.Object
	var outs []string
	dead := false
	for _, tok := range f[3:] {
		if dead {
			outs = append(outs, "PANIC")
			continue
		}
		p := strings.Split(tok, ":")
		pre := ""
		var v goja.Value
		msg := recoverStr(func() {
			switch p[0] {
			case "get":
				v, _ = vm.RunString(acc(p[1]))
				if o, ok := v.(*goja.Object); ok {
					n := -1
					for i, h := range handles {
						if h == o {
							n = i
						}
					}
					if n < 0 {
						handles = append(handles, o)
						n = len(handles) - 1
					}
					pre = fmt.Sprintf("g=%d ", n)
				} else {
					pre = "g=- "
				}
			case "set":
				_, _ = vm.RunString(acc(p[1]) + " = {Field: " + p[2] + "}")
			case "del":
				_, _ = vm.RunString("delete " + acc(p[1]))
			case "ww":
				if w := atoi(p[1]); w < len(handles) {
					_ = handles[w].Set("Field", atoi(p[2]))
				}
			case "gw":
				ms["k"+p[1]] = S{atoi(p[2])}
				mi[atoi(p[1])] = S{atoi(p[2])}
			case "gd":
				delete(ms, "k"+p[1])
				delete(mi, atoi(p[1]))
			default:
				pre = "BADOP "
			}
		})
		if strings.HasPrefix(msg, "PANIC") {
			dead = true
			outs = append(outs, "PANIC")
			continue
		}
		var ents []string
		for k := 0; k < 10; k++ {
			if strKeys {
				if e, ok := ms[fmt.Sprintf("k%d", k)]; ok {
					ents = append(ents, fmt.Sprintf("%d:%d", k, e.Field))
				}
			} else if e, ok := mi[k]; ok {
				ents = append(ents, fmt.Sprintf("%d:%d", k, e.Field))
			}
		}
		hs := make([]string, len(handles))
		for i, h := range handles {
			hs[i] = h.Get("Field").String()
		}
		outs = append(outs, fmt.Sprintf("%sm={%s} h=[%s]", pre, strings.Join(ents, ","), strings.Join(hs, ",")))
	}
	return strings.Join(outs, " ; ")
}

// X o:0=5,1=r1 a:0=r0 ...  : build the script graph, Export() it, print it canonically (sharing by pointer identity)
func runX(f []string) string {
	var b strings.Builder
	b.WriteString("var n = [];\n")
	for i, tok := range f {
		switch {
		case strings.HasPrefix(tok, "a:"):
			fmt.Fprintf(&b, "n[%d] = [];\n", i)
		case strings.HasPrefix(tok, "m:"):
			fmt.Fprintf(&b, "n[%d] = new Map();\n", i)
		case strings.HasPrefix(tok, "s:"):
			fmt.Fprintf(&b, "n[%d] = new Set();\n", i)
		default:
			fmt.Fprintf(&b, "n[%d] = {};\n", i)
		}
	}
	for i, tok := range f {
		p := strings.SplitN(tok, ":", 2)
		if len(p) != 2 || p[1] == "" {
			continue
		}
		fields := strings.Split(p[1], ",")
		for _, fl := range fields {
			kv := strings.SplitN(fl, "=", 2)
			val := kv[1]
			getter := strings.HasPrefix(val, "g")
			if getter {
				val = val[1:]
			}
			if val == "h" {
				continue // a hole
			}
			if strings.HasPrefix(val, "r") {
				val = "n[" + val[1:] + "]"
			}
			switch p[0] {
			case "a":
				fmt.Fprintf(&b, "n[%d][%s] = %s;\n", i, kv[0], val)
			case "m":
				fmt.Fprintf(&b, "n[%d].set(%s, %s);\n", i, kv[0], val)
			case "s":
				fmt.Fprintf(&b, "n[%d].add(%s);\n", i, val)
			default:
				if getter {
					fmt.Fprintf(&b, "(function(v) { Object.defineProperty(n[%d], 'k%s', {get: function() { return v }, enumerable: true, configurable: true}) })(%s);\n", i, kv[0], val)
				} else {
					fmt.Fprintf(&b, "n[%d].k%s = %s;\n", i, kv[0], val)
				}
			}
		}
		if p[0] == "a" {
			fmt.Fprintf(&b, "n[%d].length = %d;\n", i, len(fields))
		}
	}
	b.WriteString("n[0]")
	vm := goja.New()
	v, err := vm.RunString(b.String())
	if err != nil {
		return "JSERR " + common.OneLine(err.Error())
	}
	var e interface{}
	if m := recoverStr(func() { e = v.Export() }); m != "" {
		return m
	}
	return canon(reflect.ValueOf(&e).Elem(), map[uintptr]int{}, 0)
}

func main() {
	debug.SetMaxStack(48 << 20) // a runaway recursion in the bridge fails fast instead of eating a gigabyte of stack
	common.Loop(func(line string) string {
		f := strings.Fields(line)
		if len(f) == 0 {
			return "BADLINE"
		}
		switch f[0] {
		case "W":
			return runW(f[1:], false)
		case "V":
			return runW(f[1:], true)
		case "N":
			return runN(f[1:])
		case "F":
			return runF(f[1:], false)
		case "G":
			return runF(f[1:], true)
		case "S":
			return runS(f[1:])
		case "T":
			return runT(f[1:])
		case "P":
			return runP(f[1:])
		case "X":
			return runX(f[1:])
		case "M":
			return runM(f[1:])
		case "Y":
			return runY(f[1:])
		case "B":
			return runB(f[1:])
		case "I":
			return runI(f[1:])
		case "K":
			return runK(f[1:])
		case "C":
			return runC(f[1:])
		case "A":
			return runA(f[1:])
		case "D":
			return runD(f[1:])
		case "DS":
			return runDS(f[1:])
		case "J":
			return runJ(f[1:])
		case "E":
			return runE(strings.TrimSpace(strings.TrimPrefix(line, "E")))
		}
		return "BADLINE"
	})
}
