// Harness for property C09: drives generator bodies (and the same bodies as async functions) of the real goja
// through driver histories from different host stack depths and prints canonical traces; in probe mode also dumps
// the generator's try frames before suspension / as saved / after resumption (hooks in /repo/verif_hooks_c09.go).
//
// Protocol: one JSON object per input line
//   {"mode":"gen"|"async","src":"function* GEN(){…}" | "async function AGEN(){…}",
//    "hists":["n:i7 t:spq",…], "depths":["03",…] (gen: host-depth variant per command; async: settle style per command),
//    "create":[0|1,…], "probe":bool}
// → one JSON object per line {"traces":[…],"mech":[[query,observed],…],"idle":"ok"|"…","err":"…"}
package main

import (
	"encoding/json"
	"fmt"
	"strings"

	"github.com/dop251/goja"
	"verifharness/common"
)

const prelude = `
var LOG = [], G, AOUT, ACMDS, AST, AIDX, PENDING = [];
function SV(v){ if (v===undefined) return "u"; if (typeof v==="number") return v!==v ? "N" : "i"+v;
  if (typeof v==="string") return "s"+v; if (v instanceof TypeError) return "E";
  if (v instanceof Error) return "X"+v.name; if (v===null) return "null"; return "O"; }
function L(v){ LOG.push(SV(v)); }
function LS(s){ LOG.push(s); }
function J(){ var s="J"; for (var i=0;i<arguments.length;i++) s+="_"+SV(arguments[i]); return s; }
function C(e){ return (e instanceof TypeError) ? "TE" : e; }
function R(k){ return k===0 ? G.next(1) : k===1 ? G["throw"](1) : G["return"](1); }
function* IG(id, items){ try { for (var i=0;i<items.length;i++){ var r = yield items[i]; LS("I"+id+"n"+SV(r)); } }
  finally { LS("I"+id+"f"); } return "R"+id; }
function MK(id, isGen, ret, thr, items){
  if (isGen) return IG(id, items);
  var pos = 0;
  var fired = false;
  var o = { next: function(v){ LS("I"+id+"n"+SV(v));
                               if (id >= 40 && pos === 1 && items.length > 1) { throw "N"+id; }
                               if (id >= 10 && pos === 1 && items.length > 1 && !fired) { fired = true; var k = Math.floor(id/10)-1; if (k > 2) k = 2;
                                 var rx; try { R(k); rx = "ok"; } catch (e) { rx = SV(e); } LS("I"+id+"x"+rx); }
                               if (pos < items.length) return {value: items[pos++], done:false};
                               return {value:"R"+id, done:true}; } };
  o[Symbol.iterator] = function(){ return this; };
  if (ret===1) o["return"] = function(v){ LS("I"+id+"r"+SV(v)); return {value:v, done:true}; };
  if (ret===2) o["return"] = function(v){ LS("I"+id+"r"+SV(v)); throw "X"+id; };
  if (ret===3) o["return"] = function(v){ LS("I"+id+"r"+SV(v)); return 5; };
  if (thr===4) o["throw"] = function(e){ LS("I"+id+"t"+SV(e)); return 5; };
  if (thr===1) o["throw"] = function(e){ LS("I"+id+"t"+SV(e)); throw e; };
  if (thr===2) o["throw"] = function(e){ LS("I"+id+"t"+SV(e)); return {value:"T"+id, done:true}; };
  if (thr===3) o["throw"] = function(e){ LS("I"+id+"t"+SV(e)); return {value:"C"+id, done:false}; };
  return o;
}
function CALL(g,k,p){ return k===0 ? g.next(p) : k===1 ? g["throw"](p) : g["return"](p); }
function RES(f){ var r; try { r = f(); } catch(e){ return "T("+SV(e)+")"; }
  return (r.done ? "D(" : "Y(") + SV(r.value) + ")"; }
var WO = {wr: 0};
function* DG(g,k,p){ var z = yield 1; try { for (var q of [z]) { return CALL(g,k,p); } } finally { z = 2; } }
var DV = [
  function(g,k,p){ return RES(function(){ return CALL(g,k,p); }); },
  function(g,k,p){ return RES(function(){ return [7,8,(function(a,b){ var t=[a,b]; return [t, CALL(g,k,p)][1]; })(1,2)][2]; }); },
  function(g,k,p){ return RES(function(){ var r; for (var q of [1]) { for (var w of [2,3]) { r = CALL(g,k,p); break; } } return r; }); },
  function(g,k,p){ return RES(function(){ with (WO) { try { wr = CALL(g,k,p); } finally { p = 0; } } return WO.wr; }); },
  function(g,k,p){ return RES(function(){ var dg = DG(g,k,p); dg.next(); var r = dg.next(5); return r.value; }); },
  function(g,k,p){ return RES(function(){ return GoCall(g,k,p); }); },
  function(g,k,p){ return RES(function(){ var r; for (var q of [1]) { var dg = DG(g,k,p); dg.next(); try { with (WO) { wr = dg.next(q).value; } } finally { r = WO.wr; } } return r; }); }
];
// host contexts with 3 and 7 caller try frames at the call depth of the driver call: the try stack is a Go slice whose
// capacity doubles, so whether pushing one more frame re-allocates it depends on this depth (eae3f2a, 4bb92ea)
DV.push(function(g,k,p){ return RES(function(){ var r; try { try { try { r = CALL(g,k,p); } finally { p = 1; } } catch (e) { throw e; } } finally { p = 2; } return r; }); });
DV.push(function(g,k,p){ return RES(function(){ var r; try { try { try { try { try { try { try { r = CALL(g,k,p); } finally { p = 1; } } finally { p = 2; } } catch (e) { throw e; } } finally { p = 3; } } finally { p = 4; } } catch (e) { throw e; } } finally { p = 5; } return r; }); });
function MKGEN1(){ var r; for (var q of [1,2]) { r = (function(a){ return [a, GEN()][1]; })(q); break; } return r; }
function MKA1(){ var r; for (var q of [1,2]) { r = (function(a){ return [a, AGEN()][1]; })(q); break; } return r; }
function DEC(s){ var c = s.charAt(0), r = s.substring(1); return c==="u" ? undefined : c==="i" ? +r : c==="N" ? NaN : r; }
function PARSEH(h){ var out = []; if (h==="") return out; var ts = h.split(" ");
  for (var i=0;i<ts.length;i++){ var t = ts[i]; out.push([t.charAt(0)==="n"?0:t.charAt(0)==="t"?1:2, DEC(t.substring(2))]); } return out; }
function RUNH(h, depths, create){
  var cmds = PARSEH(h); LOG = []; G = create===0 ? GEN() : MKGEN1();
  var out = [];
  for (var i = 0; i < cmds.length; i++) {
    CMDSTART(cmds[i][0]);
    var r = DV[+depths.charAt(i)](G, cmds[i][0], cmds[i][1]);
    out.push(LOG.join(",") + ";" + r); LOG = [];
    CMDEND(r.charAt(0)==="Y");
  }
  return out.join(" ");
}
function P(v){
  AOUT.push(LOG.join(",") + ";Y(" + SV(v) + ")"); LOG = [];
  if (AIDX >= ACMDS.length) return new Promise(function(){});
  var c = ACMDS[AIDX], st = +AST.charAt(AIDX); AIDX++;
  var k = c[0], p = c[1];
  switch (st) {
  case 0: return k===0 ? Promise.resolve(p) : Promise.reject(p);
  case 1: return new Promise(function(res, rej){ PENDING.push(function(){ if (k===0) res(p); else rej(p); }); });
  case 2: return Promise.resolve().then(function(){ if (k===0) return p; throw p; });
  case 3: return k===0 ? p : Promise.reject(p);
  default: return { then: function(res, rej){ if (k===0) res(p); else rej(p); } };
  }
}
function RUNA(h, styles, create){
  LOG = []; AOUT = []; ACMDS = [[0, undefined]].concat(PARSEH(h)); AST = styles; AIDX = 1; PENDING = [];
  var p = create===0 ? AGEN() : MKA1();
  p.then(function(v){ AOUT.push(LOG.join(",") + ";D(" + SV(v) + ")"); LOG = []; },
         function(e){ AOUT.push(LOG.join(",") + ";T(" + SV(e) + ")"); LOG = []; });
}
function FLUSH(){ if (PENDING.length===0) return false; PENDING.shift()(); return true; }
function AGET(){ return AOUT.join(" "); }
`

var preludePrg = goja.MustCompile("prelude.js", prelude, false)

type req struct {
	Mode   string   `json:"mode"`
	Src    string   `json:"src"`
	Hists  []string `json:"hists"`
	Depths []string `json:"depths"`
	Create []int    `json:"create"`
	Probe  bool     `json:"probe"`
}

type resp struct {
	Traces  []string    `json:"traces"`
	Layouts []string    `json:"layouts,omitempty"`
	Mech   [][2]string `json:"mech,omitempty"`
	Idle   string      `json:"idle"`
	Err    string      `json:"err,omitempty"`
}

type prober struct {
	rt          *goja.Runtime
	layouts     []string           // per command of the current history: try-stack layout of the saved execCtx ("" if not suspended)
	lastA       *goja.VerifC09Dump // dump taken just before the yield, during the current command
	lastSaved   *goja.VerifC09Dump // saved execCtx of the previous suspension if it was a probed yield
	pendSaved   *goja.VerifC09Dump
	mech        map[string]string
	order       []string
	probedYield bool
}

func framesAbs(fs []goja.VerifC09Frame) string {
	var sb strings.Builder
	for _, f := range fs {
		fmt.Fprintf(&sb, " %d %d %d %d", f.CallStackLen, f.IterLen, f.RefLen, f.Sp)
	}
	return sb.String()
}

func framesRel(fs []goja.VerifC09Frame) string {
	var sb strings.Builder
	for _, f := range fs {
		fmt.Fprintf(&sb, " %d %d %d", f.IterLen, f.RefLen, f.Sp)
	}
	return sb.String()
}

func (p *prober) add(q, obs string) {
	if _, ok := p.mech[q]; !ok && len(p.order) < 400 {
		p.mech[q] = obs
		p.order = append(p.order, q)
	} else if ok && p.mech[q] != obs && len(p.order) < 400 {
		// same query, different observation: keep both (the model can agree with at most one)
		q2 := q + " "
		p.mech[q2] = obs
		p.order = append(p.order, q2)
	}
}

func run(line string) string {
	var rq req
	if err := json.Unmarshal([]byte(line), &rq); err != nil {
		return `{"err":"bad json"}`
	}
	rt := goja.New()
	pr := &prober{rt: rt, mech: map[string]string{}}
	out := resp{Idle: "ok"}
	fail := func(e error) string {
		out.Err = common.OneLine(e.Error())
		b, _ := json.Marshal(out)
		return string(b)
	}
	rt.Set("GoCall", func(call goja.FunctionCall) goja.Value {
		g := call.Argument(0).ToObject(rt)
		k := call.Argument(1).ToInteger()
		name := []string{"next", "throw", "return"}[k]
		fn, ok := goja.AssertFunction(g.Get(name))
		if !ok {
			panic(rt.NewTypeError("no method"))
		}
		v, err := fn(g, call.Argument(2))
		if err != nil {
			panic(err)
		}
		return v
	})
	rt.Set("PRV", func(call goja.FunctionCall) goja.Value {
		tag := call.Argument(0).ToInteger()
		gobj, _ := rt.Get("G").(*goja.Object)
		d := goja.VerifC09Live(rt, gobj)
		if d.OK {
			if tag == 0 {
				pr.lastA = &d
			} else if pr.pendSaved != nil {
				s := pr.pendSaved
				pr.pendSaved = nil
				// resume query: call-site lengths at resume are the generator's new bases
				q := fmt.Sprintf("M R %d %d %d %d %d%s", d.CallLen, d.IterBase, d.RefBase, d.Sb-1, len(s.Frames), framesRel(s.Frames))
				pr.add(q, strings.TrimSpace(framesAbs(d.Frames)))
			}
		}
		return call.Argument(1)
	})
	rt.Set("CMDSTART", func(call goja.FunctionCall) goja.Value {
		pr.lastA = nil
		pr.pendSaved = nil
		if call.Argument(0).ToInteger() == 0 {
			pr.pendSaved = pr.lastSaved
		}
		pr.lastSaved = nil
		return goja.Undefined()
	})
	rt.Set("CMDEND", func(call goja.FunctionCall) goja.Value {
		lay := ""
		if call.Argument(0).ToBoolean() {
			gobj, _ := rt.Get("G").(*goja.Object)
			if sd := goja.VerifC09Saved(gobj); sd.OK {
				var sb strings.Builder
				sb.WriteString("[")
				for i, f := range sd.Frames {
					if i > 0 {
						sb.WriteString(",")
					}
					c, fn := "-", "-"
					if f.CatchPos >= 0 {
						c = "c"
					}
					if f.FinallyPos >= 0 {
						fn = "f"
					}
					fmt.Fprintf(&sb, "%s%s:%d", c, fn, f.IterLen)
				}
				fmt.Fprintf(&sb, "]%d", sd.SavedIter)
				lay = sb.String()
			}
		}
		pr.layouts = append(pr.layouts, lay)
		if rq.Probe && call.Argument(0).ToBoolean() && pr.lastA != nil {
			gobj, _ := rt.Get("G").(*goja.Object)
			s := goja.VerifC09Saved(gobj)
			a := pr.lastA
			if s.OK {
				q := fmt.Sprintf("M S %d %d %d %d %d%s", a.Sb, a.TryBase, a.IterBase, a.RefBase, len(a.Frames), framesAbs(a.Frames))
				pr.add(q, strings.TrimSpace(framesRel(s.Frames)))
				pr.lastSaved = &s
			}
		}
		pr.lastA = nil
		return goja.Undefined()
	})
	if _, err := rt.RunProgram(preludePrg); err != nil {
		return fail(err)
	}
	sp0, cl0, il0, rl0, tl0 := goja.VerifC09VMLens(rt)
	if _, err := rt.RunScript("body.js", rq.Src); err != nil {
		return fail(err)
	}
	runner := "RUNH"
	if rq.Mode == "async" {
		runner = "RUNA"
	}
	fn, ok := goja.AssertFunction(rt.Get(runner))
	if !ok {
		return fail(fmt.Errorf("no runner"))
	}
	flush, _ := goja.AssertFunction(rt.Get("FLUSH"))
	aget, _ := goja.AssertFunction(rt.Get("AGET"))
	for i, h := range rq.Hists {
		pr.layouts = pr.layouts[:0]
		tr := common.Safe(func() string {
			v, err := fn(goja.Undefined(), rt.ToValue(h), rt.ToValue(rq.Depths[i]), rt.ToValue(rq.Create[i]))
			if err != nil {
				return "ERR " + common.OneLine(err.Error())
			}
			if rq.Mode == "async" {
				for n := 0; n < 1000; n++ {
					b, err := flush(goja.Undefined())
					if err != nil {
						return "ERR " + common.OneLine(err.Error())
					}
					if !b.ToBoolean() {
						break
					}
				}
				v, err = aget(goja.Undefined())
				if err != nil {
					return "ERR " + common.OneLine(err.Error())
				}
			}
			return v.String()
		})
		out.Traces = append(out.Traces, tr)
		if rq.Mode != "async" {
			out.Layouts = append(out.Layouts, strings.Join(pr.layouts, ";"))
		}
		sp, cl, il, rl, tl := goja.VerifC09VMLens(rt)
		if (sp != sp0 || cl != cl0 || il != il0 || rl != rl0 || tl != tl0) && out.Idle == "ok" {
			out.Idle = fmt.Sprintf("hist %d: sp %d->%d call %d->%d iter %d->%d ref %d->%d try %d->%d", i, sp0, sp, cl0, cl, il0, il, rl0, rl, tl0, tl)
		}
	}
	for _, q := range pr.order {
		out.Mech = append(out.Mech, [2]string{strings.TrimSpace(q), pr.mech[q]})
	}
	b, _ := json.Marshal(out)
	return string(b)
}

func main() {
	common.Loop(run)
}
