// C03 harness: runs one history of API calls per input line (JSON) against the real goja and prints,
// per call, `<outcome>|<probe trace>|<idle state vector>` (same format as the Lean driver), then
// ` ## ` and the verdict of the behavioural probe (used runtime vs fresh runtime).
package main

import (
	"encoding/json"
	"errors"
	"fmt"
	"math"
	"strings"

	"github.com/dop251/goja"
	"verifharness/common"
)

type GoOp struct {
	Op  string `json:"op"` // RP | CA | CO | TRY | FOROF | RPS | CAS | TRYS (…S: result of the nested call ignored)
	Src string `json:"src,omitempty"`
	Fn  string `json:"fn,omitempty"`
	N   int    `json:"n,omitempty"`
	Ops []GoOp `json:"ops,omitempty"`
}

type Call struct {
	Api  string `json:"api"` // RP | CA | CO | EX | TR | TG | ER
	Src  string `json:"src,omitempty"`
	Fn   string `json:"fn,omitempty"`
	Obj  string `json:"obj,omitempty"`
	N    int    `json:"n,omitempty"`
	K    int    `json:"k"`
	Kind string `json:"kind"` // t o g x (catchable variants) | i (interrupt)
	Ops  []GoOp `json:"ops,omitempty"`
}

type History struct {
	Max     int               `json:"max"`
	Prelude string            `json:"prelude"`
	Calls   []Call            `json:"calls"`
	Natives map[string][]GoOp `json:"natives,omitempty"`
	NoProbe bool              `json:"noprobe,omitempty"`
}

type env struct {
	r     *goja.Runtime
	trace []string
	count int
	k     int
	kind  string
	progs map[string]*goja.Program
}

func (e *env) prog(src string) *goja.Program {
	if p, ok := e.progs[src]; ok {
		return p
	}
	p, err := goja.Compile("h.js", src, false)
	if err != nil {
		panic(fmt.Sprintf("harness: generated program does not compile: %v\n%s", err, src))
	}
	e.progs[src] = p
	return p
}

func (e *env) args(n int) []goja.Value {
	a := make([]goja.Value, n)
	for i := range a {
		a[i] = e.r.ToValue(0)
	}
	return a
}

// runOps executes Go-level operations from inside a native function or a Try; an error coming back
// from a nested API call is re-panicked, which is what the model's outcome propagation assumes.
func (e *env) runOps(ops []GoOp) {
	r := e.r
	for _, op := range ops {
		switch op.Op {
		case "RP":
			if _, err := r.RunProgram(e.prog(op.Src)); err != nil {
				panic(err)
			}
		case "CA":
			f, ok := goja.AssertFunction(r.Get(op.Fn))
			if !ok {
				panic("harness: not a function: " + op.Fn)
			}
			if _, err := f(goja.Undefined(), e.args(op.N)...); err != nil {
				panic(err)
			}
		case "CO":
			c, ok := goja.AssertConstructor(r.Get(op.Fn))
			if !ok {
				panic("harness: not a constructor: " + op.Fn)
			}
			if _, err := c(nil, e.args(op.N)...); err != nil {
				panic(err)
			}
		case "TRY":
			if ex := r.Try(func() { e.runOps(op.Ops) }); ex != nil {
				panic(ex)
			}
		case "TRYS":
			_ = r.Try(func() { e.runOps(op.Ops) }) // the returned exception is ignored
		case "RPS":
			before := goja.VerifC03VMState(r).Interrupted
			_, err := r.RunProgram(e.prog(op.Src))
			e.swallow(err, before)
		case "CAS":
			f, ok := goja.AssertFunction(r.Get(op.Fn))
			if !ok {
				panic("harness: not a function: " + op.Fn)
			}
			before := goja.VerifC03VMState(r).Interrupted
			_, err := f(goja.Undefined(), e.args(op.N)...)
			e.swallow(err, before)
		case "FOROF":
			f, _ := goja.AssertFunction(r.Get(op.Fn))
			r.ForOf(r.NewArray(0), func(goja.Value) bool {
				if _, err := f(goja.Undefined()); err != nil {
					panic(err)
				}
				return true
			})
		default:
			panic("harness: bad go op " + op.Op)
		}
	}
}

// swallow ignores the error of a nested call, as a careless native would.  An uncatchable error that left the
// interrupt flag changed (an interrupt that is still pending) is passed on: ignoring it has no effect anyway,
// the caller's run loop raises it again at its next instruction.
func (e *env) swallow(err error, flagBefore bool) {
	if err == nil {
		return
	}
	if classify(err) == "fatal" && goja.VerifC03VMState(e.r).Interrupted != flagBefore {
		panic(err)
	}
}

func stateVec(r *goja.Runtime) string {
	s := goja.VerifC03VMState(r)
	b := func(x bool) int {
		if x {
			return 1
		}
		return 0
	}
	return fmt.Sprintf("%d,%d,%d,%d,%d,%d,%d,%d,%d,%d,%d,%d,%d,%d,%d", s.Sp, s.Sb, b(s.PrgNil), b(s.StashGlobal), b(s.PrivEnvNil),
		s.CallStackLen, s.TryStackLen, s.IterStackLen, s.RefStackLen, s.JobQueueLen, b(s.Interrupted),
		s.PrivEnvDepth, b(s.CurAsyncRunnerNil), b(s.NewTargetNil), s.Args)
}

func classify(err interface{}) string {
	switch x := err.(type) {
	case nil:
		return "ok"
	case *goja.Exception:
		return "ex"
	case *goja.InterruptedError, *goja.StackOverflowError:
		return "fatal"
	case error:
		var ie *goja.InterruptedError
		var so *goja.StackOverflowError
		if errors.As(x, &ie) || errors.As(x, &so) {
			return "fatal"
		}
		return fmt.Sprintf("HOSTPANIC:%T:%v", err, err)
	default:
		return fmt.Sprintf("HOSTPANIC:%T:%v", err, err)
	}
}

func setup(h *History) *env {
	r := goja.New()
	e := &env{r: r, progs: map[string]*goja.Program{}}
	r.Set("P", func(call goja.FunctionCall) goja.Value {
		st := goja.VerifC03VMState(r)
		id := call.Argument(0).ToInteger()
		ca := 1
		if st.CurAsyncRunnerNil {
			ca = 0
		}
		e.trace = append(e.trace, fmt.Sprintf("%d:%d,%d,%d,%d,%d", id, st.CallStackLen, st.TryStackLen, st.IterStackLen, st.RefStackLen, ca))
		e.count++
		if e.k != 0 && e.count == e.k {
			switch e.kind {
			case "t":
				panic(r.ToValue("fault"))
			case "o":
				panic(r.NewTypeError("fault"))
			case "g":
				panic(r.NewGoError(errors.New("go fault")))
			case "x":
				ex := r.Try(func() { panic(r.ToValue("fault-ex")) })
				panic(ex)
			case "i":
				r.Interrupt("stop")
			}
		}
		return goja.Undefined()
	})
	r.Set("MKIT", func(call goja.FunctionCall) goja.Value {
		arr := r.NewArray(0)
		itf, _ := goja.AssertFunction(arr.GetSymbol(goja.SymIterator))
		itv, err := itf(arr)
		if err != nil {
			panic(err)
		}
		it := itv.ToObject(r)
		it.Set("return", call.Argument(0))
		o := r.NewObject()
		o.SetSymbol(goja.SymIterator, func(goja.FunctionCall) goja.Value { return it })
		return o
	})
	for name, ops := range h.Natives {
		ops := ops
		r.Set(name, func(goja.FunctionCall) goja.Value {
			e.runOps(ops)
			return goja.Undefined()
		})
	}
	if _, err := r.RunScript("prelude.js", probePrelude+h.Prelude); err != nil {
		panic(fmt.Sprintf("harness: prelude failed: %v", err))
	}
	return e
}

const probePrelude = `
function PB(){ var log=[];
  function inner(){ return new Error("pb").stack }
  log.push(inner());
  try { try { throw 1 } finally { log.push("f") } } catch(e){ log.push("c"+e) }
  for (var x of [1,2]) { log.push(x) }
  function* g(){ yield 1; yield 2 } for (var y of g()) log.push("g"+y);
  log.push("job="+globalThis.__job);
  Promise.resolve(6).then(function(v){ globalThis.__job2 = v });
  return log.join("|") }
function PC(){ this.s = new Error("pc").stack }
async function PAI(){ await null; globalThis.__astack = new Error("pa").stack; }
async function PAO(){ await PAI(); globalThis.__astack2 = new Error("pao").stack; }
function PPRIV(){ var out=[];
  try { out.push("resolved:" + eval("#p in ({})")) } catch (e) { out.push(e.name) }
  class A { #a = 7; m(){ try { class B { #b = 1; [null.x](){} } } catch (e) { out.push("c") } return this.#a } }
  try { out.push(new A().m()) } catch (e) { out.push("E:" + e.name) }
  return out.join(",") }
`

const probeScript = `(function(){ var log=[];
  function inner(){ return new Error("p").stack }
  log.push(inner());
  try { try { throw 1 } finally { log.push("f") } } catch(e){ log.push("c"+e) }
  for (var x of [1,2]) { log.push(x) }
  function* g(){ yield 1; yield 2 } for (var y of g()) log.push("g"+y);
  Promise.resolve(5).then(function(v){ globalThis.__job = v });
  return log.join("|") })()`

// behaviour runs the probe script through every API entry and returns a canonical transcript.
func behaviour(r *goja.Runtime) string {
	var out []string
	add := func(tag string, v interface{}, err interface{}) {
		out = append(out, fmt.Sprintf("%s=%v/%s", tag, v, classify(err)))
	}
	r.SetMaxCallStackSize(math.MaxInt32)
	func() {
		defer func() {
			if x := recover(); x != nil {
				add("PANIC", nil, x)
			}
		}()
		// a call from Go first: a stale vm.prg is only visible before the next RunProgram overwrites it
		if pb, ok := goja.AssertFunction(r.Get("PB")); ok {
			v, err := pb(goja.Undefined())
			add("call0", v, err)
		}
		v, err := r.RunScript("probe.js", probeScript)
		add("run", v, err)
		if pb, ok := goja.AssertFunction(r.Get("PB")); ok {
			v, err := pb(goja.Undefined())
			add("call", v, err)
		}
		if pc, ok := goja.AssertConstructor(r.Get("PC")); ok {
			o, err := pc(nil)
			var s interface{}
			if o != nil {
				s = o.Get("s")
			}
			add("new", s, err)
		}
		v, err = r.RunString("String(globalThis.__job2)")
		add("job2", v, err)
		// stack-trace text from an async function resumed by the job queue (two-level await chain), and
		// private-name resolution (a leaked vm.privEnv makes `#p in …` resolve / breaks this.#a)
		if pa, ok := goja.AssertFunction(r.Get("PAO")); ok {
			_, err := pa(goja.Undefined())
			add("async", r.Get("__astack"), err)
			add("async2", r.Get("__astack2"), nil)
		}
		v, err = r.RunString("PPRIV()")
		add("priv", v, err)
		if pp, ok := goja.AssertFunction(r.Get("PPRIV")); ok {
			v, err := pp(goja.Undefined())
			add("privcall", v, err)
		}
		var got goja.Value
		ex := r.Try(func() { got = r.Get("PB").ToObject(r).Get("name") })
		var exi interface{}
		if ex != nil {
			exi = ex
		}
		add("try", got, exi)
	}()
	return common.OneLine(strings.Join(out, " ~ "))
}

func runHistory(line string) string {
	var h History
	if err := json.Unmarshal([]byte(line), &h); err != nil {
		return "BAD-INPUT " + err.Error()
	}
	e := setup(&h)
	r := e.r
	if h.Max >= 0 {
		r.SetMaxCallStackSize(h.Max)
	}
	var outs []string
	for _, c := range h.Calls {
		e.trace, e.count, e.k, e.kind = nil, 0, c.K, c.Kind
		var outcome string
		func() {
			defer func() {
				if x := recover(); x != nil {
					outcome = classify(x)
					if _, isEx := x.(*goja.Exception); isEx {
						outcome = "HOSTPANIC:*goja.Exception"
					}
				}
			}()
			switch c.Api {
			case "RP":
				_, err := r.RunProgram(e.prog(c.Src))
				outcome = classifyErr(err)
			case "CA":
				f, ok := goja.AssertFunction(r.Get(c.Fn))
				if !ok {
					panic("harness: not a function " + c.Fn)
				}
				_, err := f(goja.Undefined(), e.args(c.N)...)
				outcome = classifyErr(err)
			case "EX":
				var fn func() (goja.Value, error)
				if err := r.ExportTo(r.Get(c.Fn), &fn); err != nil {
					panic("harness: ExportTo: " + err.Error())
				}
				_, err := fn()
				outcome = classifyErr(err)
			case "CO":
				ct, ok := goja.AssertConstructor(r.Get(c.Fn))
				if !ok {
					panic("harness: not a constructor " + c.Fn)
				}
				_, err := ct(nil, e.args(c.N)...)
				outcome = classifyErr(err)
			case "TR":
				ex := r.Try(func() { e.runOps(c.Ops) })
				if ex != nil {
					outcome = "ex"
				} else {
					outcome = "ok"
				}
			case "TG":
				o := r.Get(c.Obj).ToObject(r)
				ex := r.Try(func() { o.Get("x") })
				if ex != nil {
					outcome = "ex"
				} else {
					outcome = "ok"
				}
			case "ER":
				// err.Error() on an Exception whose value is an object with a JS toString: a call into the runtime
				obj := r.Get(c.Obj)
				ex := r.Try(func() { panic(obj) })
				if ex == nil {
					panic("harness: no exception for " + c.Obj)
				}
				e.trace, e.count = nil, 0
				_ = ex.Error()
				outcome = "ok"
			default:
				panic("harness: bad api " + c.Api)
			}
		}()
		outs = append(outs, outcome+"|"+strings.Join(e.trace, " ")+"|"+stateVec(r))
	}
	res := strings.Join(outs, " ; ")
	if !h.NoProbe {
		e.k = 0
		used := behaviour(r)
		fresh := behaviour(setup(&h).r)
		if used == fresh {
			res += " ## SAME"
		} else {
			res += " ## DIFF used: " + used + " fresh: " + fresh
		}
	}
	return res
}

func classifyErr(err error) string {
	if err == nil {
		return "ok"
	}
	c := classify(err)
	if strings.HasPrefix(c, "HOSTPANIC") {
		// a returned (not panicked) Go error: ExportTo'd functions hand back the wrapped GoError value itself
		return "ex"
	}
	return c
}

func main() {
	common.Loop(runHistory)
}
