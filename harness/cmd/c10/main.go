// C10 harness: one promise-operation program per stdin line (same grammar as the Lean driver
// lean/GojaModel/C10/Driver.lean), compiled to JavaScript and Go-side calls, executed on a fresh
// goja Runtime; prints one canonical line: per outermost call the global event log, the
// SetPromiseRejectionTracker log, the job-queue length (white-box hook) and the error kind; finally
// Promise.State()/Result() of every promise slot.
//
//	prog    := section ('|' section)*
//	section := 'F' id acts ';' compl | 'A' id acts ';' compl | 'T' id slot (v|'-') acts ';' compl
//	         | 'R' acts ';' compl | 'G' ('gnew' k g | 'gres' g v | 'grej' g v) | 'C' id ('s'|'f') tid
//	act     := log n | new k s f | res s v | rej s v | then k f g d | catch k g d | fin k f d | pres v d | prej v d
//	         | (all|aset|race|any) d n v*n | (allC|asetC|raceC|anyC) d cid n v*n | call a d | int | await v | awaitt v
//	compl   := ret v | throw v          f,g := '-' | id        v := u | a | n<k> | p<k> | t<id> | b<id>
package main

import (
	"bufio"
	"fmt"
	"os"
	"strconv"
	"strings"
	"sync/atomic"
	"time"

	"github.com/dop251/goja"
	"verifharness/common"
)

const prelude = `
var E=[], P=[], RS=[], H=[], T=[], A=[], TF=[], TG=[], C=[];
function B(id){var q=Promise.resolve(undefined);Object.defineProperty(q,"then",{get:TG[id],configurable:true});return q;}
function setP(d,r){if(r instanceof Promise&&!Object.prototype.hasOwnProperty.call(r,"then"))P[d]=r;}
function callRS(s,i,v){try{if(RS[s]&&typeof RS[s][i]==="function")RS[s][i](v);}catch(e){E.push("e:"+repr(e));}}
function jsThen(k,d,f,g,m){if(!P[k])return;try{var r=(m==="then")?P[k].then(f,g):(m==="catch")?P[k].catch(g):P[k].finally(f);setP(d,r);}catch(e){E.push("e:"+repr(e));}}
function comb(name,c,d,arr){var r=(c===undefined)?Promise[name](arr):Promise[name].call(C[c],arr);setP(d,r);}
function repr(v){
  if(v===undefined)return "u";
  if(typeof v==="number")return "n"+v;
  if(v instanceof Promise){for(var i=0;i<P.length;i++)if(P[i]===v)return "p@"+i;return "p?";}
  if(v&&typeof v==="object"&&Object.prototype.hasOwnProperty.call(v,"tid"))return "t"+v.tid;
  if(v instanceof AggregateError)return "AE["+v.errors.map(repr).join(",")+"]";
  if(v instanceof TypeError)return "TE";
  if(Array.isArray(v))return "["+v.map(repr).join(",")+"]";
  if(v&&v.status==="fulfilled")return "{F:"+repr(v.value)+"}";
  if(v&&v.status==="rejected")return "{R:"+repr(v.reason)+"}";
  return "?"+String(v);
}
function takeE(){var s=E.join(",");E=[];return s;}
`

type parser struct{ err error }

func (p *parser) num(s string) int {
	n, err := strconv.Atoi(s)
	if err != nil || n < 0 {
		p.err = fmt.Errorf("bad number %q", s)
	}
	return n
}

func (p *parser) v(s string) string {
	switch {
	case s == "u":
		return "undefined"
	case s == "a":
		return "a"
	case len(s) > 1 && s[0] == 'n':
		return strconv.Itoa(p.num(s[1:]))
	case len(s) > 1 && s[0] == 'p':
		return "P[" + strconv.Itoa(p.num(s[1:])) + "]"
	case len(s) > 1 && s[0] == 't':
		return "T[" + strconv.Itoa(p.num(s[1:])) + "]()"
	case len(s) > 1 && s[0] == 'b':
		return "B(" + strconv.Itoa(p.num(s[1:])) + ")"
	}
	p.err = fmt.Errorf("bad value %q", s)
	return "undefined"
}

func (p *parser) f(s string) string {
	if s == "-" {
		return "undefined"
	}
	return "H[" + strconv.Itoa(p.num(s)) + "]"
}

// body compiles  acts ';' compl  to JavaScript statements.
func (p *parser) body(ts []string, async bool) string {
	var b strings.Builder
	i := 0
	need := func(n int) bool {
		if i+n > len(ts) {
			p.err = fmt.Errorf("truncated at %v", ts[i:])
			return false
		}
		return true
	}
	for i < len(ts) && ts[i] != ";" && p.err == nil {
		switch ts[i] {
		case "log":
			if !need(2) {
				break
			}
			fmt.Fprintf(&b, "E.push(\"l%d\");", p.num(ts[i+1]))
			i += 2
		case "new":
			if !need(4) {
				break
			}
			k, s := p.num(ts[i+1]), p.num(ts[i+2])
			ex := ""
			if ts[i+3] != "-" {
				ex = p.f(ts[i+3]) + "();"
			}
			fmt.Fprintf(&b, "{var _p=new Promise(function(x,y){RS[%d]=[x,y];E.push(\"x%d\");%s});P[%d]=_p;}", s, k, ex, k)
			i += 4
		case "res", "rej":
			if !need(3) {
				break
			}
			idx := 0
			if ts[i] == "rej" {
				idx = 1
			}
			s := p.num(ts[i+1])
			fmt.Fprintf(&b, "if(RS[%d]&&typeof RS[%d][%d]===\"function\")callRS(%d,%d,%s);", s, s, idx, s, idx, p.v(ts[i+2]))
			i += 3
		case "then":
			if !need(5) {
				break
			}
			k := p.num(ts[i+1])
			fmt.Fprintf(&b, "jsThen(%d,%d,%s,%s,\"then\");", k, p.num(ts[i+4]), p.f(ts[i+2]), p.f(ts[i+3]))
			i += 5
		case "catch":
			if !need(4) {
				break
			}
			k := p.num(ts[i+1])
			fmt.Fprintf(&b, "jsThen(%d,%d,undefined,%s,\"catch\");", k, p.num(ts[i+3]), p.f(ts[i+2]))
			i += 4
		case "fin":
			if !need(4) {
				break
			}
			k := p.num(ts[i+1])
			fmt.Fprintf(&b, "jsThen(%d,%d,%s,undefined,\"finally\");", k, p.num(ts[i+3]), p.f(ts[i+2]))
			i += 4
		case "pres", "prej":
			if !need(3) {
				break
			}
			m := "resolve"
			if ts[i] == "prej" {
				m = "reject"
			}
			fmt.Fprintf(&b, "setP(%d,Promise.%s(%s));", p.num(ts[i+2]), m, p.v(ts[i+1]))
			i += 3
		case "all", "aset", "race", "any", "allC", "asetC", "raceC", "anyC":
			if !need(3) {
				break
			}
			custom := strings.HasSuffix(ts[i], "C")
			m := map[string]string{"all": "all", "aset": "allSettled", "race": "race", "any": "any"}[strings.TrimSuffix(ts[i], "C")]
			d := p.num(ts[i+1])
			ctor := "undefined"
			j := i + 2
			if custom {
				if !need(4) {
					break
				}
				ctor = strconv.Itoa(p.num(ts[j]))
				j++
			}
			n := p.num(ts[j])
			j++
			if j+n > len(ts) {
				p.err = fmt.Errorf("truncated combinator")
				break
			}
			vs := make([]string, n)
			for q := 0; q < n; q++ {
				vs[q] = p.v(ts[j+q])
			}
			fmt.Fprintf(&b, "comb(\"%s\",%s,%d,[%s]);", m, ctor, d, strings.Join(vs, ","))
			i = j + n
		case "call":
			if !need(3) {
				break
			}
			fmt.Fprintf(&b, "if(A[%d])P[%d]=A[%d]();", p.num(ts[i+1]), p.num(ts[i+2]), p.num(ts[i+1]))
			i += 3
		case "int":
			b.WriteString("E.push(\"int\");INT();")
			i++
		case "await", "awaitt":
			if !need(2) {
				break
			}
			if !async {
				p.err = fmt.Errorf("await outside async")
				break
			}
			if ts[i] == "await" {
				fmt.Fprintf(&b, "{var _w=await %s;E.push(\"w:\"+repr(_w));}", p.v(ts[i+1]))
			} else {
				fmt.Fprintf(&b, "try{var _w=await %s;E.push(\"w:\"+repr(_w));}catch(e){E.push(\"c:\"+repr(e));}", p.v(ts[i+1]))
			}
			i += 2
		default:
			p.err = fmt.Errorf("bad action %q", ts[i])
		}
	}
	if p.err != nil {
		return ""
	}
	if i+3 != len(ts) || ts[i] != ";" {
		p.err = fmt.Errorf("bad completion %v", ts[i:])
		return ""
	}
	switch ts[i+1] {
	case "ret":
		fmt.Fprintf(&b, "return %s;", p.v(ts[i+2]))
	case "throw":
		fmt.Fprintf(&b, "throw %s;", p.v(ts[i+2]))
	default:
		p.err = fmt.Errorf("bad completion %v", ts[i:])
	}
	return b.String()
}

type seg struct {
	kind string // "run" | "gnew" | "gres" | "grej"
	js   string
	k, g int
	v    string
}

// actTracker is an AsyncContextTracker that hands out fresh integer contexts and checks the protocol of func.go:37-53
// as far as the code implements it (model: lean/GojaModel/C10/Act.lean): Resumed/Exited strictly alternate, a resumed
// context was grabbed before and is resumed at most once.  It never influences the run.
type actTracker struct {
	log     []string
	n       int
	open    bool
	resumed map[int]bool
	bad     []string
}

func (t *actTracker) Grab() interface{} {
	t.n++
	t.log = append(t.log, "G"+strconv.Itoa(t.n))
	return t.n
}

func (t *actTracker) Resumed(o interface{}) {
	c, ok := o.(int)
	t.log = append(t.log, fmt.Sprintf("R%v", o))
	switch {
	case !ok:
		t.bad = append(t.bad, "resumed-with-foreign-context")
	case t.open:
		t.bad = append(t.bad, "nested-resumed")
	case c < 1 || c > t.n:
		t.bad = append(t.bad, "resumed-ungrabbed-context")
	case t.resumed[c]:
		t.bad = append(t.bad, "context-resumed-twice")
	}
	if ok {
		t.resumed[c] = true
	}
	t.open = true
}

func (t *actTracker) Exited() {
	t.log = append(t.log, "X")
	if !t.open {
		t.bad = append(t.bad, "exited-while-closed")
	}
	t.open = false
}

type trackEntry struct {
	p  *goja.Promise
	op goja.PromiseRejectionOperation
}

// probeAsyncStartInterrupt: an interrupt raised while asyncRunner.step() runs user code during the START of an async
// function (a `then` / `constructor` getter reached through promiseResolve / resolve).  Afterwards the runtime must be idle
// (call depth 0) and the next outermost call must run its promise job and leave the queue empty.
func probeAsyncStartInterrupt() string {
	srcs := []string{
		`(async function(){ await {get then(){ INT(); return undefined }} })()`,
		`(async function(){ return {get then(){ INT(); return undefined }} })()`,
		`var p = Promise.resolve(1); Object.defineProperty(p, "constructor", {get(){ INT(); return Promise }}); (async function(){ await p })()`,
	}
	var out []string
	for _, src := range srcs {
		rt := goja.New()
		rt.Set("INT", func() { rt.Interrupt("x") })
		rt.RunString("var L=[]")
		_, err := rt.RunString(src)
		_, isInt := err.(*goja.InterruptedError)
		d := rt.VerifC10CallDepth()
		rt.ClearInterrupt()
		rt.RunString(`Promise.resolve(1).then(function(){ L.push("job") }); 0`)
		l, _ := rt.RunString(`L.join(",")`)
		ls := ""
		if l != nil {
			ls = l.String()
		}
		out = append(out, fmt.Sprintf("int=%v depth=%d next-job=%q q=%d", isInt, d, ls, rt.VerifC10JobQueueLen()))
	}
	return strings.Join(out, " | ")
}

func runCase(line string) string {
	if line == "PROBE async-start-interrupt" {
		return probeAsyncStartInterrupt()
	}
	actOnly := false
	if strings.HasPrefix(line, "ACT ") { // probe: answer with the AsyncContextTracker call log only
		actOnly = true
		line = line[4:]
	}
	// "GINT <n>:<us> <program>": the first run is interrupted from ANOTHER goroutine, which is released when the script
	// logs its n-th event (n = 0: when it starts executing); the script then idles about <us> microseconds inside that hook.
	gintUS, gintN := -1, 0
	if strings.HasPrefix(line, "GINT ") {
		rest := line[5:]
		if i := strings.IndexByte(rest, ' '); i > 0 {
			if j := strings.IndexByte(rest[:i], ':'); j > 0 {
				n, err1 := strconv.Atoi(rest[:j])
				us, err2 := strconv.Atoi(rest[j+1 : i])
				if err1 == nil && err2 == nil && n >= 0 && us >= 0 {
					gintN, gintUS = n, us
					line = rest[i+1:]
				}
			}
		}
		if gintUS < 0 {
			return "PARSE-ERROR"
		}
	}
	p := &parser{}
	var defs strings.Builder
	var segs []seg
	for _, sec := range strings.Split(line, "|") {
		ts := strings.Fields(sec)
		if len(ts) == 0 {
			return "PARSE-ERROR"
		}
		switch ts[0] {
		case "F":
			if len(ts) < 2 {
				return "PARSE-ERROR"
			}
			id := p.num(ts[1])
			fmt.Fprintf(&defs, "H[%d]=function(a){E.push(\"f%d:\"+repr(a));%s};\n", id, id, p.body(ts[2:], false))
		case "A":
			if len(ts) < 2 {
				return "PARSE-ERROR"
			}
			id := p.num(ts[1])
			fmt.Fprintf(&defs, "A[%d]=async function(){var a;E.push(\"a%d\");%s};\n", id, id, p.body(ts[2:], true))
		case "T":
			if len(ts) < 4 {
				return "PARSE-ERROR"
			}
			id, slot := p.num(ts[1]), p.num(ts[2])
			body := p.body(ts[4:], false)
			if ts[3] != "-" {
				fmt.Fprintf(&defs, "TG[%d]=function(){E.push(\"g%d\");var a;throw %s;};\n", id, id, p.v(ts[3]))
			} else {
				fmt.Fprintf(&defs, "TF[%d]=function(x,y){var a;RS[%d]=[x,y];E.push(\"t%d\");%s};\nTG[%d]=function(){E.push(\"g%d\");return TF[%d];};\n", id, slot, id, body, id, id, id)
			}
			fmt.Fprintf(&defs, "T[%d]=function(){var o={tid:%d};Object.defineProperty(o,\"then\",{get:TG[%d]});return o;};\n", id, id, id)
		case "C":
			if len(ts) != 4 || (ts[2] != "s" && ts[2] != "f") {
				return "PARSE-ERROR"
			}
			id, tid := p.num(ts[1]), p.num(ts[3])
			if ts[2] == "s" {
				// a subclass whose instances still report %Promise% as their constructor (so promiseResolve / species treat them as plain promises)
				fmt.Fprintf(&defs, "C[%d]=class extends Promise{};C[%d].prototype.constructor=Promise;\n", id, id)
			} else {
				fmt.Fprintf(&defs, "C[%d]=function(ex){E.push(\"C%d\");var o={cid:%d};ex(function(v){E.push(\"R%d:\"+repr(v));},function(e){E.push(\"J%d:\"+repr(e));});return o;};\n", id, id, id, id, id)
			}
			fmt.Fprintf(&defs, "C[%d].resolve=function(v){E.push(\"cr%d:\"+repr(v));return T[%d]();};\n", id, id, tid)
		case "R":
			segs = append(segs, seg{kind: "run", js: "(function(){var a;" + p.body(ts[1:], false) + "})();"})
		case "G":
			if len(ts) != 4 {
				return "PARSE-ERROR"
			}
			switch ts[1] {
			case "gnew":
				segs = append(segs, seg{kind: "gnew", k: p.num(ts[2]), g: p.num(ts[3])})
			case "gres", "grej":
				// `a` is undefined at top level
				segs = append(segs, seg{kind: ts[1], g: p.num(ts[2]), v: "(function(){var a;return " + p.v(ts[3]) + ";})()"})
			default:
				return "PARSE-ERROR"
			}
		default:
			return "PARSE-ERROR"
		}
		if p.err != nil {
			return "PARSE-ERROR"
		}
	}

	rt := goja.New()
	currentRT.Store(rt)
	var tracker []trackEntry
	rt.SetPromiseRejectionTracker(func(pr *goja.Promise, op goja.PromiseRejectionOperation) {
		tracker = append(tracker, trackEntry{pr, op})
	})
	act := &actTracker{resumed: map[int]bool{}}
	rt.SetAsyncContextTracker(act)
	rt.Set("INT", func() { rt.Interrupt("int") })
	if _, err := rt.RunString(prelude + defs.String()); err != nil {
		return "SETUP-ERROR " + common.OneLine(err.Error())
	}
	takeE, _ := goja.AssertFunction(rt.Get("takeE"))
	reprF, _ := goja.AssertFunction(rt.Get("repr"))
	pArr := rt.Get("P").ToObject(rt)

	type gores struct{ res, rej func(interface{}) error }
	gslots := map[int]gores{}
	alias := map[*goja.Promise]int{}
	trDone := 0
	var out []string

	classify := func(err error) string {
		if err == nil {
			return "none"
		}
		if _, ok := err.(*goja.InterruptedError); ok {
			return "int"
		}
		if _, ok := err.(*goja.Exception); ok {
			return "exc"
		}
		return "other:" + common.OneLine(err.Error())
	}

	for _, s := range segs {
		errKind := "none"
		switch s.kind {
		case "run":
			if gintUS >= 0 {
				done := make(chan struct{})
				d := time.Duration(gintUS) * time.Microsecond
				gintUS = -1 // first run only
				goCh := make(chan struct{})
				// the script itself releases the second goroutine when it starts executing (after parsing/compiling),
				// so that the delay is measured from the first instruction
				rt.Set("GSTART", func() {
					if goCh != nil {
						close(goCh)
						goCh = nil
						// give the other goroutine a moment to be scheduled; the interrupt then lands at an
						// arbitrary point of the instructions that follow (busy wait: Sleep is far too coarse)
						t0 := time.Now()
					wait:
						for time.Since(t0) < d {
							select {
							case <-done: // Interrupt() has been called: it lands at the next instruction
								break wait
							default:
							}
						}
					}
				})
				go func(ch chan struct{}) {
					<-ch
					rt.Interrupt("goroutine")
					close(done)
				}(goCh)
				pre := "GSTART();"
				if gintN > 0 { // release at the n-th event: wrap the event log (takeE is redefined accordingly)
					pre = fmt.Sprintf("var GN=%d;E.push=function(x){Array.prototype.push.call(this,x);if(this.length===GN)GSTART();};", gintN)
				}
				_, err := rt.RunString(pre + s.js)
				if goCh != nil { // the script never started (cannot happen for the generated programs)
					close(goCh)
					goCh = nil
				}
				<-done
				errKind = classify(err)
				if errKind != "int" {
					rt.ClearInterrupt() // the interrupt arrived after the run had returned
				}
				break
			}
			_, err := rt.RunString(s.js)
			errKind = classify(err)
		case "gnew":
			pr, res, rej := rt.NewPromise()
			gslots[s.g] = gores{res, rej}
			pArr.Set(strconv.Itoa(s.k), pr)
		case "gres", "grej":
			gs, ok := gslots[s.g]
			if !ok {
				break
			}
			val, err := rt.RunString(s.v)
			if err != nil {
				errKind = "other:" + common.OneLine(err.Error())
				break
			}
			if s.kind == "gres" {
				err = gs.res(val)
			} else {
				err = gs.rej(val)
			}
			errKind = classify(err)
		}
		// white-box: queue length and call depth right after the outermost call returned
		qlen := rt.VerifC10JobQueueLen()
		depth := rt.VerifC10CallDepth()
		if errKind == "int" {
			rt.ClearInterrupt()
			act.open = false // an interrupt abandons the open Resumed (Exited is not deferred)
		} else if act.open {
			act.bad = append(act.bad, "open-after-outermost-return")
		}
		ev, err := takeE(goja.Undefined())
		evs := ""
		if err != nil {
			evs = "TAKEE-ERROR"
		} else {
			evs = ev.String()
		}
		var trs []string
		for _, t := range tracker[trDone:] {
			if _, ok := alias[t.p]; !ok {
				alias[t.p] = len(alias)
			}
			o := "r"
			if t.op == goja.PromiseRejectionHandle {
				o = "h"
			}
			trs = append(trs, fmt.Sprintf("T%d:%s", alias[t.p], o))
		}
		trDone = len(tracker)
		line := fmt.Sprintf("ev=%s;tr=%s;q=%d;err=%s", evs, strings.Join(trs, ","), qlen, errKind)
		if depth != 0 {
			line += fmt.Sprintf(";depth=%d", depth)
		}
		out = append(out, line)
	}

	// final states through the Go API
	var sts []string
	n := int(pArr.Get("length").ToInteger())
	for i := 0; i < n; i++ {
		v := pArr.Get(strconv.Itoa(i))
		if v == nil || goja.IsUndefined(v) {
			continue
		}
		pr, ok := v.Export().(*goja.Promise)
		if !ok {
			sts = append(sts, fmt.Sprintf("%d:notpromise", i))
			continue
		}
		st := "P"
		switch pr.State() {
		case goja.PromiseStateFulfilled:
			st = "F"
		case goja.PromiseStateRejected:
			st = "R"
		}
		res := pr.Result()
		rs := "u"
		if res != nil {
			r, err := reprF(goja.Undefined(), res)
			if err != nil {
				rs = "REPR-ERROR"
			} else {
				rs = r.String()
			}
		}
		al := "-"
		if a, ok := alias[pr]; ok {
			al = "T" + strconv.Itoa(a)
		}
		sts = append(sts, fmt.Sprintf("%d:%s:%s:%s", i, st, rs, al))
	}
	if q := rt.VerifC10JobQueueLen(); q != 0 {
		sts = append(sts, fmt.Sprintf("QUEUE-NOT-EMPTY:%d", q))
	}
	if actOnly {
		return "act=" + strings.Join(act.log, ",")
	}
	res := strings.Join(out, " # ") + " # st=" + strings.Join(sts, ",")
	if len(act.bad) > 0 {
		res += " # ACT-VIOLATION:" + strings.Join(act.bad, ",") + ":" + strings.Join(act.log, ",")
	}
	return res
}

// deadline for one case (a case takes well under a millisecond; the limit only catches a runtime that no longer
// terminates).  On expiry the runtime is interrupted; if even that does not end the case the harness prints HANG,
// flushes and exits so that the orchestrator knows exactly which line did it and can go on with the rest.
func caseDeadline() time.Duration {
	if v := os.Getenv("C10_DEADLINE_MS"); v != "" {
		if n, err := strconv.Atoi(v); err == nil && n > 0 {
			return time.Duration(n) * time.Millisecond
		}
	}
	return 20 * time.Second
}

var currentRT atomic.Pointer[goja.Runtime]

func main() {
	in := bufio.NewScanner(os.Stdin)
	in.Buffer(make([]byte, 1<<20), 1<<26)
	out := bufio.NewWriter(os.Stdout)
	defer out.Flush()
	limit := caseDeadline()
	for in.Scan() {
		line := in.Text()
		done := make(chan string, 1)
		go func() { done <- common.Safe(func() string { return runCase(line) }) }()
		var res string
		select {
		case res = <-done:
		case <-time.After(limit):
			if rt := currentRT.Load(); rt != nil {
				rt.Interrupt("deadline")
			}
			select {
			case <-done:
				res = "HANG interrupted-after-deadline"
			case <-time.After(limit/4 + time.Second):
				out.WriteString("HANG\n")
				out.Flush()
				os.Exit(3)
			}
		}
		out.WriteString(res)
		out.WriteByte('\n')
		out.Flush() // per line: after a crash the number of answers identifies the offending line
	}
}
