// Harness for property C11 (Proxy invariant checks, forwarding transparency).
//
// Line protocol (one case per stdin line, one canonical answer per line).  Tokens are space separated.
//
//	W - - <trap> <fields>     white-box: the real post-check of proxy.go is called through verif_hooks_c11.go
//	E <J|G> <S|I|Y> <trap> <fields>   end-to-end: a real target, a real Proxy with a handler (JS object / Go
//	                          ProxyTrapConfig) whose trap does nothing and returns the given result; the
//	                          operation is performed on the proxy through key kind string / index / symbol
//	Q <kind> <layers> <J|G> <op;op;...>   lock-step: see seq.go
//
// Fields per trap (ext: target extensible 0/1; thr: 0 = Reflect.*, 1 = throwing form):
//
//	compat ext cur desc                 (W only)       -> b:0|1
//	gpo ext tproto res                                 -> proto:<n|oID> | TE
//	spo ext tproto v b thr                             -> b:0|1 | TE
//	ie ext b                                           -> b:0|1 | TE
//	pe ext b thr                                       -> b:0|1 | TE
//	gopd ext cur trapdesc                              -> d:- | d:D:V,W,E,C | d:A:G,S,E,C | TE
//	def ext cur desc b thr                             -> b:0|1 | TE
//	has ext cur b                                      -> b:0|1 | TE
//	get ext cur val                                    -> v:<val> | TE
//	set ext cur val b thr                              -> b:0|1 | TE
//	del ext cur b thr                                  -> b:0|1 | TE
//	keys ext tkeys items                               -> k:<keys> | TE      (items `nil`: the trap returns null / nil)
//	cons res                                           -> v:<object> | TE   (construct trap returns res; `new proxy()`)
//
// cur: - | P:V | D:V,W,E,C | A:G,S,E,C      desc: V,W,E,C,G,S ('-' absent)    trapdesc: u | p | desc
// values: u n t f i<int> N z(-0) s<id> y<id> o<id>   (o1,o2 functions; o3,o4 objects; o10,o11 prototypes)
package main

import (
	"fmt"
	"math"
	"os"
	"strconv"
	"strings"

	"github.com/dop251/goja"

	"verifharness/common"
)

type env struct {
	vm      *goja.Runtime
	objs    map[string]*goja.Object
	objName map[*goja.Object]string
	syms    map[string]*goja.Symbol
	symName map[*goja.Symbol]string
	fn      map[string]goja.Callable
	wbProxy [2]*goja.Object // white-box: one proxy over an empty target per extensibility
}

const prelude = `
var __h = {
  mkTarget: function(proto){ return Object.create(proto); },
  def: function(t,k,d){ Object.defineProperty(t,k,d); },
  pe: function(t){ Object.preventExtensions(t); },
  mkProxy: function(t,h){ return new Proxy(t,h); },
  mkHandler: function(name, res){ var h = {}; h[name] = function(){ return res; }; return h; },
  gpo: function(p){ return Reflect.getPrototypeOf(p); },
  spo0: function(p,v){ return Reflect.setPrototypeOf(p,v); },
  spo1: function(p,v){ Object.setPrototypeOf(p,v); return true; },
  ie: function(p){ return Reflect.isExtensible(p); },
  pe0: function(p){ return Reflect.preventExtensions(p); },
  pe1: function(p){ Object.preventExtensions(p); return true; },
  gopd: function(p,k){ return Object.getOwnPropertyDescriptor(p,k); },
  def0: function(p,k,d){ return Reflect.defineProperty(p,k,d); },
  def1: function(p,k,d){ Object.defineProperty(p,k,d); return true; },
  has: function(p,k){ return k in p; },
  get: function(p,k){ return p[k]; },
  set0: function(p,k,v){ return Reflect.set(p,k,v); },
  set1: function(p,k,v){ "use strict"; p[k] = v; return true; },
  del0: function(p,k){ return Reflect.deleteProperty(p,k); },
  del1: function(p,k){ "use strict"; return delete p[k]; },
  keys: function(p){ return Reflect.ownKeys(p); },
  cons: function(p){ return new p(); },
  mkFn: function(){ return function T(){ this.made = 1; }; },
  hasOwn: function(d,k){ return Object.prototype.hasOwnProperty.call(d,k); },
  isTE: function(e){ return e instanceof TypeError; }
};
`

func newEnv() *env {
	e := &env{vm: goja.New(), objs: map[string]*goja.Object{}, objName: map[*goja.Object]string{},
		syms: map[string]*goja.Symbol{}, symName: map[*goja.Symbol]string{}, fn: map[string]goja.Callable{}}
	if _, err := e.vm.RunString(prelude); err != nil {
		panic(err)
	}
	h := e.vm.Get("__h").ToObject(e.vm)
	for _, k := range h.Keys() {
		f, ok := goja.AssertFunction(h.Get(k))
		if !ok {
			panic("prelude: " + k)
		}
		e.fn[k] = f
	}
	mk := func(name, src string) {
		v, err := e.vm.RunString(src)
		if err != nil {
			panic(err)
		}
		o := v.ToObject(e.vm)
		e.objs[name] = o
		e.objName[o] = name
	}
	mk("o1", "(function f1(){ return 1; })")
	mk("o2", "(function f2(v){ })")
	mk("o3", "({tag:3})")
	mk("o4", "({tag:4})")
	mk("o10", "({protoA:1})")
	mk("o11", "({protoB:1})")
	for _, n := range []string{"y1", "y2", "y3", "y4"} {
		s := goja.NewSymbol(n)
		e.syms[n] = s
		e.symName[s] = n
	}
	return e
}

func (e *env) call(name string, args ...goja.Value) (goja.Value, string) {
	v, err := e.fn[name](goja.Undefined(), args...)
	if err != nil {
		return nil, e.errTok(err)
	}
	return v, ""
}

func (e *env) errTok(err error) string {
	if ex, ok := err.(*goja.Exception); ok {
		r, err2 := e.fn["isTE"](goja.Undefined(), ex.Value())
		if err2 == nil && r.ToBoolean() {
			return "TE"
		}
		return "ERR:" + common.OneLine(ex.Error())
	}
	return "GOERR:" + common.OneLine(err.Error())
}

func (e *env) val(tok string) goja.Value {
	switch tok {
	case "u":
		return goja.Undefined()
	case "n":
		return goja.Null()
	case "t":
		return e.vm.ToValue(true)
	case "f":
		return e.vm.ToValue(false)
	case "N":
		return e.vm.ToValue(math.NaN())
	case "z":
		return e.vm.ToValue(math.Copysign(0, -1))
	}
	switch tok[0] {
	case 'i':
		n, err := strconv.Atoi(tok[1:])
		if err != nil {
			panic("bad value token " + tok)
		}
		return e.vm.ToValue(n)
	case 's':
		return e.vm.ToValue("str" + tok[1:])
	case 'y':
		if s, ok := e.syms[tok]; ok {
			return s
		}
	case 'o':
		if o, ok := e.objs[tok]; ok {
			return o
		}
	}
	panic("bad value token " + tok)
}

func (e *env) objOrNil(tok string) *goja.Object {
	if tok == "-" || tok == "n" {
		return nil
	}
	o, ok := e.objs[tok]
	if !ok {
		panic("bad object token " + tok)
	}
	return o
}

func (e *env) enc(v goja.Value) string {
	if v == nil {
		return "u"
	}
	if goja.IsUndefined(v) {
		return "u"
	}
	if goja.IsNull(v) {
		return "n"
	}
	switch x := v.(type) {
	case *goja.Object:
		if n, ok := e.objName[x]; ok {
			return n
		}
		return "o?"
	case *goja.Symbol:
		if n, ok := e.symName[x]; ok {
			return n
		}
		return "y?"
	}
	switch x := v.Export().(type) {
	case bool:
		if x {
			return "t"
		}
		return "f"
	case int64:
		return "i" + strconv.FormatInt(x, 10)
	case float64:
		if math.IsNaN(x) {
			return "N"
		}
		if x == 0 && math.Signbit(x) {
			return "z"
		}
		if x == math.Trunc(x) && math.Abs(x) < 1e15 {
			return "i" + strconv.FormatInt(int64(x), 10)
		}
		return "F" + strconv.FormatUint(math.Float64bits(x), 16)
	case string:
		if strings.HasPrefix(x, "str") {
			return "s" + x[3:]
		}
		return "S" + strconv.Quote(x)
	}
	return "?" + v.String()
}

func flag(tok string) goja.Flag {
	switch tok {
	case "-":
		return goja.FLAG_NOT_SET
	case "0":
		return goja.FLAG_FALSE
	case "1":
		return goja.FLAG_TRUE
	}
	panic("bad flag " + tok)
}

func bit(tok string) bool {
	switch tok {
	case "0":
		return false
	case "1":
		return true
	}
	panic("bad bit " + tok)
}

func b2s(b bool) string {
	if b {
		return "b:1"
	}
	return "b:0"
}

// desc token V,W,E,C,G,S -> PropertyDescriptor
func (e *env) desc(tok string) goja.PropertyDescriptor {
	f := strings.Split(tok, ",")
	if len(f) != 6 {
		panic("bad desc " + tok)
	}
	var d goja.PropertyDescriptor
	if f[0] != "-" {
		d.Value = e.val(f[0])
	}
	d.Writable, d.Enumerable, d.Configurable = flag(f[1]), flag(f[2]), flag(f[3])
	if f[4] != "-" {
		d.Getter = e.val(f[4])
	}
	if f[5] != "-" {
		d.Setter = e.val(f[5])
	}
	return d
}

// desc token -> a plain JS descriptor object with exactly the present fields
func (e *env) descObj(tok string) *goja.Object {
	f := strings.Split(tok, ",")
	if len(f) != 6 {
		panic("bad desc " + tok)
	}
	o := e.vm.NewObject()
	names := []string{"value", "writable", "enumerable", "configurable", "get", "set"}
	for i, n := range names {
		if f[i] == "-" {
			continue
		}
		if i >= 1 && i <= 3 {
			o.Set(n, bit(f[i]))
		} else {
			o.Set(n, e.val(f[i]))
		}
	}
	return o
}

// cur token -> white-box property Value
func (e *env) curProp(tok string) goja.Value {
	if tok == "-" {
		return goja.VerifC11Prop(0, nil, false, false, false, false, nil, nil)
	}
	kind, rest := tok[:2], tok[2:]
	f := strings.Split(rest, ",")
	switch kind {
	case "P:":
		return goja.VerifC11Prop(1, e.val(f[0]), true, true, true, false, nil, nil)
	case "D:":
		return goja.VerifC11Prop(2, e.val(f[0]), bit(f[1]), bit(f[3]), bit(f[2]), false, nil, nil)
	case "A:":
		return goja.VerifC11Prop(2, nil, false, bit(f[3]), bit(f[2]), true, e.objOrNil(f[0]), e.objOrNil(f[1]))
	}
	panic("bad cur " + tok)
}

// cur token -> descriptor object used to create the property on a real target
func (e *env) curDescObj(tok string) *goja.Object {
	kind, rest := tok[:2], tok[2:]
	f := strings.Split(rest, ",")
	o := e.vm.NewObject()
	switch kind {
	case "P:":
		o.Set("value", e.val(f[0]))
		o.Set("writable", true)
		o.Set("enumerable", true)
		o.Set("configurable", true)
	case "D:":
		o.Set("value", e.val(f[0]))
		o.Set("writable", bit(f[1]))
		o.Set("enumerable", bit(f[2]))
		o.Set("configurable", bit(f[3]))
	case "A:":
		if g := e.objOrNil(f[0]); g != nil {
			o.Set("get", g)
		} else {
			o.Set("get", goja.Undefined())
		}
		if s := e.objOrNil(f[1]); s != nil {
			o.Set("set", s)
		} else {
			o.Set("set", goja.Undefined())
		}
		o.Set("enumerable", bit(f[2]))
		o.Set("configurable", bit(f[3]))
	default:
		panic("bad cur " + tok)
	}
	return o
}

func bs(b bool) string {
	if b {
		return "1"
	}
	return "0"
}

// canonical form of a white-box property Value
func (e *env) encProp(v goja.Value) string {
	kind, value, w, c, en, acc, g, s := goja.VerifC11PropInfo(v)
	switch kind {
	case 0:
		return "d:-"
	case 1:
		return "d:D:" + e.enc(value) + ",1,1,1"
	}
	if acc {
		return "d:A:" + e.encObjOrNil(g) + "," + e.encObjOrNil(s) + "," + bs(en) + "," + bs(c)
	}
	return "d:D:" + e.enc(value) + "," + bs(w) + "," + bs(en) + "," + bs(c)
}

func (e *env) encObjOrNil(o *goja.Object) string {
	if o == nil {
		return "-"
	}
	return e.enc(o)
}

// canonical form of a JS descriptor object (result of Object.getOwnPropertyDescriptor)
func (e *env) encDescObj(v goja.Value) string {
	if v == nil || goja.IsUndefined(v) {
		return "d:-"
	}
	o := v.ToObject(e.vm)
	has := func(k string) bool {
		r, _ := e.call("hasOwn", o, e.vm.ToValue(k))
		return r != nil && r.ToBoolean()
	}
	fn := func(k string) string {
		x := o.Get(k)
		if x == nil || goja.IsUndefined(x) {
			return "-"
		}
		return e.enc(x)
	}
	if has("get") || has("set") {
		return "d:A:" + fn("get") + "," + fn("set") + "," + bs(o.Get("enumerable").ToBoolean()) + "," + bs(o.Get("configurable").ToBoolean())
	}
	return "d:D:" + e.enc(o.Get("value")) + "," + bs(o.Get("writable").ToBoolean()) + "," + bs(o.Get("enumerable").ToBoolean()) + "," + bs(o.Get("configurable").ToBoolean())
}

// ---------------------------------------------------------------- target / proxy construction

func (e *env) key(kk string) goja.Value {
	switch kk {
	case "S", "-":
		return e.vm.ToValue("x")
	case "I":
		return e.vm.ToValue(7)
	case "N": // a canonical numeric STRING key: the same property as index 7, routed to the Idx traps of a Go handler
		return e.vm.ToValue("7")
	case "Y":
		return e.syms["y1"]
	}
	panic("bad key kind " + kk)
}

// a real target: prototype, one property per cur (under the key), extensibility
func (e *env) mkTarget(proto goja.Value, key goja.Value, cur string, ext bool) *goja.Object {
	t, st := e.call("mkTarget", proto)
	if st != "" {
		panic("mkTarget: " + st)
	}
	if cur != "-" && cur != "" {
		if _, st := e.call("def", t, key, e.curDescObj(cur)); st != "" {
			panic("def: " + st)
		}
	}
	if !ext {
		e.call("pe", t)
	}
	return t.ToObject(e.vm)
}

func (e *env) emptyProxy(target *goja.Object) *goja.Object {
	return e.vm.ToValue(e.vm.NewProxy(target, &goja.ProxyTrapConfig{})).ToObject(e.vm)
}

// white-box cases only need a proxyObject whose target has the given extensibility
func (e *env) wb(ext bool) *goja.Object {
	i := 0
	if ext {
		i = 1
	}
	if e.wbProxy[i] == nil {
		e.wbProxy[i] = e.emptyProxy(e.mkTarget(goja.Null(), e.key("S"), "-", ext))
	}
	return e.wbProxy[i]
}

var trapJSName = map[string]string{
	"gpo": "getPrototypeOf", "spo": "setPrototypeOf", "ie": "isExtensible", "pe": "preventExtensions",
	"gopd": "getOwnPropertyDescriptor", "def": "defineProperty", "has": "has", "get": "get", "set": "set",
	"del": "deleteProperty", "keys": "ownKeys", "cons": "construct",
}

// JS handler whose single trap ignores its arguments and returns res
func (e *env) jsProxy(target *goja.Object, trap string, res goja.Value) *goja.Object {
	h, st := e.call("mkHandler", e.vm.ToValue(trapJSName[trap]), res)
	if st != "" {
		panic("mkHandler: " + st)
	}
	p, st := e.call("mkProxy", target, h)
	if st != "" {
		panic("mkProxy: " + st)
	}
	return p.ToObject(e.vm)
}

// ---------------------------------------------------------------- key lists

var keyNames = map[byte]string{'a': "ka", 'b': "kb", 'c': "kc", 'd': "kd"}

func (e *env) keyVal(c byte) goja.Value {
	switch c {
	case 'a', 'b', 'c', 'd':
		return e.vm.ToValue(keyNames[c])
	case '7':
		return e.vm.ToValue("7")
	case 'y':
		return e.syms["y1"]
	case 'w':
		return e.syms["y2"]
	case '!':
		return e.vm.ToValue(42) // neither String nor Symbol
	}
	panic("bad key char " + string(c))
}

func (e *env) encKey(v goja.Value) string {
	if s, ok := v.(*goja.Symbol); ok {
		switch e.symName[s] {
		case "y1":
			return "y"
		case "y2":
			return "w"
		}
		return "?"
	}
	switch v.String() {
	case "ka":
		return "a"
	case "kb":
		return "b"
	case "kc":
		return "c"
	case "kd":
		return "d"
	case "7":
		return "7"
	}
	return "?" + v.String()
}

func (e *env) encKeys(v goja.Value) string {
	o := v.ToObject(e.vm)
	n := int(o.Get("length").ToInteger())
	parts := make([]string, 0, n)
	for i := 0; i < n; i++ {
		parts = append(parts, e.encKey(o.Get(strconv.Itoa(i))))
	}
	if len(parts) == 0 {
		return "k:-"
	}
	return "k:" + strings.Join(parts, ",")
}

func splitList(tok string) []string {
	if tok == "-" {
		return nil
	}
	return strings.Split(tok, ",")
}

// ---------------------------------------------------------------- white-box cases

func (e *env) white(trap string, f []string) string {
	switch trap {
	case "compat":
		ext, cur, d := bit(f[0]), e.curProp(f[1]), e.desc(f[2])
		wbp := e.wb(true)
		return b2s(goja.VerifC11IsCompatible(wbp, ext, d, cur))
	case "def":
		ext, cur, d, b, thr := bit(f[0]), e.curProp(f[1]), e.desc(f[2]), bit(f[3]), bit(f[4])
		if !b { // proxy.go:378 proxyDefineOwnPropertyPreCheck, trivially mirrored
			if thr {
				return "TE"
			}
			return "b:0"
		}
		wbp := e.wb(ext)
		if st := goja.VerifC11DefinePostCheck(wbp, cur, d); st != "" {
			return st
		}
		return "b:1"
	case "has":
		ext, cur, b := bit(f[0]), e.curProp(f[1]), bit(f[2])
		if b {
			return "b:1"
		}
		wbp := e.wb(ext)
		if st := goja.VerifC11HasChecks(wbp, cur); st != "" {
			return st
		}
		return "b:0"
	case "gopd":
		ext, cur := bit(f[0]), e.curProp(f[1])
		var trapRes goja.Value
		switch f[2] {
		case "u":
			trapRes = goja.Undefined()
		case "p":
			trapRes = e.vm.ToValue(5)
		default:
			trapRes = e.descObj(f[2])
		}
		wbp := e.wb(ext)
		ret, st := goja.VerifC11GetOwnPropertyDescriptor(wbp, cur, trapRes)
		if st != "" {
			return st
		}
		return e.encProp(ret)
	case "get":
		cur, v := e.curProp(f[1]), e.val(f[2])
		wbp := e.wb(bit(f[0]))
		if st := goja.VerifC11GetChecks(wbp, cur, v); st != "" {
			return st
		}
		return "v:" + e.enc(v)
	case "set":
		cur, v, b, thr := e.curProp(f[1]), e.val(f[2]), bit(f[3]), bit(f[4])
		if !b { // proxy.go:639 proxySetPreCheck
			if thr {
				return "TE"
			}
			return "b:0"
		}
		wbp := e.wb(bit(f[0]))
		if st := goja.VerifC11SetPostCheck(wbp, cur, v); st != "" {
			return st
		}
		return "b:1"
	case "del":
		ext, cur, b, thr := bit(f[0]), e.curProp(f[1]), bit(f[2]), bit(f[3])
		wbp := e.wb(ext)
		if st := goja.VerifC11DeleteCheck(wbp, b, cur, thr); st != "" {
			return st
		}
		return b2s(b)
	}
	return "UNSUPPORTED"
}

// ---------------------------------------------------------------- end-to-end cases

func (e *env) result(v goja.Value, st string, f func(goja.Value) string) string {
	if st != "" {
		return st
	}
	return f(v)
}

func (e *env) encBool(v goja.Value) string { return b2s(v.ToBoolean()) }

func (e *env) e2e(hk, kk, trap string, f []string) string {
	key := e.key(kk)
	vm := e.vm
	cfg := &goja.ProxyTrapConfig{}
	mk := func(target *goja.Object, jsRes goja.Value) *goja.Object {
		if hk == "J" {
			return e.jsProxy(target, trap, jsRes)
		}
		return vm.ToValue(vm.NewProxy(target, cfg)).ToObject(vm)
	}
	switch trap {
	case "gpo":
		ext, tp, res := bit(f[0]), e.val(f[1]), e.val(f[2])
		t := e.mkTarget(tp, key, "-", ext)
		cfg.GetPrototypeOf = func(*goja.Object) *goja.Object {
			o, _ := res.(*goja.Object)
			return o
		}
		v, st := e.call("gpo", mk(t, res))
		return e.result(v, st, func(v goja.Value) string { return "proto:" + e.enc(v) })
	case "spo":
		ext, tp, v, b, thr := bit(f[0]), e.val(f[1]), e.val(f[2]), bit(f[3]), f[4]
		t := e.mkTarget(tp, key, "-", ext)
		cfg.SetPrototypeOf = func(*goja.Object, *goja.Object) bool { return b }
		r, st := e.call("spo"+thr, mk(t, vm.ToValue(b)), v)
		return e.result(r, st, e.encBool)
	case "ie":
		ext, b := bit(f[0]), bit(f[1])
		t := e.mkTarget(goja.Null(), key, "-", ext)
		cfg.IsExtensible = func(*goja.Object) bool { return b }
		r, st := e.call("ie", mk(t, vm.ToValue(b)))
		return e.result(r, st, e.encBool)
	case "pe":
		ext, b, thr := bit(f[0]), bit(f[1]), f[2]
		t := e.mkTarget(goja.Null(), key, "-", ext)
		cfg.PreventExtensions = func(*goja.Object) bool { return b }
		r, st := e.call("pe"+thr, mk(t, vm.ToValue(b)))
		return e.result(r, st, e.encBool)
	case "gopd":
		ext, cur := bit(f[0]), f[1]
		t := e.mkTarget(goja.Null(), key, cur, ext)
		var jsRes goja.Value
		var goRes goja.PropertyDescriptor
		switch f[2] {
		case "u":
			jsRes = goja.Undefined()
		case "p":
			jsRes = vm.ToValue(5)
		default:
			jsRes = e.descObj(f[2])
			goRes = e.desc(f[2])
		}
		switch kk {
		case "I", "N":
			cfg.GetOwnPropertyDescriptorIdx = func(*goja.Object, int) goja.PropertyDescriptor { return goRes }
		case "Y":
			cfg.GetOwnPropertyDescriptorSym = func(*goja.Object, *goja.Symbol) goja.PropertyDescriptor { return goRes }
		default:
			cfg.GetOwnPropertyDescriptor = func(*goja.Object, string) goja.PropertyDescriptor { return goRes }
		}
		r, st := e.call("gopd", mk(t, jsRes), key)
		return e.result(r, st, e.encDescObj)
	case "def":
		ext, cur, b, thr := bit(f[0]), f[1], bit(f[3]), f[4]
		t := e.mkTarget(goja.Null(), key, cur, ext)
		switch kk {
		case "I", "N":
			cfg.DefinePropertyIdx = func(*goja.Object, int, goja.PropertyDescriptor) bool { return b }
		case "Y":
			cfg.DefinePropertySym = func(*goja.Object, *goja.Symbol, goja.PropertyDescriptor) bool { return b }
		default:
			cfg.DefineProperty = func(*goja.Object, string, goja.PropertyDescriptor) bool { return b }
		}
		r, st := e.call("def"+thr, mk(t, vm.ToValue(b)), key, e.descObj(f[2]))
		return e.result(r, st, e.encBool)
	case "has":
		ext, cur, b := bit(f[0]), f[1], bit(f[2])
		t := e.mkTarget(goja.Null(), key, cur, ext)
		switch kk {
		case "I", "N":
			cfg.HasIdx = func(*goja.Object, int) bool { return b }
		case "Y":
			cfg.HasSym = func(*goja.Object, *goja.Symbol) bool { return b }
		default:
			cfg.Has = func(*goja.Object, string) bool { return b }
		}
		r, st := e.call("has", mk(t, vm.ToValue(b)), key)
		return e.result(r, st, e.encBool)
	case "get":
		ext, cur, v := bit(f[0]), f[1], e.val(f[2])
		t := e.mkTarget(goja.Null(), key, cur, ext)
		switch kk {
		case "I", "N":
			cfg.GetIdx = func(*goja.Object, int, goja.Value) goja.Value { return v }
		case "Y":
			cfg.GetSym = func(*goja.Object, *goja.Symbol, goja.Value) goja.Value { return v }
		default:
			cfg.Get = func(*goja.Object, string, goja.Value) goja.Value { return v }
		}
		r, st := e.call("get", mk(t, v), key)
		return e.result(r, st, func(v goja.Value) string { return "v:" + e.enc(v) })
	case "set":
		ext, cur, v, b, thr := bit(f[0]), f[1], e.val(f[2]), bit(f[3]), f[4]
		t := e.mkTarget(goja.Null(), key, cur, ext)
		switch kk {
		case "I", "N":
			cfg.SetIdx = func(*goja.Object, int, goja.Value, goja.Value) bool { return b }
		case "Y":
			cfg.SetSym = func(*goja.Object, *goja.Symbol, goja.Value, goja.Value) bool { return b }
		default:
			cfg.Set = func(*goja.Object, string, goja.Value, goja.Value) bool { return b }
		}
		r, st := e.call("set"+thr, mk(t, vm.ToValue(b)), key, v)
		return e.result(r, st, e.encBool)
	case "del":
		ext, cur, b, thr := bit(f[0]), f[1], bit(f[2]), f[3]
		t := e.mkTarget(goja.Null(), key, cur, ext)
		switch kk {
		case "I", "N":
			cfg.DeletePropertyIdx = func(*goja.Object, int) bool { return b }
		case "Y":
			cfg.DeletePropertySym = func(*goja.Object, *goja.Symbol) bool { return b }
		default:
			cfg.DeleteProperty = func(*goja.Object, string) bool { return b }
		}
		r, st := e.call("del"+thr, mk(t, vm.ToValue(b)), key)
		return e.result(r, st, e.encBool)
	case "cons":
		res := e.val(f[0])
		tv, st := e.call("mkFn")
		if st != "" {
			panic("mkFn: " + st)
		}
		t := tv.ToObject(vm)
		cfg.Construct = func(*goja.Object, []goja.Value, *goja.Object) *goja.Object {
			o, _ := res.(*goja.Object) // null / a primitive cannot be expressed: nil
			return o
		}
		r, st := e.call("cons", mk(t, res))
		return e.result(r, st, func(v goja.Value) string { return "v:" + e.enc(v) })
	case "keys":
		ext := bit(f[0])
		t := e.mkTarget(goja.Null(), key, "-", true)
		for _, kc := range splitList(f[1]) {
			d := vm.NewObject()
			d.Set("value", 1)
			d.Set("writable", true)
			d.Set("enumerable", true)
			d.Set("configurable", kc[1] == '1')
			if _, st := e.call("def", t, e.keyVal(kc[0]), d); st != "" {
				panic("keys def: " + st)
			}
		}
		if !ext {
			e.call("pe", t)
		}
		if f[2] == "nil" { // the trap returns null (JS) / a nil *Object (Go)
			cfg.OwnKeys = func(*goja.Object) *goja.Object { return nil }
			r, st := e.call("keys", mk(t, goja.Null()))
			return e.result(r, st, e.encKeys)
		}
		var items []interface{}
		for _, it := range splitList(f[2]) {
			items = append(items, e.keyVal(it[0]))
		}
		arr := vm.NewArray(items...)
		cfg.OwnKeys = func(*goja.Object) *goja.Object { return arr }
		r, st := e.call("keys", mk(t, arr))
		return e.result(r, st, e.encKeys)
	}
	return "UNSUPPORTED"
}

func main() {
	e := newEnv()
	n := 0
	common.Loop(func(line string) string {
		f := strings.Fields(line)
		if len(f) < 4 {
			return "BADLINE"
		}
		n++
		if n%20000 == 0 { // bound the heap: objects of earlier cases are garbage, but start afresh now and then
			e = newEnv()
		}
		switch f[0] {
		case "W":
			return e.white(f[3], f[4:])
		case "E":
			return e.e2e(f[1], f[2], f[3], f[4:])
		case "Q":
			return runSeq(f[1:])
		}
		return "BADMODE"
	})
	_ = fmt.Sprint
	_ = os.Stderr
}
