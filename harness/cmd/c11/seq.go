package main

// Correspondence B (lock-step): the same operation history is applied to a target T1 directly and to
// proxy^n(T2) where T2 is an identical twin of T1 and every layer's handler forwards every trap to the
// corresponding Reflect function (JS handler object, or Go ProxyTrapConfig whose closures call Reflect.*).
// After every operation the two results are compared; at the end the two targets' states are compared.
// Every handler logs "<layer>:<trap>"; the log and, per operation, the facts a proxy post-check can consult
// (own property / extensibility / prototype / own keys of the base target AFTER the operation) are printed so
// that the Lean layer model (Model.lean proxyLayer over a scripted base) can predict the trap-call sequence.
//
//	Q <kind> <layers> <J|G> <op;op;...>
//	-> OK <op>#<result>#<facts>#<log> | ...   or   MISMATCH@<i> op=<op> direct=<r> proxy=<r>   or   STATE-MISMATCH ...

import (
	"strings"

	"github.com/dop251/goja"

	"verifharness/common"
)

const seqPrelude = `
var SEQ = (function(){
  "use strict";
  var TRAPS = ["getPrototypeOf","setPrototypeOf","isExtensible","preventExtensions","getOwnPropertyDescriptor",
               "defineProperty","has","get","set","deleteProperty","ownKeys","apply","construct"];
  var SY1 = Symbol("y1"), SY2 = Symbol("y2");
  var PA = {protoA:1}, PB = {protoB:1};
  var F1 = function f1(){ return 1; }, F2 = function f2(v){ this._s = v; };
  var O3 = {tag:3};
  var NAMES = new Map([[PA,"o10"],[PB,"o11"],[F1,"o1"],[F2,"o2"],[O3,"o3"],[Object.prototype,"oObjP"],[Array.prototype,"oArrP"],
     [Function.prototype,"oFnP"],[String.prototype,"oStrP"],[Uint8Array.prototype,"oU8P"]]);
  var SYMS = new Map([[SY1,"y1"],[SY2,"y2"],[Symbol.iterator,"yIter"],[Symbol.toStringTag,"yTag"]]);

  function mkKind(kind){
    var o;
    switch(kind){
    case "obj":
      o = {x:1, y:2};
      Object.defineProperty(o,"g",{get:F1,set:F2,configurable:true,enumerable:false});
      Object.defineProperty(o,"nc",{value:7,writable:false,configurable:false,enumerable:true});
      Object.defineProperty(o,"na",{get:F1,set:undefined,configurable:false,enumerable:false});
      Object.defineProperty(o,"nw",{value:8,writable:true,configurable:false,enumerable:true});
      o[SY1] = 9; o[7] = 70;
      return o;
    case "pidx":   // the prototype chain carries an indexed accessor, an indexed read-only data property and a frozen string property
      var pr = {};
      Object.defineProperty(pr, "1", {get: function(){ return this === undefined ? "u" : 11; }, set: F2, configurable: true, enumerable: true});
      Object.defineProperty(pr, "2", {value: 22, writable: false, configurable: true, enumerable: true});
      Object.defineProperty(pr, "ro", {value: 5, writable: false, configurable: false, enumerable: false});
      o = Object.create(pr); o[0] = 1; o.x = 1; return o;
    case "parr":   // an array whose prototype chain carries an indexed setter (holes fall through to it)
      var pa = Object.create(Array.prototype);
      Object.defineProperty(pa, "1", {get: F1, set: F2, configurable: true});
      o = [1,,3]; Object.setPrototypeOf(o, pa); return o;
    case "uacc": o = {x:1}; Object.defineProperty(o,"q",{get:undefined,set:undefined,configurable:true,enumerable:true}); return o;
    case "pobj": o = Object.create(PA); o.x = 1; return o;
    case "nobj": o = Object.create(null); o.x = 1; return o;
    case "frozen": o = {x:1}; Object.defineProperty(o,"g",{get:F1,configurable:true}); return Object.freeze(o);
    case "arr": return [1,2,3];
    case "sparse": o = [1,,3]; o.x = 5; return o;
    case "fn": o = function(a){ return (a|0)+1; }; o.x = 1;
      // funcObject creates 'prototype' lazily: its position among the own keys depends on whether the keys were listed
      // before a later property was added (still reproduces after d5289af; design/C11.md §4).  Materialise it in both twins.
      Reflect.ownKeys(o); return o;
    case "fnlazy": o = function(a){ return (a|0)+1; }; o.x = 1; return o;
    case "args": return (function(a,b){ return arguments; })(1,2);
    case "margs": return (function(a,b){ "non-strict-marker"; return arguments; }).call(null,1,2);
    case "ta": return new Uint8Array([1,2,3]);
    case "str": o = new String("ab"); o.x = 1; return o;
    }
    throw new Error("bad kind "+kind);
  }
  // sloppy-mode mapped arguments need a sloppy function: built outside this strict closure
  function cv(v, self){
    if (v === undefined) return "u"; if (v === null) return "n"; if (v === true) return "t"; if (v === false) return "f";
    if (typeof v === "number"){ if (v !== v) return "N"; if (v === 0 && 1/v < 0) return "z"; return "i"+v; }
    if (typeof v === "string") return "S"+encodeURIComponent(v);
    if (typeof v === "symbol") return SYMS.get(v) || "y?";
    if (typeof v === "bigint") return "B"+v;
    if (self && self.indexOf(v) >= 0) return "self";
    var n = NAMES.get(v); if (n) return n;
    return "O{"+shallow(v)+"}";
  }
  function ck(k){ return typeof k === "symbol" ? (SYMS.get(k) || "y?") : "k"+encodeURIComponent(k); }
  function cd(d, self){
    if (d === undefined) return "-";
    if ("get" in d || "set" in d) return "A:"+cv(d.get,self)+","+cv(d.set,self)+","+(d.enumerable?1:0)+","+(d.configurable?1:0);
    return "D:"+cv(d.value,self)+","+(d.writable?1:0)+","+(d.enumerable?1:0)+","+(d.configurable?1:0);
  }
  function shallow(o){
    var ks = Reflect.ownKeys(o), out = [];
    for (var i = 0; i < ks.length; i++){
      var d = Reflect.getOwnPropertyDescriptor(o, ks[i]);
      out.push(ck(ks[i])+"="+(d && "value" in d ? (typeof d.value === "object" && d.value !== null || typeof d.value === "function" ? (NAMES.get(d.value)||"obj") : cv(d.value)) : "acc"));
    }
    out.sort();
    return (Array.isArray(o)?"A":"")+out.slice(0, 12).join(",");
  }
  function dump(o, self){
    var ks = Reflect.ownKeys(o), out = [];
    for (var i = 0; i < ks.length; i++) out.push(ck(ks[i])+"="+cd(Reflect.getOwnPropertyDescriptor(o, ks[i]), self));
    return "ext="+(Reflect.isExtensible(o)?1:0)+";proto="+cv(Reflect.getPrototypeOf(o), self)+";"+out.join(";");
  }
  function key(tok){
    if (tok === "y1") return SY1; if (tok === "y2") return SY2;
    if (tok === "yIter") return Symbol.iterator; if (tok === "yTag") return Symbol.toStringTag;
    if (/^i-?[0-9]+$/.test(tok)) return +tok.slice(1);
    return tok;
  }
  function val(tok){
    switch(tok){ case "u": return undefined; case "n": return null; case "t": return true; case "f": return false;
      case "N": return NaN; case "z": return -0; case "o1": return F1; case "o2": return F2; case "o3": return O3;
      case "o10": return PA; case "o11": return PB; }
    if (tok[0] === "i") return +tok.slice(1);
    if (tok[0] === "s") return "str"+tok.slice(1);
    throw new Error("bad value "+tok);
  }
  function desc(tok){
    var f = tok.split(","), d = {}, names = ["value","writable","enumerable","configurable","get","set"];
    for (var i = 0; i < 6; i++){ if (f[i] === "-") continue; d[names[i]] = (i >= 1 && i <= 3) ? f[i] === "1" : val(f[i]); }
    return d;
  }
  var sloppySet = Function("o","k","v","o[k] = v; return true;");
  var sloppyDel = Function("o","k","return delete o[k];");
  function doOp(X, op, R){
    var f = op.split("/"), k = f.length > 1 ? key(f[1]) : undefined;
    switch(f[0]){
    case "get": return X[k];
    case "rget": return Reflect.get(X, k, R);
    case "set": return Reflect.set(X, k, val(f[2]));
    case "sset": X[k] = val(f[2]); return true;
    case "lset": return sloppySet(X, k, val(f[2]));
    case "rset": return Reflect.set(X, k, val(f[2]), R);
    case "has": return k in X;
    case "hasOwn": return Object.prototype.hasOwnProperty.call(X, k);
    case "del": return Reflect.deleteProperty(X, k);
    case "sdel": return delete X[k];
    case "ldel": return sloppyDel(X, k);
    case "def": return Reflect.defineProperty(X, k, desc(f[2]));
    case "odef": Object.defineProperty(X, k, desc(f[2])); return true;
    case "gopd": return {__desc: Reflect.getOwnPropertyDescriptor(X, k)};
    case "keys": return {__keys: Reflect.ownKeys(X)};
    case "okeys": return {__keys: Object.keys(X)};
    case "names": return {__keys: Object.getOwnPropertyNames(X)};
    case "syms": return {__keys: Object.getOwnPropertySymbols(X)};
    case "forin": var a = []; for (var q in X) a.push(q); return {__keys: a};
    case "entries": return {__keys: Object.entries(X).map(function(e){ return e[0]+"~"+cv(e[1]); })};
    case "gpo": return Reflect.getPrototypeOf(X);
    case "spo": return Reflect.setPrototypeOf(X, val(f[1]));
    case "ospo": Object.setPrototypeOf(X, val(f[1])); return true;
    case "ie": return Reflect.isExtensible(X);
    case "pe": return Reflect.preventExtensions(X);
    case "ope": Object.preventExtensions(X); return true;
    case "freeze": Object.freeze(X); return true;
    case "seal": Object.seal(X); return true;
    case "isFrozen": return Object.isFrozen(X);
    case "isSealed": return Object.isSealed(X);
    case "call": return X(val(f[1]));
    case "new": return {__keys: Reflect.ownKeys(new X(val(f[1])))};
    case "json": return JSON.stringify(X);
    case "assign": return {__keys: Object.entries(Object.assign({}, X)).map(function(e){ return e[0]+"~"+cv(e[1]); })};
    case "isArray": return Array.isArray(X);
    case "typeof": return typeof X;
    case "pie": return Object.prototype.propertyIsEnumerable.call(X, k);
    case "instanceof": return X instanceof Object;
    }
    throw new Error("bad op "+op);
  }
  function cres(r, self){
    if (r !== null && typeof r === "object"){
      if ("__desc" in r) return "d:"+cd(r.__desc, self);
      if ("__keys" in r) return "k:"+r.__keys.map(function(k){ return typeof k === "symbol" ? ck(k) : "k"+encodeURIComponent(k); }).join(",");
    }
    return "v:"+cv(r, self);
  }
  function attempt(X, op, R, self){
    try { return cres(doOp(X, op, R), self); }
    catch (e) { return "T:"+(e && e.constructor && e.constructor.name || "?"); }
  }
  function jsHandler(layer, log){
    var h = {};
    TRAPS.forEach(function(t){ h[t] = function(){ log.push(layer+":"+t); return Reflect[t].apply(null, arguments); }; });
    return h;
  }
  function facts(T, op, self){
    var f = op.split("/"), k = f.length > 1 && !/^(spo|ospo|call|new)$/.test(f[0]) ? key(f[1]) : undefined;
    var own = k === undefined ? "-" : cd(Reflect.getOwnPropertyDescriptor(T, k), self);
    return "own="+own+";ext="+(Reflect.isExtensible(T)?1:0)+";proto="+cv(Reflect.getPrototypeOf(T), self)+
           ";keys="+Reflect.ownKeys(T).map(ck).join(",");
  }
  function run(kind, layers, mkProxy, ops){
    var mk = kind === "margs" ? function(){ return SEQ_SLOPPY_ARGS(1,2); } : function(){ return mkKind(kind); };
    var inproto = /^inproto-/.test(kind);
    if (inproto){ var bk = kind.slice(8); mk = function(){ return mkKind(bk); }; }
    var T1 = mk(), T2 = mk(), R1 = {r:1}, R2 = {r:1};
    var log = [], P = T2, i;
    for (i = 1; i <= layers; i++) P = mkProxy(P, i, log);
    var self = [T1, T2, P], out = [];
    var B1 = T1, B2 = T2;
    if (inproto){
      // the proxy sits in the PROTOTYPE chain: operations go to an ordinary child object, the proxy sees them as
      // inherited lookups with the child as receiver
      T1 = Object.create(B1); T1.own = 1; P = Object.create(P); P.own = 1;
      NAMES.set(B1, "base"); NAMES.set(B2, "base"); NAMES.set(Reflect.getPrototypeOf(P), "base");
      self = [T1, P];
    }
    for (i = 0; i < ops.length; i++){
      var a = attempt(T1, ops[i], R1, self);
      var mark = log.length;
      var b = attempt(P, ops[i], R2, self);
      if (a !== b) return "MISMATCH@"+i+" op="+ops[i]+" direct="+a+" proxy="+b;
      out.push(ops[i]+"#"+a+"#"+facts(T1, ops[i], self)+"#"+(inproto ? "" : log.slice(mark).join(",")));
    }
    var d1 = dump(T1, self), d2 = dump(inproto ? P : T2, self);
    if (d1 !== d2) return "STATE-MISMATCH direct="+d1+" proxied="+d2;
    if (inproto){
      NAMES.delete(B1); NAMES.delete(B2);
      d1 = dump(B1, self); d2 = dump(B2, self);
      if (d1 !== d2) return "BASE-STATE-MISMATCH direct="+d1+" proxied="+d2;
    }
    var r1 = dump(R1, self), r2 = dump(R2, self);
    if (r1 !== r2) return "RECEIVER-MISMATCH direct="+r1+" proxied="+r2;
    return "OK "+out.join(" | ");
  }
  // every operation on a revoked proxy must throw TypeError
  function revoked(kind, mkRevoked){
    var P = mkRevoked(mkKind(kind)), bad = [];
    var ops = ["get/x","set/x/i1","has/x","del/x","def/x/i1,1,1,1,-,-","gopd/x","keys","gpo","spo/n","ie","pe","okeys","forin"];
    if (kind === "fn") { ops.push("call/i1"); ops.push("new/i1"); }
    for (var i = 0; i < ops.length; i++){ var r = attempt(P, ops[i], {}, []); if (r !== "T:TypeError") bad.push(ops[i]+"="+r); }
    return bad.length ? "NOT-THROWN "+bad.join(",") : "OK "+ops.length;
  }
  // an outer proxy whose ownKeys trap LIES about the keys of T (wrapped in inner forwarding layers); every other trap absent
  function keylie(T, inner, mkProxy, mkOuter, variant, ne, api){
    if (ne) Reflect.preventExtensions(T);
    var log = [], P = T, i;
    for (i = 1; i <= inner; i++) P = mkProxy(P, i, log);
    var ks = Reflect.ownKeys(T);
    var tk = ks.map(function(k){ return ck(k)+":"+(Reflect.getOwnPropertyDescriptor(T, k).configurable ? 1 : 0); });
    var lie = ks.slice(), m;
    if ((m = /^omit([0-9]+)$/.exec(variant))){ if (+m[1] >= ks.length) return "NA"; lie.splice(+m[1], 1); }
    else if (variant === "perm") lie.reverse();
    else if (variant === "dup"){ if (!ks.length) return "NA"; lie.push(ks[0]); }
    else if (variant === "extra") lie.push("zz9");
    else if (variant === "empty") lie = [];
    else if (variant !== "honest") throw new Error("bad variant "+variant);
    var outer = mkOuter(P, lie.slice());
    var r;
    try {
      var got = api === "n" ? Object.getOwnPropertyNames(outer) : api === "s" ? Object.getOwnPropertySymbols(outer)
              : api === "k" ? Object.keys(outer) : Reflect.ownKeys(outer);
      r = "k:"+got.map(ck).join(",");
    } catch (e) { r = "T:"+(e && e.constructor && e.constructor.name || "?"); }
    return r+"#ext="+(Reflect.isExtensible(T)?1:0)+"#"+tk.join(",")+"#"+lie.map(ck).join(",");
  }
  // callable / constructor proxies: typeof, [[Call]], IsConstructor, [[Construct]] of proxy^n(T) against T itself
  function mkCallable(kind){
    switch(kind){
    case "fn": return function(a){ return (a|0)+1; };
    case "arrow": return Function("return (a) => (a|0)+2")();
    case "method": return ({m(a){ return (a|0)+3; }}).m;
    case "cls": return Function("return class C { constructor(a){ this.a = a; } }")();
    case "dcls": return Function("return class D extends Array { }")();
    case "bound": return (function(a){ return (a|0)+4; }).bind(null);
    case "async": return Function("return async function(a){ return 1; }")();
    case "gen": return Function("return function*(a){ yield 1; }")();
    case "bfn": return Math.max;
    case "bctor": return Number;       // a built-in constructor that is also callable, deterministic (Date() reads the clock)
    case "obj": return {x:1};
    case "arr": return [1,2];
    case "pfn": return new Proxy(function(a){ return (a|0)+5; }, {});
    }
    throw new Error("bad callable kind "+kind);
  }
  function kindFacts(X, T){
    var f = ["typeof="+typeof X];
    try { var r = Reflect.apply(X, undefined, [7]); f.push("call=ok:"+(r !== null && (typeof r === "object" || typeof r === "function") ? "obj" : cv(r))); }
    catch (e) { f.push("call="+(e && e.constructor && e.constructor.name)); }
    var isCtor; try { Reflect.construct(Object, [], X); isCtor = 1; } catch (e) { isCtor = 0; }
    f.push("isCtor="+isCtor);
    try { var o = new X(7); f.push("new=ok:"+(Reflect.getPrototypeOf(o) === T.prototype ? "proto" : "other")+":"+(Array.isArray(o)?"A":"")+cv(o.a)); }
    catch (e) { f.push("new="+(e && e.constructor && e.constructor.name)); }
    try { f.push("inst="+((new T(1)) instanceof X)); } catch (e) { f.push("inst="+(e && e.constructor && e.constructor.name)); }
    return f.join(";");
  }
  function fnkind(kind, layers, mkProxy, withTraps){
    var T = mkCallable(kind), log = [], P = T, i;
    for (i = 1; i <= layers; i++) P = withTraps ? mkProxy(P, i, log) : new Proxy(P, {});
    var a = kindFacts(T, T);
    var mark = log.length;
    var b = kindFacts(P, T);
    var calls = log.slice(mark).filter(function(x){ return /:(apply|construct)$/.test(x); });
    if (a !== b) return "MISMATCH direct="+a+" proxy="+b;
    return "OK "+a+"#"+calls.join(",");
  }
  // enumeration through a proxy whose getOwnPropertyDescriptor trap LIES per key: h = honest, u = undefined, f = enumerable
  // flipped, t = throws; ownKeys forwards.  Answers: the API's result (or the error class) and the trap sequence with keys.
  function enumlie(api, lies, nonExt){
    var T = mkKind("obj");
    if (nonExt) Object.preventExtensions(T);
    var act = {}, log = [];
    lies.forEach(function(l){ var i = l.lastIndexOf(":"); act[l.slice(0, i)] = l.slice(i + 1); });
    var P = new Proxy(T, {
      ownKeys: function(t){ log.push("ownKeys"); return Reflect.ownKeys(t); },
      getOwnPropertyDescriptor: function(t, k){
        log.push("gopd:"+ck(k));
        var a = act[ck(k)] || "h", d = Reflect.getOwnPropertyDescriptor(t, k);
        if (a === "u") return undefined;
        if (a === "t") throw new RangeError("lie");
        if (a === "f" && d) d.enumerable = !d.enumerable;
        return d;
      },
      get: function(t, k, r){ log.push("get:"+ck(k)); return Reflect.get(t, k, r); }
    });
    var r;
    try {
      var got = api === "k" ? Object.keys(P) : api === "n" ? Object.getOwnPropertyNames(P) : api === "s" ? Object.getOwnPropertySymbols(P)
              : api === "e" ? Object.entries(P).map(function(e){ return e[0]; }) : api === "a" ? Reflect.ownKeys(Object.assign({}, P))
              : (function(){ var a = []; for (var q in P) a.push(q); return a; })();
      r = "k:"+got.map(ck).join(",");
    } catch (e) { r = "T:"+(e && e.constructor && e.constructor.name || "?"); }
    var facts = Reflect.ownKeys(T).map(function(k){ var d = Reflect.getOwnPropertyDescriptor(T, k);
      return ck(k)+":"+(d.enumerable?1:0)+(d.configurable?1:0); });
    return r+"#"+facts.join(",")+"#"+log.join(",");
  }
  // handlers that MUTATE the target inside the trap and then answer: the post-check must read the target as the trap left it
  function mutate(trap, mut, resTok){
    var T = {x: 1};
    function doMut(t){
      switch(mut){
      case "nc": Object.defineProperty(t, "x", {value: 2, writable: false, configurable: false}); break;
      case "ncw": Object.defineProperty(t, "x", {value: 2, writable: true, configurable: false}); break;
      case "pe": Object.preventExtensions(t); break;
      case "del": delete t.x; break;
      case "delpe": delete t.x; Object.preventExtensions(t); break;
      case "acc": Object.defineProperty(t, "x", {get: undefined, set: undefined, configurable: false}); break;
      case "none": break;
      default: throw new Error("bad mutation "+mut);
      }
    }
    var res = trap === "gopd" ? (resTok === "u" ? undefined : desc(resTok)) : (resTok === "0" ? false : resTok === "1" ? true : val(resTok));
    var h = {};
    var name = {get:"get", has:"has", del:"deleteProperty", def:"defineProperty", set:"set", gopd:"getOwnPropertyDescriptor",
                ie:"isExtensible", pe:"preventExtensions"}[trap];
    h[name] = function(t){ doMut(t); return res; };
    var P = new Proxy(T, h), r;
    try {
      switch(trap){
      case "get": r = "v:"+cv(Reflect.get(P, "x")); break;
      case "has": r = Reflect.has(P, "x") ? "b:1" : "b:0"; break;
      case "del": r = Reflect.deleteProperty(P, "x") ? "b:1" : "b:0"; break;
      case "def": r = Reflect.defineProperty(P, "x", {value: 5}) ? "b:1" : "b:0"; break;
      case "set": r = Reflect.set(P, "x", 5) ? "b:1" : "b:0"; break;
      case "gopd": r = "d:"+cd(Reflect.getOwnPropertyDescriptor(P, "x")); break;
      case "ie": r = Reflect.isExtensible(P) ? "b:1" : "b:0"; break;
      case "pe": r = Reflect.preventExtensions(P) ? "b:1" : "b:0"; break;
      default: throw new Error("bad trap "+trap);
      }
    } catch (e) { r = (e instanceof TypeError) ? "TE" : "T:"+(e && e.constructor && e.constructor.name); }
    return r+"#"+(Reflect.isExtensible(T)?1:0)+"#"+cd(Reflect.getOwnPropertyDescriptor(T, "x"));
  }
  // model correspondence: primitive operations applied to a bare target (no proxy), answers in the canonical form, to be
  // compared with the Lean target models of Ordinary.lean / Exotic.lean.  Prototype null: no inherited lookups.
  function mkModelKind(kind){
    var o;
    switch(kind){
    case "mobj": o = Object.create(null); o.x = 1; return o;
    case "marr": o = [1,2,3]; Object.setPrototypeOf(o, null); return o;
    case "mstr": o = new String("ab"); Object.setPrototypeOf(o, null); return o;
    case "mta": o = new Uint8Array([1,2,3]); Object.setPrototypeOf(o, null); return o;
    case "margm": o = SEQ_SLOPPY_ARGS(1,2); Object.setPrototypeOf(o, null); delete o.callee; delete o[Symbol.iterator]; delete o.length; return o;
    }
    throw new Error("bad model kind "+kind);
  }
  function model(kind, ops){
    var T = mkModelKind(kind), out = [];
    for (var i = 0; i < ops.length; i++) out.push(attempt(T, ops[i], T, [T]));
    return out.join("|");
  }
  return {run: run, revoked: revoked, jsHandler: jsHandler, TRAPS: TRAPS, keylie: keylie, mkKind: mkKind, fnkind: fnkind, model: model, enumlie: enumlie, mutate: mutate,
          mkMargs: function(){ return SEQ_SLOPPY_ARGS(1,2); },
          jsOuter: function(t, lie){ return new Proxy(t, {ownKeys: function(){ return lie; }}); }};
})();
function SEQ_SLOPPY_ARGS(a,b){ return arguments; }
`

type seqEnv struct {
	vm      *goja.Runtime
	run     goja.Callable
	revoked goja.Callable
	keylie  goja.Callable
	fnkind  goja.Callable
	model   goja.Callable
	enumlie goja.Callable
	mutate  goja.Callable
	mkKind  goja.Callable
	mkMargs goja.Callable
	jsOuter goja.Callable
	jsH     goja.Callable
	reflect map[string]goja.Callable
}

var theSeq *seqEnv

func newSeqEnv() *seqEnv {
	vm := goja.New()
	if _, err := vm.RunString(seqPrelude); err != nil {
		panic(err)
	}
	s := vm.Get("SEQ").ToObject(vm)
	get := func(o *goja.Object, k string) goja.Callable {
		f, ok := goja.AssertFunction(o.Get(k))
		if !ok {
			panic("seq prelude: " + k)
		}
		return f
	}
	e := &seqEnv{vm: vm, run: get(s, "run"), revoked: get(s, "revoked"), jsH: get(s, "jsHandler"), reflect: map[string]goja.Callable{},
		keylie: get(s, "keylie"), fnkind: get(s, "fnkind"), model: get(s, "model"), enumlie: get(s, "enumlie"), mutate: get(s, "mutate"), mkKind: get(s, "mkKind"), mkMargs: get(s, "mkMargs"), jsOuter: get(s, "jsOuter")}
	r := vm.Get("Reflect").ToObject(vm)
	for _, t := range []string{"getPrototypeOf", "setPrototypeOf", "isExtensible", "preventExtensions", "getOwnPropertyDescriptor",
		"defineProperty", "has", "get", "set", "deleteProperty", "ownKeys", "apply", "construct"} {
		e.reflect[t] = get(r, t)
	}
	return e
}

func (e *seqEnv) must(v goja.Value, err error) goja.Value {
	if err != nil {
		panic(err) // a JS exception inside a Go trap propagates as a JS exception (goja converts *Exception panics)
	}
	return v
}

func (e *seqEnv) descToObj(d goja.PropertyDescriptor) goja.Value {
	o := e.vm.NewObject()
	if d.Value != nil {
		o.Set("value", d.Value)
	}
	if d.Writable != goja.FLAG_NOT_SET {
		o.Set("writable", d.Writable == goja.FLAG_TRUE)
	}
	if d.Enumerable != goja.FLAG_NOT_SET {
		o.Set("enumerable", d.Enumerable == goja.FLAG_TRUE)
	}
	if d.Configurable != goja.FLAG_NOT_SET {
		o.Set("configurable", d.Configurable == goja.FLAG_TRUE)
	}
	if d.Getter != nil {
		o.Set("get", d.Getter)
	}
	if d.Setter != nil {
		o.Set("set", d.Setter)
	}
	return o
}

func (e *seqEnv) objToDesc(v goja.Value) goja.PropertyDescriptor {
	var d goja.PropertyDescriptor
	if v == nil || goja.IsUndefined(v) {
		return d
	}
	o := v.ToObject(e.vm)
	has := func(k string) bool {
		for _, n := range o.Keys() {
			if n == k {
				return true
			}
		}
		return false
	}
	fl := func(k string) goja.Flag {
		if !has(k) {
			return goja.FLAG_NOT_SET
		}
		if o.Get(k).ToBoolean() {
			return goja.FLAG_TRUE
		}
		return goja.FLAG_FALSE
	}
	if has("value") {
		d.Value = o.Get("value")
	}
	d.Writable, d.Enumerable, d.Configurable = fl("writable"), fl("enumerable"), fl("configurable")
	if has("get") {
		d.Getter = o.Get("get")
	}
	if has("set") {
		d.Setter = o.Get("set")
	}
	return d
}

// Go ProxyTrapConfig whose every trap logs and forwards to Reflect.<trap>
func (e *seqEnv) goHandler(layer string, log *goja.Object) *goja.ProxyTrapConfig {
	vm := e.vm
	push, _ := goja.AssertFunction(log.Get("push"))
	lg := func(t string) { push(log, vm.ToValue(layer+":"+t)) }
	call := func(t string, args ...goja.Value) goja.Value {
		lg(t)
		v, err := e.reflect[t](goja.Undefined(), args...)
		if err != nil {
			panic(err)
		}
		return v
	}
	objOrNull := func(o *goja.Object) goja.Value {
		if o == nil {
			return goja.Null()
		}
		return o
	}
	return &goja.ProxyTrapConfig{
		GetPrototypeOf: func(t *goja.Object) *goja.Object {
			v := call("getPrototypeOf", t)
			if goja.IsNull(v) {
				return nil
			}
			return v.ToObject(vm)
		},
		SetPrototypeOf: func(t *goja.Object, p *goja.Object) bool { return call("setPrototypeOf", t, objOrNull(p)).ToBoolean() },
		IsExtensible:   func(t *goja.Object) bool { return call("isExtensible", t).ToBoolean() },
		PreventExtensions: func(t *goja.Object) bool {
			return call("preventExtensions", t).ToBoolean()
		},
		GetOwnPropertyDescriptor: func(t *goja.Object, k string) goja.PropertyDescriptor {
			return e.objToDesc(call("getOwnPropertyDescriptor", t, vm.ToValue(k)))
		},
		GetOwnPropertyDescriptorIdx: func(t *goja.Object, k int) goja.PropertyDescriptor {
			return e.objToDesc(call("getOwnPropertyDescriptor", t, vm.ToValue(k)))
		},
		GetOwnPropertyDescriptorSym: func(t *goja.Object, k *goja.Symbol) goja.PropertyDescriptor {
			return e.objToDesc(call("getOwnPropertyDescriptor", t, k))
		},
		DefineProperty: func(t *goja.Object, k string, d goja.PropertyDescriptor) bool {
			return call("defineProperty", t, vm.ToValue(k), e.descToObj(d)).ToBoolean()
		},
		DefinePropertyIdx: func(t *goja.Object, k int, d goja.PropertyDescriptor) bool {
			return call("defineProperty", t, vm.ToValue(k), e.descToObj(d)).ToBoolean()
		},
		DefinePropertySym: func(t *goja.Object, k *goja.Symbol, d goja.PropertyDescriptor) bool {
			return call("defineProperty", t, k, e.descToObj(d)).ToBoolean()
		},
		Has:    func(t *goja.Object, k string) bool { return call("has", t, vm.ToValue(k)).ToBoolean() },
		HasIdx: func(t *goja.Object, k int) bool { return call("has", t, vm.ToValue(k)).ToBoolean() },
		HasSym: func(t *goja.Object, k *goja.Symbol) bool { return call("has", t, k).ToBoolean() },
		Get:    func(t *goja.Object, k string, r goja.Value) goja.Value { return call("get", t, vm.ToValue(k), r) },
		GetIdx: func(t *goja.Object, k int, r goja.Value) goja.Value { return call("get", t, vm.ToValue(k), r) },
		GetSym: func(t *goja.Object, k *goja.Symbol, r goja.Value) goja.Value { return call("get", t, k, r) },
		Set: func(t *goja.Object, k string, v goja.Value, r goja.Value) bool {
			return call("set", t, vm.ToValue(k), v, r).ToBoolean()
		},
		SetIdx: func(t *goja.Object, k int, v goja.Value, r goja.Value) bool {
			return call("set", t, vm.ToValue(k), v, r).ToBoolean()
		},
		SetSym: func(t *goja.Object, k *goja.Symbol, v goja.Value, r goja.Value) bool {
			return call("set", t, k, v, r).ToBoolean()
		},
		DeleteProperty:    func(t *goja.Object, k string) bool { return call("deleteProperty", t, vm.ToValue(k)).ToBoolean() },
		DeletePropertyIdx: func(t *goja.Object, k int) bool { return call("deleteProperty", t, vm.ToValue(k)).ToBoolean() },
		DeletePropertySym: func(t *goja.Object, k *goja.Symbol) bool { return call("deleteProperty", t, k).ToBoolean() },
		OwnKeys:           func(t *goja.Object) *goja.Object { return call("ownKeys", t).ToObject(vm) },
		Apply: func(t *goja.Object, this goja.Value, args []goja.Value) goja.Value {
			return call("apply", t, this, vm.NewArray(toIfaces(args)...))
		},
		Construct: func(t *goja.Object, args []goja.Value, nt *goja.Object) *goja.Object {
			return call("construct", t, vm.NewArray(toIfaces(args)...), nt).ToObject(vm)
		},
	}
}

func toIfaces(vs []goja.Value) []interface{} {
	out := make([]interface{}, len(vs))
	for i, v := range vs {
		out[i] = v
	}
	return out
}

// Q <kind> <layers> <J|G> <ops>     |     Q revoked <kind> <J|G> -
func runSeq(f []string) string {
	if len(f) > 0 && f[0] == "fresh" { // first operations on a fresh runtime (lazily initialised built-ins)
		theSeq = newSeqEnv()
		f = f[1:]
	}
	if theSeq == nil {
		theSeq = newSeqEnv()
	}
	e := theSeq
	vm := e.vm
	if f[0] == "mutate" {
		// Q mutate <trap> <mutation> <trap result>
		if len(f) < 4 {
			return "BADLINE"
		}
		v, err := e.mutate(goja.Undefined(), vm.ToValue(f[1]), vm.ToValue(f[2]), vm.ToValue(f[3]))
		if err != nil {
			return "ERR:" + common.OneLine(err.Error())
		}
		return v.String()
	}
	if f[0] == "enumlie" {
		// Q enumlie <api k|n|s|e|a|f> <nonExt 0|1> <key:action,...|->
		if len(f) < 4 {
			return "BADLINE"
		}
		var lies []string
		if f[3] != "-" {
			lies = strings.Split(f[3], ",")
		}
		v, err := e.enumlie(goja.Undefined(), vm.ToValue(f[1]), vm.ToValue(lies), vm.ToValue(f[2] == "1"))
		if err != nil {
			return "ERR:" + common.OneLine(err.Error())
		}
		return v.String()
	}
	if f[0] == "model" {
		// Q model <kind> <op;op;...>
		if len(f) < 3 {
			return "BADLINE"
		}
		v, err := e.model(goja.Undefined(), vm.ToValue(f[1]), vm.ToValue(strings.Split(f[2], ";")))
		if err != nil {
			return "ERR:" + common.OneLine(err.Error())
		}
		return v.String()
	}
	if len(f) < 4 {
		return "BADLINE"
	}
	if f[0] == "revoked" {
		hk := f[2]
		mk := vm.ToValue(func(call goja.FunctionCall) goja.Value {
			target := call.Argument(0).ToObject(vm)
			if hk == "G" {
				p := vm.NewProxy(target, &goja.ProxyTrapConfig{})
				p.Revoke()
				return vm.ToValue(p)
			}
			r, err := vm.RunString("(function(t){ var r = Proxy.revocable(t, {}); r.revoke(); return r.proxy; })")
			if err != nil {
				panic(err)
			}
			fn, _ := goja.AssertFunction(r)
			v, err := fn(goja.Undefined(), target)
			if err != nil {
				panic(err)
			}
			return v
		})
		v, err := e.revoked(goja.Undefined(), vm.ToValue(f[1]), mk)
		if err != nil {
			return "ERR:" + common.OneLine(err.Error())
		}
		return v.String()
	}
	if f[0] == "fnkind" {
		// Q fnkind <kind> <layers> <J|G> <traps 0|1>
		if len(f) < 5 {
			return "BADLINE"
		}
		hk := f[3]
		mkProxy := vm.ToValue(func(call goja.FunctionCall) goja.Value {
			t := call.Argument(0).ToObject(vm)
			if hk == "G" {
				return vm.ToValue(vm.NewProxy(t, e.goHandler(call.Argument(1).String(), call.Argument(2).ToObject(vm))))
			}
			h, err := e.jsH(goja.Undefined(), call.Argument(1), call.Argument(2))
			if err != nil {
				panic(err)
			}
			p, err := vm.New(vm.Get("Proxy"), t, h)
			if err != nil {
				panic(err)
			}
			return p
		})
		n := 0
		for _, c := range f[2] {
			n = n*10 + int(c-'0')
		}
		v, err := e.fnkind(goja.Undefined(), vm.ToValue(f[1]), vm.ToValue(n), mkProxy, vm.ToValue(f[4] == "1"))
		if err != nil {
			return "ERR:" + common.OneLine(err.Error())
		}
		return v.String()
	}
	if f[0] == "keylie" {
		// Q keylie <kind> <innerLayers> <J|G> <variant>,<ne 0|1>,<api r|n|s|k>
		if len(f) < 5 {
			return "BADLINE"
		}
		return e.runKeylie(f[1], f[2], f[3], strings.Split(f[4], ","))
	}
	kind, layers, hk := f[0], f[1], f[2]
	ops := strings.Split(f[3], ";")
	mk := vm.ToValue(func(call goja.FunctionCall) goja.Value {
		target := call.Argument(0).ToObject(vm)
		layer := call.Argument(1).String()
		log := call.Argument(2).ToObject(vm)
		useGo := hk == "G" || (hk == "M" && layer == "2") // M: mixed stack, Go handler in the middle
		if useGo {
			return vm.ToValue(vm.NewProxy(target, e.goHandler(layer, log)))
		}
		h, err := e.jsH(goja.Undefined(), call.Argument(1), log)
		if err != nil {
			panic(err)
		}
		p, err := vm.New(vm.Get("Proxy"), target, h)
		if err != nil {
			panic(err)
		}
		return p
	})
	var n int
	for _, c := range layers {
		n = n*10 + int(c-'0')
	}
	v, err := e.run(goja.Undefined(), vm.ToValue(kind), vm.ToValue(n), mk, vm.ToValue(ops))
	if err != nil {
		return "ERR:" + common.OneLine(err.Error())
	}
	return v.String()
}

type goStruct struct {
	A int
	B string
}

// targets that only the Go API can create
func (e *seqEnv) goTarget(kind string) goja.Value {
	switch kind {
	case "gomap":
		return e.vm.ToValue(map[string]interface{}{"a": 1, "b": "x"})
	case "gostruct":
		return e.vm.ToValue(&goStruct{A: 1, B: "x"})
	case "goslice":
		return e.vm.ToValue([]interface{}{1, 2})
	}
	return nil
}

func (e *seqEnv) runKeylie(kind, inner, hk string, arg []string) string {
	vm := e.vm
	if len(arg) != 3 {
		return "BADLINE"
	}
	var target goja.Value
	var err error
	if strings.HasPrefix(kind, "go") {
		target = e.goTarget(kind)
		if target == nil {
			return "BADKIND"
		}
	} else if kind == "margs" {
		target, err = e.mkMargs(goja.Undefined())
	} else {
		target, err = e.mkKind(goja.Undefined(), vm.ToValue(kind))
	}
	if err != nil {
		return "ERR:" + common.OneLine(err.Error())
	}
	mkProxy := vm.ToValue(func(call goja.FunctionCall) goja.Value {
		t := call.Argument(0).ToObject(vm)
		if hk == "G" {
			return vm.ToValue(vm.NewProxy(t, e.goHandler(call.Argument(1).String(), call.Argument(2).ToObject(vm))))
		}
		h, err := e.jsH(goja.Undefined(), call.Argument(1), call.Argument(2))
		if err != nil {
			panic(err)
		}
		p, err := vm.New(vm.Get("Proxy"), t, h)
		if err != nil {
			panic(err)
		}
		return p
	})
	mkOuter := vm.ToValue(func(call goja.FunctionCall) goja.Value {
		t := call.Argument(0).ToObject(vm)
		lie := call.Argument(1).ToObject(vm)
		if hk == "G" {
			return vm.ToValue(vm.NewProxy(t, &goja.ProxyTrapConfig{OwnKeys: func(*goja.Object) *goja.Object { return lie }}))
		}
		p, err := e.jsOuter(goja.Undefined(), t, lie)
		if err != nil {
			panic(err)
		}
		return p
	})
	n := 0
	for _, c := range inner {
		n = n*10 + int(c-'0')
	}
	v, err := e.keylie(goja.Undefined(), target, vm.ToValue(n), mkProxy, mkOuter, vm.ToValue(arg[0]), vm.ToValue(arg[1] == "1"), vm.ToValue(arg[2]))
	if err != nil {
		return "ERR:" + common.OneLine(err.Error())
	}
	return v.String()
}
