// Package common: helpers shared by the per-property harness commands (harness/cmd/cNN).
// Every harness links the real goja from /repo (replace directive) built with -tags verif, reads one
// operation per line on stdin and prints exactly one canonical answer line per operation on stdout
// — the same protocol the Lean model drivers speak — so the two streams can be diffed line by line.
package common

import (
	"bufio"
	"fmt"
	"os"
	"strings"
)

// Loop runs f on every stdin line and prints its result. A panic inside f is recovered and
// printed as "PANIC <msg>" (one line), so that one bad case never hides the others.
func Loop(f func(line string) string) {
	in := bufio.NewScanner(os.Stdin)
	in.Buffer(make([]byte, 1<<20), 1<<26)
	out := bufio.NewWriterSize(os.Stdout, 1<<16)
	defer out.Flush()
	for in.Scan() {
		line := in.Text()
		res := Safe(func() string { return f(line) })
		out.WriteString(res)
		out.WriteByte('\n')
	}
}

// Safe runs f, converting a panic into a one-line "PANIC ..." string.
func Safe(f func() string) (res string) {
	defer func() {
		if r := recover(); r != nil {
			res = "PANIC " + OneLine(fmt.Sprint(r))
		}
	}()
	return f()
}

func OneLine(s string) string {
	s = strings.ReplaceAll(s, "\n", "\\n")
	s = strings.ReplaceAll(s, "\r", "\\r")
	return s
}

// SplitMix64 is the one PRNG all generators derive their choices from (seeded by VERIF_SEED).
type SplitMix64 struct{ S uint64 }

func (r *SplitMix64) Next() uint64 {
	r.S += 0x9e3779b97f4a7c15
	z := r.S
	z = (z ^ (z >> 30)) * 0xbf58476d1ce4e5b9
	z = (z ^ (z >> 27)) * 0x94d049bb133111eb
	return z ^ (z >> 31)
}

func (r *SplitMix64) Intn(n int) int {
	if n <= 0 {
		return 0
	}
	return int(r.Next() % uint64(n))
}
