-- Model driver for property C19.
import GojaModel.C19.Driver
def main : IO Unit := GojaModel.C19.Driver.main
