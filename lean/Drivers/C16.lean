-- Model driver for property C16.
import GojaModel.C16.Driver
def main : IO Unit := GojaModel.C16.Driver.main
