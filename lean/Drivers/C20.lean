-- Model driver for property C20.
import GojaModel.C20.Driver
def main : IO Unit := GojaModel.C20.Driver.main
