-- Model driver for property C04.
import GojaModel.C04.Driver
def main : IO Unit := GojaModel.C04.Driver.main
