-- Model driver for property C18 (ordered map behind Map/Set/symbol tables).
import GojaModel.C18.Driver
def main : IO Unit := GojaModel.C18.Driver.main
