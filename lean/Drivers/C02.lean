-- Model driver for property C02 (MiniJS reference interpreter).
import GojaModel.C02.Driver
def main : IO Unit := GojaModel.C02.Driver.main
