-- Model driver for property C17.
import GojaModel.C17.Driver
def main : IO Unit := GojaModel.C17.Driver.main
