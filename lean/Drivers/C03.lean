-- Model driver for property C03.
import GojaModel.C03.Driver
def main : IO Unit := GojaModel.C03.Driver.main
