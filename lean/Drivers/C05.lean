-- Model driver for property C05.
import GojaModel.C05.Driver
def main : IO Unit := GojaModel.C05.Driver.main
