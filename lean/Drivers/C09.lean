-- Model driver for property C09.
import GojaModel.C09.Driver
def main : IO Unit := GojaModel.C09.Driver.main
