-- Model driver for property C08.
import GojaModel.C08.Driver
def main : IO Unit := GojaModel.C08.Driver.main
