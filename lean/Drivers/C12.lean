-- Model driver for property C12: certifying checkers run on goja's actual conversion outputs.
import GojaModel.C12.Driver
def main : IO Unit := GojaModel.C12.Driver.main
