-- Model driver for property C14.
import GojaModel.C14.Driver
def main : IO Unit := GojaModel.C14.Driver.main
