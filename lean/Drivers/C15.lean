-- Model driver for property C15 (interrupts).
import GojaModel.C15.Driver
def main : IO Unit := GojaModel.C15.Driver.main
