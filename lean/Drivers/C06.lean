-- Model driver for property C06.
import GojaModel.C06.Driver
def main : IO Unit := GojaModel.C06.Driver.main
