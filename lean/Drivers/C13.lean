-- Model driver for property C13.
import GojaModel.C13.Driver
def main : IO Unit := GojaModel.C13.Driver.main
