-- Model driver for property C01.
import GojaModel.C01.Driver2
def main : IO Unit := GojaModel.C01.Driver.main2
