-- Model driver for property C10.
import GojaModel.C10.Driver
def main : IO Unit := GojaModel.C10.Driver.main
