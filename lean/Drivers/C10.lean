-- Model driver for property C10 (stub until the property's model exists).
import GojaModel.Base.Proto
def main : IO Unit := GojaModel.Proto.lineMap (fun _ => "unimplemented")
