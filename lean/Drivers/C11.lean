-- Model driver for property C11.
import GojaModel.C11.Driver
def main : IO Unit := GojaModel.C11.Driver.main
