-- Model driver for property C07.
import GojaModel.C07.Driver
def main : IO Unit := GojaModel.C07.Driver.main
