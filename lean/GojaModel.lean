-- Root of the GojaModel library. Each property lives in GojaModel/Cnn/{Model,Lemmas,Props,Driver}.lean.
import GojaModel.Base.Proto
