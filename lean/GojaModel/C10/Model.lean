/-
  C10 — promise jobs: exactly once, FIFO, drained before control returns to Go.

  Part 1 (this file): mechanism-level KERNEL, a transcription of /repo/builtin_promise.go
  (promise records, resolving functions with the shared `alreadyResolved` latch, thenable job,
  addReactions with the handled flag and the tracker calls, triggerPromiseReactions, the job
  queue) and of the double-buffered drain loop of Runtime.leave()/leaveAbrupt() (runtime.go:2871-2891),
  plus a GENERIC model of that loop over an arbitrary job behaviour (namespace JobQueue).

  The kernel state is changed only through `KOp`s; `Reach` is the set of kernel states
  reachable by ANY sequence of ops with ANY parameters (this over-approximates every program:
  whatever user code does, it can only create capabilities, call resolving functions any number
  of times with any value, attach reactions, and return to the drain loop).  The op-language
  interpreter of Interp.lean carries its kernel state in the subtype `{k // Reach k}`, so every
  theorem of Props.lean about `Reach` holds for every state the executable model ever visits,
  by typing.

  Core Lean only (linked into the driver exe).
-/
namespace GojaModel.C10

/-! ## Values, callables, records -/

inductive PState | pending | fulfilled | rejected
  deriving DecidableEq, Repr, Inhabited

/-- PromiseRejectionOperation (builtin_promise.go:19-22). -/
inductive TrackOp | reject | handle
  deriving DecidableEq, Repr, Inhabited

/-- JS values as far as the promise machinery can tell them apart. -/
inductive Val
  | undef
  | num (n : Nat)
  | prom (id : Nat)                 -- a native promise (index into `K.proms`)
  | thenable (tid : Nat)            -- an object with a user-defined `then` (descriptor id)
  | typeErr                         -- TypeError("Promise self-resolution")
  | arr (vs : List Val)             -- result array of all/allSettled
  | settledObj (ful : Bool) (v : Val)
  | aggErr (vs : List Val)          -- AggregateError of Promise.any
  deriving Inhabited

/-- Callable values (defunctionalised closures of builtin_promise.go / func.go). -/
inductive Fn
  | user (f : Nat)                          -- program function H[f]
  | resolve (l : Nat)                       -- builtin_promise.go:87  (latch l)
  | reject (l : Nat)                        -- builtin_promise.go:112 (same latch l)
  | promThen                                -- Promise.prototype.then
  | thenableThen (tid : Nat)                -- user `then` of thenable descriptor tid
  | thenFinally (f : Nat) | catchFinally (f : Nat)   -- builtin_promise.go:362 / 372
  | valueThunk (v : Val) | thrower (v : Val)         -- builtin_promise.go:366 / 376
  | allElem (c idx cell : Nat)                       -- builtin_promise.go:416
  | settledElem (c idx cell : Nat) (rej : Bool)      -- builtin_promise.go:453
  | anyElem (c idx cell : Nat)                       -- builtin_promise.go:497
  | asyncFul (ar : Nat) | asyncRej (ar : Nat)        -- func.go:688 / 699
  | logRes (c : Nat) | logRej (c : Nat)              -- resolve/reject functions of a user-defined (plain) constructor
  deriving Inhabited

/-- promiseCapability (builtin_promise.go:35). -/
structure Cap where
  promise : Nat
  res : Fn
  rej : Fn
  deriving Inhabited

/-- promiseReaction (builtin_promise.go:40). `rid` is a ghost serial shared by the
fulfil/reject pair created by one addReactions call. -/
structure Reaction where
  cap : Option Cap
  isFul : Bool
  handler : Option Fn
  rid : Nat
  deriving Inhabited

/-- A queued job. `sid` = ghost enqueue serial; `owner` = promise whose settlement/attachment
produced the reaction job (ghost). -/
inductive Job
  | reaction (sid owner : Nat) (r : Reaction) (arg : Val)        -- newPromiseReactionJob :199
  | thenable (sid p : Nat) (thenable : Val) (thenFn : Fn)        -- newPromiseResolveThenableJob :175
  deriving Inhabited

def Job.sid : Job → Nat
  | .reaction s _ _ _ => s
  | .thenable s _ _ _ => s

/-- Is this a thenable job that will create resolving functions for promise `p`? -/
def Job.thenFor (p : Nat) : Job → Bool
  | .thenable _ q _ _ => q == p
  | _ => false

/-- Control state of one async function activation (asyncRunner + its generator, func.go:681-745). -/
inductive RPhase | running | suspended | done | abandoned   -- abandoned: its queued resumption was discarded by an interrupt
  deriving DecidableEq, Repr, Inhabited

structure Runner where
  phase : RPhase := .running
  awaits : Nat := 0        -- awaits executed so far; the continuation stored by the n-th await is "continuation n"
  resumes : Nat := 0       -- resumptions so far (onFulfilled / onRejected calls)
  deriving Inhabited

/-- Promise record (builtin_promise.go:56). `attached` is ghost: rids attached so far. -/
structure PRec where
  state : PState := .pending
  result : Val := .undef
  fulR : List Reaction := []
  rejR : List Reaction := []
  handled : Bool := false
  attached : List Nat := []
  deriving Inhabited

/-- Kernel state.  `jobs` = the promise jobs not yet started, oldest first: the not yet started rest of the batch
that Runtime.leave() is iterating (its local `jobs`), followed by Runtime.jobQueue.  WHICH prefix of `jobs` is the
current batch is local state of the drain loop (Interp.drainS), exactly as `jobs` is a local variable of leave() in
Go: nothing outside the loop can see the split.  `enq`, `ran`, `enqEver` are ghost logs. -/
structure K where
  proms : List PRec := []
  latches : List (Nat × Bool) := []       -- (owner promise, alreadyResolved)
  jobs : List Job := []
  tracker : List (Nat × TrackOp) := []
  nextRid : Nat := 0
  nextSid : Nat := 0
  enq : List Job := []        -- ghost: jobs enqueued and not discarded by an interrupt, in order
  ran : List Job := []        -- ghost: jobs started, in order
  enqEver : List Job := []    -- ghost: every job ever enqueued, in order
  runners : List Runner := [] -- control state of the async function activations (asyncRunner, func.go:681)
  deriving Inhabited

def K.getP (k : K) (p : Nat) : PRec := k.proms.getD p {}
def K.setP (k : K) (p : Nat) (r : PRec) : K := { k with proms := k.proms.set p r }

/-! ## builtin_promise.go, function by function -/

/-- enqueuePromiseJob (builtin_promise.go:189): append to Runtime.jobQueue. -/
def enqueue (k : K) (mk : Nat → Job) : K :=
  let j := mk k.nextSid
  { k with jobs := k.jobs ++ [j], enq := k.enq ++ [j], enqEver := k.enqEver ++ [j],
           nextSid := k.nextSid + 1 }

/-- triggerPromiseReactions (builtin_promise.go:193). -/
def trigger (k : K) (owner : Nat) : List Reaction → Val → K
  | [], _ => k
  | r :: rs, arg => trigger (enqueue k (fun sid => .reaction sid owner r arg)) owner rs arg

/-- trackPromiseRejection (runtime.go:2987). -/
def track (k : K) (p : Nat) (op : TrackOp) : K := { k with tracker := k.tracker ++ [(p, op)] }

/-- Promise.reject (builtin_promise.go:122). NB: no state check — relies on the latch. -/
def rejectP (k : K) (p : Nat) (reason : Val) : K :=
  let r := k.getP p
  let reactions := r.rejR
  let k1 := k.setP p { r with result := reason, fulR := [], rejR := [], state := .rejected }
  let k2 := if r.handled then k1 else track k1 p .reject
  trigger k2 p reactions reason

/-- Promise.fulfill (builtin_promise.go:135). -/
def fulfillP (k : K) (p : Nat) (value : Val) : K :=
  let r := k.getP p
  let reactions := r.fulR
  let k1 := k.setP p { r with result := value, fulR := [], rejR := [], state := .fulfilled }
  trigger k1 p reactions value

/-- Result of looking up `then` on the resolution (builtin_promise.go:96-104); computed by the
caller because it may run user code (a getter). -/
inductive ThenLook
  | notCallable
  | throws (e : Val)
  | callable (f : Fn)
  deriving Inhabited

def isSelf (v : Val) (p : Nat) : Bool :=
  match v with
  | .prom q => q == p
  | _ => false

/-- The resolve function of createResolvingFunctions (builtin_promise.go:87-111). -/
def callResolve (k : K) (l : Nat) (resolution : Val) (look : ThenLook) : K :=
  match k.latches[l]? with
  | none => k
  | some (p, already) =>
    if already then k else                                         -- :88
    let k := { k with latches := k.latches.set l (p, true) }       -- :91
    if isSelf resolution p then rejectP k p .typeErr else          -- :93
    match look with
    | .throws e => rejectP k p e                                    -- :101
    | .callable f => enqueue k (fun sid => .thenable sid p resolution f)   -- :105
    | .notCallable => fulfillP k p resolution                       -- :110

/-- The reject function of createResolvingFunctions (builtin_promise.go:112-119). -/
def callReject (k : K) (l : Nat) (reason : Val) : K :=
  match k.latches[l]? with
  | none => k
  | some (p, already) =>
    if already then k else
    let k := { k with latches := k.latches.set l (p, true) }
    rejectP k p reason

/-- The `switch p.state` of Promise.addReactions (builtin_promise.go:159-171). -/
def addReactionsCore (k : K) (p : Nat) (fr rr : Reaction) : K :=
  let r := k.getP p
  match r.state with
  | .pending => k.setP p { r with fulR := r.fulR ++ [fr], rejR := r.rejR ++ [rr] }          -- :161
  | .fulfilled => enqueue k (fun sid => .reaction sid p fr r.result)                         -- :164
  | .rejected =>
    enqueue (if r.handled then k else track k p .handle)                                     -- :167
      (fun sid => .reaction sid p rr r.result)                                               -- :170

/-- `p.handled = true` (builtin_promise.go:172) (+ ghost: remember the attachment). -/
def markHandled (k : K) (p rid : Nat) : K :=
  let r := k.getP p
  k.setP p { r with handled := true, attached := r.attached ++ [rid] }

/-- Promise.addReactions (builtin_promise.go:152-173) with the two reactions built as in
performPromiseThen (:321-330) / asyncRunner.step (func.go:724-732). -/
def addReactions (k : K) (p : Nat) (cap : Option Cap) (onF onR : Option Fn) : K :=
  if p < k.proms.length then
    let rid := k.nextRid
    markHandled
      (addReactionsCore { k with nextRid := rid + 1 } p
        { cap := cap, isFul := true, handler := onF, rid := rid }
        { cap := cap, isFul := false, handler := onR, rid := rid })
      p rid
  else k

/-- newPromise (builtin_promise.go:233). -/
def newPromise (k : K) : K := { k with proms := k.proms ++ [{}] }

/-- createResolvingFunctions (builtin_promise.go:84): allocate the shared latch. -/
def createResolvingFunctions (k : K) (p : Nat) : K := { k with latches := k.latches ++ [(p, false)] }

/-- newPromiseCapability for %Promise% (builtin_promise.go:283-286), the Promise constructor (:257-259),
Runtime.NewPromise (:629-630): a new promise (id = old `proms.length`) with its latch (id = old
`latches.length`). -/
def newCap (k : K) : K := createResolvingFunctions (newPromise k) k.proms.length

/-- Queue part of starting the oldest job (`for _, job := range jobs { job() }`, runtime.go:2875).  A thenable
job begins with createResolvingFunctions (builtin_promise.go:177). -/
def popJobQ (k : K) : K :=
  match k.jobs with
  | [] => k
  | j :: rest =>
    let k := { k with jobs := rest, ran := k.ran ++ [j] }
    match j with
    | .reaction _ _ _ _ => k
    | .thenable _ p _ _ => createResolvingFunctions k p

def isAsyncFn : Fn → Bool
  | .asyncFul _ => true
  | .asyncRej _ => true
  | _ => false

/-- The async activation a reaction job resumes (its handler is asyncRunner.onFulfilled / onRejected), if any. -/
def Reaction.runner? (r : Reaction) : Option Nat :=
  match r.handler with
  | some (.asyncFul a) => some a
  | some (.asyncRej a) => some a
  | _ => none

def Job.runner? : Job → Option Nat
  | .reaction _ _ r _ => r.runner?
  | .thenable _ _ _ _ => none

/-- asyncRunner.onFulfilled / onRejected is entered (func.go:688 / 699): the activation runs again. -/
def resumeRunner (rs : List Runner) (j : Job) : List Runner :=
  match j.runner? with
  | none => rs
  | some ar =>
    match rs[ar]? with
    | none => rs
    | some r => rs.set ar { r with phase := .running, resumes := r.resumes + 1 }

/-- Start the oldest job; if it is the resumption of an async activation, that activation is running again. -/
def popJob (k : K) : K :=
  match k.jobs with
  | [] => k
  | j :: _ => { popJobQ k with runners := resumeRunner k.runners j }

def K.getR (k : K) (ar : Nat) : Runner := k.runners.getD ar { phase := .done }

/-- asyncRunner.start (func.go:734): a new activation, running. -/
def asyncStart (k : K) : K := { k with runners := k.runners ++ [{}] }

/-- `await` in a running activation (asyncRunner.step, func.go:721-732) on the promise `p` that promiseResolve
returned: PerformPromiseThen(p, onFulfilled, onRejected) without a capability; the activation is suspended. -/
def awaitOp (k : K) (ar p : Nat) : K :=
  if (k.getR ar).phase = .running ∧ ar < k.runners.length ∧ p < k.proms.length then
    let k1 := addReactions k p none (some (.asyncFul ar)) (some (.asyncRej ar))
    let r := k.getR ar
    { k1 with runners := k1.runners.set ar { r with phase := .suspended, awaits := r.awaits + 1 } }
  else k

/-- The activation completes (func.go:712-718). -/
def asyncDone (k : K) (ar : Nat) : K :=
  if (k.getR ar).phase = .running ∧ ar < k.runners.length then
    { k with runners := k.runners.set ar { k.getR ar with phase := .done } }
  else k

/-- The activations whose queued resumption is among the discarded jobs will never run again. -/
def abandonRunners (rs : List Runner) : List Job → List Runner
  | [] => rs
  | j :: js =>
    match j.runner? with
    | none => abandonRunners rs js
    | some ar =>
      match rs[ar]? with
      | none => abandonRunners rs js
      | some r => abandonRunners (rs.set ar { r with phase := .abandoned }) js

/-- leaveAbrupt (runtime.go:2884): the queue is discarded.  (The batch being iterated is abandoned with the
unwinding Go stack.) -/
def leaveAbrupt (k : K) : K :=
  { k with jobs := [], enq := k.ran, runners := abandonRunners k.runners k.jobs }

inductive KOp
  | newCap
  | callResolve (l : Nat) (v : Val) (look : ThenLook)
  | callReject (l : Nat) (v : Val)
  | addReactions (p : Nat) (cap : Option Cap) (onF onR : Option Fn)
  | popJob
  | leaveAbrupt
  | asyncStart
  | await (ar p : Nat)
  | asyncDone (ar : Nat)
  deriving Inhabited

/-- asyncRunner.onFulfilled / onRejected are Go method values that exist only inside the reactions built by
asyncRunner.step; they are not JavaScript values, so no `then` call can ever pass them. -/
def noAsync (f : Option Fn) : Bool :=
  match f with
  | some fn => !isAsyncFn fn
  | none => true

def applyOp : KOp → K → K
  | .newCap, k => newCap k
  | .callResolve l v look, k => callResolve k l v look
  | .callReject l v, k => callReject k l v
  | .addReactions p cap f g, k => if noAsync f && noAsync g then addReactions k p cap f g else k
  | .popJob, k => popJob k
  | .leaveAbrupt, k => leaveAbrupt k
  | .asyncStart, k => asyncStart k
  | .await ar p, k => awaitOp k ar p
  | .asyncDone ar, k => asyncDone k ar

/-- Kernel states reachable from the initial state of a fresh Runtime by any op sequence. -/
inductive Reach : K → Prop
  | init : Reach {}
  | step (op : KOp) {k : K} : Reach k → Reach (applyOp op k)

/-- A kernel state together with the evidence that it is reachable (erased at run time). -/
abbrev RK := { k : K // Reach k }

def RK.init : RK := ⟨{}, .init⟩
def RK.apply (rk : RK) (op : KOp) : RK := ⟨applyOp op rk.val, .step op rk.property⟩

/-! ## Ops available to code that runs INSIDE an outermost call or a job

User code, built-ins and reaction/thenable job bodies can create capabilities, call resolving functions and
attach reactions; only the scheduler (Runtime.leave / leaveAbrupt) starts jobs or discards the queue. -/

inductive BOp
  | newCap
  | callResolve (l : Nat) (v : Val) (look : ThenLook)
  | callReject (l : Nat) (v : Val)
  | addReactions (p : Nat) (cap : Option Cap) (onF onR : Option Fn)
  | asyncStart
  | await (ar p : Nat)
  | asyncDone (ar : Nat)
  deriving Inhabited

def BOp.toK : BOp → KOp
  | .newCap => .newCap
  | .callResolve l v look => .callResolve l v look
  | .callReject l v => .callReject l v
  | .addReactions p cap f g => .addReactions p cap f g
  | .asyncStart => .asyncStart
  | .await ar p => .await ar p
  | .asyncDone ar => .asyncDone ar

/-- `k` is reachable from `k0` by body ops only. -/
inductive BodyReach (k0 : K) : K → Prop
  | refl : BodyReach k0 k0
  | step (o : BOp) {k : K} : BodyReach k0 k → BodyReach k0 (applyOp o.toK k)

/-- Kernel state of code running since the scheduler last acted (at kernel state `k0`). -/
abbrev BK (k0 : K) := { k : K // Reach k ∧ BodyReach k0 k }

def BK.apply {k0 : K} (b : BK k0) (o : BOp) : BK k0 :=
  ⟨applyOp o.toK b.val, .step o.toK b.property.1, .step o b.property.2⟩

/-- The scheduler acts: the result is the new base. -/
def BK.sched {k0 : K} (b : BK k0) (o : KOp) : BK (applyOp o b.val) :=
  ⟨applyOp o b.val, .step o b.property.1, .refl⟩

def BK.rebase {k0 : K} (b : BK k0) : BK b.val := ⟨b.val, b.property.1, .refl⟩

def BK.init : BK {} := ⟨{}, .init, .refl⟩

/-! ## Generic model of the drain loop (any job behaviour) -/
namespace JobQueue

variable {σ J : Type}

/-- A job's behaviour: new state, jobs it enqueued (in order), and whether it ended with an
uncatchable panic (interrupt). -/
abbrev Run (σ J : Type) := J → σ → σ × List J × Bool

/-- Outcome of a drain: final state, the jobs run (in order), what is left queued, aborted?. -/
structure Out (σ J : Type) where
  st : σ
  ran : List J
  left : List J
  aborted : Bool

/-- Inner loop of leave(): `for _, job := range jobs { job() }` with jobs appending to r.jobQueue.
Structural on the batch.  Returns (state, ran, jobQueue, aborted). -/
def batch (run : Run σ J) : List J → σ → List J → List J → σ × List J × List J × Bool
  | [], s, ran, q => (s, ran, q, false)
  | j :: js, s, ran, q =>
    match run j s with
    | (s', new, true) => (s', ran ++ [j], q ++ new, true)
    | (s', new, false) => batch run js s' (ran ++ [j]) (q ++ new)

/-- Runtime.leave() (runtime.go:2871) with `fuel` bounding the number of batches; on an abort the
panic propagates to RunProgram/runWrapped whose recover calls leaveAbrupt (queue := nil).
`none` = fuel exhausted (drain does not terminate within `fuel` batches). -/
def leave (run : Run σ J) : Nat → σ → List J → List J → Option (Out σ J)
  | 0, s, ran, q => if q.isEmpty then some ⟨s, ran, [], false⟩ else none
  | n + 1, s, ran, q =>
    if q.isEmpty then some ⟨s, ran, [], false⟩ else      -- `for len(r.jobQueue) > 0`
    match batch run q s ran [] with                       -- jobs, r.jobQueue = r.jobQueue, jobs[:0]
    | (s', ran', _, true) => some ⟨s', ran', [], true⟩   -- leaveAbrupt: r.jobQueue = nil
    | (s', ran', q', false) => leave run n s' ran' q'

/-- Specification: ONE FIFO queue; `fuel` bounds the number of jobs run. -/
def fifo (run : Run σ J) : Nat → σ → List J → List J → Option (Out σ J)
  | 0, s, ran, q => if q.isEmpty then some ⟨s, ran, [], false⟩ else none
  | n + 1, s, ran, q =>
    match q with
    | [] => some ⟨s, ran, [], false⟩
    | j :: rest =>
      match run j s with
      | (s', _, true) => some ⟨s', ran ++ [j], [], true⟩
      | (s', new, false) => fifo run n s' (ran ++ [j]) (rest ++ new)

end JobQueue

end GojaModel.C10
