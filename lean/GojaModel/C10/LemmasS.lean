/-
  C10: one-step settle-once (state/result frozen once settled) and the rejection-tracker protocol.
-/
import GojaModel.C10.LemmasT2

namespace GojaModel.C10

/-- Promise `p` looks the same (state, result) in `k'` as in `k`. -/
def Frozen (k k' : K) (p : Nat) : Prop :=
  (k'.getP p).state = (k.getP p).state ∧ (k'.getP p).result = (k.getP p).result

theorem frozen_of_proms_eq {k k' : K} (h : k'.proms = k.proms) (p : Nat) : Frozen k k' p := by
  unfold Frozen K.getP; rw [h]; exact ⟨rfl, rfl⟩

theorem getP_of_proms_eq {k k' : K} (h : k'.proms = k.proms) (p : Nat) : k'.getP p = k.getP p := by
  unfold K.getP; rw [h]

theorem getP_newCap_lt (k : K) (q : Nat) (hq : q < k.proms.length) : (newCap k).getP q = k.getP q := by
  unfold K.getP newCap createResolvingFunctions newPromise
  simp [List.getD_eq_getElem?_getD, List.getElem?_append_left hq]

theorem lt_of_not_pending {k : K} {p : Nat} (h : (k.getP p).state ≠ .pending) : p < k.proms.length := by
  false_or_by_contra
  rename_i hh
  rw [getP_default k p (by omega)] at h
  exact h rfl

theorem addReactionsCore_getP (k : K) (p : Nat) (fr rr : Reaction) (q : Nat) :
    ((addReactionsCore k p fr rr).getP q).state = (k.getP q).state ∧
    ((addReactionsCore k p fr rr).getP q).result = (k.getP q).result ∧
    ((addReactionsCore k p fr rr).getP q).handled = (k.getP q).handled := by
  unfold addReactionsCore
  simp only []
  split
  · rw [getP_setP]
    split
    · rename_i hh; rw [hh.1]; exact ⟨rfl, rfl, rfl⟩
    · exact ⟨rfl, rfl, rfl⟩
  · exact ⟨rfl, rfl, rfl⟩
  · split <;> exact ⟨rfl, rfl, rfl⟩

theorem markHandled_getP (k : K) (p rid : Nat) (q : Nat) :
    ((markHandled k p rid).getP q).state = (k.getP q).state ∧
    ((markHandled k p rid).getP q).result = (k.getP q).result ∧
    ((markHandled k p rid).getP q).handled = (if q = p ∧ p < k.proms.length then true else (k.getP q).handled) := by
  unfold markHandled
  rw [getP_setP]
  split
  · rename_i hh; rw [hh.1]; exact ⟨rfl, rfl, rfl⟩
  · exact ⟨rfl, rfl, rfl⟩

theorem frozen_addReactions (k : K) (q : Nat) (cap : Option Cap) (f g : Option Fn) (p : Nat) :
    Frozen k (addReactions k q cap f g) p := by
  simp only [addReactions]
  split
  · obtain ⟨a1, a2, _⟩ := markHandled_getP
      (addReactionsCore { k with nextRid := k.nextRid + 1 } q
        { cap := cap, isFul := true, handler := f, rid := k.nextRid }
        { cap := cap, isFul := false, handler := g, rid := k.nextRid }) q k.nextRid p
    obtain ⟨b1, b2, _⟩ := addReactionsCore_getP { k with nextRid := k.nextRid + 1 } q
        { cap := cap, isFul := true, handler := f, rid := k.nextRid }
        { cap := cap, isFul := false, handler := g, rid := k.nextRid } p
    exact ⟨by rw [a1, b1]; rfl, by rw [a2, b2]; rfl⟩
  · exact ⟨rfl, rfl⟩

theorem popJobQ_proms (k : K) : (popJobQ k).proms = k.proms := by
  unfold popJobQ
  split
  · rfl
  · split <;> rfl

theorem popJobQ_tracker (k : K) : (popJobQ k).tracker = k.tracker := by
  unfold popJobQ
  split
  · rfl
  · split <;> rfl

theorem popJobQ_enqEver (k : K) : (popJobQ k).enqEver = k.enqEver := by
  unfold popJobQ
  split
  · rfl
  · split <;> rfl

theorem popJobQ_nextRid (k : K) : (popJobQ k).nextRid = k.nextRid := by
  unfold popJobQ
  split
  · rfl
  · split <;> rfl

/-- settle_once, one step: no kernel op changes the state or result of a settled promise. -/
theorem frozen_applyOp {k : K} (h : TInv k) (op : KOp) (p : Nat) (hp : (k.getP p).state ≠ .pending) :
    Frozen k (applyOp op k) p := by
  have hlt := lt_of_not_pending hp
  cases op with
  | newCap =>
    simp only [applyOp]
    unfold Frozen; rw [getP_newCap_lt k p hlt]; exact ⟨rfl, rfl⟩
  | callResolve l v look =>
    simp only [applyOp, callResolve]
    split
    · exact ⟨rfl, rfl⟩
    · rename_i q already hl
      cases already with
      | true => exact ⟨rfl, rfl⟩
      | false =>
        simp only [Bool.false_eq_true, if_false]
        have hq := (pending_of_unlatched h hl).1
        have hne : p ≠ q := by intro e; subst e; exact hp hq
        have settle : ∀ (k' : K) (r : PRec), k'.proms = k.proms.set q r → Frozen k k' p := by
          intro k' r h1
          unfold Frozen
          rw [getP_of_proms_set k k' q p r h1]
          simp [hne]
        split
        · exact settle _ _ (rejectP_frame { k with latches := k.latches.set l (q, true) } q .typeErr).1
        · split
          · rename_i e
            exact settle _ _ (rejectP_frame { k with latches := k.latches.set l (q, true) } q e).1
          · exact frozen_of_proms_eq rfl p
          · exact settle _ _ (fulfillP_frame { k with latches := k.latches.set l (q, true) } q v).1
  | callReject l v =>
    simp only [applyOp, callReject]
    split
    · exact ⟨rfl, rfl⟩
    · rename_i q already hl
      cases already with
      | true => exact ⟨rfl, rfl⟩
      | false =>
        simp only [Bool.false_eq_true, if_false]
        have hq := (pending_of_unlatched h hl).1
        have hne : p ≠ q := by intro e; subst e; exact hp hq
        have h1 := (rejectP_frame { k with latches := k.latches.set l (q, true) } q v).1
        unfold Frozen
        rw [getP_of_proms_set _ _ q p _ h1]
        simp [hne]
        exact ⟨rfl, rfl⟩
  | addReactions q cap f g =>
    simp only [applyOp]
    split
    · exact frozen_addReactions k q cap f g p
    · exact ⟨rfl, rfl⟩
  | popJob =>
    simp only [applyOp, popJob]
    split
    · exact ⟨rfl, rfl⟩
    · exact frozen_of_proms_eq (popJobQ_proms k) p
  | asyncStart => exact ⟨rfl, rfl⟩
  | await ar q =>
    simp only [applyOp, awaitOp]
    split
    · exact frozen_addReactions k q none _ _ p
    · exact ⟨rfl, rfl⟩
  | asyncDone ar =>
    simp only [applyOp, asyncDone]
    split <;> exact ⟨rfl, rfl⟩
  | leaveAbrupt => exact ⟨rfl, rfl⟩

end GojaModel.C10
