/-
  C10 — AsyncContextTracker: every reaction that exists in the kernel (stored in a promise or carried by a queued job)
  has an attachment id below the counter; each kernel op moves the counter by 0 or 1.  (Used by ActProps2.lean to show
  that a resumed context was grabbed before.)
-/
import GojaModel.C10.LemmasAs

namespace GojaModel.C10

def Job.rid? : Job → Option Nat
  | .reaction _ _ r _ => some r.rid
  | .thenable _ _ _ _ => none

structure RidInv (k : K) : Prop where
  jobs : ∀ j ∈ k.jobs, ∀ rid, j.rid? = some rid → rid < k.nextRid
  ful : ∀ q, ∀ r ∈ (k.getP q).fulR, r.rid < k.nextRid
  rej : ∀ q, ∀ r ∈ (k.getP q).rejR, r.rid < k.nextRid

theorem trigJobs_rid (owner : Nat) (arg : Val) : ∀ (rs : List Reaction) (sid : Nat) (j : Job) (rid : Nat),
    j ∈ trigJobs sid owner rs arg → j.rid? = some rid → ∃ r ∈ rs, r.rid = rid := by
  intro rs
  induction rs with
  | nil => intro sid j rid h; simp [trigJobs] at h
  | cons r rs ih =>
    intro sid j rid h hr
    simp only [trigJobs, List.mem_cons] at h
    rcases h with h | h
    · subst h; simp [Job.rid?] at hr; exact ⟨r, List.mem_cons_self, hr⟩
    · obtain ⟨r', hm, e⟩ := ih _ j rid h hr
      exact ⟨r', List.mem_cons_of_mem _ hm, e⟩

theorem ridinv_settle {k k' : K} (h : RidInv k) (q : Nat) (r' : PRec) (rs : List Reaction) (v : Val)
    (hr : r'.fulR = [] ∧ r'.rejR = [])
    (hp : k'.proms = k.proms.set q r')
    (hj : k'.jobs = k.jobs ++ trigJobs k.nextSid q rs v)
    (hrs : rs = (k.getP q).fulR ∨ rs = (k.getP q).rejR)
    (hn : k'.nextRid = k.nextRid) : RidInv k' := by
  constructor
  · intro j hjm rid hrid
    rw [hn]
    rw [hj, List.mem_append] at hjm
    rcases hjm with hjm | hjm
    · exact h.jobs j hjm rid hrid
    · obtain ⟨r, hm, e⟩ := trigJobs_rid q v rs _ j rid hjm hrid
      rw [← e]
      rcases hrs with e2 | e2
      · rw [e2] at hm; exact h.ful q r hm
      · rw [e2] at hm; exact h.rej q r hm
  · intro x r hm
    rw [hn]
    rw [getP_of_proms_set k k' q x r' hp] at hm
    split at hm
    · rw [hr.1] at hm; simp at hm
    · exact h.ful x r hm
  · intro x r hm
    rw [hn]
    rw [getP_of_proms_set k k' q x r' hp] at hm
    split at hm
    · rw [hr.2] at hm; simp at hm
    · exact h.rej x r hm

theorem ridinv_rejectP {k : K} (h : RidInv k) (p : Nat) (v : Val) : RidInv (rejectP k p v) :=
  ridinv_settle h p _ _ v ⟨rfl, rfl⟩ (rejectP_frame k p v).1 (rejectP_jobs k p v).1 (Or.inr rfl) (rejectP_nextRid k p v)

theorem ridinv_fulfillP {k : K} (h : RidInv k) (p : Nat) (v : Val) : RidInv (fulfillP k p v) :=
  ridinv_settle h p _ _ v ⟨rfl, rfl⟩ (fulfillP_frame k p v).1 (fulfillP_jobs k p v).1 (Or.inl rfl) (fulfillP_nextRid k p v)

theorem ridinv_congr {k k' : K} (h : RidInv k) (hp : k'.proms = k.proms) (hj : k'.jobs = k.jobs)
    (hn : k'.nextRid = k.nextRid) : RidInv k' := by
  constructor
  · intro j hm rid hr; rw [hn]; rw [hj] at hm; exact h.jobs j hm rid hr
  · intro q r hm; rw [hn]; rw [getP_of_proms_eq hp] at hm; exact h.ful q r hm
  · intro q r hm; rw [hn]; rw [getP_of_proms_eq hp] at hm; exact h.rej q r hm

theorem ridinv_addReactions {k : K} (h : RidInv k) (p : Nat) (cap : Option Cap) (f g : Option Fn) :
    RidInv (addReactions k p cap f g) := by
  by_cases hlt : p < k.proms.length
  · have hrec := addReactions_rec k p cap f g hlt
    have hjobs := (addReactions_jobs k p cap f g hlt).2
    have hn := addReactions_nextRid k p cap f g hlt
    constructor
    · intro j hm rid hr
      rw [hn]
      rw [hjobs] at hm
      cases hs : (k.getP p).state with
      | pending => rw [hs] at hm; have := h.jobs j hm rid hr; omega
      | fulfilled =>
        rw [hs] at hm; simp only [List.mem_append, List.mem_singleton] at hm
        rcases hm with hm | hm
        · have := h.jobs j hm rid hr; omega
        · subst hm; simp [Job.rid?] at hr; omega
      | rejected =>
        rw [hs] at hm; simp only [List.mem_append, List.mem_singleton] at hm
        rcases hm with hm | hm
        · have := h.jobs j hm rid hr; omega
        · subst hm; simp [Job.rid?] at hr; omega
    · intro q r hm
      rw [hn]
      rw [hrec q] at hm
      by_cases e : q = p
      · subst e
        simp only [if_true] at hm
        split at hm
        · simp only [List.mem_append, List.mem_singleton] at hm
          rcases hm with hm | hm
          · have := h.ful q r hm; omega
          · subst hm; simp
        · have := h.ful q r hm; omega
      · simp only [e, if_false] at hm; have := h.ful q r hm; omega
    · intro q r hm
      rw [hn]
      rw [hrec q] at hm
      by_cases e : q = p
      · subst e
        simp only [if_true] at hm
        split at hm
        · simp only [List.mem_append, List.mem_singleton] at hm
          rcases hm with hm | hm
          · have := h.rej q r hm; omega
          · subst hm; simp
        · have := h.rej q r hm; omega
      · simp only [e, if_false] at hm; have := h.rej q r hm; omega
  · unfold addReactions; simp only [hlt, if_false]; exact h

theorem ridinv_popJobQ {k : K} (h : RidInv k) : RidInv (popJobQ k) := by
  cases hj : k.jobs with
  | nil => unfold popJobQ; rw [hj]; exact h
  | cons j rest =>
    have hjobs : (popJobQ k).jobs = rest := by unfold popJobQ; rw [hj]; cases j <;> rfl
    constructor
    · intro x hm rid hr
      rw [popJobQ_nextRid]
      rw [hjobs] at hm
      exact h.jobs x (by rw [hj]; exact List.mem_cons_of_mem _ hm) rid hr
    · intro q r hm; rw [popJobQ_nextRid]; rw [getP_of_proms_eq (popJobQ_proms k)] at hm; exact h.ful q r hm
    · intro q r hm; rw [popJobQ_nextRid]; rw [getP_of_proms_eq (popJobQ_proms k)] at hm; exact h.rej q r hm

theorem ridinv_newCap {k : K} (h : RidInv k) : RidInv (newCap k) := by
  have hg : ∀ q, (newCap k).getP q = k.getP q ∨ (newCap k).getP q = {} := by
    intro q
    by_cases e : q < k.proms.length
    · exact Or.inl (getP_newCap_lt k q e)
    · right
      unfold K.getP newCap createResolvingFunctions newPromise
      simp only [List.getD_eq_getElem?_getD]
      by_cases e2 : q = k.proms.length
      · subst e2; simp
      · have : k.proms.length + 1 ≤ q := by omega
        rw [List.getElem?_eq_none (by simpa using this)]
        rfl
  constructor
  · exact h.jobs
  · intro q r hm
    rcases hg q with e | e
    · rw [e] at hm; exact h.ful q r hm
    · rw [e] at hm; simp at hm
  · intro q r hm
    rcases hg q with e | e
    · rw [e] at hm; exact h.rej q r hm
    · rw [e] at hm; simp at hm

theorem ridinv_applyOp {k : K} (h : RidInv k) (op : KOp) : RidInv (applyOp op k) := by
  cases op with
  | newCap => exact ridinv_newCap h
  | callResolve l v look =>
    simp only [applyOp, callResolve]
    split
    · exact h
    · split
      · exact h
      · rename_i p already hl hal
        have h' : RidInv { k with latches := k.latches.set l (p, true) } := ridinv_congr h rfl rfl rfl
        split
        · exact ridinv_rejectP h' _ _
        · split
          · exact ridinv_rejectP h' _ _
          · constructor
            · intro j hm rid hr
              simp only [enqueue, List.mem_append, List.mem_singleton] at hm
              rcases hm with hm | hm
              · exact h.jobs j hm rid hr
              · subst hm; simp [Job.rid?] at hr
            · exact h.ful
            · exact h.rej
          · exact ridinv_fulfillP h' _ _
  | callReject l v =>
    simp only [applyOp, callReject]
    split
    · exact h
    · split
      · exact h
      · rename_i p already hl hal
        have h' : RidInv { k with latches := k.latches.set l (p, true) } := ridinv_congr h rfl rfl rfl
        exact ridinv_rejectP h' _ _
  | addReactions p cap f g =>
    simp only [applyOp]
    split
    · exact ridinv_addReactions h p cap f g
    · exact h
  | popJob =>
    simp only [applyOp, popJob]
    split
    · exact h
    · exact ridinv_congr (ridinv_popJobQ h) rfl rfl rfl
  | leaveAbrupt =>
    constructor
    · intro j hm; simp [applyOp, leaveAbrupt] at hm
    · exact h.ful
    · exact h.rej
  | asyncStart => exact ridinv_congr h rfl rfl rfl
  | await ar p =>
    simp only [applyOp, awaitOp]
    split
    · exact ridinv_congr (ridinv_addReactions h p none _ _) rfl rfl rfl
    · exact h
  | asyncDone ar =>
    simp only [applyOp, asyncDone]
    split
    · exact ridinv_congr h rfl rfl rfl
    · exact h

theorem ridinv_reach {k : K} (h : Reach k) : RidInv k := by
  induction h with
  | init =>
    constructor
    · intro j hm; simp at hm
    · intro q r hm; rw [getP_default _ _ (by simp)] at hm; simp at hm
    · intro q r hm; rw [getP_default _ _ (by simp)] at hm; simp at hm
  | step op _ ih => exact ridinv_applyOp ih op

/-- Every kernel op leaves the attachment counter or advances it by exactly one. -/
theorem nextRid_step (op : KOp) (k : K) :
    (applyOp op k).nextRid = k.nextRid ∨ (applyOp op k).nextRid = k.nextRid + 1 := by
  have hadd : ∀ p cap f g, (addReactions k p cap f g).nextRid = k.nextRid ∨
      (addReactions k p cap f g).nextRid = k.nextRid + 1 := by
    intro p cap f g
    by_cases hlt : p < k.proms.length
    · exact Or.inr (addReactions_nextRid k p cap f g hlt)
    · left; unfold addReactions; simp only [hlt, if_false]
  cases op with
  | newCap => exact Or.inl rfl
  | callResolve l v look =>
    left
    simp only [applyOp, callResolve]
    split
    · rfl
    · split
      · rfl
      · split
        · exact rejectP_nextRid _ _ _
        · split
          · exact rejectP_nextRid _ _ _
          · rfl
          · exact fulfillP_nextRid _ _ _
  | callReject l v =>
    left
    simp only [applyOp, callReject]
    split
    · rfl
    · split
      · rfl
      · exact rejectP_nextRid _ _ _
  | addReactions p cap f g =>
    simp only [applyOp]
    split
    · exact hadd p cap f g
    · exact Or.inl rfl
  | popJob =>
    left
    simp only [applyOp, popJob]
    split
    · rfl
    · exact popJobQ_nextRid k
  | leaveAbrupt => exact Or.inl rfl
  | asyncStart => exact Or.inl rfl
  | await ar p =>
    simp only [applyOp, awaitOp]
    split
    · exact hadd p none _ _
    · exact Or.inl rfl
  | asyncDone ar =>
    left
    simp only [applyOp, asyncDone]
    split <;> rfl

end GojaModel.C10
