/-
  C10 invariant I1 (queue discipline): ran ++ cur ++ queue = enq, serials strictly increasing.
-/
import GojaModel.C10.Lemmas

namespace GojaModel.C10

/-- Serials of the live enqueue log are strictly increasing and below the next serial. -/
def SidsOk (k : K) : Prop :=
  (k.enq.map Job.sid).Pairwise (· < ·) ∧ ∀ s ∈ k.enq.map Job.sid, s < k.nextSid

/-- I1: the jobs started, the rest of the current batch and the queue are, in this order, exactly the
jobs enqueued (and not discarded by an interrupt). -/
structure QInv (k : K) : Prop where
  fifo : k.ran ++ k.jobs = k.enq
  sids : SidsOk k

theorem sidsOk_append {k : K} (h : SidsOk k) (js : List Job) (n : Nat)
    (hj : js.map Job.sid = List.range' k.nextSid n) :
    ((k.enq ++ js).map Job.sid).Pairwise (· < ·) ∧ ∀ s ∈ (k.enq ++ js).map Job.sid, s < k.nextSid + n := by
  obtain ⟨h1, h2⟩ := h
  constructor
  · rw [List.map_append, List.pairwise_append]
    refine ⟨h1, ?_, ?_⟩
    · rw [hj]; exact List.pairwise_lt_range'
    · intro a ha b hb
      rw [hj, List.mem_range'_1] at hb
      have := h2 a ha
      omega
  · intro s hs
    rw [List.map_append, List.mem_append] at hs
    rcases hs with hs | hs
    · have := h2 s hs; omega
    · rw [hj, List.mem_range'_1] at hs; omega

theorem qinv_trigger {k : K} (h : QInv k) (owner : Nat) (rs : List Reaction) (arg : Val) :
    QInv (trigger k owner rs arg) := by
  rw [trigger_eq]
  constructor
  · simp only []
    rw [← h.fifo]; simp [List.append_assoc]
  · exact sidsOk_append h.sids _ rs.length (trigJobs_sids owner arg rs k.nextSid)

theorem qinv_enqueue {k : K} (h : QInv k) (mk : Nat → Job) (hmk : ∀ s, (mk s).sid = s) :
    QInv (enqueue k mk) := by
  constructor
  · simp only [enqueue]
    rw [← h.fifo]; simp [List.append_assoc]
  · exact sidsOk_append h.sids [mk k.nextSid] 1 (by simp [hmk, List.range'_one])

theorem qinv_congr {k k' : K} (h : QInv k) (h1 : k'.ran = k.ran) (h2 : k'.jobs = k.jobs)
    (h4 : k'.enq = k.enq) (h5 : k'.nextSid = k.nextSid) : QInv k' := by
  constructor
  · rw [h1, h2, h4]; exact h.fifo
  · unfold SidsOk; rw [h4, h5]; exact h.sids

theorem qinv_rejectP {k : K} (h : QInv k) (p : Nat) (v : Val) : QInv (rejectP k p v) := by
  unfold rejectP
  apply qinv_trigger
  split
  · exact qinv_congr h rfl rfl rfl rfl
  · exact qinv_congr h rfl rfl rfl rfl

theorem qinv_fulfillP {k : K} (h : QInv k) (p : Nat) (v : Val) : QInv (fulfillP k p v) := by
  unfold fulfillP
  apply qinv_trigger
  exact qinv_congr h rfl rfl rfl rfl

theorem qinv_markHandled {k : K} (h : QInv k) (p rid : Nat) : QInv (markHandled k p rid) :=
  qinv_congr h rfl rfl rfl rfl

theorem qinv_addReactionsCore {k : K} (h : QInv k) (p : Nat) (fr rr : Reaction) :
    QInv (addReactionsCore k p fr rr) := by
  unfold addReactionsCore
  simp only []
  split
  · exact qinv_congr h rfl rfl rfl rfl
  · apply qinv_enqueue h
    intro s; rfl
  · apply qinv_enqueue
    · split
      · exact h
      · exact qinv_congr h rfl rfl rfl rfl
    · intro s; rfl

theorem qinv_addReactions {k : K} (h : QInv k) (p : Nat) (cap : Option Cap) (f g : Option Fn) :
    QInv (addReactions k p cap f g) := by
  simp only [addReactions]
  split
  · apply qinv_markHandled
    apply qinv_addReactionsCore
    exact qinv_congr h rfl rfl rfl rfl
  · exact h

theorem qinv_popJobQ {k : K} (h : QInv k) : QInv (popJobQ k) := by
  unfold popJobQ
  split
  · exact h
  · rename_i j rest hc
    have h' : QInv { k with jobs := rest, ran := k.ran ++ [j] } := by
      constructor
      · have := h.fifo; rw [hc] at this; simpa [List.append_assoc] using this
      · exact h.sids
    split
    · exact h'
    · exact qinv_congr h' rfl rfl rfl rfl

theorem qinv_applyOp {k : K} (h : QInv k) (op : KOp) : QInv (applyOp op k) := by
  cases op with
  | newCap => exact qinv_congr h rfl rfl rfl rfl
  | callResolve l v look =>
    simp only [applyOp, callResolve]
    split
    · exact h
    · split
      · exact h
      · have h' : QInv { k with latches := k.latches.set l (‹Nat›, true) } := qinv_congr h rfl rfl rfl rfl
        split
        · exact qinv_rejectP h' _ _
        · split
          · exact qinv_rejectP h' _ _
          · apply qinv_enqueue h'
            intro s; rfl
          · exact qinv_fulfillP h' _ _
  | callReject l v =>
    simp only [applyOp, callReject]
    split
    · exact h
    · split
      · exact h
      · apply qinv_rejectP
        exact qinv_congr h rfl rfl rfl rfl
  | addReactions p cap f g =>
    simp only [applyOp]
    split
    · exact qinv_addReactions h p cap f g
    · exact h
  | popJob =>
    simp only [applyOp, popJob]
    split
    · exact h
    · exact qinv_congr (qinv_popJobQ h) rfl rfl rfl rfl
  | asyncStart => exact qinv_congr h rfl rfl rfl rfl
  | await ar p =>
    simp only [applyOp, awaitOp]
    split
    · exact qinv_congr (qinv_addReactions h p none _ _) rfl rfl rfl rfl
    · exact h
  | asyncDone ar =>
    simp only [applyOp, asyncDone]
    split
    · exact qinv_congr h rfl rfl rfl rfl
    · exact h
  | leaveAbrupt =>
    simp only [applyOp, leaveAbrupt]
    constructor
    · simp
    · obtain ⟨h1, h2⟩ := h.sids
      have he := h.fifo
      constructor
      · simp only []
        rw [← he, List.map_append, List.pairwise_append] at h1
        exact h1.1
      · intro s hs
        apply h2
        rw [← he, List.map_append, List.mem_append]
        exact Or.inl hs

theorem qinv_reach {k : K} (h : Reach k) : QInv k := by
  induction h with
  | init => exact ⟨rfl, by simp [SidsOk]⟩
  | step op _ ih => exact qinv_applyOp ih op

end GojaModel.C10
