/-
  C10 — AsyncContextTracker: "the same context will be supplied to the Resumed method" (func.go:40-41), for every
  program: every Resumed(c) is preceded by the Grab that returned c.
-/
import GojaModel.C10.ActInv
import GojaModel.C10.ActProps

namespace GojaModel.C10

def grabsOf : List TEv → List Nat
  | [] => []
  | .grab c :: rest => c :: grabsOf rest
  | _ :: rest => grabsOf rest

/-- Every Resumed(c) in the log comes after a Grab that returned c (`g` = contexts grabbed before the log starts). -/
def resumedGrabbed : List Nat → List TEv → Bool
  | _, [] => true
  | g, .grab c :: rest => resumedGrabbed (c :: g) rest
  | g, .resumed c :: rest => g.contains c && resumedGrabbed g rest
  | g, .exited :: rest => resumedGrabbed g rest
  | g, .interrupt :: rest => resumedGrabbed g rest

theorem grabsOf_snoc (l : List TEv) (e : TEv) :
    grabsOf (l ++ [e]) = grabsOf l ++ (match e with | .grab c => [c] | _ => []) := by
  induction l with
  | nil => cases e <;> rfl
  | cons x xs ih => cases x <;> simp [grabsOf, ih]

theorem resumedGrabbed_snoc : ∀ (l : List TEv) (g : List Nat) (e : TEv),
    resumedGrabbed g (l ++ [e]) =
      (resumedGrabbed g l && (match e with | .resumed c => (g ++ grabsOf l).contains c | _ => true)) := by
  intro l
  induction l with
  | nil => intro g e; cases e <;> simp [resumedGrabbed, grabsOf]
  | cons x xs ih =>
    intro g e
    cases x with
    | grab c =>
      simp only [List.cons_append, resumedGrabbed, grabsOf, ih]
      cases e <;> simp
      rename_i c'
      cases resumedGrabbed (c :: g) xs <;> cases decide (c' = c) <;> cases decide (c' ∈ g) <;> simp
    | resumed c => simp only [List.cons_append, resumedGrabbed, grabsOf, ih, Bool.and_assoc]
    | exited => simp only [List.cons_append, resumedGrabbed, grabsOf, ih]
    | interrupt => simp only [List.cons_append, resumedGrabbed, grabsOf, ih]

theorem areach_kernel {a : AK} (h : AReach a) : Reach a.k := by
  induction h with
  | init => exact .init
  | @step o a0 _ ih =>
    cases o with
    | body b =>
      simp only [applyA]
      split
      · exact Reach.step b.toK ih
      · exact Reach.step b.toK ih
    | startJob =>
      simp only [applyA]
      split
      · exact ih
      · split
        · exact ih
        · split
          · exact Reach.step .popJob ih
          · exact Reach.step .popJob ih
    | endHandler =>
      simp only [applyA]
      split <;> exact ih
    | abrupt =>
      simp only [applyA]
      split <;> exact Reach.step .leaveAbrupt ih

structure ActInv (a : AK) : Prop where
  dom : ∀ rid, rid < a.k.nextRid → ∃ c, lookupCtx a.ctxOf rid = some c ∧ c < a.next
  grabbed : ∀ c, c < a.next → c ∈ grabsOf a.log
  ok : resumedGrabbed [] a.log = true

theorem popJob_nextRid (k : K) : (popJob k).nextRid = k.nextRid := by
  unfold popJob
  split
  · rfl
  · exact popJobQ_nextRid k

theorem actinv_reach {a : AK} (h : AReach a) : ActInv a := by
  induction h with
  | init =>
    exact ⟨fun rid hr => by simp at hr, fun c hc => by simp at hc, rfl⟩
  | @step o a0 hr0 ih =>
    have hk := areach_kernel hr0
    cases o with
    | body b =>
      simp only [applyA]
      split
      · rename_i hn
        exact ⟨fun rid hr => by simp only [] at hr; rw [hn] at hr; exact ih.dom rid hr, ih.grabbed, ih.ok⟩
      · rename_i hn
        have hstep : (applyOp b.toK a0.k).nextRid = a0.k.nextRid + 1 := by
          rcases nextRid_step b.toK a0.k with e | e
          · exact absurd e hn
          · exact e
        refine ⟨?_, ?_, ?_⟩
        · intro rid hr
          simp only [] at hr ⊢
          rw [hstep] at hr
          by_cases e : rid = a0.k.nextRid
          · subst e; exact ⟨a0.next, by simp [lookupCtx], by omega⟩
          · obtain ⟨c, hc1, hc2⟩ := ih.dom rid (by omega)
            refine ⟨c, ?_, by omega⟩
            have : (a0.k.nextRid == rid) = false := by simp; exact fun x => e x.symm
            simp [lookupCtx, this, hc1]
        · intro c hc
          simp only [] at hc ⊢
          rw [grabsOf_snoc]
          by_cases e : c = a0.next
          · subst e; simp
          · exact List.mem_append_left _ (ih.grabbed c (by omega))
        · simp only []
          rw [resumedGrabbed_snoc, ih.ok]; rfl
    | startJob =>
      simp only [applyA]
      split
      · exact ih
      · split
        · exact ih
        · rename_i j rest hj
          split
          · exact ⟨fun rid hr => by simp only [] at hr; rw [popJob_nextRid] at hr; exact ih.dom rid hr, ih.grabbed, ih.ok⟩
          · rename_i c hc
            refine ⟨fun rid hr => by simp only [] at hr; rw [popJob_nextRid] at hr; exact ih.dom rid hr, ?_, ?_⟩
            · intro x hx
              simp only [] at hx ⊢
              rw [grabsOf_snoc]; simp; exact ih.grabbed x hx
            · simp only []
              rw [resumedGrabbed_snoc, ih.ok]
              simp only [Bool.true_and, List.nil_append]
              -- c is the context stored for the job's attachment id, which is below the counter
              cases j with
              | thenable s p tv tf => simp [Job.resumeCtx?] at hc
              | reaction s owner r arg =>
                simp only [Job.resumeCtx?] at hc
                cases hh : r.handler with
                | none => rw [hh] at hc; simp at hc
                | some fn =>
                  rw [hh] at hc
                  simp only [Option.some.injEq] at hc
                  have hrid : r.rid < a0.k.nextRid :=
                    (ridinv_reach hk).jobs (.reaction s owner r arg) (by rw [hj]; exact List.mem_cons_self) r.rid rfl
                  obtain ⟨c', hc1, hc2⟩ := ih.dom r.rid hrid
                  rw [hc1] at hc
                  simp only [Option.getD_some] at hc
                  subst hc
                  simpa using ih.grabbed c' hc2
    | endHandler =>
      simp only [applyA]
      split
      · exact ih
      · refine ⟨ih.dom, ?_, ?_⟩
        · intro x hx; simp only [] at hx ⊢; rw [grabsOf_snoc]; simp; exact ih.grabbed x hx
        · simp only []; rw [resumedGrabbed_snoc, ih.ok]; rfl
    | abrupt =>
      simp only [applyA]
      split
      · exact ⟨ih.dom, ih.grabbed, ih.ok⟩
      · refine ⟨ih.dom, ?_, ?_⟩
        · intro x hx; simp only [] at hx ⊢; rw [grabsOf_snoc]; simp; exact ih.grabbed x hx
        · simp only []; rw [resumedGrabbed_snoc, ih.ok]; rfl

/-- "The same context will be supplied to the Resumed method" (func.go:40-41), for every program: in every reachable
state, every Resumed(c) in the tracker's log is preceded by the Grab call that returned c — the context stored in the
reaction pair at its attachment is the one resumed; no job ever resumes a context that was not handed out. -/
theorem act_resumed_context_was_grabbed {a : AK} (h : AReach a) : resumedGrabbed [] a.log = true :=
  (actinv_reach h).ok

/-- Every attachment made so far has its context on record, and that context is in the log as a Grab. -/
theorem act_every_attachment_has_a_grabbed_context {a : AK} (h : AReach a) (rid : Nat) (hr : rid < a.k.nextRid) :
    ∃ c, lookupCtx a.ctxOf rid = some c ∧ c ∈ grabsOf a.log := by
  obtain ⟨c, h1, h2⟩ := (actinv_reach h).dom rid hr
  exact ⟨c, h1, (actinv_reach h).grabbed c h2⟩

end GojaModel.C10
