/-
  C10 driver: one program per input line (grammar in design/C10.md and harness/cmd/c10/main.go),
  one canonical result line per program.  Core Lean only.
-/
import GojaModel.Base.Proto
import GojaModel.C10.Interp

namespace GojaModel.C10.Driver
open GojaModel.C10

/-! ## Outermost calls (RunString / Go-side resolver) -/

structure SegOut where
  events : List String
  tracker : List (Nat × TrackOp)
  qlen : Nat
  err : String

/-- One outermost call into the runtime with the mechanism-level drain loop. -/
def runSeg (prog : Prog) (seg : Seg) (u : StU) : String × StU := runSegWith drain prog seg u

def aliasOf (seen : List Nat) (p : Nat) : Option Nat :=
  let rec go : List Nat → Nat → Option Nat
    | [], _ => none
    | x :: xs, i => if x == p then some i else go xs (i + 1)
  go seen 0

def firstSeen (tr : List (Nat × TrackOp)) : List Nat :=
  tr.foldl (fun acc e => if acc.contains e.1 then acc else acc ++ [e.1]) []

def trackStr (seen : List Nat) (e : Nat × TrackOp) : String :=
  let a := match aliasOf seen e.1 with
    | some i => toString i
    | none => "?"
  "T" ++ a ++ ":" ++ (match e.2 with | .reject => "r" | .handle => "h")

def stateStr : PState → String
  | .pending => "P" | .fulfilled => "F" | .rejected => "R"

def runProg (prog : Prog) : String :=
  let rec go (segs : List Seg) (u : StU) (acc : List String) : StU × List String :=
    match segs with
    | [] => (u, acc)
    | s :: rest =>
      let evBefore := u.st.events.length
      let trBefore := u.k.tracker.length
      let (err, u') := runSeg prog s u
      let evs := (u'.st.events.take (u'.st.events.length - evBefore)).reverse
      let k := u'.k
      let seen := firstSeen k.tracker
      let trs := (k.tracker.drop trBefore).map (trackStr seen)
      let line := "ev=" ++ ",".intercalate evs ++ ";tr=" ++ ",".intercalate trs ++ ";q=" ++
        toString k.jobs.length ++ ";err=" ++ err
      go rest u' (acc ++ [line])
  let (u, lines) := go prog.segs StU.init []
  let st := u.st
  if st.oof then "OOF" else
  let k := u.k
  let seen := firstSeen k.tracker
  let rec states (sl : List (Option Nat)) (i : Nat) : List String :=
    match sl with
    | [] => []
    | none :: r => states r (i + 1)
    | some q :: r =>
      let pr := k.getP q
      let al := match aliasOf seen q with
        | some a => "T" ++ toString a
        | none => "-"
      (toString i ++ ":" ++ stateStr pr.state ++ ":" ++ reprVal st.slots pr.result ++ ":" ++ al) :: states r (i + 1)
  " # ".intercalate lines ++ " # st=" ++ ",".intercalate (states st.slots 0)

/-! ## Parser -/

def parseNat? (s : String) : Option Nat := s.toNat?

def parseV? (s : String) : Option VExpr :=
  match s.toList with
  | ['u'] => some .u
  | ['a'] => some .arg
  | 'n' :: r => (String.ofList r).toNat?.map .n
  | 'p' :: r => (String.ofList r).toNat?.map .p
  | 't' :: r => (String.ofList r).toNat?.map .t
  | 'b' :: r => (String.ofList r).toNat?.map .b
  | _ => none

def parseF? (s : String) : Option (Option Nat) :=
  if s == "-" then some none else s.toNat?.map some

def takeVs : Nat → List String → Option (List VExpr × List String)
  | 0, ts => some ([], ts)
  | n + 1, t :: ts => do
    let v ← parseV? t
    let (vs, r) ← takeVs n ts
    return (v :: vs, r)
  | _ + 1, [] => none

def combKind? : String → Option CombKind
  | "all" => some .all | "aset" => some .allSettled | "race" => some .race | "any" => some .any
  | _ => none

def combKindC? : String → Option CombKind
  | "allC" => some .all | "asetC" => some .allSettled | "raceC" => some .race | "anyC" => some .any
  | _ => none

/-- Parse one action from the token list. -/
def parseAct? : List String → Option (Act × List String)
  | "log" :: n :: r => do return (.log (← parseNat? n), r)
  | "new" :: k :: s :: f :: r => do return (.new (← parseNat? k) (← parseNat? s) (← parseF? f), r)
  | "res" :: s :: v :: r => do return (.res (← parseNat? s) (← parseV? v), r)
  | "rej" :: s :: v :: r => do return (.rej (← parseNat? s) (← parseV? v), r)
  | "then" :: k :: f :: g :: d :: r => do
    return (.then_ (← parseNat? k) (← parseF? f) (← parseF? g) (← parseNat? d), r)
  | "catch" :: k :: g :: d :: r => do return (.catch_ (← parseNat? k) (← parseF? g) (← parseNat? d), r)
  | "fin" :: k :: f :: d :: r => do return (.fin (← parseNat? k) (← parseF? f) (← parseNat? d), r)
  | "pres" :: v :: d :: r => do return (.pres (← parseV? v) (← parseNat? d), r)
  | "prej" :: v :: d :: r => do return (.prej (← parseV? v) (← parseNat? d), r)
  | "call" :: a :: d :: r => do return (.call (← parseNat? a) (← parseNat? d), r)
  | "int" :: r => some (.interrupt, r)
  | "await" :: v :: r => do return (.await (← parseV? v) false, r)
  | "awaitt" :: v :: r => do return (.await (← parseV? v) true, r)
  | kind :: d :: x :: r =>
    match combKind? kind with
    | some kd => do
      let (vs, r') ← takeVs (← parseNat? x) r
      return (.comb kd none (← parseNat? d) vs, r')
    | none =>
      -- allC / asetC / raceC / anyC  d cid n v*n : the combinator called on user-defined constructor C[cid]
      match r with
      | n :: r2 => do
        let kd ← combKindC? kind
        let (vs, r') ← takeVs (← parseNat? n) r2
        return (.comb kd (some (← parseNat? x)) (← parseNat? d) vs, r')
      | [] => none
  | _ => none

/-- acts ';' compl   (fuel = token count). -/
def parseBody? : Nat → List String → Option Body
  | 0, _ => none
  | _ + 1, [";", "ret", v] => do return { acts := [], compl := .ret (← parseV? v) }
  | _ + 1, [";", "throw", v] => do return { acts := [], compl := .throw (← parseV? v) }
  | n + 1, ts => do
    let (a, r) ← parseAct? ts
    let b ← parseBody? n r
    return { b with acts := a :: b.acts }

def parseSection? (prog : Prog) (ts : List String) : Option Prog :=
  match ts with
  | "F" :: id :: r => do
    let b ← parseBody? (r.length + 1) r
    return { prog with funs := prog.funs ++ [(← parseNat? id, b)] }
  | "A" :: id :: r => do
    let b ← parseBody? (r.length + 1) r
    return { prog with asyncs := prog.asyncs ++ [(← parseNat? id, b)] }
  | "T" :: id :: slot :: g :: r => do
    let b ← parseBody? (r.length + 1) r
    let gt ← if g == "-" then some none else (parseV? g).map some
    return { prog with thens := prog.thens ++ [(← parseNat? id, { slot := ← parseNat? slot, getterThrows := gt, body := b })] }
  | ["C", id, kind, tid] => do
    let plain ← if kind == "f" then some true else if kind == "s" then some false else none
    return { prog with ctors := prog.ctors ++ [(← parseNat? id, { plain := plain, tid := ← parseNat? tid })] }
  | "R" :: r => do
    let b ← parseBody? (r.length + 1) r
    return { prog with segs := prog.segs ++ [.run b] }
  | ["G", "gnew", k, g] => do
    return { prog with segs := prog.segs ++ [.go (.gnew (← parseNat? k) (← parseNat? g))] }
  | ["G", "gres", g, v] => do
    return { prog with segs := prog.segs ++ [.go (.gres (← parseNat? g) (← parseV? v))] }
  | ["G", "grej", g, v] => do
    return { prog with segs := prog.segs ++ [.go (.grej (← parseNat? g) (← parseV? v))] }
  | _ => none

def parseProg? (line : String) : Option Prog :=
  (line.splitOn "|").foldl (fun acc sec => match acc with
    | none => none
    | some p => parseSection? p (GojaModel.Proto.words sec)) (some {})

def answer (line : String) : String :=
  match parseProg? line with
  | none => "PARSE-ERROR"
  | some p => runProg p

def main : IO Unit := GojaModel.Proto.lineMap answer

end GojaModel.C10.Driver
