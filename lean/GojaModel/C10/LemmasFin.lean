/-
  C10: Promise.prototype.finally — what the thenFinally / catchFinally closures do (interpreter level),
  and deferral of resolution with a thenable (kernel level).
-/
import GojaModel.C10.LemmasAw
import GojaModel.C10.Interp
namespace GojaModel.C10
variable {k0 : K}

/-- Values that promiseResolve wraps and whose `then` lookup finds nothing callable. -/
def Val.plain : Val → Bool
  | .prom _ => false
  | .thenable _ => false
  | _ => true

def St.ops (st : St k0) (os : List BOp) : St k0 := { st with rk := os.foldl BK.apply st.rk }

theorem promiseResolve_plain (prog : Prog) (x : Val) (hx : x.plain = true) (st : St k0) :
    (promiseResolveM prog x).run st =
      (st.rk.val.proms.length,
       st.ops [.newCap, .callResolve st.rk.val.latches.length x .notCallable]) := by
  have hl := newCap_latch st.rk.val
  have hself : isSelf x st.rk.val.proms.length = false := by
    cases x <;> simp [Val.plain] at hx <;> rfl
  cases x <;> simp [Val.plain] at hx <;>
    simp [promiseResolveM, newCapM, capResolve, doResolve, kget, op, thenLookM, bind, StateT.bind, get, getThe,
      MonadStateOf.get, StateT.get, modify, modifyGet, MonadStateOf.modifyGet, StateT.modifyGet, pure, StateT.pure,
      StateT.run, BK.apply, applyOp, BOp.toK, hl, hself, St.ops, isSelf]

theorem callResolve_lens (k : K) (l : Nat) (v : Val) (look : ThenLook) :
    (callResolve k l v look).proms.length = k.proms.length ∧ (callResolve k l v look).latches.length = k.latches.length := by
  unfold callResolve
  split
  · exact ⟨rfl, rfl⟩
  · split
    · exact ⟨rfl, rfl⟩
    · rename_i p already hl hal
      split
      · obtain ⟨a, b, _⟩ := rejectP_frame { k with latches := k.latches.set l (p, true) } p .typeErr
        rw [a, b]; simp
      · split
        · rename_i e
          obtain ⟨a, b, _⟩ := rejectP_frame { k with latches := k.latches.set l (p, true) } p e
          rw [a, b]; simp
        · simp [enqueue]
        · obtain ⟨a, b, _⟩ := fulfillP_frame { k with latches := k.latches.set l (p, true) } p v
          rw [a, b]; simp

theorem ops_ops (st : St k0) (a b : List BOp) : (st.ops a).ops b = st.ops (a ++ b) := by
  simp [St.ops, List.foldl_append]

theorem ops2_lens (st : St k0) (l : Nat) (x : Val) (look : ThenLook) :
    (st.ops [.newCap, .callResolve l x look]).rk.val.proms.length = st.rk.val.proms.length + 1 ∧
    (st.ops [.newCap, .callResolve l x look]).rk.val.latches.length = st.rk.val.latches.length + 1 := by
  simp only [St.ops, List.foldl_cons, List.foldl_nil, BK.apply, BOp.toK, applyOp]
  obtain ⟨a, b⟩ := callResolve_lens (newCap st.rk.val) l x look
  rw [a, b]
  simp [newCap, createResolvingFunctions, newPromise]

theorem invokeThen_native (prog : Prog) (n : Nat) (q : Nat) (onF : Fn) (st : St k0) (hbad : badTid st q = none) :
    (invokeThenR prog (n + 1) (.prom q) [.f onF]).run st =
      (.normal (.prom st.rk.val.proms.length),
       st.ops [.newCap, .addReactions q (some (Cap.mk st.rk.val.proms.length (.resolve st.rk.val.latches.length) (.reject st.rk.val.latches.length)))
         (some onF) none]) := by
  simp [invokeThenR, invokeThen, performThen, newCapM, kget, op, hbad, argFn, bind, StateT.bind, get, getThe,
      MonadStateOf.get, StateT.get, modify, modifyGet, MonadStateOf.modifyGet, StateT.modifyGet, pure, StateT.pure,
      StateT.run, BK.apply, St.ops]

/-- Promise.prototype.finally, the thenFinally closure (builtin_promise.go:362-370), when onFinally returns a plain
value x: it never hands `value` on directly.  It creates a promise q resolved with x, attaches a value thunk to q
through a fresh capability d, and returns d — exactly these four kernel ops, nothing else. -/
theorem thenFinally_spec (prog : Prog) (n f : Nat) (this value x : Val) (st st1 : St k0)
    (hcall : (callFn prog (n + 1) (.user f) .undef []).run st = (.normal x, st1))
    (hx : x.plain = true) (hbad : badTid st1 st1.rk.val.proms.length = none) :
    (callFn prog (n + 2) (.thenFinally f) this [.v value]).run st =
      (.normal (.prom (st1.rk.val.proms.length + 1)),
       st1.ops [.newCap, .callResolve st1.rk.val.latches.length x .notCallable, .newCap,
         .addReactions st1.rk.val.proms.length
           (some (Cap.mk (st1.rk.val.proms.length + 1) (.resolve (st1.rk.val.latches.length + 1))
                   (.reject (st1.rk.val.latches.length + 1))))
           (some (.valueThunk value)) none]) := by
  have h1 := promiseResolve_plain prog x hx st1
  simp only [callFn, StateT.run, bind, StateT.bind] at hcall ⊢
  rw [hcall]
  simp only [StateT.run] at h1
  simp only [StateT.bind, h1]
  have hb : badTid (st1.ops [.newCap, .callResolve st1.rk.val.latches.length x .notCallable]) st1.rk.val.proms.length = none := hbad
  have h2 := invokeThen_native prog n st1.rk.val.proms.length (.valueThunk value) _ hb
  simp only [StateT.run] at h2
  simp only [argVal]
  show invokeThenR prog (n + 1) (Val.prom st1.rk.val.proms.length) [Arg.f (Fn.valueThunk value)]
    (st1.ops [BOp.newCap, BOp.callResolve st1.rk.val.latches.length x ThenLook.notCallable]) = _
  rw [h2, ops_ops]
  obtain ⟨e1, e2⟩ := ops2_lens st1 st1.rk.val.latches.length x .notCallable
  rw [e1, e2]
  rfl

/-- The catchFinally closure (builtin_promise.go:372-380), onFinally returning a plain value: same structure with a
thrower instead of the value thunk. -/
theorem catchFinally_spec (prog : Prog) (n f : Nat) (this reason x : Val) (st st1 : St k0)
    (hcall : (callFn prog (n + 1) (.user f) .undef []).run st = (.normal x, st1))
    (hx : x.plain = true) (hbad : badTid st1 st1.rk.val.proms.length = none) :
    (callFn prog (n + 2) (.catchFinally f) this [.v reason]).run st =
      (.normal (.prom (st1.rk.val.proms.length + 1)),
       st1.ops [.newCap, .callResolve st1.rk.val.latches.length x .notCallable, .newCap,
         .addReactions st1.rk.val.proms.length
           (some (Cap.mk (st1.rk.val.proms.length + 1) (.resolve (st1.rk.val.latches.length + 1))
                   (.reject (st1.rk.val.latches.length + 1))))
           (some (.thrower reason)) none]) := by
  have h1 := promiseResolve_plain prog x hx st1
  simp only [callFn, StateT.run, bind, StateT.bind] at hcall ⊢
  rw [hcall]
  simp only [StateT.run] at h1
  simp only [StateT.bind, h1]
  have hb : badTid (st1.ops [.newCap, .callResolve st1.rk.val.latches.length x .notCallable]) st1.rk.val.proms.length = none := hbad
  have h2 := invokeThen_native prog n st1.rk.val.proms.length (.thrower reason) _ hb
  simp only [StateT.run] at h2
  simp only [argVal]
  show invokeThenR prog (n + 1) (Val.prom st1.rk.val.proms.length) [Arg.f (Fn.thrower reason)]
    (st1.ops [BOp.newCap, BOp.callResolve st1.rk.val.latches.length x ThenLook.notCallable]) = _
  rw [h2, ops_ops]
  obtain ⟨e1, e2⟩ := ops2_lens st1 st1.rk.val.latches.length x .notCallable
  rw [e1, e2]
  rfl

/-- If onFinally throws (or is interrupted) the closure propagates that completion and touches nothing else. -/
theorem thenFinally_abrupt (prog : Prog) (n f : Nat) (this value : Val) (st st1 : St k0) (r : Res)
    (hcall : (callFn prog (n + 1) (.user f) .undef []).run st = (r, st1))
    (hr : ∀ x, r ≠ .normal x) :
    (callFn prog (n + 2) (.thenFinally f) this [.v value]).run st = (r, st1) := by
  simp only [callFn, StateT.run, bind, StateT.bind] at hcall ⊢
  rw [hcall]
  cases r with
  | normal x => exact absurd rfl (hr x)
  | throw e => rfl
  | abort => rfl

/-- Resolving a pending promise with a thenable (or with another promise) never settles it in the same job: the only
effect is ONE thenable job appended to the queue; the promise table is untouched. -/
theorem resolve_with_thenable_defers_k (k : K) (l p : Nat) (v : Val) (f : Fn)
    (hl : k.latches[l]? = some (p, false)) (hv : isSelf v p = false) :
    (callResolve k l v (.callable f)).jobs = k.jobs ++ [Job.thenable k.nextSid p v f] ∧
    (callResolve k l v (.callable f)).proms = k.proms := by
  unfold callResolve
  rw [hl]
  simp [hv, enqueue]

end GojaModel.C10
