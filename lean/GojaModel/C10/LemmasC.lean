/-
  C10: remainingElementsCount protocol of all/allSettled/any.
-/
import GojaModel.C10.Comb

namespace GojaModel.C10

/-- Number of elements whose function has not fired yet. -/
def openCells (c : CombRec) : Nat := c.cells.countP (fun b => !b)

structure CInv (c : CombRec) : Prop where
  count : c.remaining = (if c.iterating then 1 else 0) + (openCells c : Int)
  len : c.values.length = c.cells.length
  fires : c.fires = if c.iterating = false ∧ openCells c = 0 then 1 else 0

theorem countP_not_set_true : ∀ (l : List Bool) (i : Nat), l[i]? = some false →
    (l.set i true).countP (fun b => !b) + 1 = l.countP (fun b => !b) := by
  intro l
  induction l with
  | nil => intro i h; simp at h
  | cons x xs ih =>
    intro i h
    cases i with
    | zero => simp at h; subst h; simp
    | succ i =>
      simp only [List.getElem?_cons_succ] at h
      have := ih i h
      simp only [List.set_cons_succ, List.countP_cons]
      omega

theorem dec_fire (c : CombRec) (h : c.remaining - 1 = 0) :
    c.dec = ({ c with remaining := c.remaining - 1, fires := c.fires + 1 }, true) := by
  unfold CombRec.dec; simp [h]

theorem dec_nofire (c : CombRec) (h : c.remaining - 1 ≠ 0) :
    c.dec = ({ c with remaining := c.remaining - 1 }, false) := by
  unfold CombRec.dec; simp [h]

theorem cinv_dec {c : CombRec} (hc : c.remaining = (if c.iterating then 1 else 0) + (openCells c : Int) + 1)
    (hl : c.values.length = c.cells.length) (hf : c.fires = 0) :
    CInv c.dec.1 ∧ (c.dec.2 = true ↔ (c.iterating = false ∧ openCells c = 0)) := by
  by_cases h0 : c.remaining - 1 = 0
  · rw [dec_fire c h0]
    have hit : c.iterating = false ∧ openCells c = 0 := by
      cases hi : c.iterating <;> simp [hi] at hc ⊢ <;> omega
    refine ⟨⟨?_, hl, ?_⟩, by simp [hit]⟩
    · show c.remaining - 1 = (if c.iterating then 1 else 0) + (openCells c : Int)
      rw [hit.1, hit.2]; simp; omega
    · show c.fires + 1 = if c.iterating = false ∧ openCells c = 0 then 1 else 0
      simp [hit, hf]
  · rw [dec_nofire c h0]
    have hit : ¬ (c.iterating = false ∧ openCells c = 0) := by
      intro ⟨a, b⟩; rw [a, b] at hc; simp at hc; omega
    refine ⟨⟨?_, hl, ?_⟩, by simp [hit]⟩
    · show c.remaining - 1 = (if c.iterating then 1 else 0) + (openCells c : Int)
      omega
    · show c.fires = if c.iterating = false ∧ openCells c = 0 then 1 else 0
      rw [hf]; simp only [hit, if_false]

theorem cinv_applyC {c : CombRec} (h : CInv c) (op : COp) : CInv (applyC op c) := by
  cases op with
  | addElem =>
    simp only [applyC, CombRec.addElem]
    split
    · rename_i hi
      have hoc : openCells { c with values := c.values ++ [.undef], cells := c.cells ++ [false], remaining := c.remaining + 1 }
          = openCells c + 1 := by
        show (c.cells ++ [false]).countP (fun b => !b) = c.cells.countP (fun b => !b) + 1
        simp
      constructor
      · show c.remaining + 1 = (if c.iterating then 1 else 0) + ((openCells { c with values := c.values ++ [.undef], cells := c.cells ++ [false], remaining := c.remaining + 1 } : Nat) : Int)
        rw [hoc]; have := h.count; omega
      · show (c.values ++ [Val.undef]).length = (c.cells ++ [false]).length
        simp [h.len]
      · show c.fires = if c.iterating = false ∧ openCells { c with values := c.values ++ [.undef], cells := c.cells ++ [false], remaining := c.remaining + 1 } = 0 then 1 else 0
        rw [hoc, h.fires]; simp [hi]
    · exact h
  | finish =>
    simp only [applyC, CombRec.finish]
    split
    · rename_i hi
      have hc := h.count
      rw [hi] at hc
      have hf : c.fires = 0 := by have := h.fires; simp [hi] at this; exact this
      exact (cinv_dec (c := { c with iterating := false }) (by simp [openCells] at hc ⊢; omega) h.len hf).1
    · exact h
  | elemCall idx v =>
    simp only [applyC, CombRec.elemCall]
    split
    · exact h
    · exact h
    · rename_i hcell
      have hcnt := countP_not_set_true c.cells idx hcell
      have hf : c.fires = 0 := by
        have := h.fires
        have hpos : 0 < openCells c := by unfold openCells; omega
        have : ¬ (c.iterating = false ∧ openCells c = 0) := by intro ⟨_, b⟩; omega
        rw [h.fires]; simp [this]
      refine (cinv_dec (c := { c with cells := c.cells.set idx true, values := c.values.set idx v }) ?_ ?_ hf).1
      · have := h.count
        simp only [openCells] at this ⊢
        omega
      · simp [h.len]

theorem cinv_reach {c : CombRec} (h : CReach c) : CInv c := by
  induction h with
  | init => exact ⟨by simp [openCells], rfl, by simp⟩
  | step op _ ih => exact cinv_applyC ih op

end GojaModel.C10
