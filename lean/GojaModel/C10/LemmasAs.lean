/-
  C10: control state of async function activations (asyncRunner): at most/exactly one pending resumption per
  suspended activation, none otherwise; the n-th resumption follows the n-th await.
-/
import GojaModel.C10.LemmasA

namespace GojaModel.C10

/-- Reaction `r` resumes activation `ar` (its handler is that activation's onFulfilled or onRejected). -/
def rRun (ar : Nat) (r : Reaction) : Bool := r.runner? == some ar
def jRun (ar : Nat) (j : Job) : Bool := j.runner? == some ar

/-- Stored (not yet triggered) resumptions of `ar`: pairs in the lists of pending promises (counted on the fulfil side). -/
def listCount (k : K) (ar : Nat) : Nat := (k.proms.map (fun pr => pr.fulR.countP (rRun ar))).sum

/-- Pending ways to resume `ar`: stored pairs + queued reaction jobs. -/
def acount (k : K) (ar : Nat) : Nat := listCount k ar + k.jobs.countP (jRun ar)

def susp (r : Runner) : Nat := if r.phase = .suspended then 1 else 0

/-- 1 while the activation has executed an await that has not resumed it (suspended, or abandoned by an interrupt). -/
def waiting (r : Runner) : Nat := if r.phase = .suspended ∨ r.phase = .abandoned then 1 else 0

structure AsInv (k : K) : Prop where
  pair : ∀ q ar, (k.getP q).rejR.countP (rRun ar) = (k.getP q).fulR.countP (rRun ar)
  count : ∀ ar, acount k ar = susp (k.getR ar)
  ctr : ∀ ar, (k.getR ar).awaits = (k.getR ar).resumes + waiting (k.getR ar)

/-! ### list arithmetic -/

theorem sum_map_set {α : Type} (f : α → Nat) : ∀ (l : List α) (i : Nat) (a b : α), l[i]? = some a →
    ((l.set i b).map f).sum + f a = (l.map f).sum + f b := by
  intro l
  induction l with
  | nil => intro i a b h; simp at h
  | cons x xs ih =>
    intro i a b h
    cases i with
    | zero => simp at h; subst h; simp; omega
    | succ i =>
      simp only [List.getElem?_cons_succ] at h
      have := ih i a b h
      simp only [List.set_cons_succ, List.map_cons, List.sum_cons]
      omega

theorem getP_eq_getElem (k : K) (q : Nat) (h : q < k.proms.length) : k.proms[q]? = some (k.getP q) := by
  unfold K.getP
  simp [List.getD_eq_getElem?_getD, List.getElem?_eq_getElem h]

theorem listCount_of_proms_set (k k' : K) (q : Nat) (r : PRec) (hp : k'.proms = k.proms.set q r)
    (hlt : q < k.proms.length) (ar : Nat) :
    listCount k' ar + (k.getP q).fulR.countP (rRun ar) = listCount k ar + r.fulR.countP (rRun ar) := by
  unfold listCount
  rw [hp]
  exact sum_map_set _ k.proms q (k.getP q) r (getP_eq_getElem k q hlt)

theorem listCount_of_proms_eq (k k' : K) (hp : k'.proms = k.proms) (ar : Nat) : listCount k' ar = listCount k ar := by
  unfold listCount; rw [hp]

theorem trigJobs_count (owner : Nat) (arg : Val) (ar : Nat) : ∀ (rs : List Reaction) (sid : Nat),
    (trigJobs sid owner rs arg).countP (jRun ar) = rs.countP (rRun ar) := by
  intro rs
  induction rs with
  | nil => intro sid; simp [trigJobs]
  | cons r rs ih =>
    intro sid
    simp only [trigJobs, List.countP_cons, ih]
    rfl

theorem getR_of_runners_eq {k k' : K} (h : k'.runners = k.runners) (ar : Nat) : k'.getR ar = k.getR ar := by
  unfold K.getR; rw [h]

theorem getR_set (k : K) (a : Nat) (r : Runner) (ar : Nat) (hlt : a < k.runners.length)
    (k' : K) (h : k'.runners = k.runners.set a r) : k'.getR ar = if ar = a then r else k.getR ar := by
  unfold K.getR
  rw [h]
  simp only [List.getD_eq_getElem?_getD, List.getElem?_set]
  by_cases e : a = ar
  · subst e; simp [hlt]
  · have : ¬ (ar = a) := fun x => e x.symm
    simp [e, this]

/-! ### settling -/

theorem asinv_settle {k k' : K} (h : AsInv k) (q : Nat) (r' : PRec) (rs : List Reaction) (v : Val)
    (hr : r'.fulR = [] ∧ r'.rejR = [])
    (hp : k'.proms = k.proms.set q r')
    (hj : k'.jobs = k.jobs ++ trigJobs k.nextSid q rs v)
    (hrs : rs = (k.getP q).fulR ∨ rs = (k.getP q).rejR)
    (hru : k'.runners = k.runners) : AsInv k' := by
  have hcnt : ∀ ar, rs.countP (rRun ar) = (k.getP q).fulR.countP (rRun ar) := by
    intro ar
    rcases hrs with e | e
    · rw [e]
    · rw [e]; exact h.pair q ar
  constructor
  · intro x ar
    rw [getP_of_proms_set k k' q x r' hp]
    split
    · simp [hr.1, hr.2]
    · exact h.pair x ar
  · intro ar
    rw [getR_of_runners_eq hru, ← h.count ar]
    unfold acount
    rw [hj, List.countP_append, trigJobs_count, hcnt]
    by_cases hlt : q < k.proms.length
    · have := listCount_of_proms_set k k' q r' hp hlt ar
      rw [hr.1] at this
      simp at this
      omega
    · have e1 : k'.proms = k.proms := by rw [hp]; exact List.set_eq_of_length_le (by omega)
      have e2 : k.getP q = {} := getP_default k q (by omega)
      rw [listCount_of_proms_eq k k' e1, e2]
      simp
  · intro ar; rw [getR_of_runners_eq hru]; exact h.ctr ar

theorem rejectP_jobs (k : K) (p : Nat) (v : Val) :
    (rejectP k p v).jobs = k.jobs ++ trigJobs k.nextSid p (k.getP p).rejR v ∧ (rejectP k p v).runners = k.runners := by
  unfold rejectP
  simp only []
  rw [trigger_eq]
  split <;> exact ⟨rfl, rfl⟩

theorem fulfillP_jobs (k : K) (p : Nat) (v : Val) :
    (fulfillP k p v).jobs = k.jobs ++ trigJobs k.nextSid p (k.getP p).fulR v ∧ (fulfillP k p v).runners = k.runners := by
  unfold fulfillP
  simp only []
  rw [trigger_eq]
  exact ⟨rfl, rfl⟩

theorem asinv_rejectP {k : K} (h : AsInv k) (p : Nat) (v : Val) : AsInv (rejectP k p v) :=
  asinv_settle h p _ _ v ⟨rfl, rfl⟩ (rejectP_frame k p v).1 (rejectP_jobs k p v).1 (Or.inr rfl) (rejectP_jobs k p v).2

theorem asinv_fulfillP {k : K} (h : AsInv k) (p : Nat) (v : Val) : AsInv (fulfillP k p v) :=
  asinv_settle h p _ _ v ⟨rfl, rfl⟩ (fulfillP_frame k p v).1 (fulfillP_jobs k p v).1 (Or.inl rfl) (fulfillP_jobs k p v).2

theorem asinv_congr {k k' : K} (h : AsInv k) (hp : k'.proms = k.proms) (hj : k'.jobs = k.jobs)
    (hr : k'.runners = k.runners) : AsInv k' := by
  constructor
  · intro q ar; rw [getP_of_proms_eq hp]; exact h.pair q ar
  · intro ar
    rw [getR_of_runners_eq hr, ← h.count ar]
    unfold acount
    rw [hj, listCount_of_proms_eq k k' hp]
  · intro ar; rw [getR_of_runners_eq hr]; exact h.ctr ar

theorem proms_set_of_pointwise (k k' : K) (p : Nat) (hlen : k'.proms.length = k.proms.length)
    (hlt : p < k.proms.length) (hq : ∀ q, q ≠ p → k'.getP q = k.getP q) :
    k'.proms = k.proms.set p (k'.getP p) := by
  apply List.ext_getElem?
  intro q
  rw [List.getElem?_set]
  by_cases e : p = q
  · subst e
    simp only [if_true, hlt]
    exact getP_eq_getElem k' p (by omega)
  · simp only [e, if_false]
    by_cases hl : q < k.proms.length
    · rw [getP_eq_getElem k' q (by omega), getP_eq_getElem k q hl, hq q (fun x => e x.symm)]
    · rw [List.getElem?_eq_none (by omega), List.getElem?_eq_none (by omega)]

/-- Full record of every promise after addReactions on `p` (inside the table). -/
theorem addReactions_rec (k : K) (p : Nat) (cap : Option Cap) (f g : Option Fn) (hlt : p < k.proms.length) (q : Nat) :
    (addReactions k p cap f g).getP q =
      if q = p then
        (if (k.getP p).state = .pending then
          { k.getP p with
            fulR := (k.getP p).fulR ++ [{ cap := cap, isFul := true, handler := f, rid := k.nextRid }],
            rejR := (k.getP p).rejR ++ [{ cap := cap, isFul := false, handler := g, rid := k.nextRid }],
            handled := true, attached := (k.getP p).attached ++ [k.nextRid] }
        else { k.getP p with handled := true, attached := (k.getP p).attached ++ [k.nextRid] })
      else k.getP q := by
  unfold addReactions
  simp only [hlt, if_true]
  generalize hk1e : ({ k with nextRid := k.nextRid + 1 } : K) = k1
  have hg : ∀ q, k1.getP q = k.getP q := by intro q; rw [← hk1e]; rfl
  have hl1 : k1.proms.length = k.proms.length := by rw [← hk1e]
  generalize ({ cap := cap, isFul := true, handler := f, rid := k.nextRid } : Reaction) = fr
  generalize ({ cap := cap, isFul := false, handler := g, rid := k.nextRid } : Reaction) = rr
  have hclen := (addReactionsCore_frame k1 p fr rr).2.2.1
  rw [markHandled_rec, hclen, hl1]
  by_cases hs : (k1.getP p).state = .pending
  · have hs' : (k.getP p).state = .pending := by rw [← hg]; exact hs
    rw [core_pending k1 p fr rr hs, core_pending k1 p fr rr hs, hl1]
    by_cases e : q = p
    · subst e; simp [hlt, hg, hs']
    · simp [e, hg]
  · have hs' : ¬ (k.getP p).state = .pending := by rw [← hg]; exact hs
    rw [core_settled k1 p fr rr hs, core_settled k1 p fr rr hs]
    by_cases e : q = p
    · subst e; simp [hlt, hg, hs']
    · simp [e, hg]

theorem addReactions_jobs (k : K) (p : Nat) (cap : Option Cap) (f g : Option Fn) (hlt : p < k.proms.length) :
    (addReactions k p cap f g).runners = k.runners ∧
    (addReactions k p cap f g).jobs =
      match (k.getP p).state with
      | .pending => k.jobs
      | .fulfilled => k.jobs ++ [.reaction k.nextSid p { cap := cap, isFul := true, handler := f, rid := k.nextRid } (k.getP p).result]
      | .rejected => k.jobs ++ [.reaction k.nextSid p { cap := cap, isFul := false, handler := g, rid := k.nextRid } (k.getP p).result] := by
  have e1 : (({ k with nextRid := k.nextRid + 1 } : K).getP p) = k.getP p := rfl
  have mj : ∀ (kk : K) (rid : Nat), (markHandled kk p rid).jobs = kk.jobs ∧ (markHandled kk p rid).runners = kk.runners :=
    fun _ _ => ⟨rfl, rfl⟩
  unfold addReactions
  simp only [hlt, if_true]
  rw [(mj _ _).1, (mj _ _).2]
  unfold addReactionsCore
  simp only [e1]
  cases (k.getP p).state with
  | pending => exact ⟨rfl, rfl⟩
  | fulfilled => exact ⟨rfl, rfl⟩
  | rejected => simp only []; split <;> exact ⟨rfl, rfl⟩

/-! ### attaching -/

def hRun : Option Fn → Option Nat
  | some (.asyncFul a) => some a
  | some (.asyncRej a) => some a
  | _ => none

theorem runner?_eq (r : Reaction) : r.runner? = hRun r.handler := by
  unfold Reaction.runner? hRun
  cases r.handler with
  | none => rfl
  | some fn => cases fn <;> rfl

theorem hRun_noAsync (f : Option Fn) (h : noAsync f = true) : hRun f = none := by
  cases f with
  | none => rfl
  | some fn => cases fn <;> simp [noAsync, isAsyncFn, hRun] at h ⊢

theorem addReactions_len (k : K) (p : Nat) (cap : Option Cap) (f g : Option Fn) :
    (addReactions k p cap f g).proms.length = k.proms.length := by
  unfold addReactions
  split
  · rw [(markHandled_frame _ _ _).2.2.1, (addReactionsCore_frame _ _ _ _).2.2.1]
  · rfl

/-- Effect of attaching a pair whose two handlers resume activation `t` (or no activation). -/
theorem addReactions_acount {k : K} (h : AsInv k) (p : Nat) (cap : Option Cap) (f g : Option Fn)
    (hlt : p < k.proms.length) (t : Option Nat) (hf : hRun f = t) (hg : hRun g = t) :
    (∀ q ar, ((addReactions k p cap f g).getP q).rejR.countP (rRun ar) =
              ((addReactions k p cap f g).getP q).fulR.countP (rRun ar)) ∧
    (∀ ar, acount (addReactions k p cap f g) ar = acount k ar + (if t = some ar then 1 else 0)) ∧
    (addReactions k p cap f g).runners = k.runners := by
  have hfr : ∀ ar, rRun ar { cap := cap, isFul := true, handler := f, rid := k.nextRid } = (t == some ar) := by
    intro ar; unfold rRun; rw [runner?_eq]; simp only []; rw [hf]
  have hrr : ∀ ar, rRun ar { cap := cap, isFul := false, handler := g, rid := k.nextRid } = (t == some ar) := by
    intro ar; unfold rRun; rw [runner?_eq]; simp only []; rw [hg]
  have hrec := addReactions_rec k p cap f g hlt
  obtain ⟨hrun, hjobs⟩ := addReactions_jobs k p cap f g hlt
  have hset := proms_set_of_pointwise k (addReactions k p cap f g) p (addReactions_len k p cap f g) hlt
    (fun q hq => by rw [hrec q]; simp [hq])
  refine ⟨?_, ?_, hrun⟩
  · intro q ar
    rw [hrec q]
    by_cases e : q = p
    · subst e
      simp only [if_true]
      split
      · simp only [List.countP_append, List.countP_cons, List.countP_nil, hfr, hrr]
        have := h.pair q ar; omega
      · exact h.pair q ar
    · simp only [e, if_false]; exact h.pair q ar
  · intro ar
    have hl := listCount_of_proms_set k _ p _ hset hlt ar
    rw [hrec p] at hl
    simp only [if_true] at hl
    unfold acount
    rw [hjobs]
    cases hs : (k.getP p).state with
    | pending =>
      simp only [hs, if_true, List.countP_append, List.countP_cons, List.countP_nil, hfr] at hl ⊢
      by_cases e : t = some ar <;> simp [e] at hl ⊢ <;> omega
    | fulfilled =>
      simp only [hs] at hl ⊢
      simp only [List.countP_append, List.countP_cons, List.countP_nil]
      have hj : jRun ar (Job.reaction k.nextSid p { cap := cap, isFul := true, handler := f, rid := k.nextRid } (k.getP p).result)
          = (t == some ar) := hfr ar
      rw [hj]
      simp at hl
      by_cases e : t = some ar <;> simp [e] <;> omega
    | rejected =>
      simp only [hs] at hl ⊢
      simp only [List.countP_append, List.countP_cons, List.countP_nil]
      have hj : jRun ar (Job.reaction k.nextSid p { cap := cap, isFul := false, handler := g, rid := k.nextRid } (k.getP p).result)
          = (t == some ar) := hrr ar
      rw [hj]
      simp at hl
      by_cases e : t = some ar <;> simp [e] <;> omega

theorem asinv_addReactions_plain {k : K} (h : AsInv k) (p : Nat) (cap : Option Cap) (f g : Option Fn)
    (hf : noAsync f = true) (hg : noAsync g = true) : AsInv (addReactions k p cap f g) := by
  by_cases hlt : p < k.proms.length
  · obtain ⟨a, b, c⟩ := addReactions_acount h p cap f g hlt none (hRun_noAsync f hf) (hRun_noAsync g hg)
    constructor
    · exact a
    · intro ar; rw [b ar, getR_of_runners_eq c]; simp; exact h.count ar
    · intro ar; rw [getR_of_runners_eq c]; exact h.ctr ar
  · unfold addReactions; simp only [hlt, if_false]; exact h

/-! ### the runner ops -/

theorem getR_default (k : K) (ar : Nat) (h : k.runners.length ≤ ar) : k.getR ar = { phase := .done } := by
  unfold K.getR
  simp [List.getD_eq_getElem?_getD, List.getElem?_eq_none h]

theorem lt_of_susp {k : K} {ar : Nat} (h : susp (k.getR ar) = 1) : ar < k.runners.length := by
  false_or_by_contra
  rename_i hh
  rw [getR_default k ar (by omega)] at h
  simp [susp] at h

theorem asinv_await {k : K} (h : AsInv k) (ar p : Nat) : AsInv (awaitOp k ar p) := by
  unfold awaitOp
  split
  · rename_i hg
    obtain ⟨hrun, hlt, hplt⟩ := hg
    obtain ⟨a, b, c⟩ := addReactions_acount h p none (some (.asyncFul ar)) (some (.asyncRej ar)) hplt (some ar) rfl rfl
    have hlt' : ar < (addReactions k p none (some (.asyncFul ar)) (some (.asyncRej ar))).runners.length := by rw [c]; exact hlt
    have hgr := fun x => getR_set (addReactions k p none (some (.asyncFul ar)) (some (.asyncRej ar))) ar
      { k.getR ar with phase := .suspended, awaits := (k.getR ar).awaits + 1 } x hlt'
      { addReactions k p none (some (.asyncFul ar)) (some (.asyncRej ar)) with
        runners := (addReactions k p none (some (.asyncFul ar)) (some (.asyncRej ar))).runners.set ar
          { k.getR ar with phase := .suspended, awaits := (k.getR ar).awaits + 1 } } rfl
    constructor
    · intro q x; exact a q x
    · intro x
      rw [hgr x]
      have hb := b x
      have hc := h.count x
      have : acount { addReactions k p none (some (.asyncFul ar)) (some (.asyncRej ar)) with
          runners := (addReactions k p none (some (.asyncFul ar)) (some (.asyncRej ar))).runners.set ar
            { k.getR ar with phase := .suspended, awaits := (k.getR ar).awaits + 1 } } x
          = acount (addReactions k p none (some (.asyncFul ar)) (some (.asyncRej ar))) x := rfl
      rw [this, hb, hc]
      by_cases e : x = ar
      · subst e
        simp [susp, hrun]
      · have e' : ¬ (ar = x) := fun y => e y.symm
        simp only [e, if_false, Option.some.injEq, e']
        rw [getR_of_runners_eq c]; simp
    · intro x
      rw [hgr x]
      by_cases e : x = ar
      · subst e
        have := h.ctr x
        simp [waiting, hrun] at this ⊢
        omega
      · simp only [e, if_false]
        rw [getR_of_runners_eq c]; exact h.ctr x
  · exact h

theorem asinv_asyncStart {k : K} (h : AsInv k) : AsInv (asyncStart k) := by
  have hget : ∀ ar, (asyncStart k).getR ar = if ar = k.runners.length then {} else k.getR ar := by
    intro ar
    unfold K.getR asyncStart
    simp only [List.getD_eq_getElem?_getD]
    by_cases e : ar = k.runners.length
    · subst e; simp
    · simp only [e, if_false]
      by_cases hl : ar < k.runners.length
      · rw [List.getElem?_append_left hl]
      · rw [List.getElem?_eq_none (by simp; omega), List.getElem?_eq_none (by omega)]
  constructor
  · exact h.pair
  · intro ar
    have hc := h.count ar
    have : acount (asyncStart k) ar = acount k ar := rfl
    rw [this, hget ar]
    by_cases e : ar = k.runners.length
    · subst e
      rw [getR_default k _ (Nat.le_refl _)] at hc
      simp [susp] at hc ⊢
      exact hc
    · simp only [e, if_false]; exact hc
  · intro ar
    rw [hget ar]
    by_cases e : ar = k.runners.length
    · simp [e, waiting]
    · simp only [e, if_false]; exact h.ctr ar

theorem asinv_asyncDone {k : K} (h : AsInv k) (ar : Nat) : AsInv (asyncDone k ar) := by
  unfold asyncDone
  split
  · rename_i hg
    obtain ⟨hrun, hlt⟩ := hg
    have hgr := fun x => getR_set k ar { k.getR ar with phase := .done } x hlt
      { k with runners := k.runners.set ar { k.getR ar with phase := .done } } rfl
    constructor
    · exact h.pair
    · intro x
      rw [hgr x]
      have hc := h.count x
      have : acount { k with runners := k.runners.set ar { k.getR ar with phase := .done } } x = acount k x := rfl
      rw [this, hc]
      by_cases e : x = ar
      · subst e; simp [susp, hrun]
      · simp [e]
    · intro x
      rw [hgr x]
      by_cases e : x = ar
      · subst e; have := h.ctr x; simp [waiting, hrun] at this ⊢; exact this
      · simp only [e, if_false]; exact h.ctr x
  · exact h

theorem asinv_newCap {k : K} (h : AsInv k) : AsInv (newCap k) := by
  constructor
  · intro q ar
    by_cases e : q < k.proms.length
    · rw [getP_newCap_lt k q e]; exact h.pair q ar
    · have : (newCap k).getP q = {} := by
        unfold K.getP newCap createResolvingFunctions newPromise
        simp only [List.getD_eq_getElem?_getD]
        by_cases e2 : q = k.proms.length
        · subst e2; simp
        · have : k.proms.length + 1 ≤ q := by omega
          rw [List.getElem?_eq_none (by simpa using this)]
          rfl
      rw [this]
  · intro ar
    have hr : (newCap k).getR ar = k.getR ar := rfl
    rw [hr, ← h.count ar]
    unfold acount listCount newCap createResolvingFunctions newPromise
    simp
  · intro ar; exact h.ctr ar

/-- A job that resumes no activation is appended. -/
theorem asinv_enqueue_plain {k : K} (h : AsInv k) (mk : Nat → Job) (hmk : (mk k.nextSid).runner? = none) :
    AsInv (enqueue k mk) := by
  constructor
  · exact h.pair
  · intro ar
    have hr : (enqueue k mk).getR ar = k.getR ar := rfl
    rw [hr, ← h.count ar]
    unfold acount
    have : listCount (enqueue k mk) ar = listCount k ar := rfl
    rw [this]
    simp only [enqueue, List.countP_append, List.countP_cons, List.countP_nil, jRun, hmk]
    simp
  · exact h.ctr

theorem asinv_popJob {k : K} (h : AsInv k) : AsInv (popJob k) := by
  cases hj : k.jobs with
  | nil => unfold popJob; rw [hj]; exact h
  | cons j rest =>
    have hjobs := (popJob_cons k j rest hj).1
    have hproms : (popJob k).proms = k.proms := by
      unfold popJob; rw [hj]; exact popJobQ_proms k
    have hrunners : (popJob k).runners = resumeRunner k.runners j := by
      unfold popJob; rw [hj]
    have hac : ∀ ar, acount (popJob k) ar + (if jRun ar j then 1 else 0) = acount k ar := by
      intro ar
      unfold acount
      rw [listCount_of_proms_eq k _ hproms, hjobs, hj, List.countP_cons]
      omega
    cases hrj : j.runner? with
    | none =>
      have hr : (popJob k).runners = k.runners := by rw [hrunners]; unfold resumeRunner; rw [hrj]
      constructor
      · intro q ar; rw [getP_of_proms_eq hproms]; exact h.pair q ar
      · intro ar
        have := hac ar
        simp only [jRun, hrj] at this
        rw [getR_of_runners_eq hr, ← h.count ar]; simpa using this
      · intro ar; rw [getR_of_runners_eq hr]; exact h.ctr ar
    | some a =>
      have hja : jRun a j = true := by simp [jRun, hrj]
      have hsus : susp (k.getR a) = 1 := by
        have h1 := hac a
        rw [hja] at h1
        simp only [if_true] at h1
        have hc := h.count a
        have h2 : 1 ≤ susp (k.getR a) := by omega
        unfold susp at h2 ⊢
        split <;> simp_all
      have hlt : a < k.runners.length := lt_of_susp hsus
      have hphase : (k.getR a).phase = .suspended := by
        unfold susp at hsus; split at hsus <;> simp_all
      have hra : k.runners[a]? = some (k.getR a) := by
        unfold K.getR; simp [List.getD_eq_getElem?_getD, List.getElem?_eq_getElem hlt]
      have hr : (popJob k).runners = k.runners.set a { k.getR a with phase := .running, resumes := (k.getR a).resumes + 1 } := by
        rw [hrunners]; unfold resumeRunner; rw [hrj]; simp only []; rw [hra]
      have hgr := fun x => getR_set k a _ x hlt (popJob k) hr
      constructor
      · intro q ar; rw [getP_of_proms_eq hproms]; exact h.pair q ar
      · intro ar
        rw [hgr ar]
        have := hac ar
        have hc := h.count ar
        by_cases e : ar = a
        · subst e
          rw [hja] at this
          simp only [if_true] at this
          have h3 : susp ({ k.getR ar with phase := .running, resumes := (k.getR ar).resumes + 1 } : Runner) = 0 := by
            simp [susp]
          simp only [if_true]
          rw [h3]
          omega
        · have : jRun ar j = false := by
            simp only [jRun, hrj]
            simp; exact fun x => e x.symm
          simp only [e, if_false]
          have h2 := hac ar
          rw [this] at h2
          simp at h2
          omega
      · intro ar
        rw [hgr ar]
        by_cases e : ar = a
        · subst e
          have := h.ctr ar
          simp [waiting, hphase] at this ⊢
          omega
        · simp only [e, if_false]; exact h.ctr ar

/-! ### interrupt -/

theorem abandon_getD : ∀ (js : List Job) (rs : List Runner) (ar : Nat) (d : Runner),
    (abandonRunners rs js).getD ar d =
      if 0 < js.countP (jRun ar) ∧ ar < rs.length then { rs.getD ar d with phase := .abandoned } else rs.getD ar d := by
  intro js
  induction js with
  | nil => intro rs ar d; simp [abandonRunners]
  | cons j js ih =>
    intro rs ar d
    unfold abandonRunners
    cases hrj : j.runner? with
    | none =>
      simp only []
      rw [ih]
      have : jRun ar j = false := by simp [jRun, hrj]
      simp [this]
    | some a =>
      simp only []
      cases hra : rs[a]? with
      | none =>
        simp only []
        rw [ih]
        have hge : rs.length ≤ a := by
          false_or_by_contra
          rename_i hh
          rw [List.getElem?_eq_getElem (by omega)] at hra
          cases hra
        by_cases e : ar = a
        · subst e
          have : ¬ (ar < rs.length) := by omega
          simp [this]
        · have : jRun ar j = false := by simp [jRun, hrj]; exact fun x => e x.symm
          simp [this]
      | some r =>
        simp only []
        rw [ih]
        have hlt : a < rs.length := by
          false_or_by_contra
          rename_i hh
          rw [List.getElem?_eq_none (by omega)] at hra
          cases hra
        simp only [List.length_set, List.getD_eq_getElem?_getD, List.getElem?_set]
        by_cases e : ar = a
        · subst e
          have hja : jRun ar j = true := by simp [jRun, hrj]
          have hr2 : rs[ar] = r := by
            have := List.getElem?_eq_getElem hlt
            rw [this] at hra; exact Option.some.inj hra
          simp [hlt, hja, hr2]
        · have e' : ¬ (a = ar) := fun x => e x.symm
          have : jRun ar j = false := by simp [jRun, hrj]; exact e'
          simp [e', this]

theorem asinv_leaveAbrupt {k : K} (h : AsInv k) : AsInv (leaveAbrupt k) := by
  have hget : ∀ ar, (leaveAbrupt k).getR ar =
      if 0 < k.jobs.countP (jRun ar) ∧ ar < k.runners.length then { k.getR ar with phase := .abandoned } else k.getR ar := by
    intro ar
    unfold K.getR leaveAbrupt
    exact abandon_getD k.jobs k.runners ar _
  constructor
  · exact h.pair
  · intro ar
    rw [hget ar]
    have hc := h.count ar
    unfold acount at hc
    have hl : acount (leaveAbrupt k) ar = listCount k ar := by
      unfold acount leaveAbrupt listCount; simp
    rw [hl]
    by_cases hz : 0 < k.jobs.countP (jRun ar)
    · have hs : susp (k.getR ar) = 1 := by
        have : susp (k.getR ar) ≤ 1 := by unfold susp; split <;> omega
        omega
      have hlt := lt_of_susp hs
      simp only [hz, hlt, and_self, if_true]
      simp [susp]
      omega
    · have : k.jobs.countP (jRun ar) = 0 := by omega
      simp only [hz, false_and, if_false]
      omega
  · intro ar
    rw [hget ar]
    by_cases hz : 0 < k.jobs.countP (jRun ar) ∧ ar < k.runners.length
    · simp only [hz, and_self, if_true]
      have hc := h.count ar
      unfold acount at hc
      have hs : susp (k.getR ar) = 1 := by
        have : susp (k.getR ar) ≤ 1 := by unfold susp; split <;> omega
        omega
      have hphase : (k.getR ar).phase = .suspended := by
        unfold susp at hs; split at hs <;> simp_all
      have := h.ctr ar
      simp [waiting, hphase] at this ⊢
      exact this
    · simp only [hz, if_false]; exact h.ctr ar

/-! ### all ops -/

theorem asinv_applyOp {k : K} (h : AsInv k) (op : KOp) : AsInv (applyOp op k) := by
  cases op with
  | newCap => exact asinv_newCap h
  | callResolve l v look =>
    simp only [applyOp, callResolve]
    split
    · exact h
    · split
      · exact h
      · rename_i p already hl hal
        have h' : AsInv { k with latches := k.latches.set l (p, true) } := asinv_congr h rfl rfl rfl
        split
        · exact asinv_rejectP h' _ _
        · split
          · exact asinv_rejectP h' _ _
          · exact asinv_enqueue_plain h' _ rfl
          · exact asinv_fulfillP h' _ _
  | callReject l v =>
    simp only [applyOp, callReject]
    split
    · exact h
    · split
      · exact h
      · rename_i p already hl hal
        have h' : AsInv { k with latches := k.latches.set l (p, true) } := asinv_congr h rfl rfl rfl
        exact asinv_rejectP h' _ _
  | addReactions p cap f g =>
    simp only [applyOp]
    split
    · rename_i hn
      simp only [Bool.and_eq_true] at hn
      exact asinv_addReactions_plain h p cap f g hn.1 hn.2
    · exact h
  | popJob => exact asinv_popJob h
  | leaveAbrupt => exact asinv_leaveAbrupt h
  | asyncStart => exact asinv_asyncStart h
  | await ar p => exact asinv_await h ar p
  | asyncDone ar => exact asinv_asyncDone h ar

theorem asinv_reach {k : K} (h : Reach k) : AsInv k := by
  induction h with
  | init =>
    constructor
    · intro q ar; rw [getP_default _ _ (by simp)]
    · intro ar; rw [getR_default _ _ (by simp)]; rfl
    · intro ar; rw [getR_default _ _ (by simp)]; rfl
  | step op _ ih => exact asinv_applyOp ih op

end GojaModel.C10
