/-
  C10 helper lemmas: (A) the generic double-buffered drain loop vs. one FIFO queue,
  (B) explicit forms of the kernel primitives of Model.lean.
-/
import GojaModel.C10.Model

namespace GojaModel.C10

/-! ## (A) generic drain loop -/
namespace JobQueue
variable {σ J : Type}

/-- Running a whole batch `js` (inner loop of leave()) is `js.length` steps of the FIFO machine started on
`js ++ q`. -/
theorem fifo_batch (run : Run σ J) : ∀ (js : List J) (m : Nat) (s : σ) (ran q : List J),
    fifo run (m + js.length) s ran (js ++ q) =
      match batch run js s ran q with
      | (s', ran', _, true) => some ⟨s', ran', [], true⟩
      | (s', ran', q', false) => fifo run m s' ran' q' := by
  intro js
  induction js with
  | nil => intro m s ran q; simp [batch]
  | cons j js ih =>
    intro m s ran q
    have hlen : m + (j :: js).length = (m + js.length) + 1 := by simp [Nat.add_assoc]
    rw [hlen]
    simp only [List.cons_append, fifo, batch]
    rcases hr : run j s with ⟨s', new, ab⟩
    cases ab with
    | true => simp
    | false =>
      simp only []
      have := ih m s' (ran ++ [j]) (q ++ new)
      rw [← List.append_assoc] at this
      exact this

/-- Converse bookkeeping: if the FIFO machine terminates from `js ++ q`, it had enough fuel for the batch. -/
theorem fifo_batch_inv (run : Run σ J) : ∀ (js : List J) (m : Nat) (s : σ) (ran q : List J) (out : Out σ J),
    fifo run m s ran (js ++ q) = some out →
      match batch run js s ran q with
      | (s', ran', _, true) => out = ⟨s', ran', [], true⟩
      | (s', ran', q', false) => js.length ≤ m ∧ fifo run (m - js.length) s' ran' q' = some out := by
  intro js
  induction js with
  | nil => intro m s ran q out h; simpa [batch] using h
  | cons j js ih =>
    intro m s ran q out h
    cases m with
    | zero => simp [fifo] at h
    | succ m =>
      simp only [List.cons_append, fifo] at h
      simp only [batch]
      rcases hr : run j s with ⟨s', new, ab⟩
      rw [hr] at h
      cases ab with
      | true => simp only [] at h ⊢; cases h; rfl
      | false =>
        simp only [] at h ⊢
        rw [List.append_assoc] at h
        have := ih m s' (ran ++ [j]) (q ++ new) out h
        revert this
        rcases batch run js s' (ran ++ [j]) (q ++ new) with ⟨s2, ran2, q2, ab2⟩
        cases ab2 with
        | true => simp
        | false =>
          simp only [List.length_cons]
          intro ⟨h1, h2⟩
          refine ⟨by omega, ?_⟩
          have : m + 1 - (js.length + 1) = m - js.length := by omega
          rw [this]; exact h2

theorem leave_imp_fifo (run : Run σ J) : ∀ (n : Nat) (s : σ) (ran q : List J) (out : Out σ J),
    leave run n s ran q = some out → ∃ m, fifo run m s ran q = some out := by
  intro n
  induction n with
  | zero =>
    intro s ran q out h
    refine ⟨0, ?_⟩
    simpa [leave, fifo] using h
  | succ n ih =>
    intro s ran q out h
    simp only [leave] at h
    by_cases hq : q.isEmpty = true
    · simp only [hq, if_true] at h
      refine ⟨0, ?_⟩
      simp [fifo, hq, h]
    · simp only [hq] at h
      have key := fun m => fifo_batch run q m s ran []
      simp only [List.append_nil] at key
      rcases hb : batch run q s ran [] with ⟨s', ran', q', ab⟩
      rw [hb] at h
      cases ab with
      | true =>
        simp only [] at h
        refine ⟨0 + q.length, ?_⟩
        rw [key 0, hb]; exact h
      | false =>
        simp only [] at h
        obtain ⟨m, hm⟩ := ih s' ran' q' out h
        refine ⟨m + q.length, ?_⟩
        rw [key m, hb]; exact hm

theorem fifo_imp_leave (run : Run σ J) : ∀ (m : Nat) (s : σ) (ran q : List J) (out : Out σ J),
    fifo run m s ran q = some out → ∃ n, leave run n s ran q = some out := by
  intro m
  induction m using Nat.strongRecOn with
  | _ m ih =>
    intro s ran q out h
    by_cases hq : q.isEmpty = true
    · refine ⟨0, ?_⟩
      have : q = [] := List.isEmpty_iff.mp hq
      subst this
      cases m <;> simpa [leave, fifo] using h
    · have hne : q ≠ [] := fun e => hq (by simp [e])
      have hlen : 0 < q.length := List.length_pos_iff.mpr hne
      have key := fifo_batch_inv run q m s ran [] out (by simpa using h)
      rcases hb : batch run q s ran [] with ⟨s', ran', q', ab⟩
      rw [hb] at key
      cases ab with
      | true =>
        simp only [] at key
        refine ⟨1, ?_⟩
        simp [leave, hq, hb, key]
      | false =>
        simp only [] at key
        obtain ⟨h1, h2⟩ := key
        obtain ⟨n, hn⟩ := ih (m - q.length) (by omega) s' ran' q' out h2
        refine ⟨n + 1, ?_⟩
        simp [leave, hq, hb, hn]

end JobQueue

/-! ## (B) explicit forms of the kernel primitives -/

/-- The jobs triggerPromiseReactions enqueues, with their serials. -/
def trigJobs (sid owner : Nat) : List Reaction → Val → List Job
  | [], _ => []
  | r :: rs, arg => .reaction sid owner r arg :: trigJobs (sid + 1) owner rs arg

theorem trigger_eq (owner : Nat) (arg : Val) : ∀ (rs : List Reaction) (k : K),
    trigger k owner rs arg =
      { k with jobs := k.jobs ++ trigJobs k.nextSid owner rs arg,
               enq := k.enq ++ trigJobs k.nextSid owner rs arg,
               enqEver := k.enqEver ++ trigJobs k.nextSid owner rs arg,
               nextSid := k.nextSid + rs.length } := by
  intro rs
  induction rs with
  | nil => intro k; simp [trigger, trigJobs]
  | cons r rs ih =>
    intro k
    simp only [trigger, ih, enqueue, trigJobs, List.length_cons, List.append_assoc, List.singleton_append]
    congr 1
    omega

theorem trigJobs_sids (owner : Nat) (arg : Val) : ∀ (rs : List Reaction) (sid : Nat),
    (trigJobs sid owner rs arg).map Job.sid = List.range' sid rs.length := by
  intro rs
  induction rs with
  | nil => intro sid; simp [trigJobs]
  | cons r rs ih => intro sid; simp [trigJobs, ih, Job.sid, List.range'_succ]

theorem trigJobs_thenFor (owner : Nat) (arg : Val) (p : Nat) : ∀ (rs : List Reaction) (sid : Nat),
    (trigJobs sid owner rs arg).countP (Job.thenFor p) = 0 := by
  intro rs
  induction rs with
  | nil => intro sid; simp [trigJobs]
  | cons r rs ih => intro sid; simp [trigJobs, ih, Job.thenFor]

theorem countP_set {α : Type} (f : α → Bool) : ∀ (l : List α) (i : Nat) (a b : α), l[i]? = some a →
    (l.set i b).countP f + (if f a then 1 else 0) = l.countP f + (if f b then 1 else 0) := by
  intro l
  induction l with
  | nil => intro i a b h; simp at h
  | cons x xs ih =>
    intro i a b h
    cases i with
    | zero =>
      simp only [List.getElem?_cons_zero, Option.some.injEq] at h
      subst h
      simp only [List.set_cons_zero, List.countP_cons]
      omega
    | succ i =>
      simp only [List.getElem?_cons_succ] at h
      have := ih i a b h
      simp only [List.set_cons_succ, List.countP_cons]
      omega

end GojaModel.C10
