/-
  C10 — Part 2: the promise-operation language and its interpreter over the kernel of Model.lean.

  Handler behaviour is DATA (`Act`/`Body`), so a program is a finite object that the Go harness
  compiles to JavaScript for goja and this interpreter executes against the kernel.  The interpreter
  transcribes the control flow of builtin_promise.go around user-code calls (reaction job :199,
  thenable job :175, Promise constructor :246, performPromiseThen :313, promiseResolve :342,
  finally :354, all/allSettled/any/race :402-538, Runtime.NewPromise :628) and asyncRunner
  (func.go:688-745), and the drain loop of Runtime.leave()/leaveAbrupt() (runtime.go:2871-2891).

  The kernel state is held as `RK = {k // Reach k}` and modified only through `RK.apply`.
  Core Lean only.
-/
import GojaModel.C10.Model
import GojaModel.C10.Comb

namespace GojaModel.C10

inductive VExpr
  | u | n (k : Nat) | p (k : Nat) | t (id : Nat) | arg
  | b (tid : Nat)      -- a fresh native (fulfilled) promise whose own `then` is overridden by thenable descriptor tid
  deriving Inhabited, Repr

inductive CombKind | all | allSettled | race | any
  deriving Inhabited, Repr, DecidableEq

inductive Act
  | log (n : Nat)
  | new (k s : Nat) (f : Option Nat)            -- P[k] = new Promise((x,y)=>{RS[s]=[x,y]; H[f]()})
  | res (s : Nat) (v : VExpr)                   -- RS[s][0](v)
  | rej (s : Nat) (v : VExpr)                   -- RS[s][1](v)
  | then_ (k : Nat) (f g : Option Nat) (d : Nat)   -- P[d] = P[k].then(H[f], H[g])
  | catch_ (k : Nat) (g : Option Nat) (d : Nat)
  | fin (k : Nat) (f : Option Nat) (d : Nat)
  | pres (v : VExpr) (d : Nat)                  -- P[d] = Promise.resolve(v)
  | prej (v : VExpr) (d : Nat)
  | comb (kind : CombKind) (ctor : Option Nat) (d : Nat) (vs : List VExpr)   -- Promise.all.call(C[ctor] ?? Promise, [vs])
  | call (a d : Nat)                            -- P[d] = A[a]()
  | interrupt                                   -- INT(): Runtime.Interrupt from a Go callback
  | await (v : VExpr) (isTry : Bool)            -- async bodies only
  deriving Inhabited, Repr

inductive Compl | ret (v : VExpr) | throw (v : VExpr)
  deriving Inhabited, Repr

structure Body where
  acts : List Act := []
  compl : Compl := .ret .u
  deriving Inhabited, Repr

structure TDesc where
  slot : Nat := 0
  getterThrows : Option VExpr := none
  body : Body := {}
  deriving Inhabited

/-- A user-defined constructor for the combinators: `plain` = ordinary function returning a plain object (its
resolve/reject functions only log), otherwise `class extends Promise`; static `resolve(v)` logs and returns a fresh
thenable of descriptor `tid`. -/
structure CDesc where
  plain : Bool := false
  tid : Nat := 0
  deriving Inhabited

inductive GoOp
  | gnew (k g : Nat) | gres (g : Nat) (v : VExpr) | grej (g : Nat) (v : VExpr)
  deriving Inhabited, Repr

inductive Seg | run (b : Body) | go (op : GoOp)
  deriving Inhabited

structure Prog where
  funs : List (Nat × Body) := []
  thens : List (Nat × TDesc) := []
  asyncs : List (Nat × Body) := []
  ctors : List (Nat × CDesc) := []
  segs : List Seg := []
  deriving Inhabited

def lookupId {α : Type} (l : List (Nat × α)) (i : Nat) : Option α :=
  match l with
  | [] => none
  | (j, x) :: rest => if j == i then some x else lookupId rest i

/-! ## Interpreter state -/

/-- One running all/allSettled/any: bookkeeping record (reachable by construction) + aggregate capability. -/
structure Comb where
  crec : CRK := default
  cap : Cap := default
  deriving Inhabited

structure ARun where
  rest : List Act := []
  compl : Compl := .ret .u
  inTry : Bool := false
  cap : Cap := default
  deriving Inhabited

/-- Interpreter state of code running since the scheduler last acted at kernel state `k0`: the kernel state is
reachable, and reachable from `k0` by body ops only (so, by typing, such code never starts a job or empties the queue). -/
structure St (k0 : K) where
  rk : BK k0
  slots : List (Option Nat) := []
  rslots : List (Option (Option Fn × Option Fn)) := []
  bad : List (Nat × Nat) := []       -- native promises with an overridden own `then`: promise id ↦ thenable descriptor
  gslots : List (Option (Fn × Fn)) := []
  combs : List Comb := []
  asyncs : List ARun := []
  events : List String := []     -- newest first
  oof : Bool := false

abbrev M (k0 : K) := StateM (St k0)

variable {k0 : K}

inductive Arg | v (x : Val) | f (fn : Fn)
  deriving Inhabited

/-- Completion of a call: normal / throw / abort (uncatchable: interrupt, or model fuel). -/
inductive Res | normal (v : Val) | throw (v : Val) | abort
  deriving Inhabited

inductive ActsOut | done | abort | await (v : Val) (isTry : Bool) (rest : List Act)

def setExt {α : Type} (l : List α) (i : Nat) (x : α) (dflt : α) : List α :=
  if i < l.length then l.set i x else l ++ List.replicate (i - l.length) dflt ++ [x]

def kget : M k0 K := do return (← get).rk.val
def op (o : BOp) : M k0 Unit := modify fun st => { st with rk := st.rk.apply o }
def emit (s : String) : M k0 Unit := modify fun st => { st with events := s :: st.events }
def outOfFuel : M k0 Unit := modify fun st => { st with oof := true }

def slotOf (slots : List (Option Nat)) (q : Nat) : Option Nat :=
  let rec go : List (Option Nat) → Nat → Option Nat
    | [], _ => none
    | x :: xs, i => if x == some q then some i else go xs (i + 1)
  go slots 0

mutual
def reprVal (slots : List (Option Nat)) : Val → String
  | .undef => "u"
  | .num n => "n" ++ toString n
  | .prom q => match slotOf slots q with
    | some i => "p@" ++ toString i
    | none => "p?"
  | .thenable t => "t" ++ toString t
  | .typeErr => "TE"
  | .arr vs => "[" ++ reprVals slots vs ++ "]"
  | .settledObj true v => "{F:" ++ reprVal slots v ++ "}"
  | .settledObj false v => "{R:" ++ reprVal slots v ++ "}"
  | .aggErr vs => "AE[" ++ reprVals slots vs ++ "]"
def reprVals (slots : List (Option Nat)) : List Val → String
  | [] => ""
  | [v] => reprVal slots v
  | v :: vs => reprVal slots v ++ "," ++ reprVals slots vs
end

def reprM (v : Val) : M k0 String := do return reprVal (← get).slots v

def argVal : List Arg → Nat → Val
  | [], _ => .undef
  | .v x :: _, 0 => x
  | .f _ :: _, 0 => .undef      -- functions are never observed as plain values
  | _ :: rest, n + 1 => argVal rest n

def argFn : List Arg → Nat → Option Fn
  | [], _ => none
  | .f fn :: _, 0 => some fn
  | .v _ :: _, 0 => none         -- assertCallable fails
  | _ :: rest, n + 1 => argFn rest n

def doReject (l : Nat) (v : Val) : M k0 Unit := op (.callReject l v)

/-- newPromiseCapability(%Promise%) (builtin_promise.go:281-286). -/
def newCapM : M k0 Cap := do
  let k ← kget
  let p := k.proms.length
  let l := k.latches.length
  op .newCap
  return { promise := p, res := .resolve l, rej := .reject l }

def evalV (e : VExpr) (arg : Val) : M k0 Val := do
  match e with
  | .u => return .undef
  | .n k => return .num k
  | .p k => match (← get).slots.getD k none with
    | some q => return .prom q
    | none => return .undef
  | .t id => return .thenable id
  | .arg => return arg
  | .b tid =>
    -- `var q = Promise.resolve(undefined); Object.defineProperty(q, "then", …)`
    let cap ← newCapM
    match cap.res with
    | .resolve l => op (.callResolve l .undef .notCallable)
    | _ => pure ()
    modify fun st => { st with bad := (cap.promise, tid) :: st.bad }
    return .prom cap.promise

def evalVs (es : List VExpr) (arg : Val) : M k0 (List Val) := do
  match es with
  | [] => return []
  | e :: rest =>
    let v ← evalV e arg
    let vs ← evalVs rest arg
    return v :: vs

def badTid (st : St k0) (q : Nat) : Option Nat := lookupId st.bad q

/-- The user-defined `then` accessor of a thenable / of a promise with an overridden own `then`: logs, then throws or
yields the descriptor's function. -/
def userThenLook (prog : Prog) (tid : Nat) : M k0 ThenLook := do
  emit ("g" ++ toString tid)
  match lookupId prog.thens tid with
  | none => return .notCallable
  | some d => match d.getterThrows with
    | some e => return .throws (← evalV e .undef)
    | none => return .callable (.thenableThen tid)

/-- `obj.self.getStr("then")` + assertCallable on the resolution (builtin_promise.go:96-104). -/
def thenLookM (prog : Prog) (v : Val) : M k0 ThenLook := do
  match v with
  | .prom q =>
    match badTid (← get) q with
    | some tid => userThenLook prog tid
    | none => return .callable .promThen
  | .thenable tid => userThenLook prog tid
  | _ => return .notCallable

/-- Calling a resolve function (builtin_promise.go:87-111): latch check, self check, then-lookup. -/
def doResolve (prog : Prog) (l : Nat) (v : Val) : M k0 Unit := do
  let k ← kget
  match k.latches[l]? with
  | none => return ()
  | some (p, already) =>
    if already then return ()
    if isSelf v p then op (.callResolve l v .notCallable)
    else
      let look ← thenLookM prog v
      op (.callResolve l v look)

/-- promiseCapability.resolve / .reject (builtin_promise.go:385-391): the capability's own functions. -/
def capResolve (prog : Prog) (cap : Cap) (v : Val) : M k0 Unit := do
  match cap.res with
  | .resolve l => doResolve prog l v
  | .logRes c => emit ("R" ++ toString c ++ ":" ++ (← reprM v))
  | _ => pure ()

def capReject (cap : Cap) (v : Val) : M k0 Unit := do
  match cap.rej with
  | .reject l => doReject l v
  | .logRej c => emit ("J" ++ toString c ++ ":" ++ (← reprM v))
  | _ => pure ()

/-- promiseProto_then + performPromiseThen (builtin_promise.go:271-336) on native promise `p`. -/
def performThen (p : Nat) (onF onR : Option Fn) : M k0 Nat := do
  let cap ← newCapM
  op (.addReactions p (some cap) onF onR)
  return cap.promise

/-- Promise.prototype.then itself, called on v. -/
def invokeThen (v : Val) (args : List Arg) : M k0 Res := do
  match v with
  | .prom p => return .normal (.prom (← performThen p (argFn args 0) (argFn args 1)))
  | _ => return .throw .typeErr

/-- promiseResolve(%Promise%, x) (builtin_promise.go:342-352). -/
def promiseResolveM (prog : Prog) (x : Val) : M k0 Nat := do
  match x with
  | .prom q => return q           -- x.constructor === %Promise%
  | _ =>
    let cap ← newCapM
    capResolve prog cap x
    return cap.promise

/-- `setP(d, r)`: promises with an overridden own `then` are never stored in a slot (keeps every program terminating:
a thenable's body can then never get hold of a promise whose `then` is itself). -/
def setSlot (d : Nat) (q : Nat) : M k0 Unit :=
  modify fun st => if (lookupId st.bad q).isSome then st else { st with slots := setExt st.slots d (some q) none }

def hfn (f : Option Nat) : Option Fn := f.map Fn.user

def fopt (f : Option Fn) : Arg :=
  match f with
  | some fn => .f fn
  | none => .v .undef

/-- An element function of all/allSettled/any is called: alreadyCalled check, store, count down, maybe settle the
aggregate (builtin_promise.go:416-427, :453-468, :497-510). -/
def combElem (prog : Prog) (c idx : Nat) (x : Val) (asErrors : Bool) : M k0 Unit := do
  let st ← get
  let cb := st.combs.getD c default
  let (r', fired) := cb.crec.elemCall idx x
  set { st with combs := st.combs.set c { cb with crec := r' } }
  if fired then
    if asErrors then capReject cb.cap (.aggErr r'.val.values)
    else capResolve prog cb.cap (.arr r'.val.values)

mutual

/-- Call a callable value. -/
def callFn (prog : Prog) : Nat → Fn → Val → List Arg → M k0 Res
  | 0, _, _, _ => do outOfFuel; return .abort
  | n + 1, fn, this, args => do
    match fn with
    | .user f =>
      let a := argVal args 0
      emit ("f" ++ toString f ++ ":" ++ (← reprM a))
      match lookupId prog.funs f with
      | none => return .normal .undef
      | some b => execBody prog n b a
    | .resolve l => doResolve prog l (argVal args 0); return .normal .undef
    | .reject l => doReject l (argVal args 0); return .normal .undef
    | .promThen => invokeThen this args
    | .logRes c => emit ("R" ++ toString c ++ ":" ++ (← reprM (argVal args 0))); return .normal .undef
    | .logRej c => emit ("J" ++ toString c ++ ":" ++ (← reprM (argVal args 0))); return .normal .undef
    | .thenableThen tid =>
      match lookupId prog.thens tid with
      | none => return .normal .undef
      | some d =>
        modify fun st => { st with rslots := setExt st.rslots d.slot (some (argFn args 0, argFn args 1)) none }
        emit ("t" ++ toString tid)
        execBody prog n d.body .undef
    | .thenFinally f =>                               -- builtin_promise.go:362-370
      let value := argVal args 0
      match ← callFn prog n (.user f) .undef [] with
      | .normal result =>
        let q ← promiseResolveM prog result
        invokeThenR prog n (.prom q) [.f (.valueThunk value)]
      | other => return other
    | .catchFinally f =>                              -- builtin_promise.go:372-380
      let reason := argVal args 0
      match ← callFn prog n (.user f) .undef [] with
      | .normal result =>
        let q ← promiseResolveM prog result
        invokeThenR prog n (.prom q) [.f (.thrower reason)]
      | other => return other
    | .valueThunk v => return .normal v
    | .thrower v => return .throw v
    | .allElem c idx _ =>                             -- builtin_promise.go:416-427
      combElem prog c idx (argVal args 0) false
      return .normal .undef
    | .settledElem c idx _ rej =>                     -- builtin_promise.go:453-468
      combElem prog c idx (.settledObj (!rej) (argVal args 0)) false
      return .normal .undef
    | .anyElem c idx _ =>                             -- builtin_promise.go:497-510
      combElem prog c idx (argVal args 0) true
      return .normal .undef
    | .asyncFul ar =>                                 -- func.go:688
      let x := argVal args 0
      emit ("w:" ++ (← reprM x))
      let r := (← get).asyncs.getD ar default
      runAsync prog n ar r.rest
    | .asyncRej ar =>                                 -- func.go:699
      let e := argVal args 0
      let r := (← get).asyncs.getD ar default
      if r.inTry then
        emit ("c:" ++ (← reprM e))
        runAsync prog n ar r.rest
      else
        capReject r.cap e                             -- func.go:716
        op (.asyncDone ar)
        return .normal .undef

/-- `r.invoke(v, "then", args…)` / JavaScript `v.then(args…)`: look `then` up on v (own overridden accessor of a
"bad" promise or of a thenable: user code), then call it. -/
def invokeThenR (prog : Prog) : Nat → Val → List Arg → M k0 Res
  | 0, _, _ => do outOfFuel; return .abort
  | n + 1, v, args => do
    let user (tid : Nat) : M k0 Res := do
      match ← userThenLook prog tid with
      | .throws e => return .throw e
      | .callable f => callFn prog n f v args
      | .notCallable => return .throw .typeErr
    match v with
    | .prom p =>
      match badTid (← get) p with
      | some tid => user tid
      | none => invokeThen v args
    | .thenable tid => user tid
    | _ => return .throw .typeErr

/-- A `P[d] = P[k].then(f, g)`-like statement of the op language:
`try { var r = P[k].then(f, g); if (r instanceof Promise) P[d] = r } catch (e) { E.push("e:" + repr(e)) }`.
Returns true on abort. -/
def jsThen (prog : Prog) : Nat → Nat → Nat → Option Fn → Option Fn → M k0 Bool
  | 0, _, _, _, _ => do outOfFuel; return true
  | n + 1, p, d, onF, onR => do
    match ← invokeThenR prog n (.prom p) [fopt onF, fopt onR] with
    | .abort => return true
    | .throw e => emit ("e:" ++ (← reprM e)); return false
    | .normal (.prom q) => setSlot d q; return false
    | .normal _ => return false

/-- The body of iter.iterate in promise_all / allSettled / any / race (builtin_promise.go:411-430 etc.) over the
already evaluated input values.  `none` = loop completed; `some r` = abrupt completion r (throw / abort). -/
def combLoop (prog : Prog) : Nat → CombKind → Nat → Cap → Option (Nat × CDesc) → List Val → Nat → M k0 (Option Res)
  | 0, _, _, _, _, _, _ => do outOfFuel; return some .abort
  | _ + 1, _, _, _, _, [], _ => return none
  | n + 1, kind, c, pcap, ctor, val :: rest, idx => do
    -- nextPromise := promiseResolve(c, nextValue): %Promise%'s own resolve or the user-defined static
    let next : Val ← match ctor with
      | none => pure (Val.prom (← promiseResolveM prog val))
      | some (cid, cd) =>
        emit ("cr" ++ toString cid ++ ":" ++ (← reprM val))
        pure (Val.thenable cd.tid)
    let r ← match kind with
      | .race => invokeThenR prog n next [.f pcap.res, .f pcap.rej]
      | _ =>
        modify fun st =>
          let cb := st.combs.getD c default
          { st with combs := st.combs.set c { cb with crec := cb.crec.addElem } }
        match kind with
        | .all => invokeThenR prog n next [.f (.allElem c idx idx), .f pcap.rej]
        | .allSettled => invokeThenR prog n next [.f (.settledElem c idx idx false), .f (.settledElem c idx idx true)]
        | _ => invokeThenR prog n next [.f pcap.res, .f (.anyElem c idx idx)]
    match r with
    | .normal _ => combLoop prog n kind c pcap ctor rest (idx + 1)
    | other => return some other

/-- Run a function body: actions, then completion. -/
def execBody (prog : Prog) : Nat → Body → Val → M k0 Res
  | 0, _, _ => do outOfFuel; return .abort
  | n + 1, b, a => do
    match ← execActs prog n b.acts a with
    | .abort => return .abort
    | .await _ _ _ => return .normal .undef      -- await outside async: not generated
    | .done =>
      match b.compl with
      | .ret v => return .normal (← evalV v a)
      | .throw v => return .throw (← evalV v a)

/-- Resume/start async runner `ar` on the remaining actions (asyncRunner.step, func.go:710-732). -/
def runAsync (prog : Prog) : Nat → Nat → List Act → M k0 Res
  | 0, _, _ => do outOfFuel; return .abort
  | n + 1, ar, acts => do
    match ← execActs prog n acts .undef with
    | .abort => return .abort
    | .done =>
      let r := (← get).asyncs.getD ar default
      match r.compl with
      | .ret v => capResolve prog r.cap (← evalV v .undef)     -- func.go:714
      | .throw v => capReject r.cap (← evalV v .undef)         -- func.go:716
      op (.asyncDone ar)
      return .normal .undef
    | .await v isTry rest =>
      let q ← promiseResolveM prog v                           -- func.go:722
      modify fun st =>
        let r := st.asyncs.getD ar default
        { st with asyncs := st.asyncs.set ar { r with rest := rest, inTry := isTry } }
      op (.await ar q)                                         -- func.go:723-732: the activation is suspended
      return .normal .undef

/-- Execute actions in order. -/
def execActs (prog : Prog) : Nat → List Act → Val → M k0 ActsOut
  | 0, _, _ => do outOfFuel; return .abort
  | _ + 1, [], _ => return .done
  | n + 1, act :: rest, a => do
    let cont : M k0 ActsOut := execActs prog n rest a
    match act with
    | .log k => emit ("l" ++ toString k); cont
    | .new k s f =>                                   -- builtin_newPromise, builtin_promise.go:246-269
      let cap ← newCapM
      modify fun st => { st with rslots := setExt st.rslots s (some (some cap.res, some cap.rej)) none }
      emit ("x" ++ toString k)
      let r ← match f with
        | none => pure (Res.normal .undef)
        | some f => callFn prog n (.user f) .undef []
      match r with
      | .abort => return .abort
      | .throw e => capReject cap e; setSlot k cap.promise; cont     -- :263-267
      | .normal _ => setSlot k cap.promise; cont
    | .res s v =>      -- try { if (typeof RS[s][0] === "function") RS[s][0](v) } catch (e) { E.push("e:"+repr(e)) }
      match (← get).rslots.getD s none with
      | some (some x, _) =>
        let val ← evalV v a
        match ← callFn prog n x .undef [.v val] with
        | .abort => return .abort
        | .throw e => emit ("e:" ++ (← reprM e)); cont
        | .normal _ => cont
      | _ => cont
    | .rej s v =>
      match (← get).rslots.getD s none with
      | some (_, some y) =>
        let val ← evalV v a
        match ← callFn prog n y .undef [.v val] with
        | .abort => return .abort
        | .throw e => emit ("e:" ++ (← reprM e)); cont
        | .normal _ => cont
      | _ => cont
    | .then_ k f g d =>
      match (← get).slots.getD k none with
      | none => cont
      | some p => if ← jsThen prog n p d (hfn f) (hfn g) then return .abort else cont
    | .catch_ k g d =>                                -- promiseProto_catch: this.then(undefined, g)
      match (← get).slots.getD k none with
      | none => cont
      | some p => if ← jsThen prog n p d none (hfn g) then return .abort else cont
    | .fin k f d =>                                   -- promiseProto_finally, builtin_promise.go:354-383
      match (← get).slots.getD k none with
      | none => cont
      | some p =>
        match f with
        | none => if ← jsThen prog n p d none none then return .abort else cont
        | some f =>
          if ← jsThen prog n p d (some (.thenFinally f)) (some (.catchFinally f)) then return .abort else cont
    | .pres v d =>                                    -- promise_resolve :546
      let val ← evalV v a
      setSlot d (← promiseResolveM prog val); cont
    | .prej v d =>                                    -- promise_reject :540
      let val ← evalV v a
      let cap ← newCapM
      capReject cap val
      setSlot d cap.promise; cont
    | .comb kind ctor d vs =>                         -- promise_all/allSettled/any/race :402-538
      let vals ← evalVs vs a                          -- the array literal is evaluated first
      let cinfo : Option (Nat × CDesc) := match ctor with
        | none => none
        | some cid => (lookupId prog.ctors cid).map (fun cd => (cid, cd))
      -- newPromiseCapability(c)
      let plain := match cinfo with
        | some (_, cd) => cd.plain
        | none => false
      let pcap ← match cinfo with
        | some (cid, cd) =>
          if cd.plain then do
            emit ("C" ++ toString cid)
            pure ({ promise := 0, res := .logRes cid, rej := .logRej cid } : Cap)
          else newCapM
        | none => newCapM
      let c := (← get).combs.length
      modify fun st => { st with combs := st.combs ++ [{ cap := pcap }] }
      match ← combLoop prog n kind c pcap cinfo vals 0 with       -- inside pcap.try
      | some .abort => return .abort
      | some (.throw e) => capReject pcap e                       -- builtin_promise.go:393-399
      | _ =>
        if kind != .race then
          let st ← get
          let cb := st.combs.getD c default
          let (r', fired) := cb.crec.finish
          set { st with combs := st.combs.set c { cb with crec := r' } }
          if fired then
            if kind == .any then capReject pcap (.aggErr r'.val.values)
            else capResolve prog pcap (.arr r'.val.values)
      if !plain then setSlot d pcap.promise
      cont
    | .call aid d =>                                  -- asyncRunner.start, func.go:734
      match lookupId prog.asyncs aid with
      | none => cont
      | some b =>
        let cap ← newCapM
        let ar := (← kget).runners.length
        op .asyncStart
        modify fun st => { st with asyncs := setExt st.asyncs ar { rest := b.acts, compl := b.compl, cap := cap } default }
        emit ("a" ++ toString aid)
        match ← runAsync prog n ar b.acts with
        | .abort => return .abort
        | _ => setSlot d cap.promise; cont
    | .interrupt => emit "int"; return .abort
    | .await v isTry => return .await (← evalV v a) isTry rest

end

/-- The body of a job (after the scheduler has started it).  `l` = index of the latch that popJob allocated for a
thenable job.  Returns true on abort. -/
def jobBody (prog : Prog) (fuel : Nat) (j : Job) (l : Nat) : M k0 Bool := do
  match j with
  | .reaction _ _ r arg =>                          -- newPromiseReactionJob, builtin_promise.go:199-231
    let (res, fulfill, aborted) ← match r.handler with
      | none => pure (arg, r.isFul, false)          -- :203-207
      | some h =>
        match ← callFn prog fuel h .undef [.v arg] with   -- :212-215
        | .normal v => pure (v, true, false)
        | .throw e => pure (e, false, false)
        | .abort => pure (Val.undef, false, true)
    if aborted then return true
    match r.cap with                                -- :223-229
    | none => return false
    | some cap =>
      if fulfill then capResolve prog cap res else capReject cap res
      return false
  | .thenable _ _ thenableV thenFn =>               -- newPromiseResolveThenableJob, :175-187
    match ← callFn prog fuel thenFn thenableV [.f (.resolve l), .f (.reject l)] with
    | .normal _ => return false
    | .throw e => doReject l e; return false        -- :181-185
    | .abort => return true

/-! ## The scheduler: states between body runs -/

/-- Interpreter state as the scheduler sees it: some base together with a state over it. -/
structure StU where
  base : K
  st : St base

def StU.k (u : StU) : K := u.st.rk.val

def St.withRk {k1 : K} (st : St k0) (b : BK k1) : St k1 :=
  { rk := b, slots := st.slots, rslots := st.rslots, bad := st.bad, gslots := st.gslots, combs := st.combs,
    asyncs := st.asyncs, events := st.events, oof := st.oof }

/-- The scheduler applies a kernel op (popJob / leaveAbrupt); the result is the new base. -/
def StU.sched (u : StU) (o : KOp) : StU := ⟨applyOp o u.k, u.st.withRk (u.st.rk.sched o)⟩

/-- Forget how the current kernel state was reached from the old base. -/
def StU.rebase (u : StU) : StU := ⟨u.k, u.st.withRk u.st.rk.rebase⟩

def StU.init : StU := ⟨{}, { rk := BK.init }⟩

def StU.setOof (u : StU) : StU := ⟨u.base, { u.st with oof := true }⟩

/-- Run the oldest job (runtime.go:2875-2877): the scheduler starts it (popJob), then its body runs as body code
over the new base.  Returns true on abort. -/
def runJob (prog : Prog) (fuel : Nat) (u : StU) : Bool × StU :=
  match u.k.jobs with
  | [] => (false, u)
  | j :: _ =>
    let l := u.k.latches.length
    let u1 := u.sched .popJob
    let (ab, st2) := (jobBody prog fuel j l).run u1.st
    (ab, ⟨u1.base, st2⟩)

/-- Runtime.leave() (runtime.go:2871-2881).  `c` is the double buffer: the number of oldest jobs that form the batch
being iterated (`jobs[i:]` of the inner `range` loop).  `c = 0` is the outer loop: test `for len(r.jobQueue) > 0`
(the ONLY place where the loop can end) and swap `jobs, r.jobQueue = r.jobQueue, jobs[:0]` (batch := everything queued
now); `c > 0` is the inner loop, which starts the next job of the batch without looking at the queue.  On abort the panic
reaches the recover of RunProgram/runWrapped which calls leaveAbrupt.  Returns true iff aborted. -/
def drainS (prog : Prog) : Nat → Nat → StU → Bool × StU
  | 0, _, u => (true, u.setOof)
  | n + 1, c, u =>
    if c = 0 ∧ u.k.jobs.isEmpty then (false, u)
    else
      let c := if c = 0 then u.k.jobs.length else c               -- swap
      match runJob prog 100000 u with                              -- job()
      | (true, u1) => (true, u1.sched .leaveAbrupt)
      | (false, u1) => drainS prog n (c - 1) u1

/-- SPECIFICATION of the drain (ECMA-262 job queue): one FIFO queue; while it is not empty run its oldest job. -/
def drainF (prog : Prog) : Nat → StU → Bool × StU
  | 0, u => (true, u.setOof)
  | n + 1, u =>
    if u.k.jobs.isEmpty then (false, u)
    else
      match runJob prog 100000 u with
      | (true, u1) => (true, u1.sched .leaveAbrupt)
      | (false, u1) => drainF prog n u1

def drain (prog : Prog) (n : Nat) (u : StU) : Bool × StU := drainS prog n 0 u

/-! ## Outermost calls (RunString / Go-side resolver), parametric in the drain loop -/

/-- After the synchronous part of an outermost call: leave() or, after an abort, leaveAbrupt(). -/
def finishCall (dr : Prog → Nat → StU → Bool × StU) (prog : Prog) (u : StU) (r : Res) : String × StU :=
  match r with
  | .abort => ("int", u.sched .leaveAbrupt)
  | .throw _ => match dr prog 100000 u with
    | (true, u1) => ("int", u1)
    | (false, u1) => ("exc", u1)
  | .normal _ => match dr prog 100000 u with
    | (true, u1) => ("int", u1)
    | (false, u1) => ("none", u1)

/-- The synchronous part of an outermost call, as body code. `none` = the call does not enter the VM loop
(Runtime.NewPromise), so no leave(). -/
def segBody (prog : Prog) (seg : Seg) : M k0 (Option Res) := do
  match seg with
  | .run b => return some (← execBody prog 100000 b .undef)
  | .go (.gnew k g) =>
    let cap ← newCapM                                  -- Runtime.NewPromise, builtin_promise.go:628
    setSlot k cap.promise
    modify fun st => { st with gslots := setExt st.gslots g (some (cap.res, cap.rej)) none }
    return none
  | .go (.gres g v) =>
    match (← get).gslots.getD g none with
    | none => return none
    | some (x, _) =>
      let val ← evalV v .undef
      match ← callFn prog 100000 x .undef [.v val] with     -- wrapPromiseReaction → runWrapped
      | .abort => return some .abort
      | _ => return some (.normal .undef)
  | .go (.grej g v) =>
    match (← get).gslots.getD g none with
    | none => return none
    | some (_, y) =>
      let val ← evalV v .undef
      match ← callFn prog 100000 y .undef [.v val] with
      | .abort => return some .abort
      | _ => return some (.normal .undef)

/-- One outermost call into the runtime: run, then leave() / leaveAbrupt().  Returns the error kind. -/
def runSegWith (dr : Prog → Nat → StU → Bool × StU) (prog : Prog) (seg : Seg) (u : StU) : String × StU :=
  let (r, st1) := (segBody prog seg).run u.st
  let u1 : StU := ⟨u.base, st1⟩
  match r with
  | none => ("none", u1)
  | some r => finishCall dr prog u1 r

/-- Whole program: all outermost calls in order; result = error kind of every call + final state. -/
def runSegsWith (dr : Prog → Nat → StU → Bool × StU) (prog : Prog) : List Seg → StU → List String × StU
  | [], u => ([], u)
  | s :: rest, u =>
    let (e, u1) := runSegWith dr prog s u
    let (es, u2) := runSegsWith dr prog rest u1
    (e :: es, u2)

end GojaModel.C10
